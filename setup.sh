#!/bin/bash
# Build the whole Coq development from /repo's current tree (regen + make). Offline.
set -e
cd "$(dirname "$0")"
exec env PYTHONPATH="${BHW_REPO:-/repo}" PYTHONHASHSEED=0 PYTHONDONTWRITEBYTECODE=1 /venv/bin/python harness/run.py --setup
