#!/bin/bash
# usage: seedtest.sh <worktree dir> <property id> <name>
# Confirms a seeded change (patch.diff + demo.py in the worktree), runs our check against it in /repo,
# records everything under /verif/seeded/<name>/, and always restores /repo.
set -u
WT=$1; PID=$2; NAME=$3
OUT=/verif/seeded/$NAME
mkdir -p $OUT
cp $WT/patch.diff $OUT/patch.diff
cp $WT/demo.py $OUT/demo.py
[ -f $WT/meta.txt ] && cp $WT/meta.txt $OUT/meta_agent.txt
cd /repo || exit 2
if [ -n "$(git status --porcelain -- btc_hd_wallet)" ]; then echo "repo not clean"; exit 2; fi
# 1. demo passes on the unchanged tree
( cd /repo && PYTHONPATH=/repo timeout 300 /venv/bin/python $OUT/demo.py >/dev/null 2>&1 ); D0=$?
# 2. apply
git apply $OUT/patch.diff || { echo "patch does not apply"; exit 2; }
( cd /repo && PYTHONPATH=/repo timeout 300 /venv/bin/python $OUT/demo.py >/dev/null 2>&1 ); D1=$?
T=$(cd /repo && timeout 900 /venv/bin/python -m pytest -q -p no:cacheprovider tests 2>&1 | tail -1)
# 3. our check(s)
RES=""
for P in $PID ${4:-}; do
  R=$(cd /verif && VERIF_NO_EVIDENCE=1 timeout 1500 ./check $P 2>&1 | grep -E "^(VIOLATION|OK|KNOWN)" | cut -c1-160 | tr '\n' '|')
  RES="$RES $P: $R"
done
git -C /repo checkout -- .
rm -f /verif/replays/*.json
python3 - "$OUT" "$PID" "$D0" "$D1" "$T" "$RES" <<'EOF'
import json, sys
out, pid, d0, d1, t, res = sys.argv[1:]
meta = {"property": pid, "demo_exit_unchanged": int(d0), "demo_exit_with_change": int(d1), "test_suite_with_change": t,
        "our_checks": res.strip(), "detected": "VIOLATION" in res,
        "ran": "harness/seedtest.sh: demo.py on /repo unchanged and with patch applied; pytest with patch; ./check <property> with patch; git checkout to restore"}
try:
    meta["needs_to_manifest"] = open(out + "/meta_agent.txt").read()
except Exception:
    pass
json.dump(meta, open(out + "/meta.json", "w"), indent=1)
print(json.dumps({k: meta[k] for k in ("demo_exit_unchanged", "demo_exit_with_change", "test_suite_with_change", "our_checks", "detected")}, indent=1))
EOF
