#!/venv/bin/python
"""Translator: Python source of /repo  ->  MiniPy terms (coq/theories/Py/Syntax.v), written to coq/gen/PyAst.v.

Fail-closed: a construct outside the fragment makes the whole function untranslatable; it is then emitted
as a body that raises Unmodelled, so every theorem about it stops checking.  Nothing is guessed.

What the translator decides (trusted, validated on every run by the PySem correspondence cases, which run the
interpreter on the emitted terms against CPython on the real functions):
  * which names are locals (params + every assigned name), module constants (EGlob) or functions (ECall);
  * keyword arguments / defaults are resolved against the callee's signature;
  * exception messages are dropped (`raise ValueError("...".format(..))` -> SRaise ValueError): str.format
    of ints/str/bytes is total and has no effect, but this is an assumption of the translation;
  * docstrings and annotations are dropped;
  * `x.append(e)` is admitted only for a local x that is never aliased (never the source of a plain
    `y = x`, never passed to a call before the append... see check_append) and not the iterable of an enclosing loop.
"""
import ast
import importlib
import inspect
import json
import os
import sys

TARGETS = {
    "bech32": ["bech32_polymod", "bech32_hrp_expand", "bech32_verify_checksum", "bech32_create_checksum",
               "bech32_encode", "bech32_decode", "convertbits", "decode", "encode"],
    "helper": ["encode_base58", "encode_base58_checksum", "decode_base58", "decode_base58_checksum",
               "b58decode_addr", "encode_varint", "little_endian_to_int", "int_to_little_endian",
               "big_endian_to_int", "int_to_big_endian",
               "h160_to_p2pkh_address", "h160_to_p2sh_address", "h160_to_p2wpkh_address", "h256_to_p2wsh_address"],
    # Class.method: static methods, and instance methods that only READ fields of self (the object is a value)
    "wallet_utils": ["list_get", "Bip32Path.is_hardened", "Bip32Path.is_private", "Bip32Path.convert_hardened",
                     "Bip32Path._to_list", "Bip32Path.to_list", "Bip32Path.integrity_check", "Bip32Path.__init__",
                     "Bip32Path.m", "Bip32Path.repr_hardened", "Bip32Path.__repr__", "Bip32Path.parse"],
    "script": ["Script.raw_serialize", "Script.serialize", "Script.__init__", "p2wsh_script", "p2wpkh_script", "p2sh_script", "p2pkh_script"],
    "bip39": ["correct_entropy_bits_value", "checksum_length", "mnemonic_sentence_length", "mnemonic_from_entropy", "mnemonic_from_entropy_bits",
              "bip39_seed_from_mnemonic"],
    "bip85": ["BIP85DeterministicEntropy.byte_count_from_word_count", "BIP85DeterministicEntropy.hex", "BIP85DeterministicEntropy.bip39_mnemonic",
              "BIP85DeterministicEntropy.pwd"],
    "ripemd": ["fi", "rol", "compress", "ripemd160"],
    "keys": ["PrivateKey.__bytes__", "PrivateKey.wif"],
    "__main__": ["value_in_interval", "address_index", "account_index", "extended_key", "mnemonic", "bip39_seed", "entropy_hex"],
}
# external primitives: name -> (params, expected source of the body).  Their semantics is a parameter of the theorems.
EXTERNS = {
    "helper.hash256": (["s"], "return hashlib.sha256(hashlib.sha256(s).digest()).digest()"),
    "helper.sha256": (["s"], "return hashlib.sha256(s).digest()"),
    "helper.hash160": (["s"], "return ripemd160(hashlib.sha256(s).digest())"),
    # an instance method as an external primitive: its semantics (HMAC over the key derived along the path) is a parameter
    "bip85.BIP85DeterministicEntropy.entropy": (["self", "path"],
        "path = Bip32Path.parse(path)\nnode = self.master_node.derive_path(index_list=path.to_list())\nreturn self._hmac_sha512(msg=bytes(node.private_key))"),
}
# an external primitive that is not a function of the package: the module-level object `random = random.SystemRandom()`;
# what is pinned is that binding (extern_ok); getrandbits(k) answers an arbitrary integer, a parameter of the theorems
EXTERNS["bip39.random.getrandbits"] = (["k"], None)
# functions of imported standard modules as external primitives; pinned: the module name is bound by a plain `import` only, and the
# call has exactly the recognised shape (normalisation form / digest name are constants of the call)
EXTERNS["bip39.unicodedata.normalize_nfkd"] = (["s"], ("import", "unicodedata"))
EXTERNS["bip39.hashlib.pbkdf2_hmac_sha512"] = (["password", "salt", "rounds"], ("import", "hashlib"))
EXTERN_KIND = {"bip85.BIP85DeterministicEntropy.entropy": "instance"}
EXN = {"IndexError", "TypeError", "ValueError", "OverflowError", "ZeroDivisionError", "RuntimeError", "KeyError", "ArgumentError", "AssertionError"}
BINOPS = {ast.Add: "Add", ast.Sub: "Sub", ast.Mult: "Mul", ast.FloorDiv: "FloorDiv", ast.Mod: "Mod",
          ast.LShift: "LShift", ast.RShift: "RShift", ast.BitAnd: "BitAnd", ast.BitOr: "BitOr",
          ast.BitXor: "BitXor", ast.Pow: "Pow"}
CMPOPS = {ast.Eq: "Eq", ast.NotEq: "NotEq", ast.Lt: "Lt", ast.LtE: "LtE", ast.Gt: "Gt", ast.GtE: "GtE",
          ast.In: "In_", ast.NotIn: "NotIn", ast.Is: "Is", ast.IsNot: "IsNot"}
# cross-module imports `from btc_hd_wallet.X import f` are resolved through Module.imports
BUILTINS = {"len": "BLen", "ord": "BOrd", "chr": "BChr", "range": "BRange", "divmod": "BDivmod", "hex": "BHex",
            "bin": "BBin", "any": "BAny", "all": "BAll", "bytes": "BBytes", "int": "BInt", "str": "BStr",
            "min": "BMin", "max": "BMax", "bool": "BBool", "list": "BListOf"}
METHODS = {"lower": "MLower", "upper": "MUpper", "find": "MFind", "rfind": "MRfind", "index": "MIndex",
           "join": "MJoin", "startswith": "MStartswith", "endswith": "MEndswith", "hex": "MHex",
           "zfill": "MZfill", "split": "MSplit", "strip": "MStrip", "isdigit": "MIsdigit"}


class Untranslatable(Exception):
    pass


def cstr(s):
    return '"' + s.replace('"', '""') + '"'


def zl(xs):
    return "[" + "; ".join(str(int(x)) if int(x) >= 0 else "(%d)" % int(x) for x in xs) + "]"


def cval(v):
    if v is None:
        return "VNone"
    if isinstance(v, bool):
        return "(VBool %s)" % ("true" if v else "false")
    if isinstance(v, int):
        return "(VInt %s)" % (str(v) if v >= 0 else "(%d)" % v)
    if isinstance(v, str):
        return "(VStr %s)" % zl(ord(c) for c in v)
    if isinstance(v, bytes):
        return "(VBytes %s)" % zl(v)
    if isinstance(v, list):
        return "(VList [%s])" % "; ".join(cval(x) for x in v)
    if isinstance(v, tuple):
        return "(VTuple [%s])" % "; ".join(cval(x) for x in v)
    raise Untranslatable("constant of type %s" % type(v).__name__)


class Module:
    def __init__(self, name, repo):
        self.name = name
        self.path = os.path.join(repo, "btc_hd_wallet", name + ".py")
        if not os.path.exists(self.path) and os.path.isdir(os.path.join(repo, "btc_hd_wallet", name)):
            self.path = os.path.join(repo, "btc_hd_wallet", name, "__init__.py")          # a package
        self.src = open(self.path).read()
        self.tree = ast.parse(self.src)
        self.funcs = {}          # name -> FunctionDef (module level)
        self.consts = {}         # name -> python value
        self.enums = {}          # "Class.MEMBER" -> True
        self.imports = {}        # local alias -> module short name (btc_hd_wallet.X) or ("from", module, name)
        self.method_kind = {}    # "Class.method" -> "static" | "instance"
        self.fields = {}         # Class -> ordered field names (attributes assigned on self in __init__ / __slots__)
        for node in self.tree.body:
            if isinstance(node, ast.ClassDef):
                fields = []
                for f in node.body:
                    if isinstance(f, ast.FunctionDef):
                        decos = [ast.unparse(d) for d in f.decorator_list]
                        q = "%s.%s" % (node.name, f.name)
                        if decos == ["staticmethod"]:
                            self.funcs[q] = f
                            self.method_kind[q] = "static"
                        elif decos == [] and f.args.args and f.args.args[0].arg == "self":
                            self.funcs[q] = f
                            self.method_kind[q] = "init" if f.name == "__init__" else "instance"
                        elif decos == ["classmethod"] and f.args.args and f.args.args[0].arg == "cls":
                            self.funcs[q] = f
                            self.method_kind[q] = "class"
                        elif decos == ["property"] and [a.arg for a in f.args.args] == ["self"]:
                            self.funcs[q] = f
                            self.method_kind[q] = "property"
                        if f.name == "__init__":
                            for n in ast.walk(f):
                                if isinstance(n, ast.Attribute) and isinstance(n.ctx, ast.Store) and isinstance(n.value, ast.Name) \
                                        and n.value.id == "self" and n.attr not in fields:
                                    fields.append(n.attr)
                self.fields[node.name] = fields
            if isinstance(node, ast.FunctionDef):
                self.funcs[node.name] = node
            elif isinstance(node, ast.Assign) and len(node.targets) == 1 and isinstance(node.targets[0], ast.Name):
                try:
                    self.consts[node.targets[0].id] = eval(compile(ast.Expression(node.value), "<c>", "eval"), {}, dict(self.consts))
                except Exception:
                    pass
            elif isinstance(node, ast.ClassDef) and any(getattr(b, "id", None) == "Enum" for b in node.bases):
                for st in node.body:
                    if isinstance(st, ast.Assign) and isinstance(st.targets[0], ast.Name):
                        self.enums["%s.%s" % (node.name, st.targets[0].id)] = True
            elif isinstance(node, ast.Import):
                for a in node.names:
                    if a.name.startswith("btc_hd_wallet."):
                        self.imports[a.asname or a.name] = ("module", a.name.split(".", 1)[1])
            elif isinstance(node, ast.ImportFrom) and node.module and node.module.startswith("btc_hd_wallet"):
                sub = node.module.split(".", 1)[1] if "." in node.module else None
                for a in node.names:
                    if sub:
                        self.imports[a.asname or a.name] = ("from", sub, a.name)


class FunTrans:
    def __init__(self, world, mod, fn, qual=None):
        self.world, self.mod, self.fn = world, mod, fn
        self.cls = qual.split(".")[0] if qual and "." in qual else None
        self.kind = mod.method_kind.get(qual) if qual else None
        a = fn.args
        if a.vararg or a.kwarg or a.kwonlyargs or a.posonlyargs:
            raise Untranslatable("star/kw-only parameters")
        deco = {"static": ["staticmethod"], "class": ["classmethod"], "property": ["property"]}.get(self.kind, [])
        if [ast.unparse(d) for d in fn.decorator_list] != deco:
            raise Untranslatable("decorated function")
        self.params = [x.arg for x in a.args]
        if self.kind in ("class", "init"):
            self.params = self.params[1:]              # cls is not a value; self in __init__ is the object under construction
        self.fields = mod.fields.get(self.cls, []) if self.cls else []
        self.locals = []
        self.calls = []
        self.appended = set()
        self.collect_locals(fn.body)
        for node in ast.walk(fn):
            if self.kind == "init" and isinstance(node, ast.Return):
                raise Untranslatable("return inside __init__")
            if isinstance(node, (ast.Global, ast.Nonlocal, ast.Yield, ast.YieldFrom, ast.Lambda, ast.With,
                                 ast.FunctionDef, ast.ClassDef, ast.Delete, ast.Await, ast.NamedExpr,
                                 ast.Continue)) and node is not fn:
                raise Untranslatable(type(node).__name__)

    # ---- locals
    def add_local(self, n):
        if n not in self.params and n not in self.locals:
            self.locals.append(n)

    def collect_locals(self, body):
        for st in body:
            if isinstance(st, ast.Assign):
                for t in st.targets:
                    self.targets(t)
            elif isinstance(st, ast.AugAssign):
                self.targets(st.target)
            elif isinstance(st, ast.AnnAssign):
                self.targets(st.target)
            elif isinstance(st, ast.For):
                self.targets(st.target)
                self.collect_locals(st.body)
                self.collect_locals(st.orelse)
            elif isinstance(st, (ast.While, ast.If)):
                self.collect_locals(st.body)
                self.collect_locals(st.orelse)
            elif isinstance(st, ast.Try):
                self.collect_locals(st.body)
                for h in st.handlers:
                    self.collect_locals(h.body)

    def self_field(self, t):
        """`self.f` inside __init__, f a field: the local that holds it"""
        if self.kind == "init" and isinstance(t, ast.Attribute) and isinstance(t.value, ast.Name) and t.value.id == "self" \
                and t.attr in self.fields:
            return "self." + t.attr
        return None

    def self_object(self):
        return "(EObj %s %s)" % (cstr(self.cls), self.exprs_raw(["(EVar %s)" % cstr("self." + f) for f in self.fields]))

    def exprs_raw(self, items):
        out = "ENil"
        for s in reversed(items):
            out = "(ECons %s %s)" % (s, out)
        return out

    def targets(self, t):
        if self.self_field(t):
            self.add_local(self.self_field(t))
        elif isinstance(t, ast.Name):
            self.add_local(t.id)
        elif isinstance(t, (ast.Tuple, ast.List)):
            for e in t.elts:
                if not isinstance(e, ast.Name):
                    raise Untranslatable("nested assignment target")
                self.add_local(e.id)
        else:
            raise Untranslatable("assignment to %s" % type(t).__name__)

    # ---- expressions
    def exprs(self, es, scope):
        out = "ENil"
        for e in reversed(es):
            out = "(ECons %s %s)" % (self.expr(e, scope), out)
        return out

    def opt(self, e, scope):
        return "None" if e is None else "(Some %s)" % self.expr(e, scope)

    def is_local(self, name, scope):
        return name in scope or name in self.params or name in self.locals

    def resolve_callee(self, f):
        """-> qualified function name, or None"""
        if isinstance(f, ast.Name):
            if f.id in self.mod.funcs:
                return "%s.%s" % (self.mod.name, f.id)
            # Class(...) / cls(...) inside a classmethod: the constructor (no subclass, no __new__: structure premise)
            c = self.cls if (f.id == "cls" and self.kind == "class") else f.id
            if c in self.mod.fields and ("%s.__init__" % c) in self.mod.funcs and f.id not in self.params and f.id not in self.locals:
                return "%s.%s.__init__" % (self.mod.name, c)
            imp = self.mod.imports.get(f.id)
            if imp and imp[0] == "from":
                return "%s.%s" % (imp[1], imp[2])
        if isinstance(f, ast.Attribute) and isinstance(f.value, ast.Name):
            imp = self.mod.imports.get(f.value.id)
            if imp and imp[0] == "module":
                return "%s.%s" % (imp[1], f.attr)
            # self.m(...) / cls.m(...) / Class.m(...) inside the class: the method of THIS class (no subclass overrides it:
            # that is part of the structure premise)
            if self.cls and f.value.id in ("self", "cls", self.cls) and ("%s.%s" % (self.cls, f.attr)) in self.mod.funcs:
                return "%s.%s.%s" % (self.mod.name, self.cls, f.attr)
        return None

    def call_args(self, qual, node, scope):
        params, defaults = self.world.signature(qual)
        args = list(node.args)
        if self.world.kind(qual) in ("instance", "property"):
            if not (isinstance(node.func, ast.Attribute) and isinstance(node.func.value, ast.Name) and node.func.value.id == "self"):
                raise Untranslatable("instance method %s called on something other than self" % qual)
            args = [node.func.value] + args
        if any(isinstance(a, ast.Starred) for a in args):
            raise Untranslatable("star args")
        slots = [None] * len(params)
        if len(args) > len(params):
            raise Untranslatable("too many positional arguments for %s" % qual)
        for i, a in enumerate(args):
            slots[i] = self.expr(a, scope)
        # Python evaluates keyword values after positionals, left to right; we require keyword order = parameter order
        last = len(args) - 1
        for kw in node.keywords:
            if kw.arg is None or kw.arg not in params:
                raise Untranslatable("keyword %r for %s" % (kw.arg, qual))
            i = params.index(kw.arg)
            if i <= last or slots[i] is not None:
                raise Untranslatable("keyword arguments out of parameter order")
            last = i
            slots[i] = self.expr(kw.value, scope)
        for i, s in enumerate(slots):
            if s is None:
                if params[i] in defaults:
                    slots[i] = "(EConst %s)" % cval(defaults[params[i]])
                else:
                    raise Untranslatable("missing argument %s of %s" % (params[i], qual))
        out = "ENil"
        for s in reversed(slots):
            out = "(ECons %s %s)" % (s, out)
        return out

    def expr(self, e, scope):
        X = lambda x: self.expr(x, scope)
        if isinstance(e, ast.Constant):
            if isinstance(e.value, (int, str, bytes, bool)) or e.value is None:
                return "(EConst %s)" % cval(e.value)
            raise Untranslatable("constant %r" % (e.value,))
        if isinstance(e, ast.Name) and e.id == "self" and self.kind == "init" and "self" not in scope:
            return self.self_object()
        if isinstance(e, ast.Name):
            if self.is_local(e.id, scope):
                return "(EVar %s)" % cstr(e.id)
            if e.id in self.mod.consts:
                cval(self.mod.consts[e.id])
                self.world.use_global(self.mod.name, e.id)
                return "(EGlob %s)" % cstr("%s.%s" % (self.mod.name, e.id))
            imp = self.mod.imports.get(e.id)
            if imp and imp[0] == "from" and imp[2] in self.world.mod(imp[1]).consts:
                cval(self.world.mod(imp[1]).consts[imp[2]])
                self.world.use_global(imp[1], imp[2])
                return "(EGlob %s)" % cstr("%s.%s" % (imp[1], imp[2]))
            raise Untranslatable("free name %s" % e.id)
        if isinstance(e, ast.Attribute):
            if self.self_field(e) and isinstance(e.ctx, ast.Load) and "self" not in scope:
                return "(EVar %s)" % cstr(self.self_field(e))
            if isinstance(e.value, ast.Name) and e.value.id == "self" and self.kind in ("instance", "property") and isinstance(e.ctx, ast.Load) \
                    and "self" not in scope:
                fields = self.mod.fields.get(self.cls, [])
                if e.attr in fields:
                    return "(EField (EVar \"self\") %d %s)" % (fields.index(e.attr), cstr(e.attr))
                pq = "%s.%s.%s" % (self.mod.name, self.cls, e.attr)
                if self.world.kind(pq) == "property" and self.world.known(pq):
                    self.calls.append(pq)
                    return "(ECall %s (ECons (EVar \"self\") ENil))" % cstr(pq)
                raise Untranslatable("attribute self.%s is not a field set by __init__" % e.attr)
            if isinstance(e.value, ast.Name) and not self.is_local(e.value.id, scope):
                q = "%s.%s" % (e.value.id, e.attr)
                if q in self.mod.enums:
                    return "(EConst (VEnum %s))" % cstr(q)
            raise Untranslatable("attribute %s" % ast.unparse(e))
        if isinstance(e, ast.BinOp):
            if type(e.op) not in BINOPS:
                raise Untranslatable("operator %s" % type(e.op).__name__)
            return "(EBin %s %s %s)" % (BINOPS[type(e.op)], X(e.left), X(e.right))
        if isinstance(e, ast.UnaryOp):
            op = {ast.Not: "Not", ast.USub: "USub", ast.Invert: "Invert"}.get(type(e.op))
            if not op:
                raise Untranslatable("unary %s" % type(e.op).__name__)
            return "(EUn %s %s)" % (op, X(e.operand))
        if isinstance(e, ast.BoolOp):
            k = "EAnd" if isinstance(e.op, ast.And) else "EOr"
            out = X(e.values[-1])
            for v in reversed(e.values[:-1]):
                out = "(%s %s %s)" % (k, X(v), out)
            return out
        if isinstance(e, ast.Compare) and len(e.ops) == 1 and isinstance(e.ops[0], ast.Eq) and isinstance(e.left, ast.Call) \
                and isinstance(e.left.func, ast.Name) and e.left.func.id == "type" and len(e.left.args) == 1 and not e.left.keywords \
                and isinstance(e.comparators[0], ast.Name) and e.comparators[0].id == "int" and not self.is_local("int", scope) \
                and not self.is_local("type", scope):
            return "(EBuiltin BIsInt %s)" % self.exprs(e.left.args, scope)
        if isinstance(e, ast.Compare):
            operands = [e.left] + list(e.comparators)
            for mid in operands[1:-1]:
                if not isinstance(mid, (ast.Name, ast.Constant)):
                    raise Untranslatable("chained comparison with a non-trivial middle operand")
            parts = []
            for i, op in enumerate(e.ops):
                if type(op) not in CMPOPS:
                    raise Untranslatable("comparison %s" % type(op).__name__)
                if isinstance(op, (ast.Is, ast.IsNot)) and not (isinstance(operands[i + 1], ast.Constant) and operands[i + 1].value is None):
                    raise Untranslatable("`is` against something other than None")
                parts.append("(ECmp %s %s %s)" % (CMPOPS[type(op)], X(operands[i]), X(operands[i + 1])))
            out = parts[-1]
            for p in reversed(parts[:-1]):
                out = "(EAnd %s %s)" % (p, out)
            return out
        if isinstance(e, ast.IfExp):
            return "(EIf %s %s %s)" % (X(e.test), X(e.body), X(e.orelse))
        if isinstance(e, ast.List):
            return "(EList %s)" % self.exprs(e.elts, scope)
        if isinstance(e, ast.Tuple):
            return "(ETuple %s)" % self.exprs(e.elts, scope)
        if isinstance(e, ast.Subscript):
            if isinstance(e.slice, ast.Slice):
                if e.slice.step is not None:
                    raise Untranslatable("slice step")
                return "(ESlice %s %s %s)" % (X(e.value), self.opt(e.slice.lower, scope), self.opt(e.slice.upper, scope))
            return "(EIndex %s %s)" % (X(e.value), X(e.slice))
        if isinstance(e, (ast.ListComp, ast.GeneratorExp)):
            if isinstance(e, ast.GeneratorExp):
                raise Untranslatable("generator expression outside any()/all()/join()")
            return self.comp(e, scope)
        if isinstance(e, ast.Call):
            return self.call(e, scope)
        raise Untranslatable("expression %s" % type(e).__name__)

    def comp(self, e, scope):
        if len(e.generators) != 1:
            raise Untranslatable("nested comprehension")
        g = e.generators[0]
        if g.is_async or not isinstance(g.target, ast.Name) or len(g.ifs) > 1:
            raise Untranslatable("comprehension form")
        it = self.expr(g.iter, scope)
        sc = scope | {g.target.id}
        cond = self.opt(g.ifs[0] if g.ifs else None, sc)
        return "(EComp %s %s %s %s)" % (self.expr(e.elt, sc), cstr(g.target.id), it, cond)

    def call(self, e, scope):
        f = e.func
        # any/all over a generator: short-circuit quantifier
        if isinstance(f, ast.Name) and f.id in ("any", "all") and not self.is_local(f.id, scope) \
                and len(e.args) == 1 and not e.keywords and isinstance(e.args[0], ast.GeneratorExp):
            g = e.args[0]
            if len(g.generators) != 1 or g.generators[0].ifs or not isinstance(g.generators[0].target, ast.Name):
                raise Untranslatable("generator form")
            gen = g.generators[0]
            it = self.expr(gen.iter, scope)
            sc = scope | {gen.target.id}
            return "(EQuant %s %s %s %s)" % ("true" if f.id == "all" else "false", self.expr(g.elt, sc), cstr(gen.target.id), it)
        # int.from_bytes(x, 'big') / bytes.fromhex(h)
        if isinstance(f, ast.Attribute) and isinstance(f.value, ast.Name) and not self.is_local(f.value.id, scope):
            if f.value.id == "int" and f.attr == "from_bytes" and len(e.args) == 2 and not e.keywords \
                    and isinstance(e.args[1], ast.Constant) and e.args[1].value in ("big", "little"):
                b = "BFromBytesBig" if e.args[1].value == "big" else "BFromBytesLittle"
                return "(EBuiltin %s %s)" % (b, self.exprs(e.args[:1], scope))
            if f.value.id == "bytes" and f.attr == "fromhex" and len(e.args) == 1 and not e.keywords:
                return "(EBuiltin BFromHex %s)" % self.exprs(e.args, scope)
        # bytes(self) inside a class that defines __bytes__: that method (no subclass overrides it: structure premise)
        if isinstance(f, ast.Name) and f.id == "bytes" and not self.is_local("bytes", scope) and len(e.args) == 1 and not e.keywords \
                and isinstance(e.args[0], ast.Name) and e.args[0].id == "self" and self.kind in ("instance", "property") and "self" not in scope:
            bq = "%s.%s.__bytes__" % (self.mod.name, self.cls)
            if self.world.kind(bq) == "instance" and self.world.known(bq):
                self.calls.append(bq)
                return "(ECall %s (ECons (EVar \"self\") ENil))" % cstr(bq)
            raise Untranslatable("bytes(self) without a translated __bytes__")
        if isinstance(f, ast.Name) and f.id == "isinstance" and not self.is_local("isinstance", scope) and len(e.args) == 2 and not e.keywords \
                and isinstance(e.args[1], ast.Name) and e.args[1].id == "int" and not self.is_local("int", scope):
            return "(EBuiltin BIsInstanceInt %s)" % self.exprs(e.args[:1], scope)
        # int(a / b): true division followed by truncation
        if isinstance(f, ast.Name) and f.id == "int" and not self.is_local("int", scope) and len(e.args) == 1 and not e.keywords \
                and isinstance(e.args[0], ast.BinOp) and isinstance(e.args[0].op, ast.Div):
            return "(EBuiltin BIntDiv %s)" % self.exprs([e.args[0].left, e.args[0].right], scope)
        # re.findall("." * K, s): fixed-width chunks
        if isinstance(f, ast.Attribute) and isinstance(f.value, ast.Name) and f.value.id == "re" and f.attr == "findall" \
                and not self.is_local("re", scope) and len(e.args) == 2 and not e.keywords:
            pat = e.args[0]
            if isinstance(pat, ast.BinOp) and isinstance(pat.op, ast.Mult) and isinstance(pat.left, ast.Constant) and pat.left.value == "." \
                    and isinstance(pat.right, ast.Constant) and isinstance(pat.right.value, int):
                return "(EBuiltin BChunks (ECons (EConst (VInt %d)) %s))" % (pat.right.value, self.exprs([e.args[1]], scope))
            raise Untranslatable("re.findall with a pattern other than '.' * K")
        # base64.b64encode(b): a builtin of the fragment (RFC 4648, Lib/PyInt.b64encode), admitted only when the module binds the name
        # `base64` by a plain import and nothing else
        if isinstance(f, ast.Attribute) and isinstance(f.value, ast.Name) and f.value.id == "base64" and f.attr == "b64encode" \
                and not self.is_local("base64", scope) and len(e.args) == 1 and not e.keywords and not isinstance(e.args[0], ast.Starred):
            if not self.world.plain_import(self.mod.name, "base64"):
                raise Untranslatable("base64 is not bound by a plain import only")
            return "(EBuiltin BB64Encode %s)" % self.exprs(e.args, scope)
        # unicodedata.normalize("NFKD", s) / hashlib.pbkdf2_hmac("sha512", pw, salt, rounds)
        if isinstance(f, ast.Attribute) and isinstance(f.value, ast.Name) and not self.is_local(f.value.id, scope) and not e.keywords \
                and not any(isinstance(a, ast.Starred) for a in e.args):
            if f.value.id == "unicodedata" and f.attr == "normalize" and len(e.args) == 2 and isinstance(e.args[0], ast.Constant) \
                    and e.args[0].value == "NFKD" and ("%s.unicodedata.normalize_nfkd" % self.mod.name) in EXTERNS:
                xq = "%s.unicodedata.normalize_nfkd" % self.mod.name
                self.calls.append(xq)
                return "(ECall %s %s)" % (cstr(xq), self.exprs(e.args[1:], scope))
            if f.value.id == "hashlib" and f.attr == "pbkdf2_hmac" and len(e.args) == 4 and isinstance(e.args[0], ast.Constant) \
                    and e.args[0].value == "sha512" and ("%s.hashlib.pbkdf2_hmac_sha512" % self.mod.name) in EXTERNS:
                xq = "%s.hashlib.pbkdf2_hmac_sha512" % self.mod.name
                self.calls.append(xq)
                return "(ECall %s %s)" % (cstr(xq), self.exprs(e.args[1:], scope))
        # random.getrandbits(k) on the module-level SystemRandom object
        if isinstance(f, ast.Attribute) and isinstance(f.value, ast.Name) and f.value.id == "random" and f.attr == "getrandbits" \
                and not self.is_local("random", scope) and len(e.args) == 1 and not e.keywords and not isinstance(e.args[0], ast.Starred):
            rq = "%s.random.getrandbits" % self.mod.name
            if rq not in EXTERNS:
                raise Untranslatable("random.getrandbits in a module where it is not an external primitive")
            self.calls.append(rq)
            return "(ECall %s %s)" % (cstr(rq), self.exprs(e.args, scope))
        qual = self.resolve_callee(f)
        if qual is not None and e.args and isinstance(e.args[0], ast.Starred) and not e.keywords \
                and not any(isinstance(a, ast.Starred) for a in e.args[1:]) and self.world.known(qual) and qual not in EXTERNS:
            self.calls.append(qual)
            return "(ECallStar %s %s %s)" % (cstr(qual), self.expr(e.args[0].value, scope), self.exprs(e.args[1:], scope))
        if qual is not None and not (isinstance(f, ast.Name) and self.is_local(f.id, scope)):
            if not self.world.known(qual):
                raise Untranslatable("call of %s (not translated, not an external primitive)" % qual)
            self.calls.append(qual)
            return "(ECall %s %s)" % (cstr(qual), self.call_args(qual, e, scope))
        if isinstance(f, ast.Name) and f.id in BUILTINS and not self.is_local(f.id, scope):
            if e.keywords:
                raise Untranslatable("keyword arguments to builtin %s" % f.id)
            args = list(e.args)
            if f.id in ("any", "all", "list", "bytes") and len(args) == 1 and isinstance(args[0], ast.GeneratorExp):
                raise Untranslatable("generator passed to %s" % f.id)
            return "(EBuiltin %s %s)" % (BUILTINS[f.id], self.exprs(args, scope))
        if isinstance(f, ast.Attribute):
            if e.keywords:
                raise Untranslatable("keyword arguments to method %s" % f.attr)
            if f.attr == "to_bytes" and len(e.args) == 2 and isinstance(e.args[1], ast.Constant) and e.args[1].value in ("big", "little"):
                m = "MToBytesBig" if e.args[1].value == "big" else "MToBytesLittle"
                return "(EMeth %s %s %s)" % (m, self.expr(f.value, scope), self.exprs(e.args[:1], scope))
            if f.attr == "join" and len(e.args) == 1 and isinstance(e.args[0], ast.GeneratorExp):
                g = e.args[0]
                lc = ast.ListComp(elt=g.elt, generators=g.generators)      # join materialises its argument
                return "(EMeth MJoin %s (ECons %s ENil))" % (self.expr(f.value, scope), self.comp(lc, scope))
            if f.attr == "format" and isinstance(f.value, ast.Constant) and isinstance(f.value.value, str):
                # only the plain "{}" field (str() of int / str arguments)
                if "{" in f.value.value.replace("{}", "") or "}" in f.value.value.replace("{}", "") or any(isinstance(a, ast.Starred) for a in e.args):
                    raise Untranslatable("format template with fields other than {}")
                return "(EMeth MFormat %s %s)" % (self.expr(f.value, scope), self.exprs(e.args, scope))
            if f.attr == "decode" and not e.args:
                return "(EMeth MDecode %s ENil)" % self.expr(f.value, scope)
            if f.attr == "encode" and len(e.args) == 1 and isinstance(e.args[0], ast.Constant) and e.args[0].value == "utf-8":
                return "(EMeth MEncodeUtf8 %s ENil)" % self.expr(f.value, scope)
            if f.attr == "encode" and len(e.args) == 1 and isinstance(e.args[0], ast.Constant) and e.args[0].value == "ascii":
                return "(EMeth MEncodeAscii %s ENil)" % self.expr(f.value, scope)
            if f.attr in METHODS:
                return "(EMeth %s %s %s)" % (METHODS[f.attr], self.expr(f.value, scope), self.exprs(e.args, scope))
        raise Untranslatable("call %s" % ast.unparse(e.func))

    # ---- statements
    def block(self, body, loops, tail="BNil"):
        out = tail
        for st in reversed(body):
            s = self.stmt(st, loops)
            if s is not None:
                out = "(BCons %s %s)" % (s, out)
        return out

    def stmt(self, st, loops):
        E = lambda x: self.expr(x, frozenset())
        if isinstance(st, ast.Expr):
            if isinstance(st.value, ast.Constant) and isinstance(st.value.value, str):
                return None                                                     # docstring
            v = st.value
            if isinstance(v, ast.Call) and isinstance(v.func, ast.Attribute) and v.func.attr == "append" \
                    and isinstance(v.func.value, ast.Name) and len(v.args) == 1 and not v.keywords:
                x = v.func.value.id
                if x not in self.locals or x in loops:
                    raise Untranslatable("append to %s (a parameter, a global or the iterable of an enclosing loop)" % x)
                self.appended.add(x)
                return "(SAppend %s %s)" % (cstr(x), E(v.args[0]))
            return "(SExpr %s)" % E(v)
        if isinstance(st, ast.Assign):
            if len(st.targets) != 1:
                raise Untranslatable("chained assignment")
            t = st.targets[0]
            if self.self_field(t):
                return "(SAssign %s %s)" % (cstr(self.self_field(t)), E(st.value))
            if isinstance(t, ast.Name):
                return "(SAssign %s %s)" % (cstr(t.id), E(st.value))
            if isinstance(t, (ast.Tuple, ast.List)):
                return "(SUnpack [%s] %s)" % ("; ".join(cstr(x.id) for x in t.elts), E(st.value))
            raise Untranslatable("assignment target")
        if isinstance(st, ast.AnnAssign):
            if st.value is None or not isinstance(st.target, ast.Name):
                raise Untranslatable("annotated assignment")
            return "(SAssign %s %s)" % (cstr(st.target.id), E(st.value))
        if isinstance(st, ast.AugAssign):
            if not isinstance(st.target, ast.Name) or type(st.op) not in BINOPS:
                raise Untranslatable("augmented assignment")
            if st.target.id in self.params:
                # `p += x` on a parameter mutates the CALLER's object when it is a list / bytearray; values are immutable in MiniPy
                raise Untranslatable("augmented assignment to parameter %s (in-place mutation of the caller's object for mutable arguments)" % st.target.id)
            return "(SAug %s %s %s)" % (cstr(st.target.id), BINOPS[type(st.op)], E(st.value))
        if isinstance(st, ast.If):
            return "(SIf %s %s %s)" % (E(st.test), self.block(st.body, loops), self.block(st.orelse, loops))
        if isinstance(st, ast.For):
            if st.orelse or not isinstance(st.target, ast.Name):
                raise Untranslatable("for/else or tuple target")
            inner = loops | ({st.iter.id} if isinstance(st.iter, ast.Name) else set())
            return "(SFor %s %s %s)" % (cstr(st.target.id), E(st.iter), self.block(st.body, inner))
        if isinstance(st, ast.While):
            if st.orelse:
                raise Untranslatable("while/else")
            return "(SWhile %s %s)" % (E(st.test), self.block(st.body, loops))
        if isinstance(st, ast.Return):
            return "(SReturn %s)" % (E(st.value) if st.value is not None else "(EConst VNone)")
        if isinstance(st, ast.Raise):
            if st.cause is not None or st.exc is None:
                raise Untranslatable("raise form")
            x = st.exc
            name = x.func.id if isinstance(x, ast.Call) and isinstance(x.func, ast.Name) else (x.id if isinstance(x, ast.Name) else None)
            if isinstance(x, ast.Call) and isinstance(x.func, ast.Attribute) and ast.unparse(x.func) == "argparse.ArgumentError":
                name = "ArgumentError"
            if name not in EXN:
                raise Untranslatable("raise of %s" % ast.unparse(x))
            if isinstance(x, ast.Call):
                for a in list(x.args) + [k.value for k in x.keywords]:          # message: only total formatting is dropped
                    self.check_message(a)
            return "(SRaise %s)" % name
        if isinstance(st, ast.Assert):
            if isinstance(st.test, ast.Constant) and st.test.value is False and st.msg is None:
                return "(SRaise AssertionError)"          # `assert False`: unreachable-branch marker (python -O is not modelled)
            raise Untranslatable("assert with a condition")
        if isinstance(st, ast.Try):
            # try: <one return/expression statement> except <Class>: <block>   (nothing bound inside the body can survive the exception)
            if st.orelse or st.finalbody or len(st.handlers) != 1 or len(st.body) != 1 or not isinstance(st.body[0], (ast.Return, ast.Expr)):
                raise Untranslatable("try form")
            h = st.handlers[0]
            if h.name is not None or not isinstance(h.type, ast.Name) or h.type.id not in EXN:
                raise Untranslatable("except clause")
            return "(STry %s %s %s)" % (self.block(st.body, loops), h.type.id, self.block(h.body, loops))
        if isinstance(st, ast.Break):
            return "SBreak"
        if isinstance(st, ast.Pass):
            return "SPass"
        raise Untranslatable("statement %s" % type(st).__name__)

    def check_message(self, a):
        """the message of an exception is dropped; admitted only when building it cannot fail or have an effect:
        constants, names, "..".format(args) / ", ".join(str(i) for i in NAME) over such arguments, f-strings"""
        def total(x):
            if isinstance(x, (ast.Constant, ast.Name, ast.JoinedStr)):
                return True
            if isinstance(x, ast.Subscript) and isinstance(x.slice, ast.Slice):          # slicing never raises on str/bytes/list
                return total(x.value) and all(b is None or isinstance(b, ast.Constant) or (isinstance(b, ast.UnaryOp) and isinstance(b.operand, ast.Constant))
                                              for b in (x.slice.lower, x.slice.upper)) and x.slice.step is None
            if isinstance(x, ast.Call) and self.resolve_callee(x.func) in EXTERNS and not x.keywords:   # hashing primitives are total on bytes
                return all(total(y) for y in x.args)
            if isinstance(x, ast.Call) and isinstance(x.func, ast.Attribute) and x.func.attr == "format" and isinstance(x.func.value, ast.Constant):
                return all(total(y) for y in x.args) and not x.keywords
            if isinstance(x, ast.Call) and isinstance(x.func, ast.Attribute) and x.func.attr == "join" and isinstance(x.func.value, ast.Constant) \
                    and len(x.args) == 1 and isinstance(x.args[0], ast.GeneratorExp):
                g = x.args[0]
                return len(g.generators) == 1 and isinstance(g.generators[0].iter, ast.Name) and not g.generators[0].ifs \
                    and isinstance(g.elt, ast.Call) and isinstance(g.elt.func, ast.Name) and g.elt.func.id == "str"
            return False
        if not total(a):
            raise Untranslatable("exception message %s" % ast.unparse(a))

    def check_alias(self):
        """an appended list must never be aliased: it may only be read (indexed, sliced, len, returned, concatenated)"""
        for node in ast.walk(self.fn):
            if isinstance(node, ast.Assign) and isinstance(node.value, ast.Name) and node.value.id in self.appended:
                raise Untranslatable("alias of appended list %s" % node.value.id)
            if isinstance(node, ast.Call):
                for a in list(node.args) + [k.value for k in node.keywords]:
                    if isinstance(a, ast.Name) and a.id in self.appended and self.resolve_callee(node.func) is not None:
                        raise Untranslatable("appended list %s passed to a function" % a.id)
            if isinstance(node, (ast.List, ast.Tuple)) and isinstance(getattr(node, "ctx", None), ast.Load):
                for a in node.elts:
                    if isinstance(a, ast.Name) and a.id in self.appended:
                        raise Untranslatable("appended list %s stored in a container" % a.id)

    def run(self):
        # falling off the end of __init__ yields the constructed object
        tail = "(BCons (SReturn %s) BNil)" % self.self_object() if self.kind == "init" else "BNil"
        body = self.block(self.fn.body, frozenset(), tail)
        self.check_alias()
        return "{| f_params := [%s]; f_locals := [%s]; f_body := %s |}" % (
            "; ".join(cstr(p) for p in self.params), "; ".join(cstr(p) for p in self.locals), body)


class World:
    def __init__(self, repo):
        self.repo = repo
        self.mods = {}
        self.globals_used = []
        self.translated = {}       # qual -> (coq text or None, reason, calls)

    def mod(self, name):
        if name not in self.mods:
            self.mods[name] = Module(name, self.repo)
        return self.mods[name]

    def use_global(self, m, n):
        if (m, n) not in self.globals_used:
            self.globals_used.append((m, n))

    def kind(self, qual):
        if qual in EXTERNS:
            return EXTERN_KIND.get(qual)
        m, f = qual.split(".", 1)
        return self.mod(m).method_kind.get(f)

    def known(self, qual):
        if qual in EXTERNS:
            return True
        m, f = qual.split(".", 1)
        return m in TARGETS and f in TARGETS[m] and f in self.mod(m).funcs

    def signature(self, qual):
        if qual in EXTERNS:
            return EXTERNS[qual][0], {}
        m, f = qual.split(".", 1)
        fn = self.mod(m).funcs[f]
        params = [a.arg for a in fn.args.args]
        if self.kind(qual) in ("class", "init"):
            params = params[1:]
        defaults = {}
        for a, d in zip(reversed(fn.args.args), reversed(fn.args.defaults)):
            if not isinstance(d, ast.Constant):
                raise Untranslatable("non-constant default in %s" % qual)
            defaults[a.arg] = d.value
        return params, defaults

    def extern_ok(self, qual):
        m, f = qual.split(".", 1)
        if isinstance(EXTERNS[qual][1], tuple):
            return self.plain_import(m, EXTERNS[qual][1][1])
        return self.extern_ok2(qual)

    def plain_import(self, m, name):
        if True:
            tree = self.mod(m).tree
            binds = [n for n in ast.walk(tree) if (isinstance(n, (ast.Assign, ast.AugAssign, ast.AnnAssign, ast.For, ast.With, ast.FunctionDef, ast.ClassDef)) and
                                                   (getattr(n, "name", None) == name or
                                                    any(isinstance(t, ast.Name) and t.id == name and isinstance(getattr(t, "ctx", None), ast.Store) for t in ast.walk(n))))
                     or (isinstance(n, ast.Global) and name in n.names)
                     or (isinstance(n, ast.arg) and n.arg == name)
                     or (isinstance(n, (ast.Import, ast.ImportFrom)) and any((a.asname or a.name) == name for a in n.names))]
            return [ast.unparse(b) for b in binds] == ["import " + name] and all(b in tree.body for b in binds)

    def extern_ok2(self, qual):
        m, f = qual.split(".", 1)
        if EXTERNS[qual][1] is None:
            # `import random` and exactly one module-level binding of the name: random = random.SystemRandom()
            tree = self.mod(m).tree
            binds = [n for n in ast.walk(tree) if (isinstance(n, (ast.Assign, ast.AugAssign, ast.AnnAssign)) and
                                                   any(isinstance(t, ast.Name) and t.id == "random" for t in ast.walk(n) if isinstance(getattr(t, "ctx", None), ast.Store)))
                     or (isinstance(n, ast.Global) and "random" in n.names)
                     or (isinstance(n, (ast.Import, ast.ImportFrom)) and any((a.asname or a.name) == "random" for a in n.names))]
            want = ["import random", "random = random.SystemRandom()"]
            return [ast.unparse(b) for b in binds] == want and all(b in tree.body for b in binds)
        fn = self.mod(m).funcs.get(f)
        if fn is None:
            return False
        body = [s for s in fn.body if not (isinstance(s, ast.Expr) and isinstance(s.value, ast.Constant))]
        want = ast.parse(EXTERNS[qual][1]).body
        return [a.arg for a in fn.args.args] == EXTERNS[qual][0] and not fn.decorator_list and \
            ast.dump(ast.Module(body=body, type_ignores=[])) == ast.dump(ast.Module(body=want, type_ignores=[]))


def ident(qual):
    return qual.replace(".", "__")


def generate(repo):
    W = World(repo)
    order = []
    info = {}
    for m, fs in TARGETS.items():
        for f in fs:
            qual = "%s.%s" % (m, f)
            try:
                fn = W.mod(m).funcs.get(f)
                if fn is None:
                    raise Untranslatable("function not found")
                T = FunTrans(W, W.mod(m), fn, f)
                text = T.run()
                info[qual] = (text, None, [c for c in T.calls if c not in EXTERNS], ast.dump(fn))
            except Untranslatable as ex:
                info[qual] = (None, str(ex), [], None)
            except (OSError, SyntaxError) as ex:
                info[qual] = (None, "source unavailable: %r" % (ex,), [], None)
    # topological order (callees first); a cycle makes its members untranslatable
    done = set()

    def visit(q, stack):
        if q in done:
            return
        if q in stack:
            for s in stack:
                info[s] = (None, "recursive call cycle", [], None)
            return
        for c in info[q][2]:
            visit(c, stack + [q])
        if q not in done:
            done.add(q)
            order.append(q)
    for q in list(info):
        visit(q, [])
    # a function calling an untranslatable one is untranslatable too
    changed = True
    while changed:
        changed = False
        for q in order:
            t, r, calls, d = info[q]
            if t is not None and any(info[c][0] is None for c in calls):
                info[q] = (None, "calls untranslatable %s" % [c for c in calls if info[c][0] is None], calls, d)
                changed = True
    out = ["(* GENERATED by harness/pytrans.py from %s -- do not edit *)" % repo,
           "From BHW Require Import Py.Interp.", "Open Scope string_scope.", ""]
    big = {}
    for (m, n) in W.globals_used:
        v = W.mod(m).consts[n]
        if isinstance(v, (list, tuple)) and len(v) > 64:
            big[(m, n)] = "g_%s__%s" % (m, n)
            out.append("Definition %s : val := %s.\n" % (big[(m, n)], cval(v)))
    out.append("Definition genv (x : string) : option val :=")
    for (m, n) in W.globals_used:
        out.append("  if String.eqb x %s then Some %s else" % (cstr("%s.%s" % (m, n)), big.get((m, n)) or cval(W.mod(m).consts[n])))
    out.append("  None.\n")
    for q in EXTERNS:
        out.append("Definition extern_ok_%s : bool := %s." % (ident(q), "true" if W.extern_ok(q) else "false"))
    out.append("")
    for q in order:
        t, reason, calls, d = info[q]
        if t is None:
            out.append("(* UNTRANSLATABLE %s: %s *)" % (q, reason.replace("*)", "* )")))
            t = '{| f_params := []; f_locals := []; f_body := BCons (SRaise Unmodelled) BNil |}'
        out.append("Definition ast_%s : fundef :=\n  %s.\n" % (ident(q), t))
    out.append("Section Sem.")
    out.append("Variable ext : fenv_t.        (* semantics of the external primitives: %s *)" % ", ".join(EXTERNS))
    out.append("Variable fuel : nat.          (* per `while` loop *)")
    prev = "ext"
    for i, q in enumerate(order):
        out.append("Definition sem_%s : list val -> R val := call %s genv fuel ast_%s." % (ident(q), prev, ident(q)))
        out.append("Definition fenv_%d : fenv_t := fenv_add %s sem_%s %s." % (i, cstr(q), ident(q), prev))
        prev = "fenv_%d" % i
    out.append("Definition fenv_all : fenv_t := %s." % prev)
    out.append("End Sem.")
    out.append("(* the same environment built by a fold (linear under call-by-value evaluation; Exec/PySem.v proves it equal to fenv_all) *)")
    out.append("Definition asts : list (string * fundef) := [%s]." % "; ".join("(%s, ast_%s)" % (cstr(q), ident(q)) for q in order))
    out.append("Lemma build_chain_0 ext fuel : build genv fuel (firstn 0 asts) ext = ext.\nProof. reflexivity. Qed.")
    for i, q in enumerate(order):
        prevf = "fenv_%d ext fuel" % (i - 1) if i else "ext"
        out.append("Lemma build_chain_%d ext fuel : build genv fuel (firstn %d asts) ext = fenv_%d ext fuel.\nProof. change (firstn %d asts) with ((firstn %d asts ++ [(%s, ast_%s)])%%list). rewrite build_app, build_chain_%d. reflexivity. Qed."
                   % (i + 1, i + 1, i, i + 1, i, cstr(q), ident(q), i))
    out.append("Lemma build_chain ext fuel : build genv fuel asts ext = fenv_all ext fuel.\nProof. exact (build_chain_%d ext fuel). Qed." % len(order))
    out.append("Definition translated : list string := [%s]." % "; ".join(cstr(q) for q in order if info[q][0] is not None))
    out.append("Definition untranslatable : list string := [%s]." % "; ".join(cstr(q) for q in order if info[q][0] is None))
    report = {q: {"ok": info[q][0] is not None, "reason": info[q][1],
                  "hash": __import__("hashlib").sha256((info[q][0] or "").encode()).hexdigest()[:16]} for q in order}
    return "\n".join(out) + "\n", report


if __name__ == "__main__":
    repo = os.environ.get("BHW_REPO", "/repo")
    text, report = generate(repo)
    gen = os.path.join(os.path.dirname(os.path.abspath(__file__)), "..", "coq", "gen")
    path = os.path.join(gen, "PyAst.v")
    try:
        old = open(path).read()
    except FileNotFoundError:
        old = None
    if old != text:
        open(path, "w").write(text)
    json.dump(report, open(os.path.join(gen, "PyAst.report.json"), "w"), indent=1)
    bad = {q: r["reason"] for q, r in report.items() if not r["ok"]}
    if bad:
        sys.stderr.write("pytrans: untranslatable: %s\n" % json.dumps(bad, indent=1))
