#!/bin/bash
# usage: seedround.sh <suffix> <prop>...   worktrees /tmp/wt5_<prop>; records seeded/<prop>-<suffix>
suf=$1; shift
for p in "$@"; do
  wt=/tmp/${WTP:-wt5}_$p
  git -C $wt diff -- btc_hd_wallet > $wt/patch.diff
  cp $wt/NOTES.txt $wt/meta.txt 2>/dev/null
  echo "== $p"; /verif/harness/seedtest.sh $wt $p $p-$suf 2>&1 | tail -8
done
