#!/bin/bash
# run every claimed check on the unchanged tree for the given seeds; print anything that is not OK
cd /verif
for seed in "$@"; do
  for p in $(python3 -c "import json;print(' '.join(c['property_id'] for c in json.load(open('MANIFEST.json'))['checks']))"); do
    out=$(VERIF_SEED=$seed timeout 1500 ./check $p --tier ${TIER:-quick} 2>&1 | grep -E "^(VIOLATION|OK|KNOWN)" | cut -c1-160)
    echo "seed=$seed $out" | grep -v " OK property" | grep -v "KNOWN-FINDING" 
  done
  echo "seed $seed done"
done
