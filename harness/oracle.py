"""Wrap the external primitives the repository calls, from outside (no repository hook).

Every call is logged as (function, args) -> result; each logged pair is a point of the true
function (or of a chosen stub in PRF-substitution cases, see `prf_stub`)."""
import hashlib as _hashlib
import hmac as _hmac
import unicodedata as _unicodedata
import contextlib


class Recorder:
    def __init__(self):
        self.sha256 = {}      # bytes -> bytes
        self.hmac512 = {}     # (key, msg) -> bytes
        self.hmac_order = []  # (key, msg) in call order
        self.pbkdf2 = {}      # (name, pw, salt, rounds, dklen) -> bytes
        self.nfkd = {}        # (form, str) -> str
        self.h160 = {}        # bytes -> bytes (repository hash160 = ripemd160(sha256(x)))
        self.prf_stub = None  # optional callable (key, msg) -> bytes|None

    def reset(self):
        self.sha256.clear()
        self.hmac512.clear()
        self.pbkdf2.clear()
        self.nfkd.clear()
        self.h160.clear()

    # ---- proxies ----
    class _Sha256Obj:
        def __init__(self, rec, data):
            self.rec = rec
            self.data = bytes(data)

        def update(self, more):
            self.data += bytes(more)

        def digest(self):
            d = _hashlib.sha256(self.data).digest()
            self.rec.sha256[self.data] = d
            return d

        def hexdigest(self):
            return self.digest().hex()

    def hashlib_proxy(self):
        rec = self

        class P:
            sha512 = _hashlib.sha512

            @staticmethod
            def sha256(data=b""):
                return Recorder._Sha256Obj(rec, data)

            @staticmethod
            def pbkdf2_hmac(name, pw, salt, rounds, dklen=None):
                d = _hashlib.pbkdf2_hmac(name, pw, salt, rounds, dklen)
                rec.pbkdf2[(name, bytes(pw), bytes(salt), rounds, dklen)] = d
                return d

            @staticmethod
            def new(name, data=b""):
                return _hashlib.new(name, data)

            def __getattr__(self, n):
                return getattr(_hashlib, n)
        return P()

    def hmac_proxy(self):
        rec = self

        class HObj:
            def __init__(self, key, msg, digestmod):
                self.key, self.msg, self.digestmod = bytes(key), bytes(msg or b""), digestmod

            def digest(self):
                d = None
                if rec.prf_stub is not None:
                    d = rec.prf_stub(self.key, self.msg)
                if d is None:
                    d = _hmac.new(key=self.key, msg=self.msg, digestmod=self.digestmod).digest()
                rec.hmac512[(self.key, self.msg)] = d
                rec.hmac_order.append((self.key, self.msg))
                return d

        class P:
            @staticmethod
            def new(key, msg=None, digestmod=None):
                return HObj(key, msg, digestmod)

            def __getattr__(self, n):
                return getattr(_hmac, n)
        return P()

    def unicodedata_proxy(self):
        rec = self

        class P:
            @staticmethod
            def normalize(form, s):
                r = _unicodedata.normalize(form, s)
                rec.nfkd[(form, s)] = r
                return r

            def __getattr__(self, n):
                return getattr(_unicodedata, n)
        return P()

    @contextlib.contextmanager
    def installed(self):
        import btc_hd_wallet.helper as helper
        import btc_hd_wallet.bip39 as bip39
        saved = []

        def patch(mod, name, val):
            if hasattr(mod, name):
                saved.append((mod, name, getattr(mod, name)))
                setattr(mod, name, val)
        patch(helper, "hashlib", self.hashlib_proxy())
        patch(helper, "hmac", self.hmac_proxy())
        patch(bip39, "hashlib", self.hashlib_proxy())
        patch(bip39, "unicodedata", self.unicodedata_proxy())
        import btc_hd_wallet.bip32 as bip32
        import btc_hd_wallet.keys as keys
        import btc_hd_wallet.base_wallet as base_wallet
        real_h160 = helper.hash160
        rec = self

        def h160(s):
            d = real_h160(s)
            rec.h160[bytes(s)] = d
            return d
        for m in (bip32, keys, base_wallet):
            patch(m, "hash160", h160)
        try:
            yield self
        finally:
            for mod, name, val in reversed(saved):
                setattr(mod, name, val)

    # ---- tables as Coq terms ----
    def sha_table(self, extra=()):
        items = dict(self.sha256)
        for x in extra:
            items[bytes(x)] = _hashlib.sha256(bytes(x)).digest()
        return "[" + ";".join('("%s","%s")' % (k.hex(), v.hex()) for k, v in items.items()) + "]"

    def h160_table(self):
        return "[" + ";".join('("%s","%s")' % (k.hex(), v.hex()) for k, v in self.h160.items()) + "]"

    def hmac_table(self):
        return "[" + ";".join('("%s","%s","%s")' % (k.hex(), m.hex(), v.hex()) for (k, m), v in self.hmac512.items()) + "]"
