#!/venv/bin/python
"""Entry point of every check:  run.py [--setup] | run.py Cxx [--tier quick|thorough] [--replay FILE]

One run of a property check does, in order (DESIGN.md section 5):
  1. regenerate coq/gen/*.v from /repo's current tree, rebuild Props/Cxx.vo (incremental);
  2. audit: obligations exist, `Print Assumptions` within the allowed list, no forbidden vernacular;
  3. correspondence: implementation vs. Coq model on generated cases (vm_compute inside Coq),
     plus the Spec-level property checker evaluated by Coq on the implementation's outputs;
  4. verdict, evidence file, replay file, known findings.
"""
import argparse
import fcntl
import hashlib
import importlib
import json
import os
import random
import re
import shutil
import subprocess
import sys
import time
import traceback

HERE = os.path.dirname(os.path.abspath(__file__))
VERIF = os.path.dirname(HERE)
COQ = os.path.join(VERIF, "coq")
REPO = os.environ.get("BHW_REPO", "/repo")
PY = "/venv/bin/python"
WORK = os.path.join(VERIF, "_work")
FORBIDDEN = r"\b(Admitted|admit|Axiom|Axioms|Parameter|Parameters|Conjecture|Conjectures|Admit Obligations|bypass_check)\b|Unset Guard|Unset Positivity|Unset Universe|type-in-type|impredicative-set|Hypothesis|Hypotheses|Variable|Variables"
ALLOWED_AXIOMS = {
    # stdlib axioms that may legitimately appear (none expected; listed for the audit)
    "Coq.Logic.FunctionalExtensionality.functional_extensionality_dep",
}

sys.path.insert(0, HERE)
sys.path.insert(0, REPO)


def log(*a):
    print(*a, file=sys.stderr, flush=True)


def sh(cmd, timeout, cwd=None, env=None):
    t0 = time.time()
    try:
        p = subprocess.run(cmd, shell=isinstance(cmd, str), cwd=cwd, env=env, timeout=timeout,
                           stdout=subprocess.PIPE, stderr=subprocess.STDOUT, text=True)
        return p.returncode, p.stdout, time.time() - t0
    except subprocess.TimeoutExpired as e:
        out = e.stdout if isinstance(e.stdout, str) else (e.stdout or b"").decode("utf8", "replace")
        return 124, out + "\nTIMEOUT", time.time() - t0


class Lock:
    def __enter__(self):
        os.makedirs(WORK, exist_ok=True)
        self.f = open(os.path.join(WORK, ".lock"), "w")
        fcntl.flock(self.f, fcntl.LOCK_EX)
        return self

    def __exit__(self, *a):
        fcntl.flock(self.f, fcntl.LOCK_UN)
        self.f.close()


def regen():
    env = dict(os.environ, PYTHONPATH=REPO, PYTHONHASHSEED="0", BHW_REPO=REPO)
    rc, out, _ = sh([PY, os.path.join(HERE, "regen.py")], 120, env=env)
    if rc != 0:
        log("regen failed:\n" + out)
    sh([os.path.join(COQ, "regen_project.sh")], 60)
    return rc == 0, out


def make(targets, timeout=900):
    cmd = "ulimit -s unlimited 2>/dev/null; make -j16 " + " ".join(targets)
    rc, out, dt = sh(["bash", "-c", cmd], timeout, cwd=COQ)
    return rc == 0, out, dt


def forbidden_scan():
    """grep the development for anything that would declare an axiom or switch a check off.
    Section Variables/Hypotheses are allowed only inside Sections; that is checked separately:
    here we only collect the lines so the audit can verify each sits inside a Section."""
    bad = []
    for root, _, files in os.walk(os.path.join(COQ, "theories")):
        for fn in files:
            if not fn.endswith(".v"):
                continue
            path = os.path.join(root, fn)
            depth = 0
            in_comment = 0
            for ln, line in enumerate(open(path), 1):
                # strip comments (nesting-aware, line granular is enough for our style)
                code = ""
                i = 0
                while i < len(line):
                    if line.startswith("(*", i):
                        in_comment += 1
                        i += 2
                    elif line.startswith("*)", i) and in_comment:
                        in_comment -= 1
                        i += 2
                    else:
                        if not in_comment:
                            code += line[i]
                        i += 1
                code = re.sub(r'"[^"]*"', '""', code)      # string literals (e.g. the BIP39 word "admit") are data, not vernacular
                if re.match(r"\s*Section\b", code):
                    depth += 1
                if re.match(r"\s*End\b", code) and depth:
                    depth -= 1
                    continue
                for m in re.finditer(FORBIDDEN, code):
                    w = m.group(0)
                    if w in ("Hypothesis", "Hypotheses", "Variable", "Variables"):
                        if depth > 0:
                            continue
                    bad.append("%s:%d: %s" % (os.path.relpath(path, COQ), ln, w))
    return bad


def audit(prop_id, theorems, module=None):
    """Compile a tiny file that Requires Props/Cxx and prints the assumptions of each obligation."""
    os.makedirs(WORK, exist_ok=True)
    module = module or prop_id
    path = os.path.join(WORK, "Audit_%s.v" % module)
    with open(path, "w") as f:
        f.write("From BHW Require Import Props.%s.\n" % module)
        for t in theorems:
            f.write('Goal True. idtac "@@THM %s". exact I. Qed.\nPrint Assumptions %s.\n' % (t, t))
    rc, out, dt = sh(["coqc", "-Q", "theories", "BHW", "-Q", "gen", "BHWGen", path], 600, cwd=COQ)
    res = {}
    cur = None
    for line in out.splitlines():
        m = re.match(r"@@THM (\S+)", line)
        if m:
            cur = m.group(1)
            res[cur] = []
        elif cur is not None:
            res[cur].append(line)
    discharged = []
    failed = []
    axioms = {}
    for t in theorems:
        body = "\n".join(res.get(t, []))
        if t not in res or "Error" in body:
            failed.append(t)
            continue
        if "Closed under the global context" in body:
            discharged.append(t)
            axioms[t] = []
            continue
        # list of axioms: lines "name : type"
        names = re.findall(r"^([A-Za-z_][\w.']*)\s*:", body, re.M)
        axioms[t] = names
        if all(n in ALLOWED_AXIOMS for n in names) and names:
            discharged.append(t)
        else:
            failed.append(t)
    if rc != 0:
        # compile error: everything after the failing point is missing
        for t in theorems:
            if t not in discharged and t not in failed:
                failed.append(t)
    return discharged, failed, axioms, out


def structure_diff(prop_id):
    """which facts about the property's modules differ from the pinned table (evaluated by Coq)"""
    try:
        mods = json.load(open(os.path.join(HERE, "structure_modules.json")))[prop_id]
        text = ("From Coq Require Import List String.\nImport ListNotations.\nFrom BHW Require Import Proofs.StructureP.\nOpen Scope string_scope.\n"
                "Eval vm_compute in (filter (fun r => negb (module_ok (fst r))) (map (fun m => (m, structure_diff m)) [%s])).\n"
                % "; ".join('"%s"' % m for m in mods))
        rc, out, dt = coq_eval(prop_id, text, 9999, timeout=120)
        return "(module, (facts now present but not pinned, pinned facts now absent)) " + re.sub(r"\s+", " ", out)[:3000]
    except Exception as e:
        return "diff unavailable: %r" % (e,)


def coq_eval(prop_id, text, idx, timeout=900):
    os.makedirs(WORK, exist_ok=True)
    path = os.path.join(WORK, "Cases_%s_%d_%d.v" % (prop_id, os.getpid(), idx))
    with open(path, "w") as f:
        f.write(text)
    cmd = "ulimit -s unlimited 2>/dev/null; coqc -Q theories BHW -Q gen BHWGen %s" % path
    rc, out, dt = sh(["bash", "-c", cmd], timeout, cwd=COQ)
    for ext in (".v", ".vo", ".vok", ".vos", ".glob"):
        try:
            os.remove(path[:-2] + ext)
        except OSError:
            pass
    try:
        os.remove(os.path.join(os.path.dirname(path), "." + os.path.basename(path)[:-2] + ".aux"))
    except OSError:
        pass
    return rc, out, dt


def parse_codes(out):
    """Coq prints `= [0; 0; 2; ...]%Z : list Z` (possibly wrapped). Return list of ints or None."""
    m = re.search(r"=\s*\[(.*?)\]\s*(%Z)?\s*:\s*list", out, re.S)
    if not m:
        return None
    body = m.group(1).strip()
    if not body:
        return []
    return [int(x) for x in re.findall(r"-?\d+", body)]


# --------------------------------------------------------------------------- Coq literal helpers
def zl(bs):
    return "[" + ";".join(str(int(b)) for b in bs) + "]"


def zs(s):
    return "[" + ";".join(str(ord(c)) for c in s) + "]"


def hx(b):
    return '"%s"' % bytes(b).hex()


def cres(v, render):
    return "(Ok %s)" % render(v) if v is not None else "Err"


def cbool(b):
    return "true" if b else "false"


# --------------------------------------------------------------------------- known findings
def load_known():
    p = os.path.join(VERIF, "known_findings.json")
    if os.path.exists(p):
        return json.load(open(p))
    return []


def write_replay(prop_id, payload):
    os.makedirs(os.path.join(VERIF, "replays"), exist_ok=True)
    h = hashlib.sha256(json.dumps(payload, sort_keys=True, default=str).encode()).hexdigest()[:12]
    path = os.path.join(VERIF, "replays", "%s-%s.json" % (prop_id, h))
    with open(path, "w") as f:
        json.dump(payload, f, indent=1, default=str)
    return path


def write_evidence(prop_id, ev):
    if os.environ.get("VERIF_NO_EVIDENCE"):          # set by harness/reapply.sh while a seeded change is applied
        return
    os.makedirs(os.path.join(VERIF, "evidence"), exist_ok=True)
    with open(os.path.join(VERIF, "evidence", "%s.json" % prop_id), "w") as f:
        json.dump(ev, f, indent=1, default=str)


TRUSTED_BASE = [
    "Coq 8.16.1 kernel and its vm_compute machine (no native_compute)",
    "harness/regen.py (constant regeneration from /repo by introspection and ast)",
    "harness correspondence drivers: model evaluated by vm_compute vs /repo implementation on the same cases",
    "control flow of the Python code outside the translated set is modelled by hand, tied by correspondence only",
    "harness/regen.py gen_structure + pinned table Proofs/StructureP.v (structure premise Cxx_structure)",
    "for C03/C04/C05/C08/C09/C10/C11/C12/C17/C19/C20: harness/pytrans.py (Python source -> MiniPy terms) and Py/Interp.v as a description of CPython on the fragment, validated by the PySem stream on sampled arguments",
    "external primitives (hashlib, hmac, unicodedata, python-ecdsa, json, os.urandom) are parameters of the model",
]


def run_property(prop_id, tier, seed, replay=None):
    t0 = time.time()
    mod = importlib.import_module("props.%s" % prop_id.lower())
    P = mod.Prop()
    violations = []       # list of (kind, replay payload)
    known_lines = []
    notes = []

    with Lock():
        ok_regen, regen_out = regen()
        # the executable model first (needed to search for a failing input even when a proof obligation breaks), then the theorems
        ok_exec, exec_out, exec_dt = make(["theories/%s.vo" % m.replace(".", "/") for m in P.exec_modules])
        ok_make, make_out, make_dt = make(["theories/Props/%s.vo" % prop_id])
        # the structure premise (Props/SCxx.v over gen/Structure.v) is built separately so that its failure is reported for what it is
        ok_struct, struct_out, struct_dt = make(["theories/Props/S%s.vo" % prop_id])
        make_dt += exec_dt + struct_dt
    bad = forbidden_scan()
    if ok_make:
        discharged, failed, axioms, audit_out = audit(prop_id, P.theorems)
    else:
        # find which obligations survive: try the audit anyway on whatever compiled
        discharged, failed, axioms, audit_out = [], list(P.theorems), {}, make_out
        notes.append("make failed: " + make_out[-1500:])
    if bad:
        failed = list(P.theorems)
        discharged = []
        notes.append("forbidden vernacular: " + "; ".join(bad))
    struct_thm = "%s_structure" % prop_id
    all_theorems = list(P.theorems) + [struct_thm]
    if ok_struct and not bad:
        d2, f2, a2, _ = audit(prop_id, [struct_thm], module="S" + prop_id)
        discharged += d2
        failed += f2
        axioms.update(a2)
    else:
        failed.append(struct_thm)
    if struct_thm in failed:
        notes.append("structure premise broken: " + structure_diff(prop_id))
    # source-level theorems (about the MiniPy semantics of the regenerated terms), one module each, built separately
    for module, thms in getattr(P, "extra_modules", {}).items():
        all_theorems += thms
        with Lock():
            ok_x, x_out, x_dt = make(["theories/Props/%s.vo" % module])
        make_dt += x_dt
        if ok_x and not bad:
            d3, f3, a3, _ = audit(prop_id, thms, module=module)
            discharged += d3
            failed += f3
            axioms.update(a3)
        else:
            failed += thms
            notes.append("Props/%s.v does not check against the regenerated source terms: %s" % (module, x_out[-1500:]))
            try:
                rep = json.load(open(os.path.join(COQ, "gen", "PyAst.report.json")))
                pins = json.load(open(os.path.join(HERE, "pyast_pins.json")))
                changed = sorted(q for q in rep if pins.get(q) != rep[q]["hash"])
                notes.append("functions whose translated term differs from the pinned one: %s; untranslatable now: %s" % (
                    changed, {q: r["reason"] for q, r in rep.items() if not r["ok"]}))
            except Exception as e:
                notes.append("no term diff available: %r" % (e,))

    # ---- correspondence ----
    rng = random.Random(seed)
    fixed = None
    if replay:
        rp = json.load(open(replay))
        det = rp.get("detail", {})
        fixed = []
        for key in ("failing_case",):
            if key in det:
                fixed.append(det[key]["case"])
        for key in ("more_failing_cases", "cases"):
            for r in det.get(key, []):
                fixed.append(r["case"])
        if not fixed:
            log("replay file names no concrete case (%s); running the normal check" % det.get("broken"))
            fixed = None
    pysem_funcs = getattr(P, "pysem_funcs", None)
    pysem_fixed = None
    if fixed is not None and pysem_funcs:
        pysem_fixed = [c for c in fixed if str(c.get("kind", "")).startswith("Sem:")]
        fixed = [c for c in fixed if not str(c.get("kind", "")).startswith("Sem:")]
        if pysem_fixed and not fixed:
            fixed = []
    corr = P.correspondence(rng, tier, coq_eval, model_available=P.model_available(ok_exec, exec_out), fixed_cases=fixed)
    if pysem_funcs and not corr.get("error"):
        # second stream: the interpreter on the regenerated source terms vs CPython on the real functions
        from props.pysem import PySemProp
        with Lock():
            ok_ps, ps_out, ps_dt = make(["theories/Exec/PySem.vo"])
        Q = PySemProp(prop_id, pysem_funcs)
        corr2 = Q.correspondence(rng, tier, coq_eval, model_available=ok_ps, fixed_cases=pysem_fixed)
        if not ok_ps:
            notes.append("Exec/PySem did not build: " + ps_out[-800:])
        corr["evaluations"] = corr.get("evaluations", 0) + corr2.get("evaluations", 0)
        corr["distinct_nontrivial"] = corr.get("distinct_nontrivial", 0) + corr2.get("distinct_nontrivial", 0)
        corr.setdefault("histogram", {}).update(corr2.get("histogram", {}))
        corr["samples"] = corr.get("samples", []) + corr2.get("samples", [])[:3]
        corr["rule"] = corr.get("rule", "") + " || " + Q.rule
        for m_ in corr2.get("mismatches", []):
            m_["meaning"] = "MiniPy interpreter on the regenerated source term and CPython on the real function disagree (translator/semantics tie broken)"
            corr.setdefault("mismatches", []).append(m_)
        if corr2.get("error"):
            corr["error"] = "PySem: " + corr2["error"]
    # corr: dict(evaluations, distinct_nontrivial, rule, samples, histogram, mismatches=[...], prop_failures=[...])

    known = [k for k in load_known() if k.get("property") == prop_id and k.get("status") == "known"]

    def is_known(case):
        for k in known:
            try:
                if P.matches_known(k, case):
                    return k
            except Exception:
                pass
        return None

    reported_known = set()
    unknown_pf = []
    for pf in corr.get("prop_failures", []):
        k = is_known(pf)
        if k:
            if k["id"] not in reported_known:
                reported_known.add(k["id"])
                known_lines.append("KNOWN-FINDING: property=%s %s" % (prop_id, k["text"]))
        else:
            unknown_pf.append(pf)
    if unknown_pf:
        # report the smallest failing input (a crude shrink: minimal by serialised size), keep a few more in the file
        unknown_pf.sort(key=lambda r: len(json.dumps(r["case"], default=str)))
        violations.append(("property-fails-on-implementation",
                           {"failing_case": unknown_pf[0], "more_failing_cases": unknown_pf[1:5],
                            "total_failing": len(unknown_pf)}))
    unexplained_mismatch = [m for m in corr.get("mismatches", []) if not is_known(m)]
    if not violations:
        if unexplained_mismatch:
            violations.append(("model-implementation-correspondence no-failing-input-found",
                               {"broken": "correspondence", "cases": unexplained_mismatch[:5]}))
        elif failed:
            violations.append(("proof-obligation no-failing-input-found",
                               {"broken": "theorems", "theorems": failed, "log": (audit_out or "")[-3000:], "notes": notes}))
    if corr.get("error"):
        violations.append(("harness-error no-failing-input-found", {"broken": "correspondence run", "error": corr["error"]}))

    wall = time.time() - t0
    ev = {
        "property_id": prop_id, "tier": tier, "seed": seed, "level": "proof",
        "coverage": {
            "obligations": len(all_theorems), "discharged": len(discharged),
            "checker_cmd": "cd /verif/coq && make theories/Props/%s.vo && coqc Audit_%s.v (Print Assumptions per obligation)" % (prop_id, prop_id),
            "trusted_base": TRUSTED_BASE + getattr(P, "extra_trusted", []),
            "theorems": all_theorems, "failed_obligations": failed, "axioms": axioms,
            "evaluations": corr.get("evaluations", 0),
            "distinct_nontrivial": corr.get("distinct_nontrivial", 0),
            "rule": corr.get("rule", ""),
            "samples": corr.get("samples", []),
            "histogram": corr.get("histogram", {}),
            "traces_validated_against_impl": corr.get("evaluations", 0),
            "model_impl_mismatches": len(corr.get("mismatches", [])),
            "property_failures_on_impl": len(corr.get("prop_failures", [])),
            "known_findings_reported": sorted(reported_known),
            "make_seconds": round(make_dt, 1), "notes": notes,
        },
        "assumptions": getattr(P, "assumptions", []),
        "wall_s": round(wall, 1),
        "violations": len(violations),
    }
    if not replay:
        write_evidence(prop_id, ev)
    for l in known_lines:
        print(l)
    if violations:
        for kind, payload in violations:
            rp = write_replay(prop_id, {"property": prop_id, "kind": kind, "seed": seed, "tier": tier,
                                        "replay_cmd": "cd /verif && ./check %s --replay <this file>" % prop_id,
                                        "detail": payload})
            tail = " no-failing-input-found" if "no-failing-input-found" in kind else ""
            print("VIOLATION property=%s replay=%s%s" % (prop_id, rp, tail))
        return 1
    print("OK property=%s tier=%s obligations=%d/%d cases=%d nontrivial=%d wall=%.1fs" % (
        prop_id, tier, len(discharged), len(all_theorems), corr.get("evaluations", 0), corr.get("distinct_nontrivial", 0), wall))
    return 0


def main():
    ap = argparse.ArgumentParser()
    ap.add_argument("prop", nargs="?")
    ap.add_argument("--setup", action="store_true")
    ap.add_argument("--tier", default=os.environ.get("VERIF_TIER", "quick"))
    ap.add_argument("--replay")
    a = ap.parse_args()
    if a.setup:
        with Lock():
            ok, out = regen()
            ok2, out2, dt = make(["all"], timeout=3000)
        print(out2[-3000:])
        print("setup: regen=%s make=%s (%.0fs)" % (ok, ok2, dt))
        sys.exit(0 if ok and ok2 else 1)
    seed = int(os.environ.get("VERIF_SEED", "20260929"))
    tier = a.tier if a.tier in ("quick", "thorough") else "quick"
    try:
        rc = run_property(a.prop, tier, seed, a.replay)
    except Exception:
        traceback.print_exc()
        rp = write_replay(a.prop, {"property": a.prop, "kind": "harness-crash", "trace": traceback.format_exc()})
        print("VIOLATION property=%s replay=%s no-failing-input-found" % (a.prop, rp))
        rc = 1
    sys.exit(rc)


if __name__ == "__main__":
    main()
