"""C13 -- derivation is a pure function of root key and path, whatever happened before: history / schedule driver."""
import gc
import json
import sys
import threading
from props.base import BaseProp
from run import zs, cbool

H = 2 ** 31


def node_sig(nd):
    return "%s|%s|%d|%d|%s|%s" % (nd.key.hex(), nd.chain_code.hex(), nd.depth, nd.index, nd.parent_fingerprint.hex(), str(nd))


def do_op(w, op, stateless=False):
    """Run one request on wallet w; return a canonical string of its result."""
    k = op[0]
    try:
        if k == "derive":
            return node_sig(w.master.derive_path(list(op[1])))
        if k == "by_path":
            return node_sig(w.by_path(op[1]))
        if k == "ckd_chain":                       # single-step derivations on retained node objects
            nd = w.master
            for i in op[1]:
                nd = nd.ckd(index=i)
            return node_sig(nd)
        if k == "gen_children":
            nd = w.master.derive_path(list(op[1]))
            return ";".join(node_sig(c) for c in nd.generate_children(interval=(op[2], op[3])))
        if k == "addr":
            nd = w.master.derive_path(list(op[2]))
            f = [w.p2pkh_address, w.p2wpkh_address, w.p2sh_p2wpkh_address, w.p2wsh_address, w.p2sh_p2wsh_address][op[1]]
            return str(f(nd))
        if k == "pk_addr":                        # PublicKey object reused: compressed forms first, then uncompressed
            nd = w.master.derive_path(list(op[1]))
            pk = nd.public_key
            # the stateless recomputation asks a brand-new PublicKey object for every address
            a = (nd.public_key if stateless else pk).address(addr_type="p2wpkh", testnet=w.testnet)
            b = (nd.public_key if stateless else pk).address(compressed=False, addr_type="p2pkh", testnet=w.testnet)
            c = (nd.public_key if stateless else pk).address(compressed=True, addr_type="p2pkh", testnet=w.testnet)
            return "%s %s %s" % (a, b, c)
        if k == "ext":
            return json.dumps(w.node_extended_keys(w.master.derive_path(list(op[1]))))
        if k == "bip85":
            b = w.bip85
            return str({0: lambda: b.bip39_mnemonic(op[2], op[3]), 1: lambda: b.wif(op[3]), 2: lambda: b.xprv(op[3]),
                        3: lambda: b.hex(op[2], op[3]), 4: lambda: b.pwd(op[2], op[3])}[op[1]]())
        if k == "generate":
            return json.dumps(w.generate(account=op[1], interval=(op[2], op[3])))
        if k == "wasabi":
            return w.wasabi_json()
        if k == "root":
            return w.master.extended_private_key()
    except Exception as e:
        return "ERR:" + type(e).__name__
    raise ValueError(k)


class Prop(BaseProp):
    id = "C13"
    theorems = ["C13_effects_discipline", "C13_history_irrelevant", "C13_interleaving_irrelevant", "C13_root_unchanged",
                "C13_derive_app", "C13_generator_consecutive", "C13_generator_skips"]
    exec_modules = ["Exec.C13"]
    exec_import = "From BHW Require Import Lib.Base Exec.Common Exec.C13.\nFrom Coq Require Import String.\nOpen Scope string_scope."
    shard = 4
    rule = ("Hist: random request sequences (by-path lookup, derive_path, chained single-step ckd on retained nodes, generate_children, the five "
            "address methods, a reused PublicKey object, node_extended_keys, BIP85, generate, Wasabi) of length 20 (thorough 40) on ONE shared wallet "
            "object, repeated and reordered; every answer is compared with the answer of the same request on a freshly built wallet; the root xprv "
            "before = after. Threads: 8 threads run shuffled copies of a request list on one shared wallet with sys.setswitchinterval(1e-6); every "
            "answer compared with the fresh recomputation. Gen: address generators with and without sent skips (0, None, positive), several "
            "generators on the same node interleaved. Non-trivial = distinct (case, output).")
    assumptions = ["CPython's list.append and attribute reads are atomic under the GIL; real preemption is only sampled"]

    def new_wallet(self, seed, testnet):
        from btc_hd_wallet.paper_wallet import PaperWallet
        return PaperWallet.from_bip39_seed_bytes(bytes.fromhex(seed), testnet=testnet)

    def rand_op(self, rng):
        p = lambda n: [rng.choice([0, 1, 2, H, H + 1, 44 + H, rng.randrange(0, 50)]) for _ in range(n)]
        r = rng.random()
        if r < 0.18:
            return ("derive", p(rng.randrange(0, 4)))
        if r < 0.28:
            q = p(rng.randrange(0, 5))
            return ("by_path", "m" + "".join("/" + (str(i - H) + "'" if i >= H else str(i)) for i in q))
        if r < 0.40:
            return ("ckd_chain", p(rng.randrange(1, 4)))
        if r < 0.50:
            lo = rng.randrange(0, 5)
            return ("gen_children", p(rng.randrange(0, 3)), lo, lo + rng.randrange(0, 6))
        if r < 0.66:
            return ("addr", rng.randrange(0, 5), p(rng.randrange(0, 3)))
        if r < 0.72:
            return ("pk_addr", p(rng.randrange(0, 3)))
        if r < 0.80:
            return ("ext", p(rng.randrange(0, 4)))
        if r < 0.90:
            a = rng.randrange(0, 5)
            return ("bip85", a, {0: 12, 1: 0, 2: 0, 3: 32, 4: 21}[a], rng.randrange(0, 3))
        if r < 0.95:
            return ("generate", rng.randrange(0, 2), 0, 1)
        return ("wasabi",)

    def gen_cases(self, rng, tier):
        T = tier == "thorough"
        cases = []
        for j in range(4 if T else 2):
            seed = bytes(rng.randrange(256) for _ in range(32)).hex()
            ops = [self.rand_op(rng) for _ in range(40 if T else 20)]
            ops = ops + [ops[0], ops[3], ops[0]] + list(reversed(ops[:6])) + [("pk_addr", [1, 2])]      # repetition and reordering
            cases.append({"kind": "Hist", "seed": seed, "testnet": j % 2 == 1, "ops": ops, "threads": 0})
        # directed history: the children list of the root ends with nodes whose first/last indexes match a later interval request
        seed = bytes(rng.randrange(256) for _ in range(32)).hex()
        a = rng.randrange(0, 4)
        ops = [("ckd_chain", [a]), ("ckd_chain", [a + 7]), ("ckd_chain", [a + 2]), ("gen_children", [], a, a + 3),
               ("by_path", "m/%d/1" % (a + 1)), ("by_path", "m/%d/0" % (a + 9)), ("by_path", "m/%d" % (a + 4)), ("gen_children", [], a + 1, a + 5),
               ("gen_children", [], a, a + 3), ("ckd_chain", [H + 1]), ("ckd_chain", [H + 5, 1]), ("ckd_chain", [H + 3]), ("gen_children", [], H + 1, H + 4),
               ("gen_children", [], a, a + 5), ("gen_children", [], a + 1, a + 4),
               # consecutive look-ups whose path STRINGS are prefixes of each other although the paths are not
               ("by_path", "m/0/1"), ("by_path", "m/0/15"), ("by_path", "m/44'/0'/0"), ("by_path", "m/44'/0'/0'"), ("by_path", "m/4"), ("by_path", "m/44'/0'"),
               ("by_path", "m/1"), ("by_path", "m/1/2"), ("by_path", "m/1/2/3"), ("by_path", "m/1/2"), ("by_path", "m/1/20"), ("by_path", "m"), ("by_path", "m/1")]
        cases.append({"kind": "Hist", "seed": seed, "testnet": False, "ops": ops, "threads": 0})
        seed = bytes(rng.randrange(256) for _ in range(32)).hex()
        ops = [self.rand_op(rng) for _ in range(12 if T else 8) if True]
        ops = [o for o in ops if o[0] != "generate"] + [("derive", [0, 1]), ("addr", 1, [0, 1]), ("by_path", "m/0/1"), ("pk_addr", [0])]
        cases.append({"kind": "Hist", "seed": seed, "testnet": False, "ops": ops, "threads": 8})
        # single children requested out of order / repeatedly / with gaps from ONE node object (the master), then the same range in bulk
        ops = [("ckd_chain", [0]), ("ckd_chain", [2]), ("ckd_chain", [1]), ("ckd_chain", [3]), ("gen_children", [], 0, 4),
               ("ckd_chain", [0]), ("ckd_chain", [0]), ("ckd_chain", [2]), ("gen_children", [], 0, 3), ("gen_children", [], 4, 7),
               ("ckd_chain", [6]), ("ckd_chain", [4]), ("gen_children", [], 4, 7), ("gen_children", [], 0, 4),
               # as many earlier single derivations inside the interval as the interval is long, but with repeats / a missing index
               ("ckd_chain", [10]), ("ckd_chain", [10]), ("ckd_chain", [11]), ("ckd_chain", [11]), ("ckd_chain", [12]), ("gen_children", [], 10, 15),
               ("ckd_chain", [21]), ("ckd_chain", [21]), ("gen_children", [], 20, 22), ("gen_children", [], 20, 23),
               ("ckd_chain", [H + 9]), ("ckd_chain", [H + 9]), ("ckd_chain", [H + 7]), ("gen_children", [], H + 7, H + 10),
               ("gen_children", [], 30, 32), ("gen_children", [], 30, 33), ("gen_children", [], 30, 35), ("gen_children", [], 31, 36)]
        cases.append({"kind": "Hist", "seed": seed, "testnet": False, "ops": ops, "threads": 0})
        # a legal schedule made deterministic: while generate_children of one "thread" is between two derivation steps
        # (at its at-th HMAC call) another "thread" runs a complete ckd on the SAME node object
        for iv, at, other in (((0, 5), 2, 9), ((0, 4), 1, 0), ((3, 8), 3, 3), ((H, H + 3), 2, 1), ((0, 6), 5, 2 ** 31 + 7)):
            cases.append({"kind": "Preempt", "seed": seed, "path": [84 + H, H, H, 0], "interval": list(iv), "at": at, "other": other})
        cases.append({"kind": "Gen", "seed": seed, "sends": [None, None, 3, None, 0, 2, None], "path": [0]})
        cases.append({"kind": "Gen", "seed": seed, "sends": [None] * 5, "path": [84 + H, H, H, 0]})
        cases.append({"kind": "Gen", "seed": seed, "sends": [10, 1, None], "path": []})
        cases.append({"kind": "GenA", "seed": seed, "path": [84 + H, H, H, 0], "first": [None, 3, None], "second": [None, None, None, None]})
        cases.append({"kind": "GenA", "seed": seed, "path": [0], "first": [None, None], "second": [None, 2]})
        return cases

    def run_impl(self, case):
        if case["kind"] == "Preempt":
            import btc_hd_wallet.bip32 as b32

            def view(kids):
                return json.dumps([[k.index, k.key.hex(), k.chain_code.hex(), k.depth] for k in kids])
            shared = self.new_wallet(case["seed"], False)
            before = do_op(shared, ("root",))
            node = shared.master.derive_path(list(case["path"]))
            real = b32.hmac_sha512
            count, busy = [0], [False]

            def hook(key, msg):
                count[0] += 1
                if count[0] == case["at"] and not busy[0]:
                    busy[0] = True
                    try:
                        node.ckd(case["other"])
                    except Exception:
                        pass
                    finally:
                        busy[0] = False
                return real(key, msg)
            b32.hmac_sha512 = hook
            try:
                try:
                    a = view(node.generate_children(tuple(case["interval"])))
                except Exception as e:
                    a = "ERR:" + type(e).__name__
            finally:
                b32.hmac_sha512 = real
            after = do_op(shared, ("root",))
            fw = self.new_wallet(case["seed"], False)
            try:
                f_ = view(fw.master.derive_path(list(case["path"])).generate_children(tuple(case["interval"])))
            except Exception as e:
                f_ = "ERR:" + type(e).__name__
            return {"triples": [["generate_children%r preempted at step %d by ckd(%d)" % (tuple(case["interval"]), case["at"], case["other"]), a, f_]],
                    "before": before, "after": after, "err": False}
        if case["kind"] == "GenA":
            w = self.new_wallet(case["seed"], False)
            nd = w.master.derive_path(list(case["path"]))
            g1 = w.address_generator(nd)                                   # default p2wpkh walks some indexes first
            next(g1)
            for s_ in case["first"]:
                g1.send(s_)
            nd2 = w.by_path(str(nd)) if len(case["path"]) <= 5 else nd     # same path, another node object
            g2 = w.address_generator(nd2, addr_fnc=w.p2pkh_address)
            shared = [list(next(g2))]
            for s_ in case["second"]:
                shared.append(list(g2.send(s_)))
            fresh = []
            idx = 0
            for s_ in [None] + list(case["second"]):
                fw = self.new_wallet(case["seed"], False)
                if fresh:
                    idx += s_ or 1
                child = fw.master.derive_path(list(case["path"]) + [idx])
                fresh.append([str(child), fw.p2pkh_address(child)])
            return {"shared": shared, "fresh": fresh, "err": False}
        if case["kind"] == "Gen":
            w = self.new_wallet(case["seed"], False)
            nd = w.master.derive_path(list(case["path"]))
            g = w.address_generator(nd)
            g2 = w.address_generator(nd)                 # a second generator on the same node, interleaved
            out = []
            try:
                out.append(next(g)[0])
                next(g2)
                for s in case["sends"]:
                    out.append(g.send(s)[0])
                    next(g2)
            except Exception as e:
                out.append("ERR:" + type(e).__name__)
            return {"paths": out, "prefix": str(nd), "err": False}
        # ---- history on a shared wallet ----
        shared = self.new_wallet(case["seed"], case["testnet"])
        before = do_op(shared, ("root",))
        ops = [tuple(o) for o in case["ops"]]
        results = []
        if case["threads"]:
            old = sys.getswitchinterval()
            sys.setswitchinterval(1e-6)
            try:
                lock = threading.Lock()

                def worker(tid):
                    import random as _r
                    my = list(ops)
                    _r.Random(tid).shuffle(my)
                    for o in my:
                        a = do_op(shared, o)
                        with lock:
                            results.append((o, a))
                ts = [threading.Thread(target=worker, args=(i,)) for i in range(case["threads"])]
                [t.start() for t in ts]
                [t.join() for t in ts]
            finally:
                sys.setswitchinterval(old)
        else:
            for o in ops:
                results.append((o, do_op(shared, o)))
        after = do_op(shared, ("root",))
        triples = []
        fresh_cache = {}
        for o, a in results:
            key = json.dumps(o)
            if key not in fresh_cache:
                fresh_cache[key] = do_op(self.new_wallet(case["seed"], case["testnet"]), o, stateless=True)      # stateless recomputation
                gc.collect()
            triples.append([key, a, fresh_cache[key]])
        return {"triples": triples, "before": before, "after": after, "err": False}

    def coq_term(self, case, obs):
        if case["kind"] == "GenA":
            f = lambda l: "[" + ";".join("(%s, %s)" % (zs(a), zs(str(b))) for a, b in l) + "]"
            return "(GenA %s %s)" % (f(obs["shared"]), f(obs["fresh"]))
        if case["kind"] == "Gen":
            sends = "[" + ";".join("None" if s is None else "(Some (%d))" % s for s in case["sends"]) + "]"
            return "(Gen %s [%s] %s)" % (sends, ";".join(zs(p) for p in obs["paths"]), zs(obs["prefix"]))
        import hashlib
        h = lambda s: hashlib.sha256(s.encode()).hexdigest()[:24]        # long answers are compared by digest
        tr = ";".join("(%s, %s, %s)" % (zs(k[:60]), zs(h(a)), zs(h(f))) for k, a, f in obs["triples"])
        return "(Hist [%s] %s %s)" % (tr, zs(h(obs["before"])), zs(h(obs["after"])))

    def nontrivial_key(self, case, obs):
        return json.dumps([case["kind"], obs.get("triples", obs.get("paths", obs.get("shared")))])[:5000]

    def sample_repr(self, case, obs):
        if case["kind"] in ("Gen", "GenA"):
            return {"case": case, "impl": obs}
        if case["kind"] == "Preempt":
            return {"case": case, "impl": {"disagreements": [t[0] for t in obs["triples"] if t[1] != t[2]]}}
        return {"case": {"kind": "Hist", "threads": case["threads"], "n_ops": len(case["ops"]), "first_ops": case["ops"][:4]},
                "impl": {"n_answers": len(obs["triples"]), "disagreements": [t[0] for t in obs["triples"] if t[1] != t[2]][:5]}}
