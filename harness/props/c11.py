"""C11 -- segwit addresses (BIP173/BIP350): correspondence driver."""
from props.base import BaseProp
from run import zs, cres

CHARSET = "qpzry9x8gf2tvdw0s3jn54khce6mua7l"


def zl(l):
    return "[" + ";".join("(%d)" % x for x in l) + "]"


def c_pair(p):
    return "None" if p is None else "(Some (%d, %s))" % (p[0], zl(p[1]))


class Prop(BaseProp):
    id = "C11"
    theorems = ["C11_constants_are_bip", "C11_checksum_valid", "C11_polymod_bound", "C11_create_checksum_symbols",
                "C11_checksum_unique", "C11_convertbits_roundtrip", "C11_convertbits_canonical", "C11_decode_encode",
                "C11_decode_sound", "C11_encode_some", "C11_illegal_none", "C11_rejects_mixed_case", "C11_rejects_long",
                "C11_rejects_other_prefix", "C11_rejects_wrong_constant", "C11_padding_canonical",
                "C11_bch_detects", "C11_detects_le4", "C11_substitution_refused", "C11_substitution4_refused"]
    exec_modules = ["Exec.C11"]
    extra_modules = {"C11Src": ["C11_source_is_model", "C11_source_decode_encode", "C11_source_decode_sound", "C11_source_substitution_refused", "C11_source_rejects", "C11_source_all_translated"]}
    pysem_funcs = ['bech32.bech32_polymod', 'bech32.bech32_hrp_expand', 'bech32.bech32_verify_checksum', 'bech32.bech32_create_checksum', 'bech32.bech32_encode', 'bech32.bech32_decode', 'bech32.convertbits', 'bech32.decode', 'bech32.encode', 'helper.h160_to_p2wpkh_address', 'helper.h256_to_p2wsh_address']
    exec_import = "From BHW Require Import Lib.Base Exec.Common Exec.C11.\nFrom Coq Require Import String.\nOpen Scope string_scope."
    shard = 120
    rule = ("Enc: every (witness version, program length) in 0..17 x 0..42 with random programs, hrps bc / tb / odd ones (1 char, 83 chars, digits, "
            "with '1'), negative and > 31 versions, program bytes out of range; Dec: strings reachable from valid addresses by insertion, deletion, "
            "case change (all upper, mixed), other hrp (incl. longer ones that start with the expected hrp + '1'), > 90 characters, bad padding, wrong checksum constant for the version, non-ASCII characters "
            "whose case mapping is an ASCII charset letter (KELVIN SIGN, LONG S) or a look-alike; Mut: 1..4 random "
            "substitutions in the data part of valid addresses (all lengths the library emits), incl. the weight-4 patterns that switch between "
            "version 0 and non-0. Non-trivial = distinct (case, output).")

    def gen_cases(self, rng, tier):
        T = tier == "thorough"
        cases = []
        rb = lambda n: [rng.randrange(256) for _ in range(n)]
        for v in range(0, 18):
            for n in range(0, 43):
                if T or (v in (0, 1, 2, 16, 17)) or n in (0, 1, 2, 19, 20, 21, 31, 32, 33, 40, 41) or rng.random() < 0.15:
                    cases.append({"kind": "Enc", "hrp": rng.choice(["bc", "tb"]), "v": v, "prog": rb(n)})
        for hrp in ["a", "bc1", "x" * 83, "x" * 50, "1", "split", "?", "tb", "BC", "b c"]:
            cases.append({"kind": "Enc", "hrp": hrp, "v": rng.choice([0, 1]), "prog": rb(20)})
        for v in (-1, -32, 32, 31, 255):
            cases.append({"kind": "Enc", "hrp": "bc", "v": v, "prog": rb(20)})
        cases.append({"kind": "Enc", "hrp": "bc", "v": 0, "prog": [256] + rb(19)})
        cases.append({"kind": "Enc", "hrp": "bc", "v": 0, "prog": [-1] + rb(19)})
        # valid addresses to mutate
        import btc_hd_wallet.bech32 as b32
        valid = []
        for _ in range(60 if T else 16):
            hrp = rng.choice(["bc", "tb"])
            v = rng.choice([0, 0, 1, 2, 16])
            n = rng.choice([20, 32]) if v == 0 else rng.choice([2, 20, 32, 40, rng.randrange(2, 41)])
            a = b32.encode(hrp, v, rb(n))
            if a:
                valid.append((hrp, a))
        for hrp, a in valid:
            cases.append({"kind": "Dec", "hrp": hrp, "addr": a})
            cases.append({"kind": "Dec", "hrp": hrp, "addr": a.upper()})
            cases.append({"kind": "Dec", "hrp": hrp.upper(), "addr": a.upper()})
            cases.append({"kind": "Dec", "hrp": "tb" if hrp == "bc" else "bc", "addr": a})
            i = rng.randrange(3, len(a))
            cases.append({"kind": "Dec", "hrp": hrp, "addr": a[:i] + a[i].upper() + a[i + 1:]})
            cases.append({"kind": "Dec", "hrp": hrp, "addr": a[:i] + rng.choice(CHARSET) + a[i:]})
            cases.append({"kind": "Dec", "hrp": hrp, "addr": a[:i] + a[i + 1:]})
            cases.append({"kind": "Dec", "hrp": hrp, "addr": a + "q" * (91 - len(a))})
            cases.append({"kind": "Dec", "hrp": hrp, "addr": a[:i] + rng.choice("bio1 ") + a[i + 1:]})
            # wrong constant for the version: re-encode with the other spec
            try:
                hrpgot, data, spec = b32.bech32_decode(a)
                other = b32.Encoding.BECH32M if spec == b32.Encoding.BECH32 else b32.Encoding.BECH32
                cases.append({"kind": "Dec", "hrp": hrp, "addr": b32.bech32_encode(hrp, data, other)})
                # bad padding: append a non-zero 5-bit group / an extra zero group
                cases.append({"kind": "Dec", "hrp": hrp, "addr": b32.bech32_encode(hrp, data + [1], spec)})
                cases.append({"kind": "Dec", "hrp": hrp, "addr": b32.bech32_encode(hrp, data + [0], spec)})
                cases.append({"kind": "Dec", "hrp": hrp, "addr": b32.bech32_encode(hrp, data[:-1] + [data[-1] | 1], spec)})
            except Exception:
                pass
            for w in (1, 2, 3, 4):
                for _ in range(6 if T else 2):
                    pos = rng.sample(range(len(hrp) + 1, len(a)), w)
                    t = list(a)
                    for p in pos:
                        t[p] = rng.choice([c for c in CHARSET if c != a[p]])
                    cases.append({"kind": "Mut", "hrp": hrp, "orig": a, "variant": "".join(t)})
        # addresses that are valid for a LONGER human-readable part beginning with the expected one plus '1' (or just a longer one)
        for hrp in ("bc", "tb"):
            for ext in ("1q", "1", "1p", "1bc", "c", "1qqqqqqq"):
                for v, n in ((0, 20), (1, 32)):
                    a = b32.encode(hrp + ext, v, rb(n))
                    if a:
                        cases.append({"kind": "Dec", "hrp": hrp, "addr": a})
                        cases.append({"kind": "Dec", "hrp": hrp, "addr": a.upper()})
                        cases.append({"kind": "Dec", "hrp": hrp + ext, "addr": a})
        # non-ASCII characters whose str.lower()/str.upper() is an ASCII letter of the charset (KELVIN SIGN -> k, LONG S -> S, ...)
        for hrp, a in valid[:6]:
            up = a.upper()
            for ch, rep in (("K", "\u212a"), ("S", "\u017f")):
                if ch in up[3:]:
                    i = up.index(ch, 3)
                    cases.append({"kind": "Dec", "hrp": hrp, "addr": up[:i] + rep + up[i + 1:]})
                    cases.append({"kind": "Dec", "hrp": hrp, "addr": up.replace(ch, rep)})
            for ch, rep in (("k", "\u212a"), ("s", "\u017f"), ("a", "\u00e1"), ("e", "\u0435"), ("q", "\uff51")):
                if ch in a[3:]:
                    i = a.index(ch, 3)
                    cases.append({"kind": "Dec", "hrp": hrp, "addr": a[:i] + rep + a[i + 1:]})
            cases.append({"kind": "Dec", "hrp": hrp, "addr": a[:5] + "\x80" + a[6:]})
            cases.append({"kind": "Dec", "hrp": hrp, "addr": a + "\u3000"})
        for s in ["", "1", "bc1", "bc1q", "1qqqqqq", "bc1qqqqqq", "tb1pqqqqqq", "\x7f1axkwrx", "10a06t8", "1qzzfhee", "A12UEL5L", "a12uel5l",
                  "abcdef1qpzry9x8gf2tvdw0s3jn54khce6mua7lmqqqxw", "bc1qw508d6qejxtdg4y5r3zarvary0c5xw7kv8f3t4",
                  "BC1QW508D6QEJXTDG4Y5R3ZARVARY0C5XW7KV8F3T4", "bc1p0xlxvlhemja6c4dqv22uapctqupfhlxm9h8z3k2e72q4k9hcz7vqzk5jj0",
                  "bc1p0xlxvlhemja6c4dqv22uapctqupfhlxm9h8z3k2e72q4k9hcz7vqh2y7hd", "bc1zw508d6qejxtdg4y5r3zarvaryvaxxpcs", "bc1gmk9yu"]:
            cases.append({"kind": "Dec", "hrp": s[:2].lower() if len(s) > 2 else "bc", "addr": s})
        return cases

    def run_impl(self, case):
        import btc_hd_wallet.bech32 as b32
        k = case["kind"]

        def dec(hrp, a):
            try:
                r = b32.decode(hrp, a)
            except Exception:
                return "EXC"
            return None if r == (None, None) else [r[0], list(r[1])]
        if k == "Enc":
            try:
                r = b32.encode(case["hrp"], case["v"], list(case["prog"]))
                ob = {"ok": True, "s": r}
            except Exception:
                ob = None
            back = None
            if ob and ob["s"]:
                back = dec(case["hrp"], ob["s"])
            return {"ob": ob, "back": back, "err": ob is None}
        if k == "Dec":
            return {"ob": dec(case["hrp"], case["addr"]), "err": False}
        return {"ob": dec(case["hrp"], case["variant"]), "err": False}

    def coq_term(self, case, obs):
        k = case["kind"]
        if k == "Enc":
            ob = obs["ob"]
            r = "Err" if ob is None else ("(Ok None)" if ob["s"] is None else "(Ok (Some %s))" % zs(ob["s"]))
            return "(Enc %s (%d) %s %s %s)" % (zs(case["hrp"]), case["v"], zl(case["prog"]), r, c_pair(obs["back"]))
        if obs["ob"] == "EXC":
            # an exception out of decode is never expected; encode as an impossible pair so that it is flagged
            return "(Dec %s %s (Some (99, [])))" % (zs(case["hrp"]), zs(case.get("addr", case.get("variant"))))
        if k == "Dec":
            return "(Dec %s %s %s)" % (zs(case["hrp"]), zs(case["addr"]), c_pair(obs["ob"]))
        return "(Mut %s %s %s %s)" % (zs(case["hrp"]), zs(case["orig"]), zs(case["variant"]), c_pair(obs["ob"]))
