"""PySem: the MiniPy interpreter run on the regenerated source terms (gen/PyAst.v) versus CPython running the real
functions, on the same arguments.  Validates translator + interpreter (the trusted part of the source-level theorems).
Used as a second correspondence stream by the properties whose code is translated (C05, C10, C11, C19)."""
import enum
import importlib

from props.base import BaseProp
from oracle import Recorder

EXN = {"IndexError", "TypeError", "ValueError", "OverflowError", "ZeroDivisionError", "RuntimeError", "KeyError", "ArgumentError", "AssertionError"}


def cz(i):
    return str(i) if i >= 0 else "(%d)" % i


def cval(v):
    if v is None:
        return "VNone"
    if isinstance(v, enum.Enum):
        return '(VEnum "%s.%s")' % (type(v).__name__, v.name)
    if isinstance(v, bool):
        return "(VBool %s)" % ("true" if v else "false")
    if isinstance(v, int):
        return "(VInt %s)" % cz(v)
    if isinstance(v, str):
        return "(VStr [%s])" % ";".join(cz(ord(c)) for c in v)
    if isinstance(v, (bytes, bytearray)):
        return "(VBytes [%s])" % ";".join(str(b) for b in v)
    if isinstance(v, list):
        return "(VList [%s])" % ";".join(cval(x) for x in v)
    if isinstance(v, tuple):
        return "(VTuple [%s])" % ";".join(cval(x) for x in v)
    if type(v).__name__ == "Script" and type(v).__module__ == "btc_hd_wallet.script":
        return '(VObj "Script" [%s])' % cval(v.cmds)
    if type(v).__name__ == "BIP85DeterministicEntropy":
        return '(VObj "BIP85DeterministicEntropy" [VNone; %s])' % cval(v.testnet)   # master_node is only handed to the external entropy()
    if type(v).__name__ == "PrivateKey" and type(v).__module__ == "btc_hd_wallet.keys":
        return '(VObj "PrivateKey" [%s; VNone])' % cval(v.k)          # K (a python-ecdsa object) is never read by the translated methods
    if type(v).__name__ == "Bip32Path" and type(v).__module__ == "btc_hd_wallet.wallet_utils":
        return '(VObj "Bip32Path" [%s])' % ";".join(cval(getattr(v, f)) for f in PATH_FIELDS)
    raise TypeError("value outside MiniPy: %r" % (v,))


PATH_FIELDS = ("purpose", "coin_type", "account", "chain", "addr_index", "private")


def jval(v):
    """JSON-able description of a value (for replay files), invertible by unj"""
    if v is None or isinstance(v, (bool, int)) and not isinstance(v, enum.Enum):
        return v
    if isinstance(v, enum.Enum):
        return {"enum": "%s.%s" % (type(v).__name__, v.name)}
    if isinstance(v, str):
        return {"str": v}
    if isinstance(v, (bytes, bytearray)):
        return {"bytes": bytes(v).hex()}
    if isinstance(v, list):
        return {"list": [jval(x) for x in v]}
    if isinstance(v, tuple):
        return {"tuple": [jval(x) for x in v]}
    if type(v).__name__ == "Script":
        return {"script": jval(v.cmds)}
    if type(v).__name__ == "BIP85DeterministicEntropy":
        return {"bip85": v.master_node.extended_private_key(), "testnet": v.testnet}
    if type(v).__name__ == "PrivateKey":
        return {"privkey": bytes(v.k).hex()}
    if type(v).__name__ == "Bip32Path":
        return {"bip32path": [jval(getattr(v, f)) for f in PATH_FIELDS]}
    raise TypeError(v)


def unj(j):
    if isinstance(j, dict):
        if "enum" in j:
            from btc_hd_wallet import bech32
            c, m = j["enum"].split(".")
            return getattr(getattr(bech32, c), m)
        if "str" in j:
            return j["str"]
        if "bytes" in j:
            return bytes.fromhex(j["bytes"])
        if "list" in j:
            return [unj(x) for x in j["list"]]
        if "tuple" in j:
            return tuple(unj(x) for x in j["tuple"])
        if "script" in j:
            from btc_hd_wallet.script import Script
            return Script(unj(j["script"]))
        if "bip85" in j:
            from btc_hd_wallet.bip85 import BIP85DeterministicEntropy
            return BIP85DeterministicEntropy.from_xprv(j["bip85"], testnet=j["testnet"])
        if "privkey" in j:
            from btc_hd_wallet.keys import PrivateKey
            return PrivateKey(bytes.fromhex(j["privkey"]))
        if "bip32path" in j:
            from btc_hd_wallet.wallet_utils import Bip32Path
            return Bip32Path(*[unj(x) for x in j["bip32path"]])
    return j


CH = "qpzry9x8gf2tvdw0s3jn54khce6mua7l"
B58 = "123456789ABCDEFGHJKLMNPQRSTUVWXYZabcdefghijkmnopqrstuvwxyz"


def gen_args(rng, qual, tier):
    """argument tuples for one function: mostly well-typed and valid, plus boundaries and a malformed stream"""
    from btc_hd_wallet import bech32, helper
    T = tier == "thorough"
    n = 40 if T else 10
    E = bech32.Encoding
    rb = lambda k: bytes(rng.randrange(256) for _ in range(k))
    r5 = lambda k: [rng.randrange(32) for _ in range(k)]
    hrps = ["bc", "tb", "a", "bcrt", "x" * 10, "1", "b1c", "?", "~{|}", "A", "Bc"]
    out = []
    if qual == "bech32.bech32_polymod":
        out += [([],), ([0],), ([31] * 8,), (r5(40),), ([2 ** 40, 5, -3],), ([1, 2, 3, 1 << 30],)]
        out += [(r5(rng.randrange(0, 90)),) for _ in range(n)]
    elif qual == "bech32.bech32_hrp_expand":
        out += [(h,) for h in hrps + ["", "éx", "\U0001F600"]]
    elif qual in ("bech32.bech32_verify_checksum",):
        for _ in range(n):
            h = rng.choice(hrps)
            d = r5(rng.randrange(0, 50))
            out.append((h, d))
            spec = rng.choice([E.BECH32, E.BECH32M])
            out.append((h, d + bech32.bech32_create_checksum(h, d, spec)))
        out += [("bc", []), ("", [1, 2, 3])]
    elif qual in ("bech32.bech32_create_checksum", "bech32.bech32_encode"):
        for _ in range(n):
            out.append((rng.choice(hrps), r5(rng.randrange(0, 60)), rng.choice([E.BECH32, E.BECH32M])))
        out += [("bc", [], E.BECH32), ("bc", [32], E.BECH32M), ("bc", [-1, -32, 5], E.BECH32), ("bc", [-33], E.BECH32), ("bc", [1, 2], 1), ("bc", [3], None)]
    elif qual == "bech32.bech32_decode":
        valid = []
        for _ in range(n):
            h = rng.choice(["bc", "tb", "a", "bcrt", "b1c", "x" * 20])
            d = r5(rng.randrange(0, 60))
            valid.append(bech32.bech32_encode(h, d, rng.choice([E.BECH32, E.BECH32M])))
        out += [(s,) for s in valid]
        for s in valid[: max(4, n // 2)]:
            i = rng.randrange(len(s))
            out.append((s[:i] + rng.choice(CH + "b1iBO ") + s[i + 1:],))
            out.append((s.upper(),))
            out.append((s[:i] + s[i:].upper(),))
            out.append((s[:-1],))
            out.append((s + "q",))
        out += [("",), ("1",), ("a1",), ("1qqqqqq",), ("a1qqqqqq",), ("A1LQFN3A",), ("a1lqfn3a",), ("x" * 84 + "1" + "q" * 6,), ("x" * 83 + "1" + "q" * 6,),
                ("bc1\x7fqqqqqq",), ("bc1 qqqqqq",), ("\x20c1qqqqqq",), ("bc1qqqqqb",), ("bcqqqqqqqq",), ("11qqqqqq",), ("bc1QQQQQQ",), ("de1lg7wt\xff",)]
    elif qual == "bech32.convertbits":
        for _ in range(n):
            out.append((list(rb(rng.randrange(0, 45))), 8, 5, True))
            out.append((r5(rng.randrange(0, 70)), 5, 8, False))
            out.append((r5(rng.randrange(0, 20)), 5, 8, True))
        out += [([], 8, 5, True), ([], 5, 8, False), ([255], 8, 5, True), ([256], 8, 5, True), ([-1], 8, 5, True), ([31, 31], 5, 8, False), ([32], 5, 8, False),
                ([0, 0, 0, 0, 0, 0, 0, 0], 5, 8, False), ([1], 5, 8, False), ([0], 5, 8, False), ([3, 5, 7], 3, 7, True), ([3, 5, 7], 3, 7, False), ([200, 100], 8, 8, False),
                ([1, 2, 3], 8, 1, True), ([5, 1], 4, 12, True), ([5, 1], 4, 12, False), (list(rb(33)), 8, 5, False)]
    elif qual == "bech32.decode":
        for _ in range(n):
            h = rng.choice(["bc", "tb", "bcrt"])
            v = rng.choice([0, 0, 1, 2, 16])
            L = rng.choice([20, 32]) if v == 0 else rng.randrange(2, 41)
            a = bech32.encode(h, v, list(rb(L)))
            out.append((h, a))
            out.append((rng.choice(["bc", "tb"]), a))
            out.append((h, a.upper()))
            i = rng.randrange(len(a))
            out.append((h, a[:i] + rng.choice(CH) + a[i + 1:]))
        # right checksum, wrong constant / bad version / bad length / bad padding
        for v, L, spec in ((0, 20, E.BECH32M), (1, 32, E.BECH32), (17, 10, E.BECH32M), (0, 21, E.BECH32), (1, 1, E.BECH32M), (1, 41, E.BECH32M), (2, 40, E.BECH32M)):
            data = [v] + bech32.convertbits(list(rb(L)), 8, 5)
            out.append(("bc", bech32.bech32_encode("bc", data, spec)))
        out.append(("bc", bech32.bech32_encode("bc", [1] + [31] * 5, E.BECH32M)))
        out.append(("bc", bech32.bech32_encode("bc", [1] + r5(8), E.BECH32M)))
        out.append(("bc", bech32.bech32_encode("bc", [], E.BECH32M)))
        out += [("bc", ""), ("bc", "bc1"), ("", "1qqqqqq")]
    elif qual == "bech32.encode":
        for _ in range(n):
            v = rng.choice([0, 0, 1, 2, 16, 17, -1])
            L = rng.choice([20, 32, 2, 40, 1, 41, 21, 33, 0])
            out.append((rng.choice(["bc", "tb", "bcrt", "BC", "b c"]), v, list(rb(L))))
        out += [("bc", 0, [256] * 20), ("bc", 0, [-1] * 20), ("bc", 32, [1] * 20), ("bc", 0, rb(20)), ("bc", 1, rb(32)), ("x" * 60, 0, [7] * 32)]
    elif qual == "helper.encode_base58":
        out += [(b"",), (b"\x00",), (b"\x00" * 5,), (b"\x00\x00\x01",), (b"\xff" * 40,), (b"\x00" * 3 + b"\xff" * 3,), (bytes([57]),), (bytes([58]),)]
        out += [(rb(rng.randrange(1, 80)),) for _ in range(n)]
        out += [(b"\x00" * rng.randrange(1, 4) + rb(rng.randrange(0, 30)),) for _ in range(n // 2)]
    elif qual == "helper.encode_base58_checksum":
        out += [(b"",), (b"\x00",), (b"\x00" * 21,), (b"\x80" + b"\x01" * 32,)]
        out += [(rb(rng.randrange(1, 80)),) for _ in range(n)]
    elif qual in ("helper.decode_base58", "helper.decode_base58_checksum", "helper.b58decode_addr"):
        ss = ["", "1", "11", "2", "z", "1z", "111z", "0", "O", "l", "I", " 1", "1 ", "é", "11111111112", "StV1DL6CwTryKyV", "2c", "89j", "YZaF", "3QJmnh"]
        for _ in range(n):
            ss.append("".join(rng.choice(B58) for _ in range(rng.randrange(1, 60))))
            ss.append("1" * rng.randrange(0, 4) + "".join(rng.choice(B58) for _ in range(rng.randrange(0, 30))))
            ok = helper.encode_base58_checksum(rb(rng.randrange(0, 40)))
            ss.append(ok)
            ss.append(ok[:-1] + rng.choice(B58))
            i = rng.randrange(len(ok))
            ss.append(ok[:i] + rng.choice(B58 + "0OIl+") + ok[i + 1:])
        out += [(s,) for s in ss]
    elif qual == "helper.encode_varint":
        vs = [0, 1, 252, 253, 254, 255, 256, 0xffff, 0x10000, 0x10001, 0xffffffff, 0x100000000, 0x100000001, 2 ** 64 - 1, 2 ** 64, 2 ** 64 + 1, -1, -253, 2 ** 100]
        vs += [rng.randrange(0, 2 ** rng.choice([8, 16, 32, 64, 70])) for _ in range(n)]
        out += [(v,) for v in vs]
    elif qual in ("helper.little_endian_to_int", "helper.big_endian_to_int"):
        out += [(b"",), (b"\x00",), (b"\x01\x00",), (b"\x00\x01",), (b"\xff" * 33,)] + [(rb(rng.randrange(0, 40)),) for _ in range(n)]
    elif qual in ("helper.int_to_little_endian", "helper.int_to_big_endian"):
        out += [(0, 0), (0, 1), (1, 0), (255, 1), (256, 1), (256, 2), (-1, 1), (-1, 0), (2 ** 256 - 1, 32), (2 ** 256, 32), (5, -1), (0, 4), (2 ** 31, 4)]
        for _ in range(n):
            L = rng.randrange(0, 40)
            out.append((rng.randrange(0, 256 ** L + 3), L))
    elif qual in ("helper.h160_to_p2pkh_address", "helper.h160_to_p2sh_address"):
        for _ in range(n):
            out.append((rb(20), rng.random() < 0.5))
        out += [(b"\x00" * 20, False), (b"\x00" * 20, True), (b"", False), (rb(19), True), (rb(21), False), (b"\x00\x00" + rb(18), False), (rb(20), 1), (rb(20), 0), (rb(20), None)]
    elif qual in ("helper.h160_to_p2wpkh_address", "helper.h256_to_p2wsh_address"):
        L = 20 if "h160" in qual else 32
        for _ in range(n):
            out.append((rb(L), rng.random() < 0.5, rng.choice([0, 0, 0, 1, 16])))
        out += [(rb(L), False, 17), (rb(L), True, -1), (rb(52 - L), False, 0), (rb(19), False, 0), (rb(33), True, 0), (rb(1), False, 1), (rb(41), False, 1), (b"", False, 0), (rb(40), True, 16)]
    elif qual == "wallet_utils.Bip32Path.convert_hardened":
        ss = ["0", "1", "44'", "44h", "0'", "0h", "2147483647", "2147483648", "2147483647'", "2147483648'", "4294967295", "4294967296", "4294967295h",
              "-1", "-1'", "-0", "+5", "+5'", " 7", "7 ", " 7 '", "1_0", "1__0", "_1", "1_", "0x10", "1e3", "", "'", "h", "''", "h'", "x", "1x", "٣",
              "00012", "9" * 30, "9" * 30 + "'", "\t5\n", "5\x1f", "- 5", "+", "-", "+'", "1 2", "1'h", "1h'", "１２"]
        for _ in range(n):
            v = rng.choice([rng.randrange(0, 2 ** 31), rng.randrange(2 ** 31, 2 ** 32), rng.randrange(2 ** 32, 2 ** 40), rng.randrange(0, 100)])
            ss.append(str(v) + rng.choice(["", "'", "h"]))
        out += [(x,) for x in ss]
    elif qual.startswith("wallet_utils.") and qual != "wallet_utils.Bip32Path.is_hardened" and qual != "wallet_utils.Bip32Path.is_private":
        from btc_hd_wallet.wallet_utils import Bip32Path
        H = 2 ** 31
        def ridx():
            return rng.choice([0, 1, 44, H, H + 44, H - 1, 2 ** 32 - 1, rng.randrange(0, H), rng.randrange(H, 2 ** 32)])
        paths = [Bip32Path(), Bip32Path(private=False)]
        for _ in range(n):
            k = rng.randrange(0, 6)
            paths.append(Bip32Path(*[ridx() for _ in range(k)], **{"private": rng.random() < 0.7}))
        paths += [Bip32Path(True, False), Bip32Path(0, 0, 0, 0, 0), Bip32Path(H, H, H, 0, 2 ** 32 - 1, False), Bip32Path(-1), Bip32Path(2 ** 40, -5)]
        name = qual.split(".")[-1]
        if name == "list_get":
            for _ in range(n):
                l = [rng.choice(["m", "44'", "", "0", 5, None]) for _ in range(rng.randrange(0, 8))]
                out.append((l, rng.randrange(-9, 9)))
            out += [([], 0), ([], -1), (["a"], 1), (["a"], -1), (["a"], -2), (["a", "b"], 1), ("abc", 1), ("abc", 3), ((1, 2), 1), ((1, 2), 2), ([1], True), ([1, 2], None)]
        elif name in ("_to_list", "to_list", "integrity_check", "m", "__repr__"):
            out += [(q,) for q in paths]
        elif name == "repr_hardened":
            for _ in range(n):
                out.append((rng.choice(paths), ridx()))
            out += [(paths[0], v) for v in (0, H - 1, H, H + 1, 2 ** 32 - 1, 2 ** 32, -1, -H, 2 ** 40, True)]
        elif name == "__init__":
            for _ in range(n):
                k = rng.randrange(0, 6)
                out.append(tuple([ridx() for _ in range(k)] + [None] * (5 - k) + [rng.random() < 0.5]))
            for _ in range(n):
                out.append(tuple([rng.choice([None, None, ridx(), "5", True, b"", -3]) for _ in range(5)] + [rng.choice([True, False])]))
            out += [(None, 1, None, None, None, True), (1, None, 2, None, None, True), (None, None, None, None, 7, False), (1, 2, 3, 4, "5", True),
                    ("1", None, None, None, None, True), (None, "1", None, None, None, True), (1, "x", None, 3, None, True), (True, False, None, None, None, True),
                    (0, 0, 0, 0, 0, False), (1, 2, None, None, None, None)]
        elif name == "parse":
            ss = ["m", "M", "m/", "M/", "/", "", "m/0", "m/44'/0'/0'/0/0", "M/44h/0h/0h/1/5", "m/44'/0h/0'", "x/1", "mm/1", "m /1", " m/1", "m/1/2/3/4/5/6", "m/1/2/3/4/5/6/x",
                  "m/1//2", "m//1", "m/1/", "m/1/2/3/4/5/", "m/1/2/3/4/5//", "m/-1", "m/-1'", "m/ -1'", "m/+1", "m/ 1", "m/1 ", "m/1_0", "m/2147483648'", "m/2147483647'",
                  "m/4294967295", "m/4294967296", "m/a", "m/'", "m/h", "m/1/'", "m/0x10", "m/٣", "m/1\t", "m/1/2/3/4/x", "m/1/2/3/4/5/x", "m/1/x/3", "M/0'", "m/00/01'",
                  "m/ -1", "m/\n-5'", "m/-0'", "m/-0", "m\\1", "m/1/2/3/4/5/6/7/8/9/10/11/12", "m/1'/2'/3'/4'/5'/6'"]
            for _ in range(2 * n):
                k = rng.randrange(0, 8)
                comps = []
                for _ in range(k):
                    v = rng.choice([rng.randrange(0, H), rng.randrange(0, 100), rng.randrange(H, 2 ** 32), rng.randrange(2 ** 32, 2 ** 34), -rng.randrange(1, 50)])
                    c = str(v) + rng.choice(["", "", "'", "h"])
                    if rng.random() < 0.08:
                        c = rng.choice(["", " " + c, c + " ", "x", "+" + c, "0" + c, c + "'"])
                    comps.append(c)
                ss.append("/".join([rng.choice(["m", "m", "M", "n"])] + comps))
            out += [(x,) for x in ss]
    elif qual in ("__main__.address_index", "__main__.account_index"):
        ss = ["0", "1", "-1", "2147483646", "2147483647", "2147483648", "4294967294", "4294967295", "4294967296", " 5", "5 ", "+7", "1_000", "0x10", "", "abc",
              "1.0", "-0", "00", "9" * 25, "5\x1f", "\t9\n", "１２", "1e3"]
        ss += [str(rng.randrange(0, 2 ** 33)) for _ in range(n)]
        out += [(x,) for x in ss]
    elif qual == "__main__.value_in_interval":
        for _ in range(n):
            lo = rng.randrange(-5, 10)
            hi = lo + rng.randrange(0, 20)
            out.append((str(rng.randrange(lo - 3, hi + 3)), lo, hi, "X"))
        out += [("x", 0, 5, "n"), ("", 0, 5, "n"), ("3", 3, 3, "n"), ("3", 3, 4, "n"), ("4", 3, 4, "n"), (" 2 ", 0, 5, "n")]
    elif qual in ("__main__.extended_key", "__main__.bip39_seed", "__main__.entropy_hex"):
        for L in (0, 1, 32, 40, 48, 56, 64, 63, 65, 110, 111, 112, 127, 128, 129, 31, 33):
            out.append(("".join(rng.choice("0123456789abcdefXYZ é") for _ in range(L)),))
    elif qual == "__main__.mnemonic":
        w = ["abandon", "zoo", "legal", "winner"]
        for k in (0, 1, 11, 12, 13, 15, 18, 21, 24, 25):
            out.append((" ".join(rng.choice(w) for _ in range(k)),))
        out += [(" " + " ".join(["zoo"] * 12),), (" ".join(["zoo"] * 12) + "\n",), ("  ".join(["zoo"] * 12),), ("\t".join(["zoo"] * 12),),
                (" ".join(["zoo"] * 11) + "\x1f",), (" ".join(["zoo"] * 11) + " \x1c",), (" ".join(["zoö"] * 12),), ("",), (" ",)]
    elif qual == "bip39.mnemonic_from_entropy":
        hs = []
        for L in (16, 20, 24, 28, 32):
            hs += [rb(L).hex(), ("00" * L), ("ff" * L), rb(L).hex().upper(), "00" + rb(L - 1).hex(), " " + rb(L).hex() + "\n",
                   " ".join(rb(L).hex()[i:i + 2] for i in range(0, 2 * L, 2))]
        for L in (0, 1, 15, 17, 31, 33, 64):
            hs.append(rb(L).hex())
        hs += ["ab" * 15 + "  ", "a", "abc", "zz" * 16, "a b" + "00" * 15, "0x" + "00" * 16, "é" * 32, "ab" * 16 + "\x1f", "ab" * 16 + "\x0b"]
        out += [(h,) for h in hs]
    elif qual in ("bip39.checksum_length", "bip39.mnemonic_sentence_length", "bip39.correct_entropy_bits_value"):
        out += [(v,) for v in (128, 160, 192, 224, 256, 0, 1, 31, 32, 33, 64, 127, 129, 512, 2 ** 20)]
    elif qual == "bip85.BIP85DeterministicEntropy.byte_count_from_word_count":
        out += [(v,) for v in list(range(0, 40)) + [-1, 2 ** 31, True]]
    elif qual == "ripemd.ripemd160":
        for L in (0, 1, 3, 55, 56, 57, 63, 64, 65, 119, 120, 127, 128, 200):
            out.append((rb(L),))
        out += [(b"abc",), (b"a" * 130,), (b"\x00" * 64,), (b"\xff" * 56,)]
    elif qual == "ripemd.fi":
        for i in (0, 1, 2, 3, 4, 5, -1):
            out.append((rng.randrange(0, 2 ** 32), rng.randrange(0, 2 ** 32), rng.randrange(0, 2 ** 32), i))
            out.append((rng.randrange(-2 ** 33, 2 ** 35), rng.randrange(0, 2 ** 40), -rng.randrange(0, 2 ** 32), i))
    elif qual == "ripemd.rol":
        for i in (0, 1, 5, 10, 15, 31, 32, 33, -1):
            out.append((rng.randrange(0, 2 ** 32), i))
            out.append((rng.randrange(0, 2 ** 40), i))
            out.append((-rng.randrange(0, 2 ** 33), i))
    elif qual == "ripemd.compress":
        for _ in range(4):
            out.append(tuple(rng.randrange(0, 2 ** 32) for _ in range(5)) + (rb(64),))
        out.append(tuple(rng.randrange(2 ** 32, 2 ** 36) for _ in range(5)) + (rb(64),))
        out.append((1, 2, 3, 4, 5, rb(10)))
        out.append((1, 2, 3, 4, 5, rb(70)))
    elif qual == "wallet_utils.Bip32Path.is_hardened":
        out += [(v,) for v in (0, 1, 2 ** 31 - 1, 2 ** 31, 2 ** 31 + 1, 2 ** 32, -1, -2 ** 31)]
    elif qual == "wallet_utils.Bip32Path.is_private":
        out += [(v,) for v in ("m", "M", "", "mm", "x", None, 0)]
    elif qual in ("script.p2pkh_script", "script.p2sh_script", "script.p2wpkh_script", "script.p2wsh_script"):
        for L in (0, 1, 19, 20, 21, 32, 33, 75, 76):
            out.append((rb(L),))
        out += [(rb(20),) for _ in range(n // 4)] + [(5,), (None,), ("ab",), ([1, 2],)]
    elif qual in ("bip85.BIP85DeterministicEntropy.hex", "bip85.BIP85DeterministicEntropy.bip39_mnemonic", "bip85.BIP85DeterministicEntropy.pwd"):
        from btc_hd_wallet.bip85 import BIP85DeterministicEntropy
        from btc_hd_wallet.bip32 import PrvKeyNode
        objs = [BIP85DeterministicEntropy(PrvKeyNode.master_key(bytes([i]) * 32), testnet=bool(i % 2)) for i in (1, 2)]
        H = 2 ** 31
        idx = [0, 1, H - 1, H, -1, 2 ** 32, rng.randrange(0, H), rng.randrange(0, 1000)]
        if qual.endswith("pwd"):
            for nb in (19, 20, 21, 43, 85, 86, 87, 88, 0, -1, rng.randrange(20, 87)):
                for i in idx[: (8 if nb in (20, 86) else 3)]:
                    out.append((rng.choice(objs), nb, i))
            out += [(objs[0], 21, True), (objs[0], "21", 0)]
        elif qual.endswith("hex"):
            for nb in (15, 16, 17, 32, 63, 64, 65, 0, -1, rng.randrange(16, 65)):
                for i in idx[: (8 if nb in (16, 64) else 3)]:
                    out.append((rng.choice(objs), nb, i))
            out += [(objs[0], 32, True), (objs[0], "32", 0)]
        else:
            for wc in (12, 15, 18, 21, 24, 0, 13, 11, 25, -12):
                for i in idx[: (8 if wc in (12, 24) else 2)]:
                    out.append((rng.choice(objs), wc, i))
    elif qual == "bip39.bip39_seed_from_mnemonic":
        ms = ["abandon abandon abandon abandon abandon abandon abandon abandon abandon abandon abandon about", "", " lead  trail ", "ABC def",
              "\u3042\u3044\u3053\u304f\u3057\u3093", "\u304c", "\u304b\u3099", "caf\u00e9", "cafe\u0301", "\ufb01 \u2460 \u00bd", "a\u00a0b", "a\u3000b", "\u212b", "\U0001f600 x",
              "x\u0301\u0323", "x\u0323\u0301", "\u1e9b\u0323", "\ud55c\uae00", "tab\there", "nul\x00byte"]
        ps = ["", "TREZOR", "p\u00e4ss", "pa\u0308ss", " ", "\u30e1\u30fc\u30c8\u30eb", "\u33a1", "mnemonic", "\U0001f511", "\ufb03"]
        for m in ms:
            out.append((m, rng.choice(ps)))
        for p_ in ps:
            out.append((rng.choice(ms), p_))
        # (every parameter is passed: defaults are resolved by the translator at call sites, not by the interpreter's entry point)
        out += [("a", None), (None, "a"), (b"a", "b"), ("a", b"b"), ("\ud800", ""), ("a", "\udfff")]
    elif qual == "bip39.mnemonic_from_entropy_bits":
        for b in (128, 160, 192, 224, 256):
            out += [(b,)] * max(3, n // 8)
        out += [(0,), (127,), (129,), (64,), (512,), (-128,), (8,), (136,), (True,), ("128",), (None,)]
    elif qual in ("keys.PrivateKey.__bytes__", "keys.PrivateKey.wif"):
        from btc_hd_wallet.keys import PrivateKey
        NN = 0xFFFFFFFFFFFFFFFFFFFFFFFFFFFFFFFEBAAEDCE6AF48A03BBFD25E8CD0364141
        ks = [1, 2, NN - 1, 2 ** 255, 2 ** 248 - 1, 2 ** 240, 255, rng.randrange(1, 2 ** 200)] + [rng.randrange(1, NN) for _ in range(max(4, n // 4))]
        for k in ks:
            key = PrivateKey(k.to_bytes(32, "big"))
            if qual.endswith("wif"):
                for c in (True, False):
                    for t in (True, False):
                        out.append((key, c, t))
            else:
                out.append((key,))
        if qual.endswith("wif"):
            key = PrivateKey((7).to_bytes(32, "big"))
            out += [(key, 1, 0), (key, None, None), (key, "x", ""), (key, 0, 2)]
    elif qual == "script.Script.__init__":
        out += [(None,), ([],), ([1, rb(20), 2],), ([rb(3)],), ((1, 2),), (5,), ("x",), ([None],)]
        for _ in range(n // 4):
            out.append(([rng.choice([rng.randrange(0, 256), rb(rng.randrange(0, 40))]) for _ in range(rng.randrange(0, 6))],))
    elif qual in ("script.Script.raw_serialize", "script.Script.serialize"):
        from btc_hd_wallet.script import Script
        for L in (0, 1, 2, 74, 75, 76, 77, 254, 255, 256, 257, 519, 520, 521, 600):
            out.append((Script([rb(L)]),))
        for o in (0, 1, 75, 76, 77, 78, 79, 80, 81, 96, 118, 169, 172, 255, 256, -1, 1000):
            out.append((Script([o]),))
        for b in (0x00, 0x01, 0x10, 0x51, 0x60, 0x81, 0xff):
            out.append((Script([bytes([b])]),))
        for _ in range(n):
            cmds = []
            for _ in range(rng.randrange(0, 6)):
                cmds.append(rng.choice([rng.randrange(0, 256), rb(rng.choice([1, 2, 20, 32, 33, 75, 76, 255, 256, 520])), rb(rng.randrange(0, 80))]))
            out.append((Script(cmds),))
        out += [(Script([]),), (Script(),), (Script([rb(255)] * 260),), (Script([True]),), (Script([5, rb(521), 300]),), (Script([300, rb(521)]),)]
    else:
        raise KeyError(qual)
    return out


class PySemProp(BaseProp):
    exec_modules = ["Exec.PySem"]
    exec_import = "From BHW Require Import Lib.Base Exec.Common Py.Interp Exec.PySem.\nFrom Coq Require Import String.\nOpen Scope string_scope."
    shard = 120
    second_pass = False
    rule = ("PySem: every translated function (gen/PyAst.v) is run by the MiniPy interpreter inside Coq on the arguments the real "
            "function was called with under CPython (valid, boundary and malformed streams per function); value or exception class must coincide.")

    def __init__(self, prop_id, funcs):
        self.id = prop_id
        self.funcs = funcs

    def corpus(self):
        return []

    def gen_cases(self, rng, tier):
        cases = []
        for q in self.funcs:
            for args in gen_args(rng, q, tier):
                c = {"kind": "Sem:" + q.split(".")[-1], "f": q, "args": [jval(a) for a in args]}
                if q == "bip39.mnemonic_from_entropy_bits":
                    c["force"] = [None, "zero", "ones", "top", "low", None][len(cases) % 6]
                cases.append(c)
        return cases

    def run_impl(self, case):
        parts = case["f"].split(".")
        m = importlib.import_module("btc_hd_wallet." + parts[0])
        target = m
        for part in parts[1:]:
            if part == "__init__":
                break                                # the constructor: the class itself is called
            nxt = getattr(target, part)
            if isinstance(nxt, property):
                nxt = nxt.fget
            target = nxt          # module function, static / class method, property getter, or plain function of a class (self passed first)
        args = [unj(a) for a in case["args"]]
        rec = Recorder()
        ent_log = None
        if parts[0] == "bip85" and parts[-1] in ("hex", "bip39_mnemonic", "pwd"):
            # the external primitive entropy(path): logged, and handed to the interpreter as a table
            from btc_hd_wallet.bip85 import BIP85DeterministicEntropy as _B
            ent_log = []
            _orig = _B.entropy
            def _logged(self_, path):
                try:
                    v = _orig(self_, path)
                except Exception:
                    ent_log.append((path, None))
                    raise
                ent_log.append((path, v))
                return v
            _B.entropy = _logged
        rng_log = None
        if case["f"] == "bip39.mnemonic_from_entropy_bits":
            # the external primitive random.getrandbits of the module-level SystemRandom object: logged (driver-chosen corner answers
            # every few cases: 0, all ones, top bit only, leading zero bytes), and handed to the interpreter as a table
            import btc_hd_wallet.bip39 as _b39
            rng_log = []
            _rng = _b39.random
            forced = case.get("force")
            class _Proxy(object):
                def getrandbits(self_, k):
                    v = _rng.getrandbits(k)
                    if forced == "zero":
                        v = 0
                    elif forced == "ones":
                        v = (1 << k) - 1 if isinstance(k, int) and k > 0 else v
                    elif forced == "top":
                        v = 1 << (k - 1) if isinstance(k, int) and k > 0 else v
                    elif forced == "low":
                        v = v & 0xFFFF
                    rng_log.append((k, v))
                    return v
                def __getattr__(self_, name):
                    return getattr(_rng, name)
            _b39.random = _Proxy()
        try:
            with rec.installed():
                try:
                    r = ("val", target(*args))
                except Exception as e:
                    r = ("exc", type(e).__name__)
        finally:
            if ent_log is not None:
                _B.entropy = _orig
            if rng_log is not None:
                _b39.random = _rng
        if r[0] == "val":
            try:
                exp = "(Val %s)" % cval(r[1])
                shown = jval(r[1])
            except TypeError:
                return {"skip": "result outside MiniPy", "err": False}
        else:
            if r[1] not in EXN:
                return {"skip": "exception class outside MiniPy: " + r[1], "err": True}
            exp = "(Exc %s)" % r[1]
            shown = {"raises": r[1]}
        out = {"exp": exp, "shown": shown, "sha": rec.sha_table(), "err": r[0] == "exc"}
        if case["f"] == "bip39.bip39_seed_from_mnemonic":
            # the logged external primitives unicodedata.normalize / hashlib.pbkdf2_hmac as a table for the interpreter
            ents = []
            try:
                for (form, st), res in rec.nfkd.items():
                    if form == "NFKD":
                        ents.append('("bip39.unicodedata.normalize_nfkd", [%s], Val %s)' % (cval(st), cval(res)))
                for (name, pw, salt, rounds, dklen), res in rec.pbkdf2.items():
                    if name == "sha512" and dklen is None:
                        ents.append('("bip39.hashlib.pbkdf2_hmac_sha512", [%s;%s;%s], Val %s)' % (cval(pw), cval(salt), cval(rounds), cval(res)))
            except TypeError:
                return {"skip": "external call outside MiniPy", "err": False}
            out["tbl"] = "[%s]" % ";".join(ents)
        if rng_log is not None:
            out["rng"] = "[%s]" % ";".join("(%s, %s)" % (cz(k), cz(v)) for k, v in rng_log if isinstance(k, int) and not isinstance(k, bool))
        if ent_log is not None:
            out["ent"] = "[%s]" % ";".join("([%s], %s)" % (";".join(str(ord(c)) for c in pth), ('(Some "%s")' % v.hex()) if v is not None else "None")
                                         for pth, v in ent_log if isinstance(pth, str))
        return out

    def coq_term(self, case, obs):
        if obs.get("skip"):
            # evaluated as a trivially passing case: the function was called outside the fragment's domain
            return '(Sem [] "" [] (Val VNone))' if False else '(Sem [] "bech32.bech32_hrp_expand" [VStr []] (Val (VList [VInt 0])))'
        if "tbl" in obs:
            return '(SemT %s %s "%s" [%s] %s)' % (obs["sha"], obs["tbl"], case["f"], ";".join(cval(unj(a)) for a in case["args"]), obs["exp"])
        if "rng" in obs:
            return '(SemR %s %s "%s" [%s] %s)' % (obs["sha"], obs["rng"], case["f"], ";".join(cval(unj(a)) for a in case["args"]), obs["exp"])
        if "ent" in obs:
            return '(SemE %s %s "%s" [%s] %s)' % (obs["sha"], obs["ent"], case["f"], ";".join(cval(unj(a)) for a in case["args"]), obs["exp"])
        return '(Sem %s "%s" [%s] %s)' % (obs["sha"], case["f"], ";".join(cval(unj(a)) for a in case["args"]), obs["exp"])

    def nontrivial_key(self, case, obs):
        import json
        if obs.get("skip"):
            return None
        return json.dumps([case, obs.get("shown")], sort_keys=True, default=str)

    def sample_repr(self, case, obs):
        return {"case": case, "impl": obs.get("shown", obs.get("skip"))}
