"""Shared driver for the wallet-level properties (C06, C14, C15, C16): Gen / Par / Was / Watch / WatchPriv cases."""
import json
from props.base import BaseProp
from props.bip32fam import c_oracles, c_path
from oracle import Recorder
from run import zs, cres, cbool

H = 2 ** 31
PUBV = {False: [0x0488B21E, 0x049d7cb2, 0x04b24746], True: [0x043587CF, 0x044a5262, 0x045f1cf6]}


def tree(o):
    if o is None:
        return "TNone"
    if isinstance(o, str):
        return "(TStr %s)" % zs(o)
    if isinstance(o, (list, tuple)):
        return "(TList [%s])" % ";".join(tree(x) for x in o)
    if isinstance(o, dict):
        return "(TDict [%s])" % ";".join("(%s, %s)" % (zs(str(k)), tree(v)) for k, v in o.items())
    return "(TStr %s)" % zs(str(o))


def c_wspec(w):
    opt = lambda s: "None" if s is None else "(Some %s)" % zs(s)
    return '{| ws_seed := "%s"; ws_testnet := %s; ws_mnemonic := %s; ws_password := %s |}' % (
        w["seed"], cbool(w["testnet"]), opt(w.get("mnemonic")), opt(w.get("password")))


def build_wallet(w):
    from btc_hd_wallet.paper_wallet import PaperWallet
    if w.get("mnemonic") is not None:
        return PaperWallet.from_mnemonic(mnemonic=w["mnemonic"], password=w["password"], testnet=w["testnet"])
    return PaperWallet.from_bip39_seed_bytes(bip39_seed=bytes.fromhex(w["seed"]), testnet=w["testnet"])


def wspec_from_mnemonic(mn, pw, testnet):
    from btc_hd_wallet.bip39 import bip39_seed_from_mnemonic
    return {"seed": bip39_seed_from_mnemonic(mn, pw).hex(), "testnet": testnet, "mnemonic": mn, "password": pw}


def node_view(w, nd):
    return {"addrs": [w.p2pkh_address(nd), w.p2wpkh_address(nd), w.p2sh_p2wpkh_address(nd), w.p2wsh_address(nd), w.p2sh_p2wsh_address(nd)],
            "sec": nd.public_key.sec().hex(), "chain": nd.chain_code.hex(), "depth": str(nd.depth), "index": str(nd.index),
            "pfpr": nd.parent_fingerprint.hex()}


class WalletProp(BaseProp):
    exec_modules = ["Exec.WalletE"]
    exec_import = "From BHW Require Import Lib.Base Exec.Common Exec.Bip32E Model.PaperWallet Exec.WalletE.\nFrom Coq Require Import String.\nOpen Scope string_scope."
    shard = 1
    extra_trusted = ["Exec/Secp256k1.v executable curve (evaluation only)", "json.dumps / json.loads (the JSON text is parsed back by the driver and compared as data)"]

    # ---------------------------------------------------------------- execution
    def run_impl(self, case):
        k = case["kind"]
        if k == "Gen":
            rec = Recorder()
            with rec.installed():
                try:
                    w = build_wallet(case["w"])
                    for (pa, plo, phi) in case.get("pre", []):                  # earlier requests on the same wallet object
                        w.generate(account=pa, interval=(plo, phi))
                    data = w.generate(account=case["account"], interval=(case["lo"], case["hi"]))
                    jr = json.loads(w.json(data=data)) == json.loads(json.dumps(data)) and json.loads(w.json(data=data, indent=4)) == json.loads(json.dumps(data))
                except Exception:
                    data, jr = None, True
            return {"ob": data, "json_rt": jr, "or": c_oracles(rec), "err": data is None}
        if k == "Par":
            from btc_hd_wallet.__main__ import paranoia_mode
            data = case["data"]
            if isinstance(data, dict) and data.get("__generate__"):
                g = data["__generate__"]
                w = build_wallet(g["w"])
                data = w.generate(account=g["account"], interval=(g["lo"], g["hi"]))
            rec = Recorder()
            with rec.installed():
                try:
                    out = paranoia_mode(data)
                except Exception:
                    out = None
                # give the Coq-side private-key detector the checksums it needs: decode every leaf once
                from btc_hd_wallet.helper import decode_base58_checksum

                def walk(t):
                    if isinstance(t, str):
                        try:
                            decode_base58_checksum(t)
                        except Exception:
                            pass
                    elif isinstance(t, (list, tuple)):
                        [walk(x) for x in t]
                    elif isinstance(t, dict):
                        [walk(x) for x in t.values()]
                walk(out)
            return {"data": data, "ob": out, "sha": rec.sha_table(), "err": out is None}
        if k == "Was":
            rec = Recorder()
            with rec.installed():
                try:
                    w = build_wallet(case["w"])
                    t = json.loads(w.wasabi_json())
                except Exception:
                    t = None
            return {"ob": t, "or": c_oracles(rec), "err": t is None}
        if k == "WasX":
            from btc_hd_wallet.paper_wallet import PaperWallet
            rec = Recorder()
            with rec.installed():
                full = build_wallet(case["w"])
                xprv = full.master.extended_private_key(version=case["v"])
                try:
                    t = json.loads(PaperWallet.from_extended_key(xprv).wasabi_json())
                except Exception:
                    t = None
            return {"xprv": xprv, "ob": t, "or": c_oracles(rec), "err": t is None}
        if k == "Watch":
            from btc_hd_wallet.base_wallet import BaseWallet
            rec = Recorder()
            with rec.installed():
                full = build_wallet(case["w"])
                if case.get("export_node"):
                    # the exported node sits at a depth no practical path reaches (depth byte 128..255): built directly
                    from btc_hd_wallet.bip32 import PrvKeyNode
                    en = case["export_node"]
                    exp = PrvKeyNode(key=bytes.fromhex(en["key"]), chain_code=bytes.fromhex(en["chain"]), depth=en["depth"], index=en["index"],
                                     parent_fingerprint=bytes.fromhex(en["pfpr"]), testnet=full.testnet)
                else:
                    exp = full.master.derive_path(list(case["export"]))
                xpub = exp.extended_public_key(version=case["v"])
                try:
                    fv = node_view(full, exp.derive_path(list(case["sub"])))
                except Exception:
                    fv = None
                try:
                    wo = BaseWallet.from_extended_key(xpub)
                    for b in case.get("before", []):
                        # another watch-only wallet is created after this one, used on the same sub-path, dropped and collected
                        # before this one is used (object lifetimes are part of the history)
                        import gc
                        other = BaseWallet.from_extended_key(build_wallet(b["w"]).master.derive_path(list(b["export"])).extended_public_key(version=b["v"]))
                        for _ in range(b.get("rounds", 1)):
                            node_view(other, other.master.derive_path(list(case["sub"])))
                        del other
                        gc.collect()
                    sub = list(case["sub"])
                    form = case.get("path_form")          # the same sub-path handed over as another iterable
                    arg = {None: sub, "tuple": tuple(sub), "iter": iter(sub), "gen": (i for i in sub), "map": map(int, sub)}[form]
                    for wp in case.get("warm", []):
                        # earlier look-ups on the SAME watch-only wallet (its master node object), in the given order
                        wo.master.derive_path(list(wp))
                    if case.get("retain") is not None:
                        # one retained public node object asked for several children, in the given order, before the one observed
                        kq = case["retain"]
                        nd = wo.master.derive_path(sub[:kq])
                        for wi in case.get("warm_idx", []):
                            nd.ckd(index=wi)
                        ov = node_view(wo, nd.derive_path(sub[kq:]))
                    else:
                        ov = node_view(wo, wo.master.derive_path(arg))
                except Exception:
                    ov = None
            return {"xpub": xpub, "ob": ov, "full": fv, "or": c_oracles(rec), "err": ov is None}
        if k == "WatchGen":
            from btc_hd_wallet.base_wallet import BaseWallet
            full = build_wallet(case["w"])
            xpub = full.master.derive_path(list(case["export"])).extended_public_key(version=case["v"])
            wo = BaseWallet.from_extended_key(xpub)
            nd = wo.master.derive_path(list(case["sub"]))
            try:
                ob = [c.index for c in nd.generate_children(interval=tuple(case["interval"]))]
            except Exception:
                ob = None
            return {"ob": ob, "touches": any(i >= H for i in range(*case["interval"])), "err": ob is None}
        if k == "ParCli":
            from props.c20 import run_main, build_argv
            v = dict(case["v"], paranoia=True)
            if case.get("file"):
                import tempfile, os, shutil
                d = tempfile.mkdtemp(prefix="c15_")
                try:
                    fp = os.path.join(d, "wallet.json")
                    if case["file"] == "trailing-slash":            # passes the argument check, open() fails
                        fp = fp + "/"
                    elif case["file"] == "dangling-symlink":
                        os.symlink(os.path.join(d, "no_such_dir", "target.json"), fp)
                    code, out, err = run_main(build_argv(v, fp))
                    try:
                        out = out + "\n--file--\n" + open(fp).read()
                    except Exception:
                        pass
                finally:
                    shutil.rmtree(d, ignore_errors=True)
            else:
                code, out, err = run_main(build_argv(v))
            t = v.get("testnet", False)
            from btc_hd_wallet.paper_wallet import PaperWallet
            w = PaperWallet.from_mnemonic(v["secret"], v.get("password", ""), testnet=t)
            secrets, publics = set(), set()

            def harvest(data, pub):
                for key, sec in data.items():
                    if key in ("MASTER", "BIP85"):
                        for x in sec.values():
                            if isinstance(x, str) and x:
                                secrets.add(x)
                    else:
                        if sec["account_extended_keys"].get("prv"):
                            secrets.add(sec["account_extended_keys"]["prv"])
                        if pub:
                            publics.add(sec["account_extended_keys"]["pub"])
                        for g in sec["groups"]:
                            if g[-1]:
                                secrets.add(g[-1])
                            if pub:
                                publics.add(g[1])
            iv = v.get("interval")
            harvest(w.generate(account=int(v.get("account") or 0), interval=(int(iv[0]), int(iv[1]))), True)
            harvest(w.generate(), False)                      # what a fall-back to the defaults would print
            if code != 0:
                publics = set()                                   # a run that failed owes no output, but must not leak either
            return {"secrets": sorted(secrets), "publics": sorted(publics), "out": out, "code": code, "err": code != 0}
        if k == "NodeKeys":
            rec = Recorder()
            with rec.installed():
                try:
                    w = build_wallet(case["w"])
                    t = w.node_extended_keys(w.master.derive_path(list(case["path"])))
                except Exception:
                    t = None
            return {"ob": t, "or": c_oracles(rec), "err": t is None}
        if k == "WatchPriv":
            from btc_hd_wallet.paper_wallet import PaperWallet
            rec = Recorder()
            with rec.installed():
                full = build_wallet(case["w"])
                xpub = full.master.derive_path(list(case["export"])).extended_public_key(version=case["v"])
                try:
                    wo = PaperWallet.from_extended_key(xpub)
                    nd = wo.master.derive_path(list(case["sub"]))
                    try:
                        xprv = wo.node_extended_private_key(nd)
                    except Exception:
                        xprv = "ERR"
                    grp = {44: wo.bip44_group, 49: wo.bip49_group, 84: wo.bip84_group}[case["purpose"]]([nd])[0]
                    t = {"watch_only": str(wo.watch_only), "bip85": "None" if wo.bip85 is None else "obj", "xprv": xprv,
                         "keys": wo.node_extended_keys(nd), "row": grp}
                except Exception:
                    t = None
            return {"xpub": xpub, "ob": t, "or": c_oracles(rec), "err": t is None}
        raise ValueError(k)

    def coq_term(self, case, obs):
        k = case["kind"]
        rt = lambda t: cres(t, tree)
        if k == "Gen":
            if obs["ob"] is not None and not obs["json_rt"]:
                # JSON rendering did not parse back to the same data: encode as an impossible observation
                return "(Gen %s %s (%d) (%d) (%d) (Ok (TStr %s)))" % (obs["or"], c_wspec(case["w"]), case["account"], case["lo"], case["hi"], zs("JSON-MISMATCH"))
            return "(Gen %s %s (%d) (%d) (%d) %s)" % (obs["or"], c_wspec(case["w"]), case["account"], case["lo"], case["hi"], rt(obs["ob"]))
        if k == "Par":
            return "(Par %s %s %s)" % (obs["sha"], tree(obs["data"]), rt(obs["ob"]))
        if k == "Was":
            return "(Was %s %s %s)" % (obs["or"], c_wspec(case["w"]), rt(obs["ob"]))
        if k == "WasX":
            return "(WasX %s %s %s)" % (obs["or"], zs(obs["xprv"]), rt(obs["ob"]))
        if k == "WatchGen":
            return "(WatchGen %s %s)" % (cbool(obs["touches"]), cres(obs["ob"], lambda l: "[" + ";".join("(%d)" % i for i in l) + "]"))
        if k == "ParCli":
            return "(ParCli [%s] [%s] %s)" % (";".join(zs(x) for x in obs["secrets"]), ";".join(zs(x) for x in obs["publics"]), zs(obs["out"]))
        if k == "NodeKeys":
            return "(NodeKeys %s %s %s %s)" % (obs["or"], c_wspec(case["w"]), c_path(case["path"]), rt(obs["ob"]))
        if k == "Watch":
            return "(Watch %s %s %s %s %s %s %s)" % (obs["or"], c_wspec(case["w"]), c_path(case["export"]), zs(obs["xpub"]), c_path(case["sub"]),
                                                     rt(obs["ob"]), rt(obs["full"]))
        return "(WatchPriv %s %s %s %d %s)" % (obs["or"], zs(obs["xpub"]), c_path(case["sub"]), case["purpose"], rt(obs["ob"]))

    def nontrivial_key(self, case, obs):
        o = {k: v for k, v in obs.items() if k not in ("or", "sha")}
        return json.dumps([case, o], sort_keys=True, default=str)

    def sample_repr(self, case, obs):
        o = {k: v for k, v in obs.items() if k not in ("or", "sha", "data")}
        s = json.dumps(o, default=str)
        return {"case": case, "impl": json.loads(s) if len(s) < 3000 else {"truncated": s[:3000]}}

    # ---------------------------------------------------------------- generators
    @staticmethod
    def rand_wspec(rng, testnet, with_mnemonic=False):
        if with_mnemonic:
            from btc_hd_wallet.bip39 import mnemonic_from_entropy
            mn = mnemonic_from_entropy(bytes(rng.randrange(256) for _ in range(rng.choice([16, 32]))).hex())
            return wspec_from_mnemonic(mn, rng.choice(["", "TREZOR", "pässword"]), testnet)
        return {"seed": bytes(rng.randrange(256) for _ in range(rng.choice([16, 32, 64]))).hex(), "testnet": testnet}
