"""C16 -- mainnet and testnet artefacts never mix."""
from props.walletfam import WalletProp, H, PUBV


class Prop(WalletProp):
    id = "C16"
    theorems = ["C16_wif_tag", "C16_version_network", "C16_coin_type", "C16_address_tags", "C16_from_extended_key_network"]
    rule = ("Both networks x wallets from random seeds: generate() (every address, WIF, account extended key and coin type checked in Coq against the "
            "Spec tags of the wallet's own network), Wasabi export, and watch-only wallets re-imported from each public version prefix (their network "
            "is the prefix's; their addresses equal the full wallet's). NodeKeys: node_extended_keys on nodes whose path carries the other network's "
            "coin type or no standard purpose: both version prefixes must be the wallet's own network's. Non-trivial = distinct (case, output).")

    def gen_cases(self, rng, tier):
        T = tier == "thorough"
        cases = []
        for testnet in (False, True):
            for _ in range(2 if T else 1):
                cases.append({"kind": "Gen", "w": self.rand_wspec(rng, testnet), "account": rng.choice([0, 3]), "lo": 0, "hi": 2})
            cases.append({"kind": "Was", "w": self.rand_wspec(rng, testnet)})
            # wallets re-imported from each PRIVATE prefix of this network, then exported for Wasabi
            for v in ([0x04358394, 0x044a4e28, 0x045f18bc] if testnet else [0x0488ADE4, 0x049d7878, 0x04b2430c])[: (3 if T else 2)]:
                cases.append({"kind": "WasX", "w": self.rand_wspec(rng, testnet), "v": v})
            for v in PUBV[testnet]:
                w = self.rand_wspec(rng, testnet)
                cases.append({"kind": "Watch", "w": w, "export": [44 + H, (1 if testnet else 0) + H, H], "v": v, "sub": [0, rng.randrange(0, 50)]})
        # the SAME seed and export path on both networks in one process: identical keys, the addresses must still carry each wallet's own tags
        seed_w = self.rand_wspec(rng, False)
        for testnet in (False, True, False):
            w = dict(seed_w, testnet=testnet)
            for v in PUBV[testnet][:2]:
                cases.append({"kind": "Watch", "w": w, "export": [44 + H, H, H], "v": v, "sub": [0, 3]})
        # extended keys of nodes whose path carries the OTHER network's coin type (or no standard purpose at all)
        for testnet in (False, True):
            w = self.rand_wspec(rng, testnet)
            other = 0 if testnet else 1
            for path in ([44 + H, other + H, H], [49 + H, other + H, 7 + H], [84 + H, other + H, H, 1, 2], [H, 1 + H], [1 + H, H], []):
                cases.append({"kind": "NodeKeys", "w": w, "path": path})
        return cases
