"""C01 -- BIP32 private child derivation: correspondence driver."""
from props.bip32fam import Bip32Prop, N, H


class Prop(Bip32Prop):
    id = "C01"
    theorems = ["C01_ckd_prv_spec", "C01_index_out_of_range", "C01_derive_path_spec", "C01_serialize_private_spec",
                "C01_laws_satisfiable", "C01_valid_node_exists"]
    rule = ("Derive from private start nodes: scalars random / 1 / n-1 / 1-4 leading zero bytes / near n, 32- and 33-byte stored keys, "
            "depths 0/1/254/255, both networks, indexes 0,1,2^31-1,2^31,2^31+1,2^32-1,random and out-of-range (-1, 2^32), paths of length 0..5; "
            "PRF substituted on the last step so that the child scalar is n-1, 1, < 2^224, IL has leading zeros, and IL + k = n (invalid), IL = n, 2^256-1. "
            "Each case: model (Coq, executable secp256k1) vs implementation on key, chain code, depth, index, parent fingerprint, xprv and xpub strings, "
            "plus Spec.derive_prv / ser_prv / ser_pub evaluated by Coq on the implementation's output. Non-trivial = distinct (case, output).")

    def gen_cases(self, rng, tier):
        cases = []
        T = tier == "thorough"
        idxs = [0, 1, H - 1, H, H + 1, 2 ** 32 - 1]
        kinds = ["rand", "one", "nm1", "lz1", "lz2", "lz4", "near_n", "rand"]
        # single steps over parents x indexes
        for j, kind in enumerate(kinds * (3 if T else 1)):
            k = self.rand_scalar(rng, kind)
            st = self.start_prv(rng, k, stored33=(j % 3 == 1), depth=rng.choice([0, 1, 3, 254]), index=rng.choice([0, 5, H + 2]),
                                testnet=(j % 2 == 1), pfpr=None if j % 4 == 0 else bytes(rng.randrange(256) for _ in range(4)).hex())
            for i in ([idxs[j % len(idxs)], rng.randrange(0, 2 ** 32)] if not T else idxs + [rng.randrange(0, 2 ** 32)]):
                cases.append({"kind": "Derive", "start": st, "path": [i]})
        # multi-level paths
        for L in ([0, 2, 3, 5] if not T else [0, 1, 2, 3, 4, 5, 6, 8]):
            for _ in range(1 if not T else 3):
                st = self.start_prv(rng, self.rand_scalar(rng, rng.choice(kinds)), stored33=rng.random() < 0.3,
                                    depth=rng.choice([0, 2]), testnet=rng.random() < 0.5)
                path = [rng.choice([rng.randrange(0, H), rng.randrange(H, 2 ** 32), 0, H, 44 + H]) for _ in range(L)]
                cases.append({"kind": "Derive", "start": st, "path": path})
        # the last step taken through generate_children (intervals that cross 2^31: hardened and normal children in one batch,
        # ascending / descending / strided) and through ckd after other children were requested from the same parent
        for j, tgt in enumerate([H, H + 1, H - 1, H - 2] + ([H + 3, H - 5] if T else [])):
            for iv in self.straddling_intervals(tgt)[: (3 if T else 2)] if j < 2 or T else self.straddling_intervals(tgt)[:1]:
                st = self.start_prv(rng, self.rand_scalar(rng, ["rand", "lz1", "nm1"][j % 3]), stored33=(j % 2 == 1), testnet=(j % 2 == 0))
                path = ([] if j % 2 == 0 else [rng.choice([0, H + 44])]) + [tgt]
                cases.append({"kind": "Derive", "start": st, "path": path, "via": {"gen": iv}, "note": "last step via generate_children%r" % (iv,)})
        for hist, tgt in ([[7, 2], 2], [[H + 1, 0, H + 1], 0], [[3, H, 0, 3], H]):
            st = self.start_prv(rng, self.rand_scalar(rng, "rand"))
            cases.append({"kind": "Derive", "start": st, "path": [tgt], "via": {"history": hist}, "note": "after ckd history %r" % (hist,)})
        # out of domain: index out of range, depth 255 parent
        st = self.start_prv(rng, self.rand_scalar(rng, "rand"))
        cases.append({"kind": "Derive", "start": st, "path": [-1]})
        cases.append({"kind": "Derive", "start": st, "path": [2 ** 32]})
        cases.append({"kind": "Derive", "start": self.start_prv(rng, self.rand_scalar(rng, "rand"), depth=255), "path": [0]})
        # PRF substitution on the last step
        subs = [("ki", N - 1), ("ki", 1), ("ki", rng.randrange(1, 2 ** 200)), ("ki", 0),
                ("il", N), ("il", 2 ** 256 - 1), ("il", rng.randrange(1, 2 ** 100)), ("il", N - 1), ("il", 0), ("il", N + 1)]
        if T:
            subs += [("ki", 2), ("ki", rng.randrange(1, 2 ** 224)), ("il", N + rng.randrange(2, 2 ** 20)), ("il", 1)]
        for j, (what, v) in enumerate(subs):
            st = self.start_prv(rng, self.rand_scalar(rng, ["rand", "nm1", "one", "lz2"][j % 4]), stored33=(j % 2 == 0))
            path = [rng.choice([0, H, 7, H + 9])] if j % 3 else [rng.randrange(0, 2 ** 32), rng.choice([1, H + 1])]
            stub = self.stub_for_last_step(st, path, rng, **{what: v})
            cases.append({"kind": "Derive", "start": st, "path": path, "stub": stub, "note": "%s=%s" % (what, hex(v))})
            if j in (0, 3, 4, 6):
                cases.append({"kind": "Derive", "start": st, "path": path, "stub": stub, "via": {"gen": [path[-1], path[-1] + 2]},
                              "note": "%s=%s, last step via generate_children" % (what, hex(v))})
        return cases
