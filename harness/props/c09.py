"""C09 -- WIF / SEC round trips and rejection of out-of-range keys: correspondence driver."""
from props.base import BaseProp
from props.bip32fam import N, pubkey_of_scalar
from oracle import Recorder
from run import zs, cres, cbool

P = 2 ** 256 - 2 ** 32 - 977


def q(x):
    return '"%s"' % x


class Prop(BaseProp):
    id = "C09"
    theorems = ["C09_privkey_accepts_iff", "C09_privkey_int_accepts_iff", "C09_sec_roundtrip", "C09_wif_first_char",
                "C09_from_wif_wif", "C09_laws_satisfiable"]
    exec_modules = ["Exec.C09"]
    extra_modules = {"C09Src": ["C09_source_wif_is_model", "C09_source_wif_roundtrip", "C09_source_translated"]}
    pysem_funcs = ["keys.PrivateKey.__bytes__", "keys.PrivateKey.wif"]
    exec_import = "From BHW Require Import Lib.Base Exec.Common Exec.C09.\nFrom Coq Require Import String.\nOpen Scope string_scope."
    shard = 6
    rule = ("PrivB/PrivI: scalars 1, 2, n-1, powers of two, leading-zero, random (accepted) and 0, n, n+1, 2^256-1, negative, byte strings of length 0..40 "
            "(rejected); Wif: the four flavours for such keys, from_wif of the result; FromWif: mutated / foreign WIF strings (wrong suffix byte, "
            "wrong length, prefix mismatch); Sec: compressed/uncompressed/raw/hybrid encodings of valid points, wrong prefix bytes, wrong lengths, "
            "x with no square root, x >= p, off-curve (x, y). Non-trivial = distinct (case, output).")
    extra_trusted = ["Exec/Secp256k1.v executable curve (evaluation only); rejection of malformed SEC input is python-ecdsa behaviour, "
                     "tied only by this correspondence (not a theorem)"]

    def gen_cases(self, rng, tier):
        T = tier == "thorough"
        cases = []
        good = [1, 2, N - 1, N - 2, 2 ** 255, 2 ** 128, 2 ** 8, rng.randrange(1, 2 ** 200), rng.randrange(1, 2 ** 240)] + \
               [rng.randrange(1, N) for _ in range(20 if T else 4)]
        bad = [0, N, N + 1, 2 ** 256 - 1]
        for k in good + bad:
            cases.append({"kind": "PrivB", "b": k.to_bytes(32, "big").hex()})
            cases.append({"kind": "PrivI", "k": k})
        for k in (-1, 2 ** 256, 2 ** 300):
            cases.append({"kind": "PrivI", "k": k})
        for L in (range(0, 41) if T else [0, 1, 16, 31, 33, 40]):
            if L != 32:
                cases.append({"kind": "PrivB", "b": bytes(rng.randrange(1, 256) for _ in range(L)).hex()})
        cases.append({"kind": "PrivB", "b": ("00" + (5).to_bytes(32, "big").hex())})
        # wrong-length encodings of scalars that were accepted (as 32 bytes) earlier in this process
        for k in good[:6]:
            k32 = k.to_bytes(32, "big")
            cases.append({"kind": "PrivB", "b": ("00" + k32.hex())})
            cases.append({"kind": "PrivB", "b": ("00" * 8 + k32.hex())})
            if k32[0] == 0:
                cases.append({"kind": "PrivB", "b": k32.lstrip(b"\x00").hex()})
                cases.append({"kind": "PrivB", "b": k32[1:].hex()})
        # the same byte strings through the other byte constructor, PrivateKey.parse: every PrivB case so far, plus 33-byte strings that
        # carry a valid scalar behind / before a zero byte (the padded form extended keys use is NOT a private key encoding)
        extra = []
        for k in good[:6] + [rng.randrange(1, 2 ** 247)]:
            k32 = k.to_bytes(32, "big")
            extra += [("00" + k32.hex()), (k32.hex() + "00"), (k32.hex() + "01"), ("01" + k32.hex())]
        for c in list(cases):
            if c["kind"] == "PrivB":
                extra.append(c["b"])
        for b in extra:
            cases.append({"kind": "PrivB", "b": b, "via": "parse"})
        for k in good[: (len(good) if T else 7)]:
            for comp in (True, False):
                for test in (True, False):
                    cases.append({"kind": "Wif", "k": k.to_bytes(32, "big").hex(), "comp": comp, "test": test})
        # foreign / mutated WIF strings
        from btc_hd_wallet.helper import encode_base58_checksum
        k = rng.randrange(1, N).to_bytes(32, "big")
        wifs = [encode_base58_checksum(b"\x80" + k + b"\x02"), encode_base58_checksum(b"\x80" + k + b"\x01\x01"),
                encode_base58_checksum(b"\x80" + k[:31] + b"\x01"), encode_base58_checksum(b"\xef" + k), encode_base58_checksum(b"\x80" + b"\x00" * 32 + b"\x01"),
                encode_base58_checksum(b"\x80" + N.to_bytes(32, "big")), encode_base58_checksum(b"\x00" + k + b"\x01"),
                encode_base58_checksum(b"\xb0" + k + b"\x01"), "", "K", "L1", "5", "cNJFgo1driFnPcBdBX8BrJrpxchBWXwXCvNH5SoSkdcF6JXXwHMm",
                encode_base58_checksum(b"\x80" + k + b"\x01")[:-1] + "1"]
        for s in wifs:
            cases.append({"kind": "FromWif", "s": s})
        # SEC
        for kk in good[:8 if not T else len(good)]:
            import ecdsa
            vk = ecdsa.SigningKey.from_string(kk.to_bytes(32, "big"), curve=ecdsa.SECP256k1).get_verifying_key()
            c = vk.to_string("compressed")
            u = vk.to_string("uncompressed")
            raw = vk.to_string("raw")
            hyb = vk.to_string("hybrid")
            cases += [{"kind": "Sec", "b": c.hex()}, {"kind": "Sec", "b": u.hex()}]
            if kk == good[0] or T:
                cases += [{"kind": "Sec", "b": raw.hex()}, {"kind": "Sec", "b": hyb.hex()},
                          {"kind": "Sec", "b": (bytes([5 - c[0]]) + c[1:]).hex()},          # other parity: a different valid point
                          {"kind": "Sec", "b": (b"\x04" + c[1:]).hex()}, {"kind": "Sec", "b": (b"\x05" + c[1:]).hex()},
                          {"kind": "Sec", "b": (b"\x00" + c[1:]).hex()}, {"kind": "Sec", "b": c[:-1].hex()}, {"kind": "Sec", "b": (c + b"\x00").hex()},
                          {"kind": "Sec", "b": (u[:-1] + bytes([u[-1] ^ 1])).hex()}, {"kind": "Sec", "b": (b"\x02" + u[1:]).hex()},
                          {"kind": "Sec", "b": (bytes([hyb[0] ^ 1]) + hyb[1:]).hex()}]
        # x with no square root, x >= p
        x = 5
        while pow((x ** 3 + 7) % P, (P - 1) // 2, P) == 1:
            x += 1
        cases.append({"kind": "Sec", "b": (b"\x02" + x.to_bytes(32, "big")).hex()})
        cases.append({"kind": "Sec", "b": (b"\x03" + (P + 1).to_bytes(32, "big")).hex()})
        cases.append({"kind": "Sec", "b": (b"\x02" + (2 ** 256 - 1).to_bytes(32, "big")).hex()})
        cases.append({"kind": "Sec", "b": (b"\x02" + (0).to_bytes(32, "big")).hex()})
        cases.append({"kind": "Sec", "b": ""})
        return cases

    def run_impl(self, case):
        from btc_hd_wallet.keys import PrivateKey, PublicKey
        k = case["kind"]

        def ob_priv(f):
            try:
                p = f()
                return [bytes(p).hex(), p.K.sec(True).hex(), p.K.sec(False).hex()]
            except Exception:
                return None
        if k == "PrivB":
            b = bytes.fromhex(case["b"])
            o = ob_priv((lambda: PrivateKey.parse(b)) if case.get("via") == "parse" else (lambda: PrivateKey(b)))
            return {"ob": o, "err": o is None}
        if k == "PrivI":
            o = ob_priv(lambda: PrivateKey(case["k"]))
            o2 = ob_priv(lambda: PrivateKey.from_int(case["k"]))
            return {"ob": o, "ob2": o2, "err": o is None}
        if k == "Wif":
            rec = Recorder()
            with rec.installed():
                try:
                    w = PrivateKey(bytes.fromhex(case["k"])).wif(compressed=case["comp"], testnet=case["test"])
                except Exception:
                    w = None
                back = None
                if w is not None:
                    try:
                        back = bytes(PrivateKey.from_wif(w)).hex()
                    except Exception:
                        back = None
            return {"w": w, "back": back, "sha": rec.sha_table(), "err": w is None}
        if k == "FromWif":
            rec = Recorder()
            with rec.installed():
                try:
                    back = bytes(PrivateKey.from_wif(case["s"])).hex()
                except Exception:
                    back = None
            return {"back": back, "sha": rec.sha_table(), "err": back is None}
        if k == "Sec":
            try:
                pk = PublicKey.parse(bytes.fromhex(case["b"]))
                o = [pk.sec(True).hex(), pk.sec(False).hex()]
            except Exception:
                o = None
            return {"ob": o, "err": o is None}

    def coq_term(self, case, obs):
        k = case["kind"]
        t3 = lambda o: '("%s", "%s", "%s")' % tuple(o)
        if k == "PrivB":
            return '(PrivB "%s" %s)' % (case["b"], cres(obs["ob"], t3))
        if k == "PrivI":
            return "(PrivI (%d) %s %s)" % (case["k"], cres(obs["ob"], t3), cres(obs["ob2"], t3))
        if k == "Wif":
            return '(Wif %s "%s" %s %s %s %s)' % (obs["sha"], case["k"], cbool(case["comp"]), cbool(case["test"]), cres(obs["w"], zs), cres(obs["back"], q))
        if k == "FromWif":
            return "(FromWif %s %s %s)" % (obs["sha"], zs(case["s"]), cres(obs["back"], q))
        return '(Sec "%s" %s)' % (case["b"], cres(obs["ob"], lambda o: '("%s", "%s")' % tuple(o)))

    def nontrivial_key(self, case, obs):
        import json
        o = dict(obs)
        o.pop("sha", None)
        return json.dumps([case, o], sort_keys=True)

    def sample_repr(self, case, obs):
        o = dict(obs)
        o.pop("sha", None)
        return {"case": case, "impl": o}
