"""C17 -- path strings honoured component by component or rejected: correspondence driver."""
from props.base import BaseProp
from run import zs, cres, cbool

H = 2 ** 31


def fmt(mark, path, marker="'"):
    return mark + "".join("/" + (str(i - H) + marker if i >= H else str(i)) for i in path)


def zl(l):
    return "[" + ";".join("(%d)" % x for x in l) + "]"


class Prop(BaseProp):
    id = "C17"
    theorems = ["C17_format_parse_id", "C17_marker_equiv", "C17_wrong_root_rejected", "C17_bad_component_rejected",
                "C17_empty_inner_rejected", "C17_out_of_range_rejected", "C17_by_path_is_fold_ckd", "C17_deep_path_refuted"]
    exec_modules = ["Exec.C17"]
    extra_modules = {"C17Src": ["C17_source_convert_hardened_is_model", "C17_source_component_range", "C17_source_out_of_range_raises", "C17_source_parse_is_model", "C17_source_repr_is_model", "C17_source_constructor", "C17_source_format_parse_id", "C17_source_malformed_raises", "C17_source_translated"]}
    pysem_funcs = ["wallet_utils.Bip32Path.convert_hardened", "wallet_utils.Bip32Path.is_hardened", "wallet_utils.Bip32Path.is_private",
                   "wallet_utils.list_get", "wallet_utils.Bip32Path._to_list", "wallet_utils.Bip32Path.to_list", "wallet_utils.Bip32Path.integrity_check",
                   "wallet_utils.Bip32Path.__init__", "wallet_utils.Bip32Path.m", "wallet_utils.Bip32Path.repr_hardened",
                   "wallet_utils.Bip32Path.__repr__", "wallet_utils.Bip32Path.parse"]
    exec_import = "From BHW Require Import Lib.Base Exec.Common Exec.C17.\nFrom Coq Require Import String.\nOpen Scope string_scope."
    shard = 200
    rule = ("Parse: index lists of length 0..5 over {0,1,2^31-1,2^31,2^31+1,2^32-1,random}, both markers, both roots, formatted and parsed; "
            "single-fault strings from a grammar (wrong root, junk token, empty inner token, negative / >= 2^32 / marked >= 2^31 / marked negative "
            "numbers, bare marker, hex/float literals, lenient int() forms); 6..12-level paths. ByPath: by_path(s) vs iterated ckd for valid "
            "and single-fault strings, on four wallets with different master keys alive in one process (the same strings looked up on each). Repr: str(node) of derived nodes vs the formatted path. ASCII only (Python int() also accepts non-ASCII digits "
            "and spaces, which the model does not cover). Non-trivial = distinct (case, output).")
    assumptions = ["Python int() is modelled for ASCII input only"]

    def gen_cases(self, rng, tier):
        T = tier == "thorough"
        cases = []
        vals = [0, 1, H - 1, H, H + 1, 2 ** 32 - 1, 44 + H, 84 + H]
        paths = [[]]
        for L in range(1, 6):
            for _ in range(30 if T else 8):
                paths.append([rng.choice(vals + [rng.randrange(0, 2 ** 32)]) for _ in range(L)])
        strings = []
        for p in paths:
            for mark in ("m", "M"):
                for mk in ("'", "h"):
                    strings.append(fmt(mark, p, mk))
        # deep paths
        deep = []
        for L in range(6, 13):
            deep.append(fmt("m", [rng.choice([0, 1, 2, H, 7]) for _ in range(L)]))
        deep += ["m/1/2/3/4/5/6", "m/0/0/0/0/0/0", "m/0/0/0/0/0/x", "m/0/0/0/0/0/-1", "m/0/0/0/0/0/"]
        # fault grammar
        base = "m/44'/0'/1'/0/5"
        faults = []
        toks = ["-1", "-1'", "-5h", "4294967296", "2147483648'", "2147483648h", "99999999999999999999", "x", "1x", "0x10", "1.0", "1e3", "", "'", "h", "--1",
                " -1'", " -1", "\t-5h", " -2147483648'", " +3", " +3'", "\n-0'", " -7 ", "- 1", "+ 1'", "-1 '", " - 1'", "\x0b-9", "\x1f-1'", "-\t1",
                " ", "é", "1 2", "١", "-0", "+5", " 5", "5 ", "1_0", "1__0", "_1", "1_", "00", "007", "-0'", "+1'", "4294967295", "2147483647'", "٣"]
        comps = base.split("/")
        for t in toks:
            for pos in range(1, 6):
                c = list(comps)
                c[pos] = t
                faults.append("/".join(c))
            faults.append("m/" + t)
        faults += ["", "s", "x/0", "/0", "m0", "mm/0", " m/0", "m /0", "M'/0", "m//0", "m/0//0", "m/0/0//0", "m///", "m/", "m/0/", "m/0/0/0/0/0/", "0/m", "m\\0",
                   "m/0/1/2/3/4/5/6/x", "n/44'/0'",
                   # ASCII separators 28..31: str.strip() removes them but int() does not (model corrected after the PySem stream found it)
                   "m/5\x1f", "m/\x1c5", "m/5\x1f'", "m/ 5", "m/5\x0b", "m/\t5\n'", "m/5 \x1e"]
        for s in strings + deep + faults:
            if all(ord(ch) < 128 for ch in s):
                cases.append({"kind": "Parse", "s": s})
        for s in ["m/84'/0'/0'/0/0", "M/44h/1h/0h/1/5", "m/0", "m/1/2/3", "m"]:
            cases.append({"kind": "Parse", "s": s, "touch": True})
        # by_path vs iterated ckd
        for p in (paths[::7] if not T else paths[::3])[:14 if not T else 60]:
            cases.append({"kind": "ByPath", "s": fmt("m", p, rng.choice("'h")), "intended": p})
        # the same strings on other wallets of the same process (different master keys, same and other network)
        for j, p in enumerate(paths[::7][:8] + [[], [0], [44 + H, H, H, 0, 7]]):
            for wj in (1, 2, 3, 0):
                cases.append({"kind": "ByPath", "s": fmt("m", p, "'h"[j % 2]) + ("/" if j % 3 == 2 and p else ""), "intended": p, "w": wj})
        for s in ["m/-1'", "m/0/-1", "m/4294967296", "m/2147483648'", "m/x", "m//1", "x/1", "m/0/-5h", "m/1x", "m/-2147483648'"]:
            cases.append({"kind": "ByPath", "s": s, "intended": None})
        for p in paths[1::5][:12 if not T else 40]:
            cases.append({"kind": "Repr", "prv": rng.random() < 0.7, "path": [i for i in p]})
        return cases

    _wallets = {}

    def wallet(self, j=0):
        # several wallets with different master keys live in the process at once (lookups must not leak between them)
        if j not in Prop._wallets:
            from btc_hd_wallet.base_wallet import BaseWallet
            Prop._wallets[j] = BaseWallet.from_bip39_seed_bytes(bytes(range(j, j + 64)), testnet=(j == 3))
        return Prop._wallets[j]

    def run_impl(self, case):
        from btc_hd_wallet.wallet_utils import Bip32Path
        k = case["kind"]
        if k == "Parse":
            if case.get("touch"):
                # an earlier caller parsed the same text and edited ITS path object (Bip32Path is a mutable value object
                # with public fields); that must not be visible to anybody else who parses the text
                for form in (lambda: Bip32Path.parse(case["s"]), lambda: Bip32Path.parse(s=case["s"])):
                    try:
                        q = form()
                        for f_ in ("addr_index", "chain", "account", "coin_type", "purpose"):
                            if getattr(q, f_, None) is not None:
                                setattr(q, f_, getattr(q, f_) + 7)
                                break
                        q.private = not q.private
                    except Exception:
                        pass
            try:
                p = Bip32Path.parse(case["s"])
                return {"ob": [bool(p.private), p.to_list(), str(p)], "err": False}
            except Exception:
                return {"ob": None, "err": True}
        if k == "ByPath":
            w = self.wallet(case.get("w", 0))

            def o(nd):
                return [nd.key.hex(), nd.chain_code.hex(), nd.depth, nd.index]
            try:
                a = o(w.by_path(case["s"]))
            except Exception:
                a = None
            b = None
            if case["intended"] is not None:
                try:
                    nd = w.master
                    for i in case["intended"]:
                        nd = nd.ckd(index=i)
                    b = o(nd)
                except Exception:
                    b = None
            return {"byp": a, "iter": b, "err": a is None}
        if k == "Repr":
            from btc_hd_wallet.bip32 import PrvKeyNode, PubKeyNode
            w = self.wallet()
            if case["prv"]:
                nd = w.master
            else:
                nd = PubKeyNode.parse(w.master.extended_public_key())
            for i in case["path"]:
                if not case["prv"] and i >= H:
                    # public nodes cannot derive hardened children: build the chain by hand to print it
                    nd = PubKeyNode(key=nd.key, chain_code=nd.chain_code, index=i, depth=nd.depth + 1, parent=nd)
                else:
                    nd = nd.ckd(index=i)
            return {"ob": str(nd), "err": False}

    def coq_term(self, case, obs):
        k = case["kind"]
        if k == "Parse":
            return "(Parse %s %s)" % (zs(case["s"]), cres(obs["ob"], lambda o: "(%s, %s, %s)" % (cbool(o[0]), zl(o[1]), zs(o[2]))))
        if k == "ByPath":
            q = lambda o: '("%s", "%s", %d, %d)' % tuple(o)
            return "(ByPath %s %s %s %s)" % (zs(case["s"]), "None" if case["intended"] is None else "(Some %s)" % zl(case["intended"]),
                                             cres(obs["byp"], q), cres(obs["iter"], q))
        return "(Repr %s %s %s)" % (cbool(case["prv"]), zl(case["path"]), zs(obs["ob"]))

    def matches_known(self, k, rec):
        if k["id"] == "D7":
            c = rec["case"]
            return c["kind"] == "Parse" and c["s"].rstrip("/").count("/") > 5 and rec["impl"]["ob"] is not None and len(rec["impl"]["ob"][1]) == 5
        return False
