"""C06 -- paper-wallet records are mutually consistent and follow BIP44/49/84."""
from props.walletfam import WalletProp, H, wspec_from_mnemonic


class Prop(WalletProp):
    id = "C06"
    theorems = ["C06_bip_section_spec", "C06_rows_count", "C06_row_shape", "C06_account_path", "C06_account_version_slip132", "C06_generate_layout"]
    rule = ("Gen: PaperWallet.generate(account, (lo, hi)) on wallets from random seeds (16/32/64 bytes) and from mnemonics with passphrases, both "
            "networks, accounts 0, 1, 66, 2^31-1, random; intervals empty, reversed, single-row, offset near 2^31, ordinary, and requests preceded by "
            "other (out-of-order, overlapping) requests on the same wallet object; every section checked "
            "in Coq against Spec.derive_prv with the executable curve: account path/keys under the SLIP-132 version of (purpose, network), one row per "
            "index in order, WIF decodes to the key at the stated path, SEC = its compressed point, address = its P2PKH / P2SH-P2WPKH / P2WPKH; "
            "MASTER echo; JSON text parsed back; Was: Wasabi export, incl. masters whose fingerprint starts with a zero nibble / zero byte. Non-trivial = distinct (case, output).")

    def gen_cases(self, rng, tier):
        T = tier == "thorough"
        cases = []
        specs = [(False, False), (True, False), (False, True), (True, True)]
        accts = [0, 1, 66, H - 1, rng.randrange(0, H)]
        ivs = [(0, 2), (5, 5), (7, 3), (0, 1), (H - 2, H), (3, 5), (rng.randrange(0, 1000), None)]
        n = 12 if T else 5
        for j in range(n):
            testnet, mn = specs[j % 4]
            w = self.rand_wspec(rng, testnet, with_mnemonic=mn)
            lo, hi = ivs[j % len(ivs)]
            if hi is None:
                hi = lo + 2
            cases.append({"kind": "Gen", "w": w, "account": accts[j % len(accts)], "lo": lo, "hi": hi})
        # literal-directed: account numbers equal to the purpose numbers that appear in the source (44, 49, 84)
        for j, acct in enumerate([44, 49, 84] if T else [44, 49]):
            cases.append({"kind": "Gen", "w": self.rand_wspec(rng, j % 2 == 1), "account": acct, "lo": 0, "hi": 1})
        # the same wallet object asked before for other intervals of the same account (out of order, overlapping): the answer must not depend on it
        cases.append({"kind": "Gen", "w": self.rand_wspec(rng, False), "account": 0, "lo": 0, "hi": 4, "pre": [(0, 2, 4), (0, 0, 2)]})
        cases.append({"kind": "Gen", "w": self.rand_wspec(rng, True), "account": 2, "lo": 1, "hi": 4, "pre": [(2, 0, 2), (2, 1, 3), (1, 0, 3)]})
        for testnet in (False, True):
            cases.append({"kind": "Was", "w": self.rand_wspec(rng, testnet)})
        # master fingerprints with a leading zero nibble / a leading zero byte (Wasabi prints 8 hex digits)
        import hashlib, hmac as _hmac
        from props.bip32fam import pubkey_of_scalar, N
        want = {"nibble": lambda f: f[0] != 0 and f[0] < 16, "byte": lambda f: f[0] == 0}
        for j in range(4000):
            if not want:
                break
            seed = hashlib.sha256(b"c06 wasabi %d %d" % (j, rng.randrange(2 ** 32))).digest()
            il = int.from_bytes(_hmac.new(b"Bitcoin seed", seed, hashlib.sha512).digest()[:32], "big")
            if not 0 < il < N:
                continue
            f = hashlib.new("ripemd160", hashlib.sha256(pubkey_of_scalar(il)).digest()).digest()[:4]
            for name in list(want):
                if want[name](f):
                    cases.append({"kind": "Was", "w": {"seed": seed.hex(), "testnet": name == "byte"}})
                    del want[name]
        return cases
