"""C07 -- extended keys round-trip for all fields and 12 versions: correspondence driver."""
from io import BytesIO
from props.base import BaseProp
from props.bip32fam import c_start, c_oracles, make_start, pubkey_of_scalar, N
from oracle import Recorder
from run import zs, cres, cbool

VERSIONS = [0x0488B21E, 0x049d7cb2, 0x04b24746, 0x0488ADE4, 0x049d7878, 0x04b2430c,
            0x043587CF, 0x044a5262, 0x045f1cf6, 0x04358394, 0x044a4e28, 0x045f18bc]


def c_pnode(p):
    if p is None:
        return "Err"
    return '(Ok {| p_key := "%s"; p_chain := "%s"; p_depth := %d; p_index := %d; p_pfpr := "%s"; p_version := %d; p_reser := %s; p_eq := %s |})' % (
        p["key"], p["chain"], p["depth"], p["index"], p["pfpr"], p["version"], zs(p["reser"]), cbool(p["eq"]))


class Prop(BaseProp):
    id = "C07"
    theorems = ["C07_version_table_is_slip132", "C07_version_parse_inverse", "C07_versions_distinct", "C07_unknown_version_rejected",
                "C07_versions_give_111_chars", "C07_prv_roundtrip", "C07_pub_roundtrip", "C07_string_roundtrip",
                "C07_string_length_111", "C07_from_extended_key_unknown", "C07_xpub_public_only", "C07_master_serialization"]
    exec_modules = ["Exec.C07"]
    exec_import = "From BHW Require Import Lib.Base Exec.Common Exec.Bip32E Exec.C07.\nFrom Coq Require Import String.\nOpen Scope string_scope."
    shard = 4
    rule = ("Ser: nodes built from random field tuples (depth 0/1/254/255/random, index 0/2^31/2^32-1/random, random fingerprint and chain code, "
            "private scalars 1/n-1/leading-zero/random in 32- and 33-byte storage, public points of both parities) serialised under each of the 12 "
            "versions (every version every run) plus unknown versions, parsed back from str, bytes and BytesIO, re-serialised and compared with ==; "
            "FromExt: from_extended_key on the 12 flavours and on neighbours/random unknown versions, corrupted strings; "
            "Ver/VerParse: the 12 (type, bip, network) triples exhaustively and the integers around them. Non-trivial = distinct (case, output).")
    extra_trusted = ["Exec/Secp256k1.v executable curve (evaluation only)"]

    def gen_cases(self, rng, tier):
        T = tier == "thorough"
        cases = []
        rb = lambda n: bytes(rng.randrange(256) for _ in range(n))
        scalars = [1, N - 1, rng.randrange(1, 2 ** 200), rng.randrange(1, N), rng.randrange(1, N), 2]
        j = 0
        for rep in range(3 if T else 1):
            for v in VERSIONS + [0x0488B21F, 0, 0x04b24747, rng.randrange(0, 2 ** 32)]:
                prv = v in VERSIONS[3:6] + VERSIONS[9:12] or (v not in VERSIONS and j % 2 == 0)
                k = scalars[j % len(scalars)]
                depth = [0, 1, 254, 255, rng.randrange(0, 256)][j % 5]
                index = [0, 2 ** 31, 2 ** 32 - 1, rng.randrange(0, 2 ** 32)][j % 4]
                if depth == 0 and index == 0:
                    pf = None if j % 2 else "00000000"
                else:
                    pf = rb(4).hex()
                if prv:
                    kb = k.to_bytes(32, "big")
                    key = (b"\x00" + kb if j % 3 == 0 else kb).hex()
                else:
                    key = pubkey_of_scalar(k).hex()
                st = {"prv": prv, "key": key, "chain": rb(32).hex(), "depth": depth, "index": index, "testnet": j % 2 == 1, "pfpr": pf}
                cases.append({"kind": "Ser", "start": st, "v": v})
                j += 1
        # the excluded tuple (depth 0, index 0, non-zero fingerprint): model agreement only
        cases.append({"kind": "Ser", "start": {"prv": True, "key": (5).to_bytes(32, "big").hex(), "chain": rb(32).hex(), "depth": 0, "index": 0,
                                               "testnet": False, "pfpr": "deadbeef"}, "v": VERSIONS[3]})
        # public export of private nodes, as constructed and after a round trip through the xprv string
        for j, v in enumerate(VERSIONS[0:3] + VERSIONS[6:9]):
            kk = scalars[j % len(scalars)]
            kb = kk.to_bytes(32, "big")
            st = {"prv": True, "key": (b"\x00" + kb if j % 2 == 0 else kb).hex(), "chain": rb(32).hex(), "depth": [1, 0, 255][j % 3],
                  "index": [5, 0, 2 ** 31 + 1][j % 3], "testnet": j >= 3, "pfpr": None if j % 3 == 1 else rb(4).hex()}
            cases.append({"kind": "PubOfPrv", "start": st, "v": v})
        # from_extended_key
        from btc_hd_wallet.bip32 import PrvKeyNode, PubKeyNode
        from btc_hd_wallet.helper import encode_base58_checksum
        for v in VERSIONS + [0x0488B21D, 0x04358395, 0, rng.randrange(0, 2 ** 32)]:
            prv = v in VERSIONS[3:6] + VERSIONS[9:12]
            k = rng.randrange(1, N)
            nd = (PrvKeyNode if prv else PubKeyNode)(key=k.to_bytes(32, "big") if prv else pubkey_of_scalar(k), chain_code=rb(32),
                                                      index=rng.choice([0, 7, 2 ** 31]), depth=rng.choice([0, 3]), parent_fingerprint=rb(4))
            s = nd.extended_private_key(version=v) if prv else nd.extended_public_key(version=v)
            cases.append({"kind": "FromExt", "s": s})
            if v == VERSIONS[0]:
                cases.append({"kind": "FromExt", "s": s[:-1] + ("1" if s[-1] != "1" else "2")})
                cases.append({"kind": "FromExt", "s": s[:50]})
                cases.append({"kind": "FromExt", "s": encode_base58_checksum(bytes.fromhex("0488b21e") + rb(30))})
        for kt in (0, 1):
            for bip in (0, 1, 2):
                for net in (False, True):
                    cases.append({"kind": "Ver", "kt": kt, "bip": bip, "net": net})
        for v in VERSIONS:
            for d in (-1, 0, 1):
                cases.append({"kind": "VerParse", "v": v + d})
        for v in (0, -1, 2 ** 32, rng.randrange(0, 2 ** 32)):
            cases.append({"kind": "VerParse", "v": v})
        # the same questions after the read-only queries of Version (bip, valid_version, the *_versions lists) were asked
        # about that version: asking must not change the answer
        unknown = [VERSIONS[0] + 1, VERSIONS[5] - 1, 0x02aa7ed3, 0x019da462, rng.randrange(0, 2 ** 32)]
        for v in unknown + [VERSIONS[3], VERSIONS[8]]:
            cases.append({"kind": "VerParse", "v": v, "pre": True})
        from btc_hd_wallet.helper import encode_base58_checksum as _enc
        for v in unknown[:4]:
            body = bytes([0]) + rb(4) + rb(4) + rb(32) + (b"\x02" + rb(32) if v % 2 else b"\x00" + rb(32))
            cases.append({"kind": "FromExt", "s": _enc(v.to_bytes(4, "big") + body), "pre": True})
        return cases

    def run_impl(self, case):
        from btc_hd_wallet.bip32 import PrvKeyNode, PubKeyNode
        from btc_hd_wallet.helper import decode_base58_checksum
        from btc_hd_wallet.wallet_utils import Version
        from btc_hd_wallet.base_wallet import BaseWallet
        k = case["kind"]
        if case.get("pre"):
            try:
                v0 = case["v"] if "v" in case else int.from_bytes(decode_base58_checksum(case["s"])[:4], "big")
                for q in (Version.bip, Version.valid_version):
                    try:
                        q(v0)
                    except Exception:
                        pass
                for q in (Version.mainnet_versions, Version.testnet_versions, Version.prv_versions, Version.pub_versions):
                    try:
                        v0 in q()
                    except Exception:
                        pass
            except Exception:
                pass
        if k == "Ser":
            st = case["start"]
            v = case["v"]
            rec = Recorder()
            with rec.installed():
                try:
                    nd = make_start(st)
                    ext = nd.extended_private_key(version=v) if st["prv"] else nd.extended_public_key(version=v)
                except Exception:
                    ext = None
                back = []
                if ext is not None:
                    cls = PrvKeyNode if st["prv"] else PubKeyNode
                    for form in ("str", "bytes", "stream"):
                        try:
                            arg = ext if form == "str" else (decode_base58_checksum(ext) if form == "bytes" else BytesIO(decode_base58_checksum(ext)))
                            n2 = cls.parse(arg, testnet=st["testnet"])
                            re_ = n2.extended_private_key(version=v) if st["prv"] else n2.extended_public_key(version=v)
                            back.append({"key": n2.key.hex(), "chain": n2.chain_code.hex(), "depth": n2.depth, "index": n2.index,
                                         "pfpr": n2.parent_fingerprint.hex(), "version": n2.parsed_version, "reser": re_, "eq": bool(n2 == nd)})
                        except Exception:
                            back.append(None)
            return {"ext": ext, "back": back, "or": c_oracles(rec), "err": ext is None}
        if k == "PubOfPrv":
            st = case["start"]
            rec = Recorder()
            with rec.installed():
                try:
                    nd = make_start(st)
                    direct = nd.extended_public_key(version=case["v"])
                except Exception:
                    direct = None
                try:
                    nd2 = PrvKeyNode.parse(make_start(st).extended_private_key(), testnet=st["testnet"])
                    re_ = nd2.extended_public_key(version=case["v"])
                except Exception:
                    re_ = None
            return {"direct": direct, "re": re_, "or": c_oracles(rec), "err": direct is None}
        if k == "FromExt":
            rec = Recorder()
            with rec.installed():
                try:
                    w = BaseWallet.from_extended_key(case["s"])
                    ob = [bool(w.testnet), bool(w.watch_only), w.master.key.hex(), w.master.chain_code.hex(), w.master.depth, w.master.index, bool(w.master.testnet)]
                except Exception:
                    ob = None
            return {"ob": ob, "or": c_oracles(rec), "err": ob is None}
        if k == "Ver":
            try:
                i = int(Version(case["kt"], case["bip"], case["net"]))
            except Exception:
                i = None
            back = None
            if i is not None:
                try:
                    p = Version.parse(i)
                    back = [p.key_type.value, p.bip_type.value, bool(p.testnet)]
                except Exception:
                    back = None
            return {"i": i, "back": back, "err": i is None}
        if k == "VerParse":
            try:
                p = Version.parse(case["v"])
                back = [p.key_type.value, p.bip_type.value, bool(p.testnet)]
            except Exception:
                back = None
            return {"back": back, "err": back is None}

    def coq_term(self, case, obs):
        k = case["kind"]
        tr = lambda b: "(%d, %d, %s)" % (b[0], b[1], cbool(b[2]))
        if k == "Ser":
            return "(Ser %s %s (%d) %s [%s])" % (obs["or"], c_start(case["start"]), case["v"], cres(obs["ext"], zs),
                                                 ";".join(c_pnode(p) for p in obs["back"]))
        if k == "PubOfPrv":
            return "(PubOfPrv %s %s (%d) %s %s)" % (obs["or"], c_start(case["start"]), case["v"], cres(obs["direct"], zs), cres(obs["re"], zs))
        if k == "FromExt":
            return "(FromExt %s %s %s)" % (obs["or"], zs(case["s"]), cres(obs["ob"], lambda o: '(%s, %s, "%s", "%s", %d, %d, %s)' % (
                cbool(o[0]), cbool(o[1]), o[2], o[3], o[4], o[5], cbool(o[6]))))
        if k == "Ver":
            return "(Ver %d %d %s %s %s)" % (case["kt"], case["bip"], cbool(case["net"]), cres(obs["i"], lambda i: "(%d)" % i), cres(obs["back"], tr))
        return "(VerParse (%d) %s)" % (case["v"], cres(obs["back"], tr))

    def nontrivial_key(self, case, obs):
        import json
        o = dict(obs)
        o.pop("or", None)
        return json.dumps([case, o], sort_keys=True)

    def sample_repr(self, case, obs):
        o = dict(obs)
        o.pop("or", None)
        return {"case": case, "impl": o}
