"""C02 -- public-only derivation agrees with private derivation: correspondence driver."""
from props.bip32fam import Bip32Prop, N, H, pubkey_of_scalar


class Prop(Bip32Prop):
    id = "C02"
    theorems = ["C02_ckd_pub_priv_agree", "C02_derive_pub_sound", "C02_pub_hardened_refused"]
    rule = ("PubPriv: private start nodes (random / 1 / n-1 / near n / leading-zero scalars, 32- and 33-byte stored, depth 0..5, "
            "with and without a parsed parent fingerprint, both networks); the implementation derives the same all-normal path (length 1..6, "
            "indexes 0, 1, 2^31-1, random) privately and from the public view of the start node; compared: chain code, depth, index, "
            "parent fingerprint, xpub string, and child public key = (private child key).G by the executable curve in Coq. "
            "Refusal: hardened indexes 2^31, 2^31+1, 2^32-1, random from public nodes. Non-trivial = distinct (case, output).")

    def gen_cases(self, rng, tier):
        cases = []
        T = tier == "thorough"
        kinds = ["rand", "one", "nm1", "near_n", "lz2", "rand"]
        for j, kind in enumerate(kinds * (4 if T else 1)):
            k = self.rand_scalar(rng, kind)
            st = self.start_prv(rng, k, stored33=(j % 2 == 1), depth=rng.choice([0, 1, 5]), index=rng.choice([0, 7, H + 1]),
                                testnet=(j % 3 == 0), pfpr=None if j % 2 == 0 else bytes(rng.randrange(256) for _ in range(4)).hex())
            L = [1, 2, 1, 3, 1, 4][j % 6] if not T else rng.randrange(1, 7)
            path = [rng.choice([0, 1, H - 1, rng.randrange(0, H)]) for _ in range(L)]
            cases.append({"kind": "PubPriv", "start": st, "path": path})
        # children whose public key has leading zero bytes in x (1 in 256 by chance): reached by choosing the PRF output
        kz = [k for k in range(2, 4000) if pubkey_of_scalar(k)[1] == 0][:3]
        for j, kstar in enumerate(kz):
            st = self.start_prv(rng, self.rand_scalar(rng, "rand"), stored33=(j % 2 == 0))
            path = [rng.randrange(0, H)] if j % 2 == 0 else [rng.randrange(0, H), 5]
            stub = self.stub_for_last_step(st, path, rng, ki=kstar)
            cases.append({"kind": "PubPriv", "start": st, "path": path, "stub": stub, "note": "child pubkey x has a leading zero byte"})
            cases.append({"kind": "PubPriv", "start": st, "path": path + [1], "stub": stub, "note": "parent pubkey x has a leading zero byte"})
        # parents at the deepest levels the depth byte allows (child depth 254 and 255 are valid)
        for depth, L in ((253, 1), (253, 2), (254, 1)):
            st = self.start_prv(rng, self.rand_scalar(rng, "rand"), depth=depth)
            cases.append({"kind": "PubPriv", "start": st, "path": [rng.choice([0, 7, H - 1]) for _ in range(L)], "note": "parent depth %d" % depth})
        # children with tiny scalars / scalar n-1
        for kstar in (1, 2, N - 1):
            st = self.start_prv(rng, self.rand_scalar(rng, "rand"))
            path = [rng.randrange(0, H)]
            cases.append({"kind": "PubPriv", "start": st, "path": path, "stub": self.stub_for_last_step(st, path, rng, ki=kstar), "note": "ki=%d" % kstar})
        # the same child requested again after other children of the same node object (out of order, repeated), and via generate_children
        for hist, tgt in ([[7, 2], 2], [[9, 5, 9], 5], [[3, H - 1, 0, 3], 0], [[H, 4, 1], 1], [[5], 5]):
            st = self.start_prv(rng, self.rand_scalar(rng, "rand"), depth=rng.choice([0, 2]))
            cases.append({"kind": "PubPriv", "start": st, "path": [tgt], "via": {"history": hist}, "note": "after ckd history %r" % (hist,)})
            cases.append({"kind": "PubPriv", "start": st, "path": [1, tgt], "via": {"history": hist}, "note": "after ckd history %r, depth+1" % (hist,)})
        for iv, tgt in ([[0, 6], 4], [[H - 3, H], H - 1], [[5, 0, -1], 2], [[0, 9, 3], 6]):
            st = self.start_prv(rng, self.rand_scalar(rng, "rand"))
            cases.append({"kind": "PubPriv", "start": st, "path": [tgt], "via": {"gen": iv}, "note": "via generate_children%r" % (iv,)})
        # the path handed to derive_path as a tuple / one-shot iterable
        for form, path in (("iter", [0, 5]), ("gen", [3]), ("map", [1, 2, 3]), ("tuple", [7, 0])):
            st = self.start_prv(rng, self.rand_scalar(rng, "rand"))
            cases.append({"kind": "PubPriv", "start": st, "path": path, "via": {"form": form}, "note": "path as " + form})
        # refusal of hardened indexes from public-only data
        for i in [H, H + 1, 2 ** 32 - 1, rng.randrange(H, 2 ** 32)]:
            k = self.rand_scalar(rng, "rand")
            st = {"prv": False, "key": pubkey_of_scalar(k).hex(), "chain": bytes(rng.randrange(256) for _ in range(32)).hex(),
                  "depth": rng.choice([0, 2]), "index": 0, "testnet": False, "pfpr": None}
            cases.append({"kind": "DeriveRaw", "start": st, "path": [i]})
            cases.append({"kind": "PubPriv", "start": self.start_prv(rng, k), "path": [0, i]})
        return cases
