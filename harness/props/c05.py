"""C05 -- every address is the standard encoding of the right script: correspondence driver."""
import hashlib
from props.base import BaseProp
from props.bip32fam import N, pubkey_of_scalar
from oracle import Recorder
from run import zs, cres, cbool


def q(x):
    return '"%s"' % x


def c_oaddr(a):
    if a == "EXC":
        return "Err"
    return "(Ok None)" if a is None else "(Ok (Some %s))" % zs(a)


class Prop(BaseProp):
    id = "C05"
    theorems = ["C05_prefixes_are_spec", "C05_script_templates", "C05_address_spec", "C05_base58_address_decodes", "C05_ripemd_padding"]
    exec_modules = ["Exec.C05"]
    extra_modules = {"C05Src": ["C05_source_p2pkh", "C05_source_p2sh", "C05_source_segwit", "C05_source_ripemd_compress", "C05_source_ripemd160", "C05_source_script_templates", "C05_source_translated"]}
    pysem_funcs = ['helper.h160_to_p2pkh_address', 'helper.h160_to_p2sh_address', 'helper.h160_to_p2wpkh_address', 'helper.h256_to_p2wsh_address', 'helper.big_endian_to_int', 'helper.int_to_big_endian', 'ripemd.fi', 'ripemd.rol', 'ripemd.compress', 'ripemd.ripemd160', 'script.Script.__init__', 'script.p2pkh_script', 'script.p2sh_script', 'script.p2wpkh_script', 'script.p2wsh_script']
    exec_import = "From BHW Require Import Lib.Base Exec.Common Exec.Bip32E Exec.C05.\nFrom Coq Require Import String.\nOpen Scope string_scope."
    shard = 8
    rule = ("Addr: private and public-only nodes (scalars 1, n-1, random; points of both parities, x with leading zero bytes, HASH160 of the "
            "compressed / uncompressed key with a leading zero byte, private keys stored in the 33-byte parsed form) x both networks: the five "
            "BaseWallet address methods and uncompressed P2PKH; each address decoded in Coq (Base58Check / segwit) and compared with the Spec "
            "payload built from HASH160/SHA-256 of the compressed key or of the standard script. Rmd: ripemd160 on every length 0..1024 (thorough; "
            "quick: 0..200 and the 55/56/63/64/119/120/127/128 neighbourhoods) against the Coq model and OpenSSL's ripemd160 when available. "
            "Scr: the four builders on random 20/32-byte hashes, serialised at once and after the builders were used for other hashes (objects retained). Non-trivial = distinct (case, output).")
    extra_trusted = ["Exec/Secp256k1.v executable curve (evaluation only)", "OpenSSL ripemd160 (hashlib.new) as an independent reference in the correspondence run"]

    def gen_cases(self, rng, tier):
        T = tier == "thorough"
        cases = []
        ks = [1, 2, N - 1, rng.randrange(1, N), rng.randrange(1, N)]
        # find a scalar whose public x has a leading zero byte
        k = 3
        while pubkey_of_scalar(k)[1] != 0 and k < 3000:
            k += 1
        ks.append(k)
        # scalars whose HASH160 (compressed resp. uncompressed key) starts with a zero byte: two leading '1's on mainnet
        import ecdsa
        for comp in ("compressed", "uncompressed"):
            k = 3
            while k < 6000:
                vk = ecdsa.SigningKey.from_string(k.to_bytes(32, "big"), curve=ecdsa.SECP256k1).get_verifying_key()
                if hashlib.new("ripemd160", hashlib.sha256(vk.to_string(comp)).digest()).digest()[0] == 0:
                    break
                k += 1
            ks += [k, k]                   # once as a private node, once public-only
        if T:
            ks += [rng.randrange(1, N) for _ in range(12)]
        for j, k in enumerate(ks):
            for testnet in (False, True):
                if j % 2 == 0:
                    cases.append({"kind": "Addr", "prv": True, "key": k.to_bytes(32, "big").hex(), "testnet": testnet})
                else:
                    cases.append({"kind": "Addr", "prv": False, "key": pubkey_of_scalar(k).hex(), "testnet": testnet})
        # private nodes as PrvKeyNode.parse stores them: 33 bytes, 0x00 || k (what from_extended_key(xprv) hands to the address methods)
        for k in (ks[3], ks[-1], 1):
            for testnet in (False, True):
                cases.append({"kind": "Addr", "prv": True, "key": "00" + k.to_bytes(32, "big").hex(), "testnet": testnet})
        # the same points handed to PublicKey.parse in each accepted serialisation; raw x||y with x starting 02/03/04/06 looks like a prefix
        import ecdsa as _ecdsa
        special = []
        kk = 2
        while len(special) < 3 and kk < 3000:
            if pubkey_of_scalar(kk)[1] in (2, 3, 4, 6, 7):
                special.append(kk)
            kk += 1
        for j, k in enumerate([ks[0], ks[2]] + special):
            for form in ("uncompressed", "hybrid", "raw", "compressed"):
                cases.append({"kind": "Addr", "prv": False, "key": pubkey_of_scalar(k).hex(), "testnet": j % 2 == 1, "via_parse": form})
        lens = set(range(0, 201)) | {v + d for v in (55, 56, 63, 64, 119, 120, 127, 128, 183, 184, 191, 192, 247, 248, 255, 256, 511, 512, 1023, 1024) for d in (-1, 0, 1)}
        if T:
            lens |= set(range(0, 1025))
        for n in sorted(lens):
            cases.append({"kind": "Rmd", "data": bytes(rng.randrange(256) for _ in range(n)).hex()})
        for n in (0, 1, 33, 65, 100):
            cases.append({"kind": "H160", "data": bytes(rng.randrange(256) for _ in range(n)).hex()})
        for n in (20, 32, 20, 32, 0, 21, 33):
            cases.append({"kind": "Scr", "h": bytes(rng.randrange(256) for _ in range(n)).hex()})
        for n in (20, 32, 20):
            cases.append({"kind": "Scr", "h": bytes(rng.randrange(256) for _ in range(n)).hex(), "retained": True})
        return cases

    def run_impl(self, case):
        k = case["kind"]
        if k == "Addr":
            from btc_hd_wallet.bip32 import PrvKeyNode, PubKeyNode
            from btc_hd_wallet.base_wallet import BaseWallet
            rec = Recorder()
            with rec.installed():
                cls = PrvKeyNode if case["prv"] else PubKeyNode
                nd = cls(key=bytes.fromhex(case["key"]), chain_code=b"\x00" * 32, testnet=case["testnet"])
                w = BaseWallet(master=nd, testnet=case["testnet"])
                out = []
                for f in (w.p2pkh_address, w.p2wpkh_address, w.p2sh_p2wpkh_address, w.p2wsh_address, w.p2sh_p2wsh_address,
                          lambda n: n.public_key.address(compressed=False, testnet=case["testnet"], addr_type="p2pkh")):
                    try:
                        out.append(f(nd))
                    except Exception:
                        out.append("EXC")
                # one PublicKey object reused across requests, in both orders; optionally the object comes from PublicKey.parse
                # of another accepted serialisation of the same point (uncompressed, hybrid 06/07, raw x||y as python-ecdsa takes them)
                def the_key():
                    form = case.get("via_parse")
                    if not form:
                        return nd.public_key
                    from btc_hd_wallet.keys import PublicKey
                    u = nd.public_key.sec(compressed=False)
                    blob = {"uncompressed": u, "compressed": nd.public_key.sec(compressed=True),
                            "hybrid": bytes([6 + (u[-1] & 1)]) + u[1:], "raw": u[1:]}[form]
                    return PublicKey.parse(blob)
                try:
                    pk = the_key()
                    pk.address(compressed=True, testnet=case["testnet"], addr_type="p2pkh")
                    pk.address(compressed=True, testnet=case["testnet"], addr_type="p2wpkh")
                    pk.h160()
                    out.append(pk.address(compressed=False, testnet=case["testnet"], addr_type="p2pkh"))
                except Exception:
                    out.append("EXC")
                try:
                    pk = the_key()
                    pk.address(compressed=False, testnet=case["testnet"], addr_type="p2pkh")
                    pk.h160(compressed=False)
                    out.append(pk.address(compressed=True, testnet=case["testnet"], addr_type="p2pkh"))
                except Exception:
                    out.append("EXC")
            return {"ob": out, "sha": rec.sha_table(), "err": False}
        if k == "Rmd":
            from btc_hd_wallet.ripemd import ripemd160
            d = bytes.fromhex(case["data"])
            try:
                r = ripemd160(d).hex()
            except Exception:
                r = None
            try:
                o = hashlib.new("ripemd160", d).hexdigest()
            except Exception:
                o = None
            return {"repo": r, "openssl": o, "err": r is None}
        if k == "H160":
            from btc_hd_wallet.helper import hash160
            rec = Recorder()
            with rec.installed():
                try:
                    r = hash160(bytes.fromhex(case["data"])).hex()
                except Exception:
                    r = None
            return {"ob": r, "sha": rec.sha_table(), "err": r is None}
        if k == "Scr":
            from btc_hd_wallet.script import p2pkh_script, p2sh_script, p2wpkh_script, p2wsh_script
            h = bytes.fromhex(case["h"])
            out = []
            if case.get("retained"):
                # the Script objects are kept while the same builders are used for other hashes, and serialised afterwards
                objs = []
                for f in (p2pkh_script, p2sh_script, p2wpkh_script, p2wsh_script):
                    try:
                        objs.append(f(h))
                    except Exception:
                        objs.append(None)
                for f in (p2pkh_script, p2sh_script, p2wpkh_script, p2wsh_script):
                    for other in (bytes(reversed(h)), bytes((x + 1) % 256 for x in h), b"\x11" * len(h)):
                        try:
                            f(other).raw_serialize()
                        except Exception:
                            pass
                for o in objs:
                    try:
                        out.append(o.raw_serialize().hex())
                    except Exception:
                        out.append(None)
                return {"ob": out, "err": False}
            for f in (p2pkh_script, p2sh_script, p2wpkh_script, p2wsh_script):
                try:
                    out.append(f(h).raw_serialize().hex())
                except Exception:
                    out.append(None)
            return {"ob": out, "err": False}

    def coq_term(self, case, obs):
        k = case["kind"]
        if k == "Addr":
            return '(Addr %s %s "%s" %s [%s])' % (obs["sha"], cbool(case["prv"]), case["key"], cbool(case["testnet"]),
                                                  ";".join(c_oaddr(a) for a in obs["ob"]))
        if k == "Rmd":
            return '(Rmd "%s" %s %s)' % (case["data"], cres(obs["repo"], q), "None" if obs["openssl"] is None else '(Some "%s")' % obs["openssl"])
        if k == "H160":
            return '(H160 %s "%s" %s)' % (obs["sha"], case["data"], cres(obs["ob"], q))
        return '(Scr "%s" [%s])' % (case["h"], ";".join(cres(x, q) for x in obs["ob"]))

    def nontrivial_key(self, case, obs):
        import json
        o = dict(obs)
        o.pop("sha", None)
        return json.dumps([case, o], sort_keys=True)

    def sample_repr(self, case, obs):
        o = dict(obs)
        o.pop("sha", None)
        return {"case": case, "impl": o}
