"""C18 -- invalid children are reported, never returned: PRF-substitution driver."""
from props.bip32fam import Bip32Prop, N, H, pubkey_of_scalar


class Prop(Bip32Prop):
    id = "C18"
    theorems = ["C18_ckd_prv_invalid_iff", "C18_master_key_spec", "C18_ckd_pub_never_returns_invalid"]
    rule = ("HMAC replaced from outside by a chosen-output stub (by call ordinal): master key with IL = 0, 1, n-1, n, n+1, 2^256-1; "
            "private derivation (normal and hardened, 32- and 33-byte stored parents, last step of 1- and 2-level paths) with IL = n, n+1, 2^256-1, "
            "n - k_par (zero child), n - k_par +- 1, 0, n-1; public derivation with the same IL values incl. IL.G = -K_par. The returned node itself "
            "(no serialisation) is observed: raise vs (key, chain, depth, index). Spec.derive_prv / derive_pub / master evaluated in Coq decide "
            "what must raise. Non-trivial = distinct (case, output).")

    def gen_cases(self, rng, tier):
        cases = []
        T = tier == "thorough"
        ir = bytes(rng.randrange(256) for _ in range(32))
        # master
        for il in [0, 1, N - 1, N, N + 1, 2 ** 256 - 1] + ([2, N - 2, N + 12345] if T else []):
            cases.append({"kind": "Master", "seed": bytes(rng.randrange(256) for _ in range(rng.choice([16, 32, 64]))).hex(),
                          "testnet": il % 2 == 0, "stub": {"0": (il.to_bytes(32, "big") + ir).hex()}, "note": "IL=%s" % hex(il)})
            cases.append({"kind": "MasterRaw", "seed": bytes(rng.randrange(256) for _ in range(32)).hex(),
                          "testnet": il % 2 == 1, "stub": {"0": (il.to_bytes(32, "big") + ir).hex()}, "note": "raw IL=%s" % hex(il)})
        cases.append({"kind": "Master", "seed": "00" * 16, "testnet": False})
        # private derivation
        ils = ["n", "n+1", "max", "n-k", "n-k+1", "n-k-1", "0", "n-1"]
        reps = 3 if T else 1
        for rep in range(reps):
            for j, name in enumerate(ils):
                k = self.rand_scalar(rng, ["rand", "lz2", "nm1", "one", "near_n"][(j + rep) % 5])
                st = self.start_prv(rng, k, stored33=(j % 2 == 1))
                path = [rng.choice([0, 3, H, H + 5])] if (j + rep) % 2 == 0 else [rng.randrange(0, 2 ** 32), rng.choice([0, H])]
                f = {"n": lambda kp: N, "n+1": lambda kp: N + 1, "max": lambda kp: 2 ** 256 - 1, "n-k": lambda kp: N - kp,
                     "n-k+1": lambda kp: (N - kp + 1), "n-k-1": lambda kp: (N - kp - 1) % N, "0": lambda kp: 0, "n-1": lambda kp: N - 1}[name]
                stub = self.stub_for_last_step(st, path, rng, il=f)
                cases.append({"kind": "DeriveRaw", "start": st, "path": path, "stub": stub, "note": "prv IL=" + name})
                if rep == 0:
                    # the same fault injected while the child is produced by generate_children (first element of the interval)
                    hi = min(path[-1] + 3, 2 ** 32) if path[-1] != H - 1 else H + 2
                    cases.append({"kind": "DeriveRaw", "start": st, "path": path, "stub": stub, "via": {"gen": [path[-1], hi]},
                                  "note": "prv IL=%s via generate_children" % name})
        # public derivation: start = public view of a known scalar
        for rep in range(reps):
            for j, name in enumerate(ils):
                k = self.rand_scalar(rng, ["rand", "lz2", "nm1", "one"][(j + rep) % 4])
                st = {"prv": False, "key": pubkey_of_scalar(k).hex(), "chain": bytes(rng.randrange(256) for _ in range(32)).hex(),
                      "depth": rng.choice([0, 3]), "index": 0, "testnet": False, "pfpr": None}
                il = {"n": N, "n+1": N + 1, "max": 2 ** 256 - 1, "n-k": N - k, "n-k+1": N - k + 1, "n-k-1": (N - k - 1) % N, "0": 0, "n-1": N - 1}[name]
                il = il % (2 ** 256)
                tgt = rng.randrange(0, H - 4)
                cases.append({"kind": "DeriveRaw", "start": st, "path": [tgt],
                              "stub": {"0": (il.to_bytes(32, "big") + ir).hex()}, "note": "pub IL=" + name})
                if rep == 0:
                    cases.append({"kind": "DeriveRaw", "start": st, "path": [tgt], "via": {"gen": [tgt, tgt + 3]},
                                  "stub": {"0": (il.to_bytes(32, "big") + ir).hex()}, "note": "pub IL=%s via generate_children" % name})
        # the child was derived successfully from the same parent object before; then the PRF fault is installed and the same
        # index is requested again: the second request must be judged by ITS HMAC output
        for j, name in enumerate(["n", "n-k", "max"]):
            k = self.rand_scalar(rng, "rand")
            tgt = [0, H + 1, 5][j]
            st = self.start_prv(rng, k)
            il = {"n": N, "n-k": N - k, "max": 2 ** 256 - 1}[name]
            cases.append({"kind": "DeriveRaw", "start": st, "path": [tgt], "via": {"history": [tgt]},
                          "stub": {"1": (il.to_bytes(32, "big") + ir).hex()}, "note": "prv IL=%s on the second request for the same index" % name})
            stp = {"prv": False, "key": pubkey_of_scalar(k).hex(), "chain": st["chain"], "depth": 0, "index": 0, "testnet": False, "pfpr": None}
            cases.append({"kind": "DeriveRaw", "start": stp, "path": [5], "via": {"history": [5]},
                          "stub": {"1": (il.to_bytes(32, "big") + ir).hex()}, "note": "pub IL=%s on the second request for the same index" % name})
        # hardened from public
        st = {"prv": False, "key": pubkey_of_scalar(5).hex(), "chain": "11" * 32, "depth": 0, "index": 0, "testnet": False, "pfpr": None}
        cases.append({"kind": "DeriveRaw", "start": st, "path": [H]})
        return cases
