"""C19 -- script and varint wire encodings: correspondence driver."""
from io import BytesIO
from props.base import BaseProp
from run import cres


def ecmds(cmds):
    return "[" + ";".join(("EOp (%d)" % c) if isinstance(c, int) else ('EData "%s"' % c) for c in cmds) + "]"


def to_py(cmds):
    return [c if isinstance(c, int) else bytes.fromhex(c) for c in cmds]


def from_py(cmds):
    return [c if isinstance(c, int) else bytes(c).hex() for c in cmds]


class Prop(BaseProp):
    id = "C19"
    theorems = ["C19_parse_serialize", "C19_push_form", "C19_serialize_is_spec", "C19_too_long_refused", "C19_parse_accounts",
                "C19_truncation_rejected", "C19_varint_roundtrip", "C19_varint_shortest", "C19_varint_refuses"]
    exec_modules = ["Exec.C19"]
    extra_modules = {"C19Src": ["C19_source_varint_is_compact_size", "C19_source_endian", "C19_source_serialize_is_model", "C19_source_serialize_is_spec", "C19_source_too_long_refused", "C19_source_all_translated"]}
    pysem_funcs = ['helper.encode_varint', 'helper.little_endian_to_int', 'helper.int_to_little_endian', 'script.Script.raw_serialize', 'script.Script.serialize']
    exec_import = "From BHW Require Import Lib.Base Exec.Common Exec.C19.\nFrom Coq Require Import String.\nOpen Scope string_scope."
    shard = 150
    rule = ("Ser: single-element scripts for every element length 0..521 (thorough: all; quick: all boundaries and every 7th), "
            "every opcode byte 0..255, random multi-element scripts, out-of-range opcodes; Parse: every proper prefix of valid "
            "serialisations, random byte strings, hand-written truncated pushes, declared lengths off by -3..+3; Reser: legal non-minimal encodings and "
            "valid serialisations parsed, the parsed object serialised again and once more after an opcode was appended to it; Varint: boundaries 0xfc/0xfd/0xffff/0x10000/"
            "0xffffffff/2^32/2^64 +-1, negatives, random; ReadV: truncated varints. Non-trivial = distinct (input, output).")

    def gen_cases(self, rng, tier):
        cases = []
        rb = lambda n: bytes(rng.randrange(256) for _ in range(n)).hex()
        bnd = {0, 1, 2, 74, 75, 76, 77, 78, 254, 255, 256, 257, 519, 520, 521, 522, 600}
        lens = range(0, 523) if tier == "thorough" else sorted(bnd | set(range(0, 523, 7)))
        for n in lens:
            cases.append({"kind": "Ser", "cmds": [rb(n)]})
        for o in range(256):
            cases.append({"kind": "Ser", "cmds": [o]})
        # every one-byte data element (the values that have a dedicated opcode -- 0x01..0x10, 0x81 -- must still be pushed as data),
        # and short elements made of one repeated byte / opcode-looking bytes
        for o in range(256):
            cases.append({"kind": "Ser", "cmds": ["%02x" % o]})
        for o in (0x00, 0x01, 0x10, 0x4b, 0x4c, 0x4d, 0x4e, 0x4f, 0x51, 0x60, 0x81, 0xff):
            for n in (2, 3, 75, 76):
                cases.append({"kind": "Ser", "cmds": [("%02x" % o) * n]})
        for o in (-1, 256, 1000):
            cases.append({"kind": "Ser", "cmds": [o]})
        valid = []
        for _ in range(300 if tier == "thorough" else 60):
            cmds = []
            for _ in range(rng.randrange(0, 7)):
                r = rng.random()
                if r < 0.4:
                    cmds.append(rng.choice([0] + list(range(78, 256))))
                elif r < 0.85:
                    cmds.append(rb(rng.choice([1, 2, 20, 32, 33, 65, 71, 72, 73, 75, 76, 80, 255, 256, 300, 520, rng.randrange(1, 521)])))
                elif r < 0.93:
                    cmds.append(rng.choice([1, 75, 76, 77, 40]))      # opcode values that parse as pushes
                else:
                    cmds.append(rb(rng.choice([0, 521, 700])))
            cases.append({"kind": "Ser", "cmds": cmds})
            valid.append(cmds)
        cases.append({"kind": "Ser", "cmds": [rb(255)] * 260})          # raw length > 0xffff
        # parse stream: prefixes of valid serialisations
        from btc_hd_wallet.script import Script
        nvalid = 0
        for cmds in valid + [[rb(75)], [rb(76)], [rb(255)], [rb(256)], [rb(520)], [rb(255)] * 2]:
            try:
                ser = Script(to_py(cmds)).serialize()
            except Exception:
                continue
            ok = all((isinstance(c, int) and (c == 0 or 78 <= c <= 255)) or (not isinstance(c, int) and 2 <= len(c) <= 1040) for c in cmds)
            if not ok:
                continue
            nvalid += 1
            cases.append({"kind": "Parse", "inp": ser.hex(), "pp": False})
            cases.append({"kind": "Parse", "inp": (ser + b"\x00\x01").hex(), "pp": False})
            cuts = range(len(ser)) if (tier == "thorough" or len(ser) < 40) else sorted(set(rng.randrange(len(ser)) for _ in range(12)) | {0, 1, 2, len(ser) - 1, len(ser) - 2})
            if nvalid > (200 if tier == "thorough" else 25):
                cuts = [len(ser) - 1]
            for k in cuts:
                if 0 <= k < len(ser):
                    cases.append({"kind": "Parse", "inp": ser[:k].hex(), "pp": True})
        # declared length disagreeing with the bytes the commands account for (all bytes present in the stream)
        def varint(n):
            return bytes([n]) if n < 0xfd else b"\xfd" + n.to_bytes(2, "little")
        for cmds in [[rb(76)], [rb(255)], [rb(256)], [rb(300)], [81, rb(80)], [rb(2), rb(77)], [rb(20), 172], [rb(75)], [0, rb(1)]]:
            try:
                body = Script(to_py(cmds)).raw_serialize()
            except Exception:
                continue
            for d in (-3, -2, -1, 1, 2, 3):
                if len(body) + d >= 0:
                    cases.append({"kind": "Parse", "inp": (varint(len(body) + d) + body).hex(), "pp": False})
                    cases.append({"kind": "Parse", "inp": (varint(len(body) + d) + body + b"\x00\x00\x00").hex(), "pp": False})
        # the stream ends AT a PUSHDATA opcode or INSIDE its length field (any length bytes present are zero), while the declared
        # script length counts the missing bytes: nothing may be accepted
        for pre in ([], [rb(3)], [118, 169, rb(20), 136, 172]):
            try:
                body = Script(to_py(pre)).raw_serialize()
            except Exception:
                continue
            for present, missing in ((b"\x4c", 1), (b"\x4d", 2), (b"\x4d\x00", 1), (b"\x4c", 2), (b"\x4d", 1), (b"\x4d\x00", 2)):
                cases.append({"kind": "Parse", "inp": (varint(len(body) + len(present) + missing) + body + present).hex(), "pp": False})
        # a body cut at k and DECLARED k bytes long (the stream ends exactly where the script says): the last push then declares more
        # than the script has room for; also the same followed by further bytes
        for cmds in valid[: (30 if tier == "thorough" else 8)]:
            try:
                body = Script(to_py(cmds)).raw_serialize()
            except Exception:
                continue
            for k in (range(1, len(body)) if len(body) <= 40 or tier == "thorough" else list(range(1, 12)) + [len(body) - 1, len(body) - 2]):
                cases.append({"kind": "Parse", "inp": (varint(k) + body[:k]).hex(), "pp": False})
        for h in ["0305aabb", "044c50aabb", "0376a914", "054d0500aabb", "0205aa", "024c05", "034c0201", "064d0300aabb", "0305aabbccddee", "02014c"]:
            cases.append({"kind": "Parse", "inp": h, "pp": False})
        for h in ["014c00", "014c01aa", "014d0000", "024d0000", "014d000000", "024d0100aa", "004c00", "0051", "024c0051", "034d000051"]:
            cases.append({"kind": "Parse", "inp": h, "pp": False})
        for h in ["", "00", "01", "0101", "0504aa", "0201", "024c00", "024c01", "034c01", "034c01aa", "034d0100", "044d0100aa", "014c", "014d",
                  "024d01", "fd0000", "fd00", "fd", "fe000000", "fe00000000", "ff00", "fd010061", "fd0100", "03516a", "0151", "02", "0200", "020000",
                  "fd0300515151", "014f", "0100", "034b" + "00" * 2]:
            cases.append({"kind": "Parse", "inp": h, "pp": False})
        for _ in range(400 if tier == "thorough" else 80):
            n = rng.randrange(0, 12)
            body = bytes(rng.randrange(256) for _ in range(n))
            l = rng.choice([n, n, n, max(0, n - 1), n + 1, rng.randrange(0, 20)])
            cases.append({"kind": "Parse", "inp": (bytes([l]) + body).hex(), "pp": False})
        # legal but non-minimal encodings, parsed, then the parsed object serialised again (must come out in the standard minimal form)
        for h in ["034c01aa", "044d0100aa", "024c00", "034d0000", "06" + "4c01aa" + "4c01bb", "0451" + "4c01cc", "4f4d4c00" + "aa" * 76, "4e4c4c" + "bb" * 76,
                  "fd0c024d0902" + "cc" * 521, "4c4b" + "dd" * 75, "024c01", "0100", "00"]:
            cases.append({"kind": "Reser", "inp": h})
        for cmds in valid[:25]:
            try:
                cases.append({"kind": "Reser", "inp": Script(to_py(cmds)).serialize().hex()})
            except Exception:
                pass
        # varints
        vs = set()
        for b in (0, 0xfc, 0xfd, 0xfe, 0xff, 0x100, 0xffff, 0x10000, 0xffffffff, 2 ** 32, 2 ** 63, 2 ** 64 - 1, 2 ** 64, 2 ** 64 + 1, 2 ** 70):
            vs |= {b - 1, b, b + 1}
        vs |= {-1, -2, -253, -2 ** 64}
        for _ in range(200 if tier == "thorough" else 40):
            vs.add(rng.randrange(0, 2 ** rng.choice([8, 16, 17, 32, 33, 64, 65])))
        for v in sorted(vs):
            cases.append({"kind": "Varint", "i": v})
        for h in ["", "fc", "fd", "fd01", "fd0100", "fe", "fe010000", "fe01000000", "ff", "ff" + "01" * 7, "ff" + "01" * 8, "fdffff00", "00ff"]:
            cases.append({"kind": "ReadV", "inp": h})
        return cases

    def run_impl(self, case):
        from btc_hd_wallet.script import Script
        from btc_hd_wallet.helper import encode_varint, read_varint
        k = case["kind"]
        if k == "Ser":
            cmds = to_py(case["cmds"])
            try:
                raw = Script(list(cmds)).raw_serialize().hex()
            except Exception:
                raw = None
            try:
                ser = Script(list(cmds)).serialize()
            except Exception:
                ser = None
            back = None
            if ser is not None:
                try:
                    back = from_py(Script.parse(BytesIO(ser)).cmds)
                except Exception:
                    back = None
            return {"raw": raw, "ser": None if ser is None else ser.hex(), "back": back, "err": raw is None}
        if k == "Parse":
            s = BytesIO(bytes.fromhex(case["inp"]))
            try:
                sc = Script.parse(s)
                return {"r": [from_py(sc.cmds), s.tell()], "err": False}
            except Exception:
                return {"r": None, "err": True}
        if k == "Reser":
            s = BytesIO(bytes.fromhex(case["inp"]))
            try:
                sc = Script.parse(s)
            except Exception:
                return {"cmds": None, "again": None, "after": None, "err": True}
            cm = from_py(sc.cmds)
            try:
                again = sc.serialize().hex()
            except Exception:
                again = None
            try:
                sc.cmds.append(81)
                after = sc.serialize().hex()
            except Exception:
                after = None
            return {"cmds": cm, "again": again, "after": after, "err": False}
        if k == "Varint":
            try:
                e = encode_varint(case["i"])
            except Exception:
                return {"e": None, "r": None, "err": True}
            s = BytesIO(e)
            try:
                v = read_varint(s)
                r = [v, s.tell()]
            except Exception:
                r = None
            return {"e": e.hex(), "r": r, "err": False}
        if k == "ReadV":
            s = BytesIO(bytes.fromhex(case["inp"]))
            try:
                v = read_varint(s)
                return {"r": [v, s.tell()], "err": False}
            except Exception:
                return {"r": None, "err": True}

    def coq_term(self, case, obs):
        k = case["kind"]
        q = lambda x: '"%s"' % x
        if k == "Ser":
            return "(Ser %s %s %s %s)" % (ecmds(case["cmds"]), cres(obs["raw"], q), cres(obs["ser"], q), cres(obs["back"], ecmds))
        if k == "Parse":
            return '(Parse "%s" %s %s)' % (case["inp"], "true" if case["pp"] else "false",
                                           cres(obs["r"], lambda r: "(%s, %d)" % (ecmds(r[0]), r[1])))
        if k == "Reser":
            return '(Reser "%s" %s %s %s)' % (case["inp"], cres(obs["cmds"], ecmds), cres(obs["again"], q), cres(obs["after"], q))
        if k == "Varint":
            return "(Varint (%d) %s %s)" % (case["i"], cres(obs["e"], q), cres(obs["r"], lambda r: "(%d, %d)" % (r[0], r[1])))
        return '(ReadV "%s" %s)' % (case["inp"], cres(obs["r"], lambda r: "(%d, %d)" % (r[0], r[1])))

    def matches_known(self, k, rec):
        return False
