"""C14 -- watch-only wallets reproduce all public data and can never yield private data."""
from props.walletfam import WalletProp, H, PUBV


class Prop(WalletProp):
    id = "C14"
    theorems = ["C14_public_agree", "C14_addresses_public_only", "C14_no_private", "C14_hardened_refused", "C14_children_stay_public", "C14_flags"]
    rule = ("Watch: a full wallet (random seed, either network) exports the extended public key of a node at depth 0..5 under each of the six public "
            "version prefixes; the wallet rebuilt from that string derives non-hardened sub-paths of length 0..4 and its five addresses, SEC key, chain "
            "code, depth, index and fingerprint are compared with the full wallet's node below the export node (incl. sub-paths through a node whose "
            "public x coordinate starts with a zero byte); hardened sub-paths must be refused; WatchGen: generate_children with ascending, descending and stepped ranges around 2^31 "
            "never yields a child with a hardened index. "
            "WatchPriv: watch_only flag, bip85, node_extended_private_key, node_extended_keys.prv, group rows; no string in any answer may decode to "
            "a private-key encoding. Non-trivial = distinct (case, output).")

    def gen_cases(self, rng, tier):
        T = tier == "thorough"
        cases = []
        exports = [[], [44 + H], [84 + H, H, H], [49 + H, 1 + H, 5 + H, 0], [3, 4, 5, 6, 7], [H - 1, 2 ** 32 - 1]]
        j = 0
        for rep in range(2 if T else 1):
            for testnet in (False, True):
                for v in PUBV[testnet]:
                    w = self.rand_wspec(rng, testnet)
                    exp = exports[j % len(exports)]
                    sub = [rng.choice([0, 1, H - 1, rng.randrange(0, H)]) for _ in range([2, 1, 0, 3, 4][j % 5])]
                    cases.append({"kind": "Watch", "w": w, "export": exp, "v": v, "sub": sub})
                    if j % 3 == 0:
                        cases.append({"kind": "WatchPriv", "w": w, "export": exp, "v": v, "sub": sub[:2], "purpose": [44, 49, 84][j % 3 if False else (j // 3) % 3]})
                    j += 1
        # sub-paths THROUGH a publicly derivable node whose x coordinate has a leading zero byte (1 in 256): found by private derivation
        from props.walletfam import build_wallet
        for testnet, exp, v in ((False, [84 + H, H, H], PUBV[False][2 % len(PUBV[False])]), (True, [49 + H, 1 + H, H], PUBV[True][1 % len(PUBV[True])])):
            w = self.rand_wspec(rng, testnet)
            node = build_wallet(w).master.derive_path(list(exp))
            c = next((i for i in range(3000) if node.ckd(index=i).public_key.sec()[1] == 0), None)
            if c is not None:
                cases.append({"kind": "Watch", "w": w, "export": exp, "v": v, "sub": [c, rng.randrange(0, H)]})
                cases.append({"kind": "Watch", "w": w, "export": exp, "v": v, "sub": [c, 0, 1]})
        # another watch-only wallet used on the same sub-path, then dropped and garbage-collected, before this one is used
        for testnet, sub in ((False, [0, 0]), (True, [1, 5, 2]), (False, [0, 0, 0, 0])):
            w = self.rand_wspec(rng, testnet)
            b = {"w": self.rand_wspec(rng, testnet), "export": [84 + H, H, H], "v": PUBV[testnet][0], "rounds": 2}
            cases.append({"kind": "Watch", "w": w, "export": [84 + H, H, H], "v": PUBV[testnet][0], "sub": sub, "before": [b, dict(b, w=self.rand_wspec(rng, testnet))]})
        # generate_children on public-only nodes with every shape of range arguments around the hardened boundary
        w = self.rand_wspec(rng, False)
        for iv in ((H - 2, H), (H - 1, H + 1), (H, H + 1), (H + 1, H - 2, -1), (H, H - 3, -1), (H - 1, H - 4, -1), (0, 3), (3, 0, -1),
                   (H - 2, H + 3, 2), (H + 5, H + 1, -2), (2 ** 32 - 1, 2 ** 32), (0, 0), (5, 2)):
            cases.append({"kind": "WatchGen", "w": w, "export": [84 + H, H, H], "v": PUBV[False][0], "sub": [0], "interval": list(iv)})
        # export nodes whose depth byte has the high bit set (128, 200, 254) or is 127 / 255-1: metadata must survive the xpub
        for j, depth in enumerate((127, 128, 129, 200, 253)):
            testnet = j % 2 == 1
            wd = self.rand_wspec(rng, testnet)
            en = {"key": rng.randrange(1, 2 ** 255).to_bytes(32, "big").hex(), "chain": bytes(rng.randrange(256) for _ in range(32)).hex(),
                  "depth": depth, "index": rng.choice([0, 7, H + 3]), "pfpr": bytes(rng.randrange(256) for _ in range(4)).hex()}
            for sub in ([], [0], [1, 2]):
                cases.append({"kind": "Watch", "w": wd, "export": [], "export_node": en, "v": PUBV[testnet][j % 3], "sub": sub})
        # the sub-path handed to derive_path as a tuple / one-shot iterable instead of a list
        for form in ("iter", "gen", "tuple", "map"):
            cases.append({"kind": "Watch", "w": w, "export": [84 + H, H, H], "v": PUBV[False][0], "sub": [0, 3], "path_form": form})
        # call history on the watch-only side: earlier look-ups on the same wallet / several children of one retained public node object
        # asked out of order, with gaps and repeats, before the observed one (the full wallet is asked only once)
        w = self.rand_wspec(rng, False)
        a0 = rng.randrange(0, 50)
        for warm, sub in (([[0, a0], [0, a0 + 4], [0, a0 + 2]], [0, a0 + 1]), ([[1, 3], [1, 3], [1, 5]], [1, 4]), ([[0], [0, 1], [0, 1, 2]], [0, 1, 2]),
                          ([[2, 7], [2, 9], [2, 8]], [2, 8, 0])):
            cases.append({"kind": "Watch", "w": w, "export": [84 + H, H, H], "v": PUBV[False][0], "sub": sub, "warm": warm})
        for idx, last in (([a0, a0 + 4, a0 + 2], a0 + 1), ([5, 9, 7], 6), ([3, 3, 5], 4), (list(range(0, 6)) + [11, 7], 6), ([2, 1, 0], 1), ([0, 2], 1),
                          ([H - 1, H - 3, H - 2], H - 2)):
            cases.append({"kind": "Watch", "w": w, "export": [44 + H, H, H], "v": PUBV[False][0], "sub": [0, last], "retain": 1, "warm_idx": idx})
        cases.append({"kind": "Watch", "w": self.rand_wspec(rng, True), "export": [49 + H, 1 + H, H], "v": PUBV[True][1 % len(PUBV[True])], "sub": [6, 1], "retain": 0,
                      "warm_idx": [5, 9, 7]})
        w = self.rand_wspec(rng, False)
        for sub in ([H], [0, H + 1], [2 ** 32 - 1]):
            cases.append({"kind": "Watch", "w": w, "export": [44 + H, H, H], "v": PUBV[False][0], "sub": sub})
        return cases
