"""C20 -- CLI: bad arguments yield no wallet output; good ones equal the API result."""
import contextlib
import io
import json
import os
import shutil
import subprocess
import sys
import tempfile
from props.base import BaseProp
from run import zs, cres, cbool

H = 2 ** 31
CMDS = {"none": 0, "new": 1, "from-master-xprv": 2, "from-mnemonic": 3, "from-bip39-seed": 4, "from-entropy-hex": 5}


def run_main(argv):
    """Run btc_hd_wallet.__main__.main() in-process with the given argv; return (exit status, stdout, stderr)."""
    import btc_hd_wallet.__main__ as m
    out, err = io.StringIO(), io.StringIO()
    old = sys.argv
    sys.argv = ["btc_hd_wallet"] + list(argv)
    code = 0
    try:
        with contextlib.redirect_stdout(out), contextlib.redirect_stderr(err):
            try:
                m.main()
            except SystemExit as e:
                code = e.code if isinstance(e.code, int) else (0 if e.code is None else 1)
            except BaseException:
                code = 1
    finally:
        sys.argv = old
    return code, out.getvalue(), err.getvalue()


def api_result(v):
    """What the library API returns for the same source secret, network, account and interval (filtered when paranoia)."""
    from btc_hd_wallet.paper_wallet import PaperWallet
    from btc_hd_wallet.__main__ import paranoia_mode
    c = v["cmd"]
    t = v.get("testnet", False)
    pw = v.get("password", "")
    if c == "from-master-xprv":
        w = PaperWallet.from_extended_key(v["secret"])
    elif c == "from-mnemonic":
        w = PaperWallet.from_mnemonic(v["secret"].strip(), pw, testnet=t)
    elif c == "from-bip39-seed":
        w = PaperWallet.from_bip39_seed_hex(v["secret"], testnet=t)
    elif c == "from-entropy-hex":
        w = PaperWallet.from_entropy_hex(v["secret"], pw, testnet=t)
    else:
        return None
    iv = v.get("interval")
    data = w.generate(account=int(v["account"]) if v.get("account") is not None else 0,
                      interval=[int(iv[0]), int(iv[1])] if iv else [0, 20])
    if v.get("paranoia"):
        data = paranoia_mode(data)
    return data


def build_argv(v, file_path=None):
    a = []
    if file_path is not None:
        a += ["--file", file_path]
    if v.get("testnet"):
        a += ["--testnet"]
    if v.get("paranoia"):
        a += ["--paranoia"]
    if v.get("account") is not None:
        a += ["--account", v["account"]]
    if v.get("interval"):
        a += ["--interval", v["interval"][0], v["interval"][1]]
    if v["cmd"] != "none":
        a += [v["cmd"]]
        if v["cmd"] == "new":
            if v.get("mnemonic_len") is not None:
                a += ["--mnemonic-len", v["mnemonic_len"]]
        else:
            a += [v["secret"]]
        if v.get("password") and v["cmd"] in ("new", "from-mnemonic", "from-entropy-hex"):
            a += ["--password", v["password"]]
    return a


def row_paths(data):
    out = []
    if isinstance(data, dict):
        for k in ("BIP44", "BIP49", "BIP84"):
            if k in data:
                for g in data[k].get("groups", []):
                    out.append(g[0])
    return out


class Prop(BaseProp):
    id = "C20"
    theorems = ["C20_validators_sound", "C20_accepted_rows_bip44_shaped", "C20_existing_file_refused", "C20_no_command_refused"]
    exec_modules = ["Exec.C20"]
    extra_modules = {"C20Src": ["C20_source_validators_are_model", "C20_source_index_ranges", "C20_source_translated"]}
    pysem_funcs = ["__main__.value_in_interval", "__main__.address_index", "__main__.account_index", "__main__.extended_key", "__main__.mnemonic", "__main__.bip39_seed", "__main__.entropy_hex"]
    exec_import = "From BHW Require Import Lib.Base Exec.Common Model.Cli Exec.C20.\nFrom Coq Require Import String.\nOpen Scope string_scope."
    shard = 60
    rule = ("Val: each validator on strings at and around every bound (account 0 / 2^31-2 / 2^31-1 / 2^31, address index 2^31-1 / 2^31 / 2^32-2 / "
            "2^32-1, negative, non-numeric, int() leniencies; key / seed / entropy strings of length bound-1, bound, bound+1; mnemonics of 11..25 words); "
            "Run: argument vectors over the five sub-commands and the global options (valid and invalid values, --paranoia, --testnet, --file in the "
            "states new / existing / directory / unwritable parent), main() run in-process (and a sample as `python -m btc_hd_wallet` subprocesses): "
            "exit status, stdout, stderr, directory listing before/after; stdout or the new file must be JSON equal to the API result computed in the "
            "same process, rows BIP44-shaped; an existing file keeps its bytes. Non-trivial = distinct (case, output).")
    assumptions = ["argparse tokenisation and process exit plumbing are outside the model; the check-then-open race on --file cannot be exhibited"]

    def gen_cases(self, rng, tier):
        T = tier == "thorough"
        cases = []
        ints = ["0", "1", "19", str(H - 2), str(H - 1), str(H), str(H + 1), str(2 ** 32 - 2), str(2 ** 32 - 1), str(2 ** 32), "-1", "-0", "+5", " 7", "1_0",
                "x", "", "1.0", "0x10", "99999999999999999999", "٣"]
        for s in ints:
            if all(ord(c) < 128 for c in s):
                cases.append({"kind": "Val", "which": 0, "s": s})
                cases.append({"kind": "Val", "which": 1, "s": s})
        for n in (0, 110, 111, 112):
            cases.append({"kind": "Val", "which": 2, "s": "x" * n})
        for n in (127, 128, 129, 0):
            cases.append({"kind": "Val", "which": 4, "s": "a" * n})
        for n in (31, 32, 33, 40, 48, 56, 64, 65, 0, 16):
            cases.append({"kind": "Val", "which": 5, "s": "0" * n})
        for n in (11, 12, 13, 15, 18, 21, 24, 25, 1):
            cases.append({"kind": "Val", "which": 3, "s": " ".join(["abandon"] * n)})
        cases.append({"kind": "Val", "which": 3, "s": " " + " ".join(["abandon"] * 11) + " "})
        cases.append({"kind": "Val", "which": 3, "s": "  ".join(["abandon"] * 7)})
        # full invocations
        from btc_hd_wallet.bip39 import mnemonic_from_entropy
        from btc_hd_wallet.paper_wallet import PaperWallet
        mn = mnemonic_from_entropy("11" * 16)
        seed = "ab" * 64
        ent = "cd" * 16
        xprv = PaperWallet.from_bip39_seed_hex(seed).master.extended_private_key()
        good = [{"cmd": "from-bip39-seed", "secret": seed}, {"cmd": "from-mnemonic", "secret": mn, "password": "pw"},
                {"cmd": "from-entropy-hex", "secret": ent}, {"cmd": "from-master-xprv", "secret": xprv}]
        runs = []
        for j, g in enumerate(good):
            runs.append(dict(g, interval=("0", "1")))
            runs.append(dict(g, interval=("3", "5"), account=str([1, 7, H - 2, 0][j]), testnet=(j % 2 == 0), paranoia=(j % 2 == 1)))
        runs.append(dict(good[0], interval=("0", "1"), file="new"))
        runs.append(dict(good[1], interval=("0", "1"), file="new", paranoia=True))
        runs.append(dict(good[0], interval=("0", "1"), file="new-siblings"))
        runs.append(dict(good[1], interval=("0", "1"), file="new-siblings", paranoia=True, testnet=True))
        runs.append(dict(good[0], interval=("0", "1"), file="existing"))
        runs.append(dict(good[0], interval=("0", "1"), file="dir"))
        runs.append(dict(good[0], interval=("0", "1"), file="unwritable"))
        # values on both sides of every bound
        runs.append(dict(good[0], interval=(str(H - 1), str(H))))
        runs.append(dict(good[0], interval=(str(H), str(H + 1))))                 # hardened address index
        runs.append(dict(good[0], interval=(str(H - 1), str(H + 1))))
        runs.append(dict(good[0], interval=(str(2 ** 32 - 3), str(2 ** 32 - 2))))
        runs.append(dict(good[0], interval=(str(2 ** 32 - 2), str(2 ** 32 - 1))))
        runs.append(dict(good[0], interval=("-1", "1")))
        runs.append(dict(good[0], interval=("2", "2")))
        runs.append(dict(good[0], interval=("5", "3")))
        runs.append(dict(good[1], interval=("2", "2"), paranoia=True))            # nothing to show must not become "show the default wallet"
        runs.append(dict(good[2], interval=("9", "4"), paranoia=True, account="3", file="new"))
        runs.append(dict(good[0], account=str(H - 1), interval=("0", "1")))
        runs.append(dict(good[0], account=str(H - 2), interval=("0", "1")))
        runs.append(dict(good[0], account="-1", interval=("0", "1")))
        runs.append(dict(good[0], account="x", interval=("0", "1")))
        runs.append({"cmd": "from-bip39-seed", "secret": "ab" * 63, "interval": ("0", "1")})
        runs.append({"cmd": "from-bip39-seed", "secret": "zz" * 64, "interval": ("0", "1")})
        runs.append({"cmd": "from-entropy-hex", "secret": "cd" * 15, "interval": ("0", "1")})
        runs.append({"cmd": "from-entropy-hex", "secret": "cd" * 15 + "  ", "interval": ("0", "1")})
        runs.append({"cmd": "from-mnemonic", "secret": " ".join(["abandon"] * 13), "interval": ("0", "1")})
        runs.append({"cmd": "from-master-xprv", "secret": xprv[:-1], "interval": ("0", "1")})
        runs.append({"cmd": "from-master-xprv", "secret": xprv[:-1] + ("1" if xprv[-1] != "1" else "2"), "interval": ("0", "1")})
        runs.append({"cmd": "none", "secret": ""})
        runs.append({"cmd": "new", "secret": "", "interval": ("0", "1"), "mnemonic_len": "12"})
        runs.append({"cmd": "new", "secret": "", "interval": ("0", "1"), "mnemonic_len": "13"})
        runs.append({"cmd": "new", "secret": "", "interval": ("0", "1"), "testnet": True, "paranoia": True})
        for j, r in enumerate(runs):
            cases.append({"kind": "Run", "v": r, "subprocess": (j % 9 == 0) and r["cmd"] != "new"})
        return cases

    def run_impl(self, case):
        import btc_hd_wallet.__main__ as m
        if case["kind"] == "Val":
            f = [m.address_index, m.account_index, m.extended_key, m.mnemonic, m.bip39_seed, m.entropy_hex][case["which"]]
            try:
                r = f(case["s"])
            except BaseException:
                r = None
            return {"ob": r, "err": r is None}
        v = case["v"]
        tmp = tempfile.mkdtemp(prefix="c20_", dir=os.path.join(os.path.dirname(os.path.dirname(os.path.dirname(os.path.abspath(__file__)))), "_work")
                               if os.path.isdir(os.path.join(os.path.dirname(os.path.dirname(os.path.dirname(os.path.abspath(__file__)))), "_work")) else None)
        try:
            fpath, fstate = None, v.get("file")
            existing_bytes = None
            siblings = {}
            if fstate in ("new", "new-siblings"):
                fpath = os.path.join(tmp, "out.json")
                if fstate == "new-siblings":          # other files next to the target: none of them may be touched
                    for nm in ("out.json.tmp", "out.json~", "out.json.bak", ".out.json.swp", "out.json.new", "out.json.part", "out", "out.json.lock"):
                        siblings[os.path.join(tmp, nm)] = b"precious " + nm.encode()
                        open(os.path.join(tmp, nm), "wb").write(siblings[os.path.join(tmp, nm)])
            elif fstate == "existing":
                fpath = os.path.join(tmp, "have.json")
                existing_bytes = b"precious"
                open(fpath, "wb").write(existing_bytes)
            elif fstate == "dir":
                fpath = os.path.join(tmp, "adir")
                os.mkdir(fpath)
            elif fstate == "unwritable":
                fpath = os.path.join(tmp, "nonexistent_dir", "out.json")
            before = sorted(os.listdir(tmp))
            argv = build_argv(v, fpath)
            if case.get("subprocess"):
                p = subprocess.run(["/venv/bin/python", "-m", "btc_hd_wallet"] + argv, cwd=os.environ.get("BHW_REPO", "/repo"), capture_output=True, text=True,
                                   env=dict(os.environ, PYTHONPATH=os.environ.get("BHW_REPO", "/repo")), timeout=600)
                code, out, err = p.returncode, p.stdout, p.stderr
            else:
                code, out, err = run_main(argv)
            after = sorted(os.listdir(tmp))
            created = [x for x in after if x not in before]
            file_created = bool(created)
            untouched = True
            if existing_bytes is not None:
                untouched = open(fpath, "rb").read() == existing_bytes
            for sp, sb in siblings.items():
                try:
                    if open(sp, "rb").read() != sb:
                        untouched = False
                except Exception:
                    untouched = False
            api = None
            secret_valid = None
            if v["cmd"] not in ("new", "none"):
                try:
                    api = api_result(v)
                    secret_valid = True
                except BaseException:
                    secret_valid = None if (v.get("interval") and (int_or_none(v["interval"][0]) is None or int_or_none(v["interval"][1]) is None or
                                                                   int_or_none(v["interval"][1]) > 2 ** 32 or int_or_none(v["interval"][0]) < 0)) or \
                        (v.get("account") is not None and (int_or_none(v["account"]) is None or not 0 <= int_or_none(v["account"]) < 2 ** 31)) else False
            elif v["cmd"] == "new":
                secret_valid = True
            stdout_is_api, file_is_api, rows = False, False, []
            data = None
            if out.strip():
                try:
                    data = json.loads(out)
                except Exception:
                    data = "not-json"
            if file_created and fstate in ("new", "new-siblings") and os.path.isfile(fpath):
                try:
                    fdata = json.loads(open(fpath).read())
                except Exception:
                    fdata = "not-json"
                file_is_api = (api is not None and fdata == json.loads(json.dumps(api))) or (v["cmd"] == "new" and isinstance(fdata, dict))
                rows = row_paths(fdata)
            if data is not None:
                stdout_is_api = (api is not None and data == json.loads(json.dumps(api))) or (v["cmd"] == "new" and isinstance(data, dict) and
                                                                                              (set(data) == {"BIP44", "BIP49", "BIP84"} if v.get("paranoia") else "MASTER" in data))
                rows = row_paths(data)
            return {"code": code, "stdout_empty": not isinstance(data, dict),   # "empty" = no wallet data (usage/help text is not wallet data)
                    "stdout_is_api": stdout_is_api, "file_created": file_created,
                    "file_is_api": file_is_api, "untouched": untouched, "rows": rows, "secret_valid": secret_valid,
                    "stderr_nonempty": err.strip() != "", "err": code != 0}
        finally:
            shutil.rmtree(tmp, ignore_errors=True)

    def coq_term(self, case, obs):
        if case["kind"] == "Val":
            r = obs["ob"]
            if case["which"] < 2:
                return "(Val %d %s %s Err)" % (case["which"], zs(case["s"]), cres(r, lambda x: "(%d)" % x))
            return "(Val %d %s Err %s)" % (case["which"], zs(case["s"]), cres(r, zs))
        v = case["v"]
        opt = lambda s: "None" if s is None else "(Some %s)" % zs(s)
        fs = "None"
        if v.get("file"):
            st = "new" if v["file"] == "new-siblings" else v["file"]
            fs = "(Some {| is_dir := %s; exists_ := %s; parent_writable := %s |})" % (cbool(st == "dir"), cbool(st in ("existing", "dir")), cbool(st != "unwritable"))
        a = "{| a_account := %s; a_interval := %s; a_file := %s; a_command := %d; a_secret := %s; a_mnemonic_len := %s |}" % (
            opt(v.get("account")), "None" if not v.get("interval") else "(Some (%s, %s))" % (zs(v["interval"][0]), zs(v["interval"][1])),
            fs, CMDS[v["cmd"]], zs(v.get("secret", "")), opt(v.get("mnemonic_len")))
        sv = "None" if obs["secret_valid"] is None else "(Some %s)" % cbool(obs["secret_valid"])
        return "(Run %s %s %s %s %s %s %s %s [%s])" % (a, sv, cbool(obs["code"] == 0), cbool(obs["stdout_empty"]), cbool(obs["stdout_is_api"]),
                                                       cbool(obs["file_created"]), cbool(obs["file_is_api"]), cbool(obs["untouched"]),
                                                       ";".join(zs(r) for r in obs["rows"]))

    def nontrivial_key(self, case, obs):
        return json.dumps([case, {k: v for k, v in obs.items() if k != "rows"}], default=str)

    def sample_repr(self, case, obs):
        c = dict(case)
        if "v" in c and len(json.dumps(c)) > 600:
            c = {"kind": "Run", "cmd": case["v"]["cmd"], "interval": case["v"].get("interval"), "account": case["v"].get("account"), "file": case["v"].get("file")}
        return {"case": c, "impl": {k: v for k, v in obs.items() if k != "rows"}}


def int_or_none(s):
    try:
        return int(s)
    except Exception:
        return None
