"""C12 -- BIP85 child secrets equal the specified derivation: correspondence driver."""
from props.base import BaseProp
from props.bip32fam import Bip32Prop, c_start, c_oracles, make_start, OrdinalStub, N
from oracle import Recorder
from run import zs, cres

H = 2 ** 31


class Prop(Bip32Prop):
    id = "C12"
    theorems = ["C12_paths_are_spec", "C12_paths_hardened", "C12_paths_injective", "C12_hmac_key_is_spec", "C12_entropy_spec",
                "C12_out_of_range_rejected", "C12_correct_key_refuses"]
    exec_modules = ["Exec.C12"]
    extra_modules = {"C12Src": ["C12_source_byte_count_is_model", "C12_source_byte_count_table", "C12_source_hex_is_model", "C12_source_mnemonic_is_model", "C12_source_pwd_is_model", "C12_source_translated"]}
    pysem_funcs = ["bip85.BIP85DeterministicEntropy.byte_count_from_word_count", "bip85.BIP85DeterministicEntropy.hex",
                   "bip85.BIP85DeterministicEntropy.bip39_mnemonic", "bip85.BIP85DeterministicEntropy.pwd"]
    exec_import = "From BHW Require Import Lib.Base Exec.Common Exec.Bip32E Exec.C12.\nFrom Coq Require Import String.\nOpen Scope string_scope."
    shard = 2
    rule = ("The five BIP85 applications on master keys (random, leading-zero scalar, 33-byte stored, testnet flag set) at indexes 0, 1, 2^31-1, random "
            "and out of range (-1, -2^31, 2^31, 2^32); all five word counts plus 11/13/0/25; byte counts 16..64 (thorough: all; quick: boundaries + sample) "
            "and 15/65/0/-1; password lengths 20..86 (same) and 19/87; PRF substituted on the entropy call so that the WIF/XPRV secret is 0, n, 2^256-1. "
            "Spec (fully hardened path, HMAC key, truncation per application, Base58Check/word list decoding) evaluated in Coq on the output. "
            "Also PaperWallet.bip85_data(). Non-trivial = distinct (case, output).")

    def gen_cases(self, rng, tier):
        T = tier == "thorough"
        cases = []
        masters = [self.start_prv(rng, self.rand_scalar(rng, "rand")),
                   self.start_prv(rng, self.rand_scalar(rng, "lz2"), stored33=True, testnet=True)]
        idxs = [0, 1, H - 1, rng.randrange(0, H)]
        bad_idx = [-1, -H, H, 2 ** 32]
        j = 0

        def add(app, param, index, stub=None, note=None):
            nonlocal j
            cases.append({"kind": "B85", "start": masters[j % len(masters)], "app": app, "param": param, "index": index, "stub": stub, "note": note})
            j += 1
        for wc in (12, 15, 18, 21, 24):
            add(0, wc, idxs[j % 4])
        for wc in (11, 13, 0, 25, -12):
            add(0, wc, 0)
        for i in idxs + bad_idx:
            add(1, 0, i)
            add(2, 0, i)
        nbs = list(range(16, 65)) if T else [16, 17, 31, 32, 33, 63, 64] + rng.sample(range(18, 63), 3)
        for nb in nbs:
            add(3, nb, rng.choice(idxs))
        for nb in (15, 65, 0, -1):
            add(3, nb, 0)
        pls = list(range(20, 87)) if T else [20, 21, 22, 23, 43, 44, 85, 86] + rng.sample(range(24, 85), 3)
        for pl in pls:
            add(4, pl, rng.choice(idxs))
        for pl in (19, 87, 0, -5):
            add(4, pl, 0)
        add(3, 32, -1)
        add(4, 21, H)
        add(0, 12, -1)
        # PRF substitution on the LAST DERIVATION STEP so that the private key at the application path has
        # leading zero bytes (1, 2 and 12 of them): the HMAC message must still be the full 32-byte key
        app_paths = {0: lambda p, i: [83696968 + H, 39 + H, H, p + H, i + H], 1: lambda p, i: [83696968 + H, 2 + H, i + H],
                     2: lambda p, i: [83696968 + H, 32 + H, i + H], 3: lambda p, i: [83696968 + H, 128169 + H, p + H, i + H],
                     4: lambda p, i: [83696968 + H, 707764 + H, p + H, i + H]}
        for app, param, nz in ((3, 32, 1), (1, 0, 2), (0, 12, 1), (4, 21, 12), (2, 0, 1), (3, 64, 3)):
            m = masters[j % len(masters)]
            path = app_paths[app](param, 7)
            stub = self.stub_for_last_step(m, path, rng, ki=rng.randrange(1, 2 ** (8 * (32 - nz))))
            cases.append({"kind": "B85", "start": m, "app": app, "param": param, "index": 7, "stub": stub, "note": "derived key with %d leading zero bytes" % nz})
            j += 1
        # PRF substitution on the final entropy call (ordinal = number of derivation steps)
        for app, nsteps in ((1, 3), (2, 3)):
            for secret in (0, N, 2 ** 256 - 1, N - 1, 1):
                sb = secret.to_bytes(32, "big")
                other = bytes(rng.randrange(256) for _ in range(32))
                out = (sb + other) if app == 1 else (other + sb)
                add(app, 0, 0, stub={str(nsteps): out.hex()}, note="secret=%s" % hex(secret))
        # final entropy with leading zero bytes / all zero / all ones, for the applications that slice or re-encode it
        for app, param, nsteps in ((0, 12, 5), (0, 24, 5), (3, 16, 4), (3, 64, 4), (4, 20, 4), (4, 86, 4), (2, 0, 3), (1, 0, 3)):
            for pat in ("lz", "zero", "ones"):
                out = {"lz": b"\x00\x00" + bytes(rng.randrange(256) for _ in range(29)) + b"\x00" + b"\x00" + bytes(rng.randrange(1, 256) for _ in range(31)),
                       "zero": b"\x00" * 64, "ones": b"\xff" * 64}[pat]
                add(app, param, 1, stub={str(nsteps): out.hex()}, note="entropy " + pat)
        return cases

    def run_impl(self, case):
        from btc_hd_wallet.bip85 import BIP85DeterministicEntropy
        rec = Recorder()
        if case.get("stub"):
            rec.prf_stub = OrdinalStub(case["stub"])
        with rec.installed():
            try:
                b = BIP85DeterministicEntropy(master_node=make_start(case["start"]), testnet=case["start"]["testnet"])
                a = case["app"]
                if a == 0:
                    r = b.bip39_mnemonic(word_count=case["param"], index=case["index"])
                elif a == 1:
                    r = b.wif(index=case["index"])
                elif a == 2:
                    r = b.xprv(index=case["index"])
                elif a == 3:
                    r = b.hex(num_bytes=case["param"], index=case["index"])
                else:
                    r = b.pwd(pwd_len=case["param"], index=case["index"])
            except Exception:
                r = None
        return {"ob": r, "or": c_oracles(rec), "err": r is None}

    def coq_term(self, case, obs):
        return "(B85 %s %s (%d) (%d) (%d) %s)" % (obs["or"], c_start(case["start"]), case["app"], case["param"], case["index"], cres(obs["ob"], zs))
