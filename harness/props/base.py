"""Shared machinery for the per-property correspondence drivers."""
import collections
import concurrent.futures
import json
import traceback

SHARD = 300


class BaseProp:
    id = "C00"
    theorems = []
    exec_modules = []          # e.g. ["Exec.C10"]
    exec_import = ""           # e.g. "From BHW Require Import Exec.C10."
    rule = ""
    assumptions = []
    shard = SHARD

    def model_available(self, ok_make, make_out):
        return ok_make

    # --- to be provided by subclasses ---
    def gen_cases(self, rng, tier):
        raise NotImplementedError

    def run_impl(self, case):
        raise NotImplementedError

    def coq_term(self, case, obs):
        raise NotImplementedError

    def nontrivial_key(self, case, obs):
        return json.dumps([case, obs], sort_keys=True, default=str)

    def matches_known(self, k, case):
        return False

    def sample_repr(self, case, obs):
        return {"case": case, "impl": obs}

    def corpus(self):
        """minimised past failures / seeded-mutant witnesses, run first"""
        import os
        p = os.path.join(os.path.dirname(os.path.dirname(os.path.dirname(os.path.abspath(__file__)))), "corpus", self.id + ".json")
        if os.path.exists(p):
            return json.load(open(p))
        return []

    # --- generic driver ---
    def correspondence(self, rng, tier, coq_eval, model_available=True, fixed_cases=None):
        out = {"rule": self.rule, "mismatches": [], "prop_failures": [], "samples": [], "histogram": {}}
        try:
            if fixed_cases is not None:
                cases = fixed_cases
            else:
                cases = self.corpus() + self.gen_cases(rng, tier)
        except Exception:
            out["error"] = "case generation failed: " + traceback.format_exc()
            return out
        observed = []
        hist = collections.Counter()
        for c in cases:
            try:
                o = self.run_impl(c)
            except Exception:
                out["error"] = "driver crashed on case %r: %s" % (c, traceback.format_exc())
                return out
            observed.append(o)
            hist[c.get("kind", "?") + ("/err" if isinstance(o, dict) and o.get("err") else "/ok")] += 1
        # second pass in the same process, in the opposite order: an answer that depends on what ran before is a wrong
        # answer for one of the two histories; the differing observation is evaluated like any other case
        if fixed_cases is None and getattr(self, "second_pass", True):
            extra = []
            for idx in range(len(cases) - 1, -1, -1):
                c = cases[idx]
                if c.get("nondet"):
                    continue
                try:
                    o2 = self.run_impl(c)
                    same = self.nontrivial_key(c, o2) == self.nontrivial_key(c, observed[idx])
                except Exception:
                    out["error"] = "driver crashed on second pass, case %r: %s" % (c, traceback.format_exc())
                    return out
                if not same:
                    c2 = dict(c)
                    c2["second_pass"] = "observed again after all other cases of this run had been executed (run the whole check with the same VERIF_SEED to reproduce)"
                    extra.append((c2, o2))
            out["second_pass_differences"] = len(extra)
            for c2, o2 in extra[:50]:
                cases.append(c2)
                observed.append(o2)
                hist["second-pass/" + c2.get("kind", "?")] += 1
        out["evaluations"] = len(cases)
        out["histogram"] = dict(hist)
        keys = set()
        for c, o in zip(cases, observed):
            k = self.nontrivial_key(c, o)
            if k is not None:
                keys.add(k)
        out["distinct_nontrivial"] = len(keys)
        step = max(1, len(cases) // 6)
        out["samples"] = [self.sample_repr(c, o) for c, o in list(zip(cases, observed))[::step][:8]]
        if not model_available:
            out["error"] = "model/exec module did not compile; correspondence not evaluated"
            return out
        # shard and evaluate in Coq
        shards = []
        for i in range(0, len(cases), self.shard):
            terms = []
            for c, o in zip(cases[i:i + self.shard], observed[i:i + self.shard]):
                terms.append(self.coq_term(c, o))
            text = "%s\nOpen Scope Z_scope.\nDefinition cases : list case := [\n%s\n].\nEval vm_compute in (List.map check_case cases).\n" % (
                self.exec_import, ";\n".join(terms))
            shards.append((i, text))
        from run import parse_codes
        results = {}
        with concurrent.futures.ThreadPoolExecutor(max_workers=16) as ex:
            futs = {ex.submit(coq_eval, self.id, text, i): i for i, text in shards}
            for fu in concurrent.futures.as_completed(futs):
                i = futs[fu]
                rc, o, dt = fu.result()
                results[i] = (rc, o)
        for i, text in shards:
            rc, o = results[i]
            codes = parse_codes(o) if rc == 0 else None
            n = len(cases[i:i + self.shard])
            if codes is None or len(codes) != n:
                out["error"] = "Coq evaluation of shard %d failed (rc=%s): %s" % (i, rc, o[-2000:])
                return out
            for j, code in enumerate(codes):
                if code == 4:
                    out["outside_fragment"] = out.get("outside_fragment", 0) + 1
                    continue
                if code == 0:
                    continue
                rec = {"case": cases[i + j], "impl": observed[i + j], "code": code,
                       "meaning": {1: "model and implementation disagree", 2: "property check fails on implementation output",
                                   3: "model/implementation disagree and property check fails"}.get(code, "?")}
                if code in (2, 3):
                    out["prop_failures"].append(rec)
                if code in (1, 3):
                    out["mismatches"].append(rec)
        return out
