"""C03 -- mnemonic + passphrase -> seed -> master key: correspondence driver."""
import hashlib
import unicodedata
from props.base import BaseProp
from props.bip32fam import c_oracles
from oracle import Recorder
from run import zs, cres


def tables(rec, extra_strs):
    strs = set(extra_strs)
    for (form, s), r in rec.nfkd.items():
        strs.add(r)
    nf = "[" + ";".join("(%s, %s)" % (zs(s), zs(r)) for (form, s), r in rec.nfkd.items()) + "]"
    # utf8 of every normalised string and of "mnemonic"+normalised password combinations the code may encode
    allstr = set(strs)
    for a in list(strs):
        allstr.add("mnemonic" + a)
    u8 = "[" + ";".join('(%s, "%s")' % (zs(s), s.encode("utf-8").hex()) for s in allstr) + "]"
    pb = "[" + ";".join('("%s", "%s", %d, "%s")' % (pw.hex(), salt.hex(), rounds, out.hex())
                        for (name, pw, salt, rounds, dk), out in rec.pbkdf2.items() if name == "sha512") + "]"
    return nf, u8, pb


class Prop(BaseProp):
    id = "C03"
    theorems = ["C03_rounds", "C03_seed_spec", "C03_master_spec", "C03_routes_agree", "C03_network_independent", "C03_extended_key_route"]
    exec_modules = ["Exec.C03"]
    extra_modules = {"C03Src": ["C03_source_seed_is_model", "C03_source_seed_is_spec", "C03_source_translated"]}
    pysem_funcs = ["bip39.bip39_seed_from_mnemonic"]
    exec_import = "From BHW Require Import Lib.Base Exec.Common Exec.Bip32E Exec.C03.\nFrom Coq Require Import String.\nOpen Scope string_scope."
    shard = 3
    rule = ("Seed: bip39_seed_from_mnemonic on ASCII, composed vs decomposed forms (e-acute vs e + combining acute), compatibility characters "
            "(fi ligature, Angstrom sign, squared units), CJK / Japanese with ideographic space, empty passphrase, passphrase starting with a combining "
            "mark, long strings; the arguments handed to unicodedata.normalize and hashlib.pbkdf2_hmac are logged from outside and the seed is "
            "recomputed independently by the driver (own NFKD, salt 'mnemonic'+passphrase, 2048 rounds). Routes: the five constructors x both "
            "networks on one mnemonic each; master key material compared. MnRoute: BaseWallet.from_mnemonic on text with irregular white space "
            "(trailing newline, doubled / tab / CRLF / U+3000 / NBSP / U+2028 separators, upper case) x both networks: master key material must equal the "
            "driver's independent PBKDF2 + HMAC of exactly the given text, and wallet.mnemonic the given text. Non-trivial = distinct (case, output).")
    extra_trusted = ["unicodedata.normalize, str.encode('utf-8') and hashlib.pbkdf2_hmac are external: the model takes them as oracle tables logged "
                     "from the run; the driver recomputes the expected seed with its own calls to the same standard-library primitives"]

    def gen_cases(self, rng, tier):
        T = tier == "thorough"
        from btc_hd_wallet.bip39 import mnemonic_from_entropy
        cases = []
        mn = mnemonic_from_entropy("00" * 16)
        texts = [(mn, ""), (mn, "TREZOR"), (mn, "péss"), (mn, "péss"), (mn, "ﬁsh Å ㎡"), (mn, "́abc"),
                 ("café naïve", "Å"), ("あいこくしん　あいこくしん", "メートル　パス"),
                 (mn, "mnemonic#2"), (mn + "mnemonic", "#2"),          # different pairs whose PBKDF2 arguments concatenate to the same bytes
                 ("", ""), ("a", "b" * 200), ("①② ½", "ẛ̣"), (mn.upper(), "x"),
                 # combining marks in non-canonical order and NO decomposable character anywhere in the string: only the reordering
                 # half of NFKD applies (Vietnamese typing order, Arabic shadda+kasra, acute+dot-below, three marks)
                 (mn, "e\u0302\u0323"), (mn, "\u0651\u0650"), ("a\u0301\u0323 b", "x"), (mn, "q\u0315\u0300\u05ae\u0316"),
                 ("e\u0323\u0302", "e\u0302\u0323")]
        if T:
            for _ in range(20):
                texts.append(("".join(chr(rng.choice([rng.randrange(32, 127), rng.randrange(0xc0, 0x250), rng.randrange(0x3040, 0x30ff), 0x301, 0x3000]))
                                      for _ in range(rng.randrange(0, 30))),
                              "".join(chr(rng.choice([rng.randrange(32, 127), rng.randrange(0xc0, 0x250), 0x327])) for _ in range(rng.randrange(0, 12)))))
        for m, p in texts:
            cases.append({"kind": "Seed", "mnemonic": m, "password": p})
        for j in range(3 if T else 2):
            e = bytes(rng.randrange(256) for _ in range(rng.choice([16, 24, 32]))).hex()
            cases.append({"kind": "Routes", "entropy": e, "password": ["", "péss Å", "TREZOR"][j % 3]})
        # from_mnemonic on text whose white space is irregular: the seed must come from exactly the text given
        mn2 = mnemonic_from_entropy(bytes(rng.randrange(256) for _ in range(16)).hex())
        w = mn2.split(" ")
        variants = [mn2, mn2 + "\n", " " + mn2, mn2.replace(" ", "  ", 1), "\t".join(w), "\u3000".join(w), "\u00a0".join(w),
                    "\r\n".join(w), "\u2028".join(w), mn2 + " ", mn2.upper()]
        for j, m in enumerate(variants if T else variants[:8]):
            cases.append({"kind": "MnRoute", "mnemonic": m, "password": ["", "TREZOR", " p "][j % 3]})
        return cases

    def run_impl(self, case):
        from btc_hd_wallet.bip39 import bip39_seed_from_mnemonic, mnemonic_from_entropy
        from btc_hd_wallet.base_wallet import BaseWallet
        k = case["kind"]
        if k == "Seed":
            rec = Recorder()
            with rec.installed():
                try:
                    seed = bip39_seed_from_mnemonic(case["mnemonic"], case["password"]).hex()
                except Exception:
                    seed = None
            exp = hashlib.pbkdf2_hmac("sha512", unicodedata.normalize("NFKD", case["mnemonic"]).encode("utf-8"),
                                      ("mnemonic" + unicodedata.normalize("NFKD", case["password"])).encode("utf-8"), 2048).hex()
            nf, u8, pb = tables(rec, [])
            return {"ob": seed, "exp": exp, "nf": nf, "u8": u8, "pb": pb, "err": seed is None}
        if k == "MnRoute":
            import hmac as _hmac
            rec = Recorder()
            obs = []
            with rec.installed():
                for t in (False, True):
                    try:
                        w = BaseWallet.from_mnemonic(case["mnemonic"], case["password"], testnet=t)
                        obs.append([w.master.key.hex(), w.master.chain_code.hex(), w.mnemonic])
                    except Exception:
                        obs.append(None)
            seed = hashlib.pbkdf2_hmac("sha512", unicodedata.normalize("NFKD", case["mnemonic"]).encode("utf-8"),
                                       ("mnemonic" + unicodedata.normalize("NFKD", case["password"])).encode("utf-8"), 2048)
            I = _hmac.new(b"Bitcoin seed", seed, hashlib.sha512).digest()
            nf, u8, pb = tables(rec, [])
            return {"obs": obs, "exp": [I[:32].hex(), I[32:].hex()], "or": c_oracles(rec), "nf": nf, "u8": u8, "pb": pb,
                    "err": any(o is None for o in obs)}
        rec = Recorder()
        obs = []
        with rec.installed():
            mnm = mnemonic_from_entropy(case["entropy"])
            for t in (False, True):
                def mat(f):
                    try:
                        w = f()
                        return [w.master.key.hex(), w.master.chain_code.hex()]
                    except Exception:
                        return None
                seed = bip39_seed_from_mnemonic(mnm, case["password"])
                obs.append(mat(lambda: BaseWallet.from_mnemonic(mnm, case["password"], testnet=t)))
                obs.append(mat(lambda: BaseWallet.from_entropy_hex(case["entropy"], case["password"], testnet=t)))
                obs.append(mat(lambda: BaseWallet.from_bip39_seed_bytes(seed, testnet=t)))
                obs.append(mat(lambda: BaseWallet.from_bip39_seed_hex(seed.hex(), testnet=t)))
                obs.append(mat(lambda: BaseWallet.from_extended_key(BaseWallet.from_mnemonic(mnm, case["password"], testnet=t).master.extended_private_key())))
        nf, u8, pb = tables(rec, [])
        return {"obs": obs, "mnemonic": mnm, "or": c_oracles(rec), "nf": nf, "u8": u8, "pb": pb, "err": False}

    def coq_term(self, case, obs):
        if case["kind"] == "Seed":
            return '(Seed %s %s %s %s %s %s "%s")' % (obs["nf"], obs["u8"], obs["pb"], zs(case["mnemonic"]), zs(case["password"]),
                                                     cres(obs["ob"], lambda x: '"%s"' % x), obs["exp"])
        if case["kind"] == "MnRoute":
            return '(MnRoute %s %s %s %s %s %s [%s] "%s" "%s")' % (
                obs["or"], obs["nf"], obs["u8"], obs["pb"], zs(case["mnemonic"]), zs(case["password"]),
                ";".join(cres(o, lambda p: '("%s", "%s", %s)' % (p[0], p[1], zs(p[2]))) for o in obs["obs"]), obs["exp"][0], obs["exp"][1])
        return "(Routes %s %s %s %s %s %s %s [%s])" % (obs["or"], obs["nf"], obs["u8"], obs["pb"], zs(case["entropy"]), zs(obs["mnemonic"]),
                                                       zs(case["password"]), ";".join(cres(o, lambda p: '("%s", "%s")' % tuple(p)) for o in obs["obs"]))

    def nontrivial_key(self, case, obs):
        import json
        return json.dumps([case, obs.get("ob"), obs.get("obs")], sort_keys=True)

    def sample_repr(self, case, obs):
        return {"case": case, "impl": {"ob": obs.get("ob"), "obs": obs.get("obs")}}
