"""C15 -- paranoia mode output contains no secret and leaves public data unchanged."""
from props.walletfam import WalletProp, H


class Prop(WalletProp):
    id = "C15"
    theorems = ["C15_paranoia_keys", "C15_paranoia_section_shape", "C15_paranoia_noninterference", "C15_strip_last_row"]
    rule = ("Par: paranoia_mode applied to real generate() outputs (both networks, with and without mnemonic/passphrase) and to adversarial trees: "
            "extra top-level keys carrying secrets, extra fields next to path/pub, rows of 1, 4, 5 columns, empty groups, missing keys, non-list groups; "
            "in Coq every string of the filtered output is checked not to be one of the unfiltered secrets (mnemonic, passphrase, BIP85 values, "
            "extended private keys, WIFs), not to decode to a WIF / extended private key, and to be a leaf of the unfiltered data; every public datum of "
            "the unfiltered data (path, pub, rows minus the last column) must still be present. ParCli: main() run in-process with --paranoia, incl. empty "
            "and reversed intervals, with and without --file: stdout and the file contain none of the wallet's secrets (requested and default account/interval) and all requested public "
            "addresses. Non-trivial = distinct (case, output).")

    def gen_cases(self, rng, tier):
        T = tier == "thorough"
        cases = []
        for j in range(4 if T else 2):
            w = self.rand_wspec(rng, j % 2 == 1, with_mnemonic=(j % 2 == 0))
            cases.append({"kind": "Par", "data": {"__generate__": {"w": w, "account": rng.choice([0, 7]), "lo": rng.choice([0, 4]), "hi": None}}})
            cases[-1]["data"]["__generate__"]["hi"] = cases[-1]["data"]["__generate__"]["lo"] + 2
        sec = lambda: {"account_extended_keys": {"path": "m/44'/0'/0'", "pub": "xpubAAA", "prv": "xprvSECRET"},
                       "groups": [["m/44'/0'/0'/0/0", "1addr", "02ab", "KwifSECRET"], ["m/44'/0'/0'/0/1", "1addr2", "03cd", "LwifSECRET2"]]}
        adv = [
            {"MASTER": {"mnemonic": "abandon ability", "password": "pw"}, "BIP85": {"x": "s3cr3t"}, "BIP44": sec(), "BIP49": sec(), "BIP84": sec()},
            {"BIP44": sec(), "EXTRA": {"leak": "xprvLEAK"}, "BIP84": sec(), "BIP86": sec()},
            {"BIP44": {"account_extended_keys": {"path": "p", "pub": "P", "prv": "S", "seed": "SEED"}, "groups": [["a", "b", "c", "d", "WIF5"], ["only"], []]}},
            {"BIP49": {"account_extended_keys": {"path": "p", "pub": "P"}, "groups": []}},
            {"BIP49": {"account_extended_keys": {"path": "p"}, "groups": []}},
            {"BIP84": {"groups": [["a", "b"]]}},
            {"BIP84": {"account_extended_keys": {"path": "p", "pub": None}, "groups": [["a", None, "c", None]]}},
            {},
        ]
        for d in adv:
            cases.append({"kind": "Par", "data": d})
        # the command line itself, incl. empty and reversed intervals (nothing to show must not mean "show the default wallet")
        from btc_hd_wallet.bip39 import mnemonic_from_entropy
        mn = mnemonic_from_entropy(bytes(rng.randrange(256) for _ in range(16)).hex())
        for iv, acc, t in ((("0", "2"), None, False), (("5", "5"), "3", False), (("9", "4"), None, True), (("0", "0"), "1", True)):
            cases.append({"kind": "ParCli", "v": {"cmd": "from-mnemonic", "secret": mn, "password": "pw " + str(iv[0]), "interval": iv,
                                                  "account": acc, "testnet": t}})
        # ... and with --file: what is written to the file is filtered too
        for iv, acc, t in ((("1", "3"), "2", False), (("4", "4"), None, True)):
            cases.append({"kind": "ParCli", "file": True, "v": {"cmd": "from-mnemonic", "secret": mn, "password": "file pw " + iv[0], "interval": iv,
                                                                "account": acc, "testnet": t}})
        # ... and when writing the file fails after the arguments were accepted
        for kind in ("trailing-slash", "dangling-symlink"):
            cases.append({"kind": "ParCli", "file": kind, "v": {"cmd": "from-mnemonic", "secret": mn, "password": "file pw " + kind, "interval": ("0", "2"),
                                                                "account": None, "testnet": kind == "dangling-symlink"}})
        return cases
