"""C10 -- Base58Check: correspondence driver."""
import hashlib
from props.base import BaseProp
from oracle import Recorder
from run import zs, hx, cres

ALPH = '123456789ABCDEFGHJKLMNPQRSTUVWXYZabcdefghijkmnopqrstuvwxyz'
LOOKALIKE = "0OIl"


def guard(f, *a, **k):
    try:
        return f(*a, **k)
    except Exception:
        return None


class Prop(BaseProp):
    id = "C10"
    theorems = ["alphabet_is_spec", "A_len", "A_nodup", "A_0",
                "C10_decode_encode", "C10_leading_zeros", "C10_all_zero", "C10_encode_decode",
                "C10_bad_char", "C10_checksum_sound", "C10_too_short", "C10_wrong_checksum",
                "C10_checksum_roundtrip"]
    exec_modules = ["Exec.C10"]
    extra_modules = {"C10Src": ["C10_source_encode_is_model", "C10_source_encode_decodes_back", "C10_source_leading_zeros", "C10_source_checksum_encode_is_model", "C10_source_decode_is_model", "C10_source_roundtrip", "C10_source_bad_char", "C10_source_checksum_sound", "C10_source_b58decode_addr_is_model", "C10_source_translated"]}
    pysem_funcs = ['helper.encode_base58', 'helper.encode_base58_checksum', 'helper.decode_base58', 'helper.decode_base58_checksum', 'helper.b58decode_addr']
    shard = 32
    exec_import = "From BHW Require Import Lib.Base Exec.Common Exec.C10.\nFrom Coq Require Import String.\nOpen Scope string_scope."
    rule = ("RT: byte strings of length 1..128 (quick: a subset) with 0..len leading zero bytes, all-zero, single byte, random; "
            "Dec: strings derived from valid encodings by substitution/insertion/deletion/'1'-prefixing/look-alike characters, "
            "short strings, corrupted checksums. Non-trivial = distinct (input, implementation output) pairs.")
    assumptions = ["hashlib.sha256 is modelled as an oracle table logged from the run (each pair re-verified against hashlib)"]

    def gen_cases(self, rng, tier):
        cases = []
        lens = list(range(1, 129)) if tier == "thorough" else [1, 2, 3, 4, 5, 8, 20, 21, 25, 32, 33, 37, 38, 64, 78, 82, 127, 128]
        for n in lens:
            zsets = sorted(set([0, 1, n // 2, max(0, n - 1), n])) if tier == "quick" else range(0, n + 1)
            for z in zsets:
                body = bytes(rng.randrange(1, 256) if i == 0 else rng.randrange(256) for i in range(n - z))
                cases.append({"kind": "RT", "bs": (b"\x00" * z + body).hex()})
        for b in (0, 1, 57, 58, 255):
            cases.append({"kind": "RT", "bs": bytes([b]).hex()})
        for n in (1, 21, 33):
            cases.append({"kind": "RT", "bs": bytes(rng.randrange(256) for _ in range(n)).hex(), "as": "bytearray"})
        nrand = 600 if tier == "thorough" else 120
        for _ in range(nrand):
            n = rng.randrange(1, 129)
            cases.append({"kind": "RT", "bs": bytes(rng.randrange(256) for _ in range(n)).hex()})
        # decode stream
        import btc_hd_wallet.helper as h
        seeds = []
        for _ in range(200 if tier == "thorough" else 50):
            n = rng.randrange(1, 60)
            z = rng.randrange(0, 4)
            data = b"\x00" * z + bytes(rng.randrange(256) for _ in range(n))
            seeds.append(_b58(data + hashlib.sha256(hashlib.sha256(data).digest()).digest()[:4]))
        strs = ["", "1", "11", "111", "1111", "11111", "2", "z", "12", "21", "1z", "0", "O", "I", "l", "1O", " ", "1 ", "3yQ", "é", "1ł"]
        for s in seeds:
            strs.append(s)
            for _ in range(4 if tier == "thorough" else 2):
                t = list(s)
                op = rng.randrange(7)
                pos = rng.randrange(len(t))
                if op == 0:
                    t[pos] = rng.choice(ALPH)
                elif op == 1:
                    t.insert(pos, rng.choice(ALPH))
                elif op == 2:
                    del t[pos]
                elif op == 3:
                    t = ["1"] * rng.randrange(1, 4) + t
                elif op == 4:
                    t[pos] = rng.choice(LOOKALIKE)
                elif op == 5:
                    t = t[:rng.randrange(0, 6)]
                else:
                    t[-1] = rng.choice(ALPH)
                strs.append("".join(t))
        # structured near-misses around the checksum rule: truncated / shifted / reversed / wrong-slice checksums,
        # extra bytes, and the empty payload (decoded strings shorter than four bytes)
        h256 = lambda b: hashlib.sha256(hashlib.sha256(b).digest()).digest()
        pays = [b"", b"\x00", b"\x00\x00", b"\x01", bytes(rng.randrange(256) for _ in range(3)), bytes(rng.randrange(256) for _ in range(21)),
                b"\x00" + bytes(rng.randrange(256) for _ in range(20))]
        for pl in pays:
            full = h256(pl)
            c = full[:4]
            for j in range(0, 4):
                strs.append(_b58(pl + c[:j]))
                strs.append(_b58(c[:j]))
            strs += [_b58(pl + c[1:]), _b58(pl + c[::-1]), _b58(pl + full[-4:]), _b58(pl + c + b"\x00"), _b58(b"\x00" + pl + c),
                     _b58(pl + full[1:5]), _b58(pl + c), _b58(pl + hashlib.sha256(pl).digest()[:4])]
        for s in strs:
            if s != "" or True:
                cases.append({"kind": "Dec", "s": s})
        return cases

    def run_impl(self, case):
        import btc_hd_wallet.helper as h
        rec = Recorder()
        with rec.installed():
            if case["kind"] == "RT":
                bs = bytes.fromhex(case["bs"])
                if case.get("as") == "bytearray":
                    # the payload comes as a mutable byte string that the caller keeps using: every call must encode the payload,
                    # and the encoders must leave the caller's buffer alone (observed: the answers of the SECOND calls)
                    arg = bytearray(bs)
                    guard(h.encode_base58, arg)
                    guard(h.encode_base58_checksum, arg)
                    bs_now = arg
                else:
                    bs_now = bs
                e = guard(h.encode_base58, bs_now)
                d = guard(h.decode_base58, e) if e is not None else None
                ec = guard(h.encode_base58_checksum, bs_now)
                if bytes(bs_now) != bs:
                    ec = "ARGUMENT-MUTATED:" + bytes(bs_now).hex()
                dc = guard(h.decode_base58_checksum, ec) if ec is not None else None
                obs = {"e": e, "d": None if d is None else d.hex(), "ec": ec, "dc": None if dc is None else dc.hex()}
                extra = []
            else:
                s = case["s"]
                d = guard(h.decode_base58, s)
                re_ = guard(h.encode_base58, d) if d is not None else None
                dc = guard(h.decode_base58_checksum, s)
                da = guard(h.b58decode_addr, s)
                obs = {"d": None if d is None else d.hex(), "re": re_, "dc": None if dc is None else dc.hex(),
                       "da": None if da is None else da.hex()}
                extra = []
                if d is not None:
                    p = d[:-4]
                    extra = [p, hashlib.sha256(p).digest()]
                    if dc is not None:
                        extra += [dc, hashlib.sha256(dc).digest()]
        for k, v in rec.sha256.items():
            assert hashlib.sha256(k).digest() == v
        obs["sha"] = rec.sha_table(extra)
        obs["err"] = all(obs.get(k) is None for k in ("e", "d", "dc"))
        return obs

    def coq_term(self, case, obs):
        if case["kind"] == "RT":
            return '(RT "%s" %s %s %s %s %s)' % (
                case["bs"], obs["sha"], cres(obs["e"], zs), cres(obs["d"], lambda x: '"%s"' % x),
                cres(obs["ec"], zs), cres(obs["dc"], lambda x: '"%s"' % x))
        return '(Dec %s %s %s %s %s %s)' % (
            zs(case["s"]), obs["sha"], cres(obs["d"], lambda x: '"%s"' % x), cres(obs["re"], zs),
            cres(obs["dc"], lambda x: '"%s"' % x), cres(obs["da"], lambda x: '"%s"' % x))

    def nontrivial_key(self, case, obs):
        return (case.get("bs") or case.get("s"), obs.get("e"), obs.get("d"), obs.get("dc"))

    def sample_repr(self, case, obs):
        o = dict(obs)
        o.pop("sha", None)
        return {"case": case, "impl": o}


def _b58(data):
    n = int.from_bytes(data, "big")
    out = ""
    while n:
        n, r = divmod(n, 58)
        out = ALPH[r] + out
    z = len(data) - len(data.lstrip(b"\x00"))
    return "1" * z + out
