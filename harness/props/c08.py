"""C08 -- new wallets draw their full entropy from the OS CSPRNG: correspondence + dynamic driver."""
import contextlib
import random as _random
from props.base import BaseProp
from oracle import Recorder
from run import zs, cres, cbool

BITS = {12: 128, 15: 160, 18: 192, 21: 224, 24: 256}


@contextlib.contextmanager
def urandom_spy(fixed=None):
    """Wrap random._urandom (what SystemRandom.getrandbits calls) and os.urandom from outside; log every request."""
    import os
    log = []
    real_r, real_o = _random._urandom, os.urandom

    def spy(n):
        b = fixed(n) if fixed else real_o(n)
        log.append(bytes(b))
        return b
    _random._urandom = spy
    os.urandom = spy
    try:
        yield log
    finally:
        _random._urandom = real_r
        os.urandom = real_o


class Prop(BaseProp):
    id = "C08"
    theorems = ["C08_request_size", "C08_entropy_is_os_bytes", "C08_indexes_injective"]
    exec_modules = ["Exec.C08"]
    extra_modules = {"C08Src": ["C08_source_any_answer", "C08_source_entropy_bits_is_model", "C08_source_translated"]}
    pysem_funcs = ["bip39.mnemonic_from_entropy_bits"]
    exec_import = "From BHW Require Import Lib.Base Exec.Common Exec.C08.\nFrom Coq Require Import String.\nOpen Scope string_scope."
    shard = 20
    second_pass = False          # fresh entropy differs between runs by design
    rule = ("Fresh: BaseWallet.new_wallet for the five word counts and mnemonic_from_entropy_bits for the five sizes (and illegal ones) with "
            "random._urandom / os.urandom wrapped from outside: request sizes and answered bytes logged, incl. answers chosen by the driver "
            "(all-zero, all-ones, top bit only, leading zero bytes); the sentence must decode (Spec, in Coq) to exactly the answered bytes. "
            "Stats: >= N fresh wallets per length: all distinct, every one of the ENT bits takes both values, results unchanged by re-seeding the "
            "process-wide PRNG to the same state before each call, no output when the OS source is not consulted or fails, bip39.random is a "
            "random.SystemRandom -- all of it after a series of failing calls (wrong argument types, illegal sizes, a failing OS source). Non-trivial = distinct (case, output).")
    assumptions = ["CPython 3.12 SystemRandom.getrandbits reads random._urandom(ceil(k/8)) and shifts right by the excess; the kernel CSPRNG itself is trusted"]

    def gen_cases(self, rng, tier):
        T = tier == "thorough"
        cases = []
        pats = ["real", "zeros", "ones", "topbit", "lz", "real"]
        j = 0
        for words in (12, 15, 18, 21, 24):
            for rep in range(4 if T else 2):
                cases.append({"kind": "Fresh", "words": words, "bits": 0, "pat": pats[j % len(pats)]})
                j += 1
            cases.append({"kind": "Fresh", "words": 0, "bits": BITS[words], "pat": pats[j % len(pats)]})
            j += 1
        # the observed wallet is created after other wallets of other lengths in the same process (answers differ per call):
        # its entropy must still be the bytes the OS gave during ITS creation
        for pre, words in (([12], 24), ([12, 15], 21), ([24], 12), ([15, 15], 18), ([12, 24, 12], 24), ([18], 15)):
            cases.append({"kind": "Fresh", "words": words, "bits": 0, "pat": "counter", "pre": pre})
        for words in (11, 13, 0, 25):
            if words:
                cases.append({"kind": "Fresh", "words": words, "bits": 0, "pat": "real"})
        for bits in (127, 129, 64, 512, 0):
            cases.append({"kind": "Fresh", "words": 0, "bits": bits, "pat": "real"})
        cases.append({"kind": "Stats", "n": 300 if T else 80})
        return cases

    def run_impl(self, case):
        from btc_hd_wallet.base_wallet import BaseWallet
        import btc_hd_wallet.bip39 as bip39
        if case["kind"] == "Fresh":
            pat = case["pat"]
            fixed = None
            if pat == "zeros":
                fixed = lambda n: b"\x00" * n
            elif pat == "ones":
                fixed = lambda n: b"\xff" * n
            elif pat == "topbit":
                fixed = lambda n: b"\x80" + b"\x00" * (n - 1) if n else b""
            elif pat == "lz":
                fixed = lambda n: b"\x00\x00" + bytes((i * 37 + 11) % 256 for i in range(max(0, n - 2)))
            if pat == "counter":
                ctr = [0]

                def fixed(n):
                    ctr[0] += 1
                    return bytes((ctr[0] * 101 + i * 7 + 3) % 256 for i in range(n))
            rec = Recorder()
            with rec.installed(), urandom_spy(fixed) as log:
                for w in case.get("pre", []):
                    try:
                        BaseWallet.new_wallet(mnemonic_length=w)
                    except Exception:
                        pass
                del log[:]
                try:
                    if case["words"]:
                        m = bip39.mnemonic_from_entropy_bits(bip39.MNEMONIC_LENGTH_TO_ENTROPY_BITS[case["words"]]) if False else \
                            BaseWallet.new_wallet(mnemonic_length=case["words"]).mnemonic
                    else:
                        m = bip39.mnemonic_from_entropy_bits(case["bits"])
                except Exception:
                    m = None
            extra = [bytes(b) for b in log]
            return {"ob": m, "requests": [b.hex() for b in log], "sha": rec.sha_table(extra), "err": m is None}
        # ---- dynamic statistics ----
        n = case["n"]
        ok_bound = type(bip39.random) is _random.SystemRandom
        distinct = True
        bits_vary = True
        reseed_ok = True
        no_other = True
        # calls that fail (wrong types, illegal sizes) must not change where later entropy comes from
        for bad in (256.0, 128.0, "128", None, -1, 2 ** 40, 129, True, b"\x80", [128]):
            for f in (bip39.mnemonic_from_entropy_bits, lambda b: BaseWallet.new_wallet(mnemonic_length=b)):
                try:
                    with urandom_spy(lambda k: (_ for _ in ()).throw(OSError("no entropy"))) if bad == 129 else contextlib.nullcontext():
                        f(bad)
                except BaseException:
                    pass
        try:
            with urandom_spy(lambda k: (_ for _ in ()).throw(OSError("no entropy"))):
                bip39.mnemonic_from_entropy_bits(128)                 # the OS source failing once
            no_other = False                                          # ... must not yield a sentence
        except BaseException:
            pass
        ok_bound = ok_bound and type(bip39.random) is _random.SystemRandom
        for words, ent in BITS.items():
            seen = set()
            ones = 0
            zeros_mask = 0
            for i in range(n):
                _random.seed(12345)                       # same process-wide PRNG state before every call
                with urandom_spy() as log:
                    m = bip39.mnemonic_from_entropy_bits(ent)
                if len(log) == 0 or sum(len(b) for b in log) * 8 < ent:
                    no_other = False
                idx = [bip39.word_list.index(w) for w in m.split(" ")]
                v = 0
                for x in idx:
                    v = v * 2048 + x
                e = v >> (ent // 32)
                if m in seen:
                    distinct = False
                seen.add(m)
                ones |= e
                zeros_mask |= (~e) & ((1 << ent) - 1)
            if ones != (1 << ent) - 1 or zeros_mask != (1 << ent) - 1:
                bits_vary = False
            if len(seen) < n:
                reseed_ok = False                          # equal PRNG seeds gave equal outputs
        # with a constant OS answer the output must be constant too (it has no other source)
        try:
            with urandom_spy(lambda k: b"\x5a" * k):
                a = bip39.mnemonic_from_entropy_bits(128)
                _random.seed(1)
                b = bip39.mnemonic_from_entropy_bits(128)
            if a != b:
                no_other = False
        except Exception:
            pass                                           # refusing a constant source is not a violation
        return {"flags": [ok_bound, distinct, bits_vary, reseed_ok, no_other], "err": False}

    def coq_term(self, case, obs):
        if case["kind"] == "Fresh":
            return "(Fresh (%d) (%d) [%s] %s %s)" % (case["words"], case["bits"], ";".join('"%s"' % r for r in obs["requests"]), obs["sha"], cres(obs["ob"], zs))
        return "(Stats %s)" % " ".join(cbool(f) for f in obs["flags"])

    def nontrivial_key(self, case, obs):
        import json
        return json.dumps([case, obs.get("ob"), obs.get("requests"), obs.get("flags")])

    def sample_repr(self, case, obs):
        return {"case": case, "impl": {k: v for k, v in obs.items() if k != "sha"}}
