"""C04 -- mnemonic sentences encode their entropy losslessly: correspondence driver."""
from props.base import BaseProp
from oracle import Recorder
from run import zs, cres


class Prop(BaseProp):
    id = "C04"
    theorems = ["C04_wordlist_official", "C04_wordlist_nodup", "C04_words_injective", "C04_decode_encode",
                "C04_good_size_accepted", "C04_bad_size_rejected", "C04_string_route"]
    exec_modules = ["Exec.C04"]
    extra_modules = {"C04Src": ["C04_source_is_model", "C04_source_good_size", "C04_source_bad_size_rejected", "C04_source_translated"]}
    pysem_funcs = ["bip39.mnemonic_from_entropy", "bip39.checksum_length", "bip39.mnemonic_sentence_length", "bip39.correct_entropy_bits_value"]
    exec_import = "From BHW Require Import Lib.Base Exec.Common Exec.C04.\nFrom Coq Require Import String.\nOpen Scope string_scope."
    shard = 40
    rule = ("mnemonic_from_entropy on hex strings: every byte length 0..64 x patterns (all-zero, all-ones, leading zero bytes, trailing zeros, "
            "random), the five legal sizes with many random values, hex with embedded/leading/trailing whitespace (legal and illegal decoded sizes), "
            "upper-case hex, odd-length and non-hex strings; also through BaseWallet.from_entropy_hex. The Spec (bit layout written independently "
            "over bit lists and the pinned official word list) is evaluated in Coq on the implementation's sentence. Non-trivial = distinct (case, output).")

    def gen_cases(self, rng, tier):
        T = tier == "thorough"
        cases = []
        for n in range(0, 65):
            pats = [b"\x00" * n, b"\xff" * n, bytes(rng.randrange(256) for _ in range(n))]
            if n in (16, 20, 24, 28, 32) or T:
                pats += [b"\x00" * (n // 2) + bytes(rng.randrange(1, 256) for _ in range(n - n // 2)),
                         bytes(rng.randrange(1, 256) for _ in range(n - n // 2)) + b"\x00" * (n // 2),
                         b"\x00" * max(0, n - 1) + b"\x01" * min(1, n), b"\x80" + b"\x00" * max(0, n - 1) if n else b""]
            for p in pats:
                cases.append({"kind": "Mn", "hex": p.hex()})
        for n in (16, 20, 24, 28, 32):
            for _ in range(40 if T else 6):
                cases.append({"kind": "Mn", "hex": bytes(rng.randrange(256) for _ in range(n)).hex()})
        ws = ["ab" * 15 + "  ", "ab" * 16 + "  ", " " + "cd" * 16, "cd" * 8 + " " + "cd" * 8, "ef" * 16 + "\n", "01" * 15 + "\t\t", "AB" * 16, "aB" * 20,
              "0" * 31, "0" * 33, "zz" * 16, "0x" + "00" * 15, "a b" + "00" * 15, " ", "", "ab" * 32 + " " * 2, "ab" * 14 + " " * 4, "ab " * 16]
        for s in ws:
            cases.append({"kind": "Mn", "hex": s})
        cases.append({"kind": "Mn", "hex": "00" * 16, "via": "wallet"})
        cases.append({"kind": "Mn", "hex": "ab" * 15 + "  ", "via": "wallet"})
        return cases

    def run_impl(self, case):
        from btc_hd_wallet.bip39 import mnemonic_from_entropy
        rec = Recorder()
        with rec.installed():
            try:
                if case.get("via") == "wallet":
                    from btc_hd_wallet.base_wallet import BaseWallet
                    m = BaseWallet.from_entropy_hex(case["hex"]).mnemonic
                else:
                    m = mnemonic_from_entropy(case["hex"])
            except Exception:
                m = None
        extra = []
        try:
            extra = [bytes.fromhex(case["hex"])]
        except Exception:
            pass
        return {"m": m, "sha": rec.sha_table(extra), "err": m is None}

    def coq_term(self, case, obs):
        return "(Mn %s %s %s)" % (zs(case["hex"]), obs["sha"], cres(obs["m"], zs))

    def nontrivial_key(self, case, obs):
        return (case["hex"], obs["m"])

    def sample_repr(self, case, obs):
        return {"case": case, "impl": {"m": obs["m"]}}
