"""Shared driver for the BIP32 family (C01, C02, C18): Derive / PubPriv / Master cases,
PRF substitution by call ordinal, observation of nodes."""
import hashlib
import hmac as _hmac
from props.base import BaseProp
from oracle import Recorder
from run import zs, cres, cbool

N = 0xFFFFFFFFFFFFFFFFFFFFFFFFFFFFFFFEBAAEDCE6AF48A03BBFD25E8CD0364141
H = 2 ** 31


def obs_node(nd, prv):
    try:
        return {"key": nd.key.hex(), "chain": nd.chain_code.hex(), "depth": nd.depth, "index": nd.index,
                "pfpr": nd.parent_fingerprint.hex(), "xpub": nd.extended_public_key(),
                "xprv": nd.extended_private_key() if prv else None}
    except Exception:
        return None


def c_onode(o):
    if o is None:
        return "Err"
    return '(Ok {| o_key := "%s"; o_chain := "%s"; o_depth := %d; o_index := %d; o_pfpr := "%s"; o_xpub := %s; o_xprv := %s |})' % (
        o["key"], o["chain"], o["depth"], o["index"], o["pfpr"], zs(o["xpub"]),
        "None" if o["xprv"] is None else "(Some %s)" % zs(o["xprv"]))


def c_start(s):
    return '{| s_prv := %s; s_key := "%s"; s_chain := "%s"; s_depth := %d; s_index := %d; s_testnet := %s; s_pfpr := %s |}' % (
        cbool(s["prv"]), s["key"], s["chain"], s["depth"], s["index"], cbool(s["testnet"]),
        "None" if s["pfpr"] is None else '(Some "%s")' % s["pfpr"])


def c_oracles(rec):
    return "{| or_hmac := %s; or_h160 := %s; or_sha := %s |}" % (rec.hmac_table(), rec.h160_table(), rec.sha_table())


def c_path(path):
    return "[" + ";".join("(%d)" % i for i in path) + "]"


def make_start(s):
    from btc_hd_wallet.bip32 import PrvKeyNode, PubKeyNode
    cls = PrvKeyNode if s["prv"] else PubKeyNode
    return cls(key=bytes.fromhex(s["key"]), chain_code=bytes.fromhex(s["chain"]), index=s["index"], depth=s["depth"],
               testnet=s["testnet"], parent_fingerprint=None if s["pfpr"] is None else bytes.fromhex(s["pfpr"]))


class OrdinalStub:
    """the k-th HMAC call (0-based) returns the chosen 64 bytes; all other calls are the real HMAC"""

    def __init__(self, table):
        self.table = dict((int(k), bytes.fromhex(v)) for k, v in table.items())
        self.count = 0

    def __call__(self, key, msg):
        i = self.count
        self.count += 1
        return self.table.get(i)


def derive_via(root, path, via):
    """derive `path` from `root`; `via` chooses the API route of the LAST step (the result must not depend on it):
       {"gen": [a, b(, step)]}   parent.generate_children(interval), then the child with the wanted index
       {"history": [i, ...]}     other children are requested from the same parent object first (errors ignored),
                                 then the wanted index (possibly again)"""
    path = list(path)
    if via and "form" in via:
        # the same index list handed to derive_path as another iterable
        return root.derive_path({"tuple": tuple(path), "iter": iter(path), "gen": (i for i in path), "map": map(int, path), "range": path}[via["form"]])
    if not via or not path:
        return root.derive_path(path)
    parent = root.derive_path(path[:-1])
    if "gen" in via:
        kids = parent.generate_children(tuple(via["gen"]))
        hits = [k for k in kids if k.index == path[-1]]
        if len(hits) != 1:
            raise LookupError("generate_children did not return exactly one child with the wanted index")
        return hits[0]
    for i in via.get("history", []):
        try:
            parent.ckd(i)
        except Exception:
            pass
    return parent.ckd(path[-1])


def run_derive(s, path, stub, via=None):
    rec = Recorder()
    if stub:
        rec.prf_stub = OrdinalStub(stub)
    with rec.installed():
        try:
            # keep ONLY the derived node: the root and every intermediate node go out of scope (and are
            # collected) before the node is observed, as in `PrvKeyNode.parse(x).derive_path(p)` one-liners
            node = derive_via(make_start(s), path, via)
            import gc
            gc.collect()
            ob = obs_node(node, s["prv"])
        except Exception:
            ob = None
    return rec, ob


def pubkey_of_scalar(k):
    import ecdsa
    sk = ecdsa.SigningKey.from_string(k.to_bytes(32, "big"), curve=ecdsa.SECP256k1)
    return sk.get_verifying_key().to_string("compressed")


class Bip32Prop(BaseProp):
    exec_modules = ["Exec.Bip32E"]
    exec_import = "From BHW Require Import Lib.Base Exec.Common Exec.Bip32E.\nFrom Coq Require Import String.\nOpen Scope string_scope."
    shard = 2
    extra_trusted = ["Exec/Secp256k1.v (executable secp256k1 over BigZ, used only to evaluate the model in correspondence runs; "
                     "that it satisfies curve_laws is not proved; it is compared with python-ecdsa by execution)",
                     "theorems hold for every curve satisfying Spec/Curve.curve_laws with order = CURVE_ORDER (witness: Proofs/CurveWitness.v)",
                     "Bignums.BigZ / Uint63 primitives in evaluation only"]
    assumptions = ["pysecp256k1 branches are dead in this sandbox (import fails); the ecdsa-fallback branches are what is modelled and run",
                   "hmac/sha256/hash160 enter the model as oracle tables logged from the run; PRF substitution installs a chosen-output stub from outside"]

    # ---- case execution ----
    def run_impl(self, case):
        k = case["kind"]
        if k == "Derive":
            rec, ob = run_derive(case["start"], case["path"], case.get("stub"), case.get("via"))
            return {"ob": ob, "or": c_oracles(rec), "err": ob is None}
        if k == "DeriveRaw":
            rec = Recorder()
            if case.get("stub"):
                rec.prf_stub = OrdinalStub(case["stub"])
            with rec.installed():
                try:
                    node = derive_via(make_start(case["start"]), case["path"], case.get("via"))
                    ob = [node.key.hex(), node.chain_code.hex(), node.depth, node.index]
                except Exception:
                    ob = None
            # the chosen PRF output belongs to the LAST request; when the implementation answered that request without asking the
            # PRF (the same index had been requested before on the same object), the model must still be told what the PRF is at
            # that time: the message is the one of the earlier request for the same parent and index
            via = case.get("via") or {}
            if case.get("stub") and via.get("history") and via["history"][-1] == case["path"][-1] and rec.hmac_order:
                for o, v in rec.prf_stub.table.items():
                    if rec.prf_stub.count <= o:
                        rec.hmac512[rec.hmac_order[-1]] = v
            return {"ob": ob, "or": c_oracles(rec), "err": ob is None}
        if k == "PubPriv":
            s = case["start"]
            rec, ob_prv = run_derive(s, case["path"], case.get("stub"), case.get("via"))
            # neutered start: public key of the start node, same metadata
            rec2 = Recorder()
            if case.get("stub"):
                rec2.prf_stub = OrdinalStub(case["stub"])
            ob_pub = None
            with rec2.installed():
                try:
                    nd = make_start(s)
                    pk = nd.public_key.sec()
                    from btc_hd_wallet.bip32 import PubKeyNode
                    pn = PubKeyNode(key=pk, chain_code=nd.chain_code, index=nd.index, depth=nd.depth, testnet=nd.testnet,
                                    parent_fingerprint=None if s["pfpr"] is None else bytes.fromhex(s["pfpr"]))
                    ob_pub = obs_node(derive_via(pn, case["path"], case.get("via")), False)
                except Exception:
                    ob_pub = None
            rec.hmac512.update(rec2.hmac512)
            rec.h160.update(rec2.h160)
            rec.sha256.update(rec2.sha256)
            return {"prv": ob_prv, "pub": ob_pub, "or": c_oracles(rec), "err": ob_prv is None}
        if k == "MasterRaw":
            from btc_hd_wallet.bip32 import PrvKeyNode
            rec = Recorder()
            if case.get("stub"):
                rec.prf_stub = OrdinalStub(case["stub"])
            with rec.installed():
                try:
                    nd = PrvKeyNode.master_key(bytes.fromhex(case["seed"]), testnet=case["testnet"])
                    ob = [nd.key.hex(), nd.chain_code.hex(), nd.depth, nd.index]
                except Exception:
                    ob = None
            return {"ob": ob, "or": c_oracles(rec), "err": ob is None}
        if k == "Master":
            from btc_hd_wallet.bip32 import PrvKeyNode
            rec = Recorder()
            if case.get("stub"):
                rec.prf_stub = OrdinalStub(case["stub"])
            with rec.installed():
                try:
                    nd = PrvKeyNode.master_key(bytes.fromhex(case["seed"]), testnet=case["testnet"])
                    ob = obs_node(nd, True)
                except Exception:
                    ob = None
            return {"ob": ob, "or": c_oracles(rec), "err": ob is None}
        raise ValueError(k)

    def coq_term(self, case, obs):
        k = case["kind"]
        if k == "Derive":
            return "(Derive %s %s %s %s)" % (obs["or"], c_start(case["start"]), c_path(case["path"]), c_onode(obs["ob"]))
        if k == "DeriveRaw":
            return "(DeriveRaw %s %s %s %s)" % (obs["or"], c_start(case["start"]), c_path(case["path"]),
                                                cres(obs["ob"], lambda o: '("%s", "%s", %d, %d)' % tuple(o)))
        if k == "PubPriv":
            return "(PubPriv %s %s %s %s %s)" % (obs["or"], c_start(case["start"]), c_path(case["path"]), c_onode(obs["prv"]), c_onode(obs["pub"]))
        if k == "MasterRaw":
            return '(MasterRaw %s "%s" %s %s)' % (obs["or"], case["seed"], cbool(case["testnet"]),
                                                  cres(obs["ob"], lambda o: '("%s", "%s", %d, %d)' % tuple(o)))
        return '(Master %s "%s" %s %s)' % (obs["or"], case["seed"], cbool(case["testnet"]), c_onode(obs["ob"]))

    def nontrivial_key(self, case, obs):
        import json
        o = dict(obs)
        o.pop("or", None)
        return json.dumps([case, o], sort_keys=True)

    def sample_repr(self, case, obs):
        o = dict(obs)
        o.pop("or", None)
        return {"case": case, "impl": o}

    # ---- generators shared by the family ----
    @staticmethod
    def rand_scalar(rng, kind):
        if kind == "one":
            return 1
        if kind == "nm1":
            return N - 1
        if kind.startswith("lz"):
            z = int(kind[2:])
            return rng.randrange(1, 2 ** (8 * (32 - z)))
        if kind == "near_n":
            return N - rng.randrange(1, 1000)
        return rng.randrange(1, N)

    @staticmethod
    def start_prv(rng, k, stored33=False, depth=0, index=0, testnet=False, pfpr=None):
        kb = k.to_bytes(32, "big")
        return {"prv": True, "key": (b"\x00" + kb if stored33 else kb).hex(), "chain": bytes(rng.randrange(256) for _ in range(32)).hex(),
                "depth": depth, "index": index, "testnet": testnet, "pfpr": pfpr}

    @staticmethod
    def stub_for_last_step(start, path, rng, il=None, ki=None, ir=None):
        """First pass with the real HMAC to learn the scalar of the last parent, then choose the
        PRF output of the last derivation step: either IL directly, or the IL that makes the child scalar ki."""
        rec, ob = run_derive(start, path[:-1], None, None)
        if ob is None:
            return None
        kpar = int.from_bytes(bytes.fromhex(ob["key"])[-32:], "big")
        if il is None:
            il = (ki - kpar) % N
        if callable(il):
            il = il(kpar)
        irb = ir if ir is not None else bytes(rng.randrange(256) for _ in range(32))
        return {str(len(path) - 1): (il.to_bytes(32, "big") + irb).hex()}

    @staticmethod
    def straddling_intervals(target):
        """intervals for generate_children that contain `target` and cross 2^31 (ascending, descending, strided),
        with the target away from the first element"""
        out = []
        if target >= H:
            out += [[H - 2, target + 1], [H - 3, target + 2, 1], [target + 2, H - 3, -1]]
        else:
            out += [[target, H + 2], [H + 1, target - 1, -1], [target - 2 if target >= 2 else target, H + 3, 2 if target >= 2 else 1]]
        return out
