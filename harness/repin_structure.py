#!/usr/bin/env python3
"""Maintainer tool (never run by a check): copy the regenerated structure table into the pinned table of
coq/theories/Proofs/StructureP.v after reviewing the difference by hand."""
import os, re
here = os.path.dirname(os.path.abspath(__file__))
gen = open(os.path.join(here, "..", "coq", "gen", "Structure.v")).read()
body = gen[gen.index("Definition structure"):].replace("Definition structure", "Definition pinned", 1)
p = os.path.join(here, "..", "coq", "theories", "Proofs", "StructureP.v")
s = open(p).read()
i = s.index("Definition pinned")
j = s.index("Fixpoint assoc")
open(p, "w").write(s[:i] + body + "\n" + s[j:])
