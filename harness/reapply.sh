#!/bin/bash
# usage: harness/reapply.sh <seeded-name>...   -- apply seeded/<name>/patch.diff to the repository, run that property's check, restore it
# BHW_REPO (default /repo) names the repository copy to use; VERIF_DIR (default: the directory above this script) the framework copy.
REPO=${BHW_REPO:-/repo}
VERIF_DIR=${VERIF_DIR:-$(cd "$(dirname "$0")/.." && pwd)}
cd $VERIF_DIR
for name in "$@"; do
  prop=$(python3 -c "import json;print(json.load(open('seeded/$name/meta.json'))['property'])")
  if ! git -C $REPO apply $VERIF_DIR/seeded/$name/patch.diff; then echo "$name: patch does not apply"; continue; fi
  out=$(VERIF_NO_EVIDENCE=1 timeout 1500 ./check $prop --tier ${TIER:-quick} 2>&1 | grep -E "^(VIOLATION|OK|KNOWN)" | cut -c1-200 | tr '\n' '|')
  git -C $REPO checkout -- .
  echo "$name: $out"
done
git -C $REPO status --short | head
