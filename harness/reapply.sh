#!/bin/bash
# usage: harness/reapply.sh <seeded-name>...   -- apply seeded/<name>/patch.diff to /repo, run that property's check, restore /repo
cd /verif
for name in "$@"; do
  prop=$(python3 -c "import json;print(json.load(open('seeded/$name/meta.json'))['property'])")
  if ! git -C /repo apply /verif/seeded/$name/patch.diff; then echo "$name: patch does not apply"; continue; fi
  out=$(VERIF_NO_EVIDENCE=1 timeout 1500 ./check $prop --tier ${TIER:-quick} 2>&1 | grep -E "^(VIOLATION|OK|KNOWN)" | cut -c1-200 | tr '\n' '|')
  git -C /repo checkout -- .
  echo "$name: $out"
done
git -C /repo status --short | head
