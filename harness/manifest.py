#!/usr/bin/env python3
"""Rewrite MANIFEST.json from the table below (single source of truth for claimed checks)."""
import json, os
HERE = os.path.dirname(os.path.abspath(__file__))
VERIF = os.path.dirname(HERE)
props = [json.loads(l) for l in open(os.path.join(VERIF, "properties.jsonl"))]
claims = json.load(open(os.path.join(HERE, "claims.json")))
checks = []
na = []
for p in props:
    pid = p["id"]
    c = claims.get(pid)
    if c and c.get("claimed"):
        checks.append({
            "property_id": pid,
            "quick_cmd": "./check %s --tier quick" % pid,
            "thorough_cmd": "./check %s --tier thorough" % pid,
            "evidence_file": "/verif/evidence/%s.json" % pid,
            "replay_cmd_template": "./check %s --replay {path}" % pid,
            "engine": "coq-bhw",
            "level_claimed": {"category": "proof", "text": c["text"], "design_ref": c.get("design_ref", "DESIGN.md section 8, " + pid)},
            "level_note": c["note"],
            "technique": c.get("technique", "Coq 8.16 theorems over a hand-written Gallina model + regenerated constants; model tied to /repo by vm_compute correspondence on generated cases"),
        })
    else:
        na.append({"property_id": pid, "reason": (c or {}).get("reason", "check not built yet (work in progress; see DESIGN.md section 8 for the plan)")})
m = {
    "version": 1,
    "setup_cmd": "./setup.sh",
    "hooks": {"guard": "BTC_HD_WALLET_VERIF", "enable": "no source hooks: all observation is by wrapping module attributes from outside (harness/oracle.py)",
              "baseline_off_cmd": "cd /repo && /venv/bin/python -m pytest -ra -q -p no:cacheprovider --timeout=900 --continue-on-collection-errors",
              "source_commits": [], "add_only": True},
    "engines": [{"name": "coq-bhw", "path": "coq", "serves_properties": [c["property_id"] for c in checks],
                 "kind_free_text": "Coq 8.16.1 development (Spec/Model/Proofs/Props/Exec + Py: deep embedding of a Python fragment, translator harness/pytrans.py) + tables regenerated from /repo + vm_compute correspondence driven by harness/run.py"}],
    "checks": checks,
    "not_applicable": na,
    "notes": "Every check: regen gen/*.v from /repo (constants, effects, structure table, MiniPy terms of the translated functions), rebuild Props/Cxx.vo + Props/SCxx.vo (+ Props/CxxSrc.vo), audit Print Assumptions, run model-vs-implementation correspondence, the Spec-level property checker and (C03,C04,C05,C08,C09,C10,C11,C12,C17,C19,C20) the interpreter-vs-CPython stream inside Coq. See DESIGN.md.",
}
json.dump(m, open(os.path.join(VERIF, "MANIFEST.json"), "w"), indent=1)
print("claimed:", [c["property_id"] for c in checks])
