#!/bin/bash
# usage: goal.sh theories/X/Y.v LINE  -- show the proof state after LINE
f=$1; n=$2
head -n $n $f > /tmp/goal_tmp.v
echo "Show." >> /tmp/goal_tmp.v
cd /verif/coq && timeout 120 coqc -Q theories BHW -Q gen BHWGen /tmp/goal_tmp.v 2>&1 | grep -v "^Error: There are pending" | head -${3:-60}
