#!/bin/bash
# rewrite _CoqProject (file list) and Makefile
cd "$(dirname "$0")"
{ echo "-Q theories BHW"; echo "-Q gen BHWGen"; echo "-arg -w -arg -notation-overridden,-deprecated-hint-without-locality,-deprecated-instance-without-locality"; echo; find theories gen -name '*.v' | sort; } > _CoqProject.new
if ! cmp -s _CoqProject _CoqProject.new; then mv _CoqProject.new _CoqProject; coq_makefile -f _CoqProject -o Makefile 2>/dev/null >/dev/null; else rm _CoqProject.new; fi
[ -f Makefile ] || coq_makefile -f _CoqProject -o Makefile 2>/dev/null >/dev/null
