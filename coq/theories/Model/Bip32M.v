(* Executable model of btc_hd_wallet/bip32.py (PubKeyNode / PrvKeyNode), ecdsa-fallback
   branches, after the fix: commit that adds the missing `raise`s.
   A node value carries its parent (for fingerprints and path printing); the mutable
   `children` list is bookkeeping only and lives in Model/History.v. *)
From BHW Require Import Lib.Base Lib.Digits Lib.ListAux Model.Helper Model.Keys Spec.Curve.
From BHWGen Require Import Consts.

Inductive node := Node {
  is_prv : bool;                 (* PrvKeyNode vs PubKeyNode *)
  nkey : bytes;                  (* .key as stored: 32 or 33 bytes (prv), 33 bytes (pub) *)
  nchain : bytes;
  ndepth : Z;
  nindex : Z;
  ntestnet : bool;
  nparent : option node;
  nparsed_fpr : option bytes;    (* parsed_parent_fingerprint *)
  nparsed_version : option Z }.

(* PubKeyNode.__repr__: the node's path as a string *)
Definition py_str_nonneg (n : Z) : list Z :=
  if n =? 0 then [48] else map (fun d => d + 48) (rev (to_le 10 (S (Z.to_nat (Z.log2 n))) n)).
Definition py_str_int (n : Z) : list Z := if n <? 0 then 45 :: py_str_nonneg (- n) else py_str_nonneg n.
Fixpoint node_repr (nd : node) : list Z :=
  let mark := if is_prv nd then PRV_MARK else PUB_MARK in
  match nparent nd with
  | None => mark
  | Some p =>
      let idx := if 2147483648 <=? nindex nd then py_str_int (nindex nd - 2147483648) ++ [39]
                 else py_str_int (nindex nd) in
      node_repr p ++ 47 :: idx
  end.

Section Bip32.
Variable C : curve.
Variable hmac512 : bytes -> bytes -> bytes.
Variable hash160 : bytes -> bytes.
Variable alph : list Z.
Variable sha256 : bytes -> bytes.

(* PrvKeyNode.private_key *)
Definition private_key (nd : node) : res (bytes * pt C) :=
  match nkey nd with
  | 0 :: rest => if (length (nkey nd) =? 33)%nat then privkey_of_bytes C rest
                 else privkey_of_bytes C (nkey nd)
  | _ => privkey_of_bytes C (nkey nd)
  end.

(* .public_key: PrvKeyNode -> private_key.K ; PubKeyNode -> PublicKey.parse(key) *)
Definition public_key (nd : node) : res (pt C) :=
  if is_prv nd then rmap snd (private_key nd) else pubkey_parse C (nkey nd).

Definition fingerprint (nd : node) : res bytes :=
  do K <- public_key nd; Ok (take 4 (hash160 (ser_c C K))).

Definition is_master (nd : node) : bool :=
  (ndepth nd =? 0) && (nindex nd =? 0) && match nparent nd with None => true | Some _ => false end.

(* parent_fingerprint: `fingerprint or b"\x00"*4` *)
Definition parent_fingerprint (nd : node) : res bytes :=
  do f <- match nparent nd with
          | Some p => rmap Some (fingerprint p)
          | None => Ok (nparsed_fpr nd)
          end;
  Ok match f with
     | Some (x :: r) => x :: r
     | _ => [0; 0; 0; 0]
     end.

(* __eq__ *)
Definition node_eq (a b : node) : res bool :=
  if negb (Bool.eqb (is_prv a) (is_prv b)) then Ok false else
  do fa <- parent_fingerprint a; do fb <- parent_fingerprint b;
  Ok ((be2z (nkey a) =? be2z (nkey b)) && beq_bytes (nchain a) (nchain b) && (ndepth a =? ndepth b)
      && (nindex a =? nindex b) && Bool.eqb (ntestnet a) (ntestnet b) && beq_bytes fa fb).

(* _serialize *)
Definition serialize_node (nd : node) (key : bytes) (version : Z) : res bytes :=
  do v <- int_to_big_endian version 4;
  do d <- int_to_big_endian (ndepth nd) 1;
  do f <- (if is_master nd then int_to_big_endian 0 4 else parent_fingerprint nd);
  do i <- int_to_big_endian (nindex nd) 4;
  Ok (v ++ d ++ f ++ i ++ nchain nd ++ key).

Definition pub_version (nd : node) : Z := if ntestnet nd then PUB_TESTNET_VERSION else PUB_MAINNET_VERSION.
Definition prv_version (nd : node) : Z := if ntestnet nd then PRV_TESTNET_VERSION else PRV_MAINNET_VERSION.

Definition serialize_public (nd : node) (version : option Z) : res bytes :=
  do K <- public_key nd;
  serialize_node nd (ser_c C K) (match version with Some v => v | None => pub_version nd end).

Definition serialize_private (nd : node) (version : option Z) : res bytes :=
  do kK <- private_key nd;
  serialize_node nd (0 :: fst kK) (match version with Some v => v | None => prv_version nd end).

Definition extended_public_key (nd : node) (version : option Z) : res str :=
  do b <- serialize_public nd version; encode_base58_checksum alph sha256 b.
Definition extended_private_key (nd : node) (version : option Z) : res str :=
  do b <- serialize_private nd version; encode_base58_checksum alph sha256 b.

(* _parse: BytesIO reads, silently short *)
Definition parse_stream (prv : bool) (s : stream) (testnet : bool) : node :=
  let '(v, s) := sread 4 s in
  let '(d, s) := sread 1 s in
  let '(f, s) := sread 4 s in
  let '(i, s) := sread 4 s in
  let '(c, s) := sread 32 s in
  let '(k, s) := sread 33 s in
  {| is_prv := prv; nkey := k; nchain := c; ndepth := be2z d; nindex := be2z i;
     ntestnet := testnet; nparent := None; nparsed_fpr := Some f; nparsed_version := Some (be2z v) |}.

Definition parse_bytes (prv : bool) (b : bytes) (testnet : bool) : node :=
  parse_stream prv (mkstream b) testnet.
Definition parse_str (prv : bool) (s : str) (testnet : bool) : res node :=
  do b <- decode_base58_checksum alph sha256 s; Ok (parse_bytes prv b testnet).

Definition child_of (par : node) (key chain : bytes) (index : Z) : node :=
  {| is_prv := is_prv par; nkey := key; nchain := chain; ndepth := ndepth par + 1; nindex := index;
     ntestnet := ntestnet par; nparent := Some par; nparsed_fpr := None; nparsed_version := None |}.

(* PrvKeyNode.ckd *)
Definition ckd_prv (nd : node) (index : Z) : res node :=
  do data <- (if HARDENED <=? index then
                do kK <- private_key nd; do i4 <- int_to_big_endian index 4; Ok (0 :: fst kK ++ i4)
              else
                do K <- public_key nd; do i4 <- int_to_big_endian index 4; Ok (ser_c C K ++ i4));
  let I := hmac512 (nchain nd) data in
  let IL := take 32 I in let IR := drop 32 I in
  do kK <- private_key nd;
  if CURVE_ORDER <=? big_endian_to_int IL then Err else
  let ki := (be2z IL + big_endian_to_int (fst kK)) mod CURVE_ORDER in
  if ki =? 0 then Err else
  do kb <- int_to_big_endian ki 32;
  Ok (child_of nd kb IR index).

(* PubKeyNode.ckd *)
Definition ckd_pub (nd : node) (index : Z) : res node :=
  if HARDENED <=? index then Err else
  do i4 <- int_to_big_endian index 4;
  let I := hmac512 (nchain nd) (nkey nd ++ i4) in
  let IL := take 32 I in let IR := drop 32 I in
  do Kpar <- public_key nd;
  if CURVE_ORDER <=? big_endian_to_int IL then Err else
  do ilK <- privkey_of_bytes C IL;
  match padd C (Some (snd ilK)) (Some Kpar) with
  | None => Err
  | Some Ki => Ok (child_of nd (ser_c C Ki) IR index)
  end.

Definition ckd (nd : node) (index : Z) : res node :=
  if is_prv nd then ckd_prv nd index else ckd_pub nd index.

Fixpoint derive_path (nd : node) (path : list Z) : res node :=
  match path with
  | [] => Ok nd
  | i :: r => do c <- ckd nd i; derive_path c r
  end.

(* PrvKeyNode.master_key *)
Definition master_key (seed : bytes) (seed_key : bytes) (testnet : bool) : res node :=
  let I := hmac512 seed_key seed in
  let IL := take 32 I in
  let ilk := big_endian_to_int IL in
  if ilk =? 0 then Err else
  if CURVE_ORDER <=? ilk then Err else
  Ok {| is_prv := true; nkey := IL; nchain := drop 32 I; ndepth := 0; nindex := 0; ntestnet := testnet;
        nparent := None; nparsed_fpr := None; nparsed_version := None |}.

End Bip32.
