(* Executable model of btc_hd_wallet/base_wallet.py (the parts the properties touch). *)
From BHW Require Import Lib.Base Lib.Digits Lib.ListAux Model.Helper Model.Keys Model.Bip32M Model.WalletUtils Spec.Curve.
From BHWGen Require Import Consts.

Section BaseWallet.
Variable C : curve.
Variable hmac512 : bytes -> bytes -> bytes.

(* BaseWallet.by_path *)
Definition by_path (master : node) (path : str) : res node :=
  do p <- path_parse path;
  derive_path C hmac512 master (to_list p).
End BaseWallet.
