(* Executable model of btc_hd_wallet/base_wallet.py (the parts the properties touch). *)
From BHW Require Import Lib.Base Lib.Digits Lib.ListAux Model.Helper Model.Keys Model.Bip32M Model.WalletUtils Spec.Curve.
From BHWGen Require Import Consts.

Section BaseWallet.
Variable C : curve.
Variable hmac512 : bytes -> bytes -> bytes.

(* BaseWallet.by_path *)
Definition by_path (master : node) (path : str) : res node :=
  do p <- path_parse path;
  derive_path C hmac512 master (to_list p).

(* BaseWallet.from_extended_key: (master node, wallet.testnet) *)
Variable alph : list Z.
Variable sha256 : bytes -> bytes.
Definition from_extended_key (s : str) : res (node * bool) :=
  do n0 <- parse_str alph sha256 true s false;
  do ver <- of_option (nparsed_version n0);
  do kbt <- version_parse ver;
  let '(key_type, _, testnet) := kbt in
  do nd <- parse_str alph sha256 (key_type =? KEY_PRV) s testnet;
  Ok (nd, testnet).
Definition watch_only (master : node) : bool := negb (is_prv master).
End BaseWallet.
