(* Executable model of btc_hd_wallet/base_wallet.py (the parts the properties touch). *)
From BHW Require Import Lib.Base Lib.Digits Lib.ListAux Model.Helper Model.Keys Model.Bip32M Model.WalletUtils Spec.Curve.
From BHW Require Import Model.Bip39M.
From BHWGen Require Import Consts.

Section BaseWallet.
Variable C : curve.
Variable hmac512 : bytes -> bytes -> bytes.

(* BaseWallet.by_path *)
Definition by_path (master : node) (path : str) : res node :=
  do p <- path_parse path;
  derive_path C hmac512 master (to_list p).

(* BaseWallet.from_extended_key: (master node, wallet.testnet) *)
Variable alph : list Z.
Variable sha256 : bytes -> bytes.
Definition from_extended_key (s : str) : res (node * bool) :=
  do n0 <- parse_str alph sha256 true s false;
  do ver <- of_option (nparsed_version n0);
  do kbt <- version_parse ver;
  let '(key_type, _, testnet) := kbt in
  do nd <- parse_str alph sha256 (key_type =? KEY_PRV) s testnet;
  Ok (nd, testnet).
Definition watch_only (master : node) : bool := negb (is_prv master).

(* the constructors: (master node, testnet, mnemonic, password) *)
Variable nfkd : str -> str.
Variable utf8 : str -> bytes.
Variable pbkdf2 : bytes -> bytes -> Z -> bytes.
Definition seed_key : bytes := [66;105;116;99;111;105;110;32;115;101;101;100].     (* b"Bitcoin seed" *)

Definition from_bip39_seed_bytes (seed : bytes) (testnet : bool) : res (node * bool * option str * option str) :=
  do m <- master_key hmac512 seed seed_key testnet; Ok (m, testnet, None, None).
Definition from_bip39_seed_hex (seed_hex : str) (testnet : bool) :=
  do b <- fromhex seed_hex; from_bip39_seed_bytes b testnet.
Definition from_mnemonic (mnemonic password : str) (testnet : bool) : res (node * bool * option str * option str) :=
  do m <- master_key hmac512 (bip39_seed_from_mnemonic nfkd utf8 pbkdf2 mnemonic password) seed_key testnet;
  Ok (m, testnet, Some mnemonic, Some password).
Definition from_entropy_hex (entropy_hex password : str) (testnet : bool) :=
  do mn <- mnemonic_from_entropy sha256 entropy_hex; from_mnemonic mn password testnet.
End BaseWallet.
