(* Model of the fresh-entropy path: bip39.mnemonic_from_entropy_bits / BaseWallet.new_wallet, with the operating
   system's random source as an explicit input.  CPython 3.12 SystemRandom.getrandbits(k):
     numbytes = (k + 7) // 8 ; x = int.from_bytes(os.urandom(numbytes), 'big') ; return x >> (numbytes * 8 - k) *)
From BHW Require Import Lib.Base Lib.Digits Lib.ListAux Model.Helper Model.Bip39M Model.Bip85M.
From BHWGen Require Import Consts.

Definition request_bytes (k : Z) : nat := Z.to_nat ((k + 7) / 8).
Definition getrandbits (k : Z) (os : bytes) : Z :=
  be2z os / 2 ^ (Z.of_nat (length os) * 8 - k).

Section Rng.
Variable sha256 : bytes -> bytes.
Variable urandom : nat -> bytes.         (* the bytes the OS answers to a request of n bytes *)

Definition mnemonic_from_entropy_bits (entropy_bits : Z) : res str :=
  if negb (memb entropy_bits CORRECT_ENTROPY_BITS) then Err else
  let entropy_int := getrandbits entropy_bits (urandom (request_bytes entropy_bits)) in
  do entropy_bytes <- int_to_big_endian entropy_int (Z.to_nat (entropy_bits / 8));
  mnemonic_from_entropy sha256 (hexstr entropy_bytes).

Definition entropy_bits_of_length (mnemonic_length : Z) : res Z :=
  of_option (option_map snd (find (fun p => fst p =? mnemonic_length) MNEMONIC_LENGTH_TO_ENTROPY_BITS)).

(* BaseWallet.new_wallet(mnemonic_length).mnemonic *)
Definition new_wallet_mnemonic (mnemonic_length : Z) : res str :=
  do bits <- entropy_bits_of_length mnemonic_length; mnemonic_from_entropy_bits bits.
End Rng.
