(* Executable model of btc_hd_wallet/ripemd.py (pure-Python RIPEMD-160), over the regenerated
   tables ML MR RL RR KL KR and initial state.  Python integers are unbounded: masking happens
   only where the code masks (in rol and at output), ~x is Z.lnot. *)
From BHW Require Import Lib.Base Lib.Digits Lib.ListAux Model.Helper.
From BHWGen Require Import RipemdTables.

Definition fi (x y z i : Z) : Z :=
  if i =? 0 then Z.lxor (Z.lxor x y) z
  else if i =? 1 then Z.lor (Z.land x y) (Z.land (Z.lnot x) z)
  else if i =? 2 then Z.lxor (Z.lor x (Z.lnot y)) z
  else if i =? 3 then Z.lor (Z.land x z) (Z.land y (Z.lnot z))
  else Z.lxor x (Z.lor y (Z.lnot z)).

Definition rol (x i : Z) : Z :=
  Z.land (Z.lor (Z.shiftl x i) (Z.shiftr (Z.land x 4294967295) (32 - i))) 4294967295.

Definition tab (t : list Z) (j : nat) : Z := nth j t 0.

Record st10 := { al : Z; bl : Z; cl : Z; dl : Z; el : Z; ar : Z; br : Z; cr : Z; dr : Z; er : Z }.

Definition round (x : list Z) (s : st10) (j : nat) : st10 :=
  let rnd := Z.of_nat (j / 16) in
  let al' := rol (al s + fi (bl s) (cl s) (dl s) rnd + tab x (Z.to_nat (tab ML j)) + tab KL (j / 16)) (tab RL j) + el s in
  let ar' := rol (ar s + fi (br s) (cr s) (dr s) (4 - rnd) + tab x (Z.to_nat (tab MR j)) + tab KR (j / 16)) (tab RR j) + er s in
  {| al := el s; bl := al'; cl := bl s; dl := rol (cl s) 10; el := dl s;
     ar := er s; br := ar'; cr := br s; dr := rol (cr s) 10; er := dr s |}.

Fixpoint words_le (n : nat) (block : bytes) : list Z :=
  match n with
  | O => []
  | S k => le2z (firstn 4 block) :: words_le k (skipn 4 block)
  end.

Definition state := (Z * Z * Z * Z * Z)%type.

Definition compress (h : state) (block : bytes) : state :=
  let '(h0, h1, h2, h3, h4) := h in
  let x := words_le 16 block in
  let s0 := {| al := h0; bl := h1; cl := h2; dl := h3; el := h4; ar := h0; br := h1; cr := h2; dr := h3; er := h4 |} in
  let s := fold_left (round x) (seq 0 80) s0 in
  (h1 + cl s + dr s, h2 + dl s + er s, h3 + el s + ar s, h4 + al s + br s, h0 + bl s + cr s).

Fixpoint blocks (n : nat) (data : bytes) : list bytes :=
  match n with
  | O => []
  | S k => firstn 64 data :: blocks k (skipn 64 data)
  end.

Definition init_state : res state :=
  match INIT_STATE with
  | Some [a; b; c; d; e] => Ok (a, b, c, d, e)
  | _ => Err
  end.

(* the padded tail: data[len & ~63:] + 0x80 + zeros((119 - len) & 63) + (8 len).to_bytes(8, 'little') *)
Definition fin_of (data : bytes) : res bytes :=
  let len := Z.of_nat (length data) in
  let pad := 128 :: repeat 0 (Z.to_nat (Z.land (119 - len) 63)) in
  do lb <- z2le 8 (8 * len);
  Ok (skipn (Z.to_nat (Z.land len (Z.lnot 63))) data ++ pad ++ lb).

Definition ripemd160 (data : bytes) : res bytes :=
  do s0 <- init_state;
  let nb := Z.to_nat (Z.shiftr (Z.of_nat (length data)) 6) in
  let s1 := fold_left compress (blocks nb data) s0 in
  do fin <- fin_of data;
  let nf := Z.to_nat (Z.shiftr (Z.of_nat (length fin)) 6) in
  let '(a, b, c, d, e) := fold_left compress (blocks nf fin) s1 in
  do wa <- z2le 4 (Z.land a 4294967295); do wb <- z2le 4 (Z.land b 4294967295);
  do wc <- z2le 4 (Z.land c 4294967295); do wd <- z2le 4 (Z.land d 4294967295);
  do we <- z2le 4 (Z.land e 4294967295);
  Ok (wa ++ wb ++ wc ++ wd ++ we).

(* all bytes the compression function is run over, in order *)
Definition processed (data : bytes) : res bytes :=
  let nb := Z.to_nat (Z.shiftr (Z.of_nat (length data)) 6) in
  do fin <- fin_of data;
  let nf := Z.to_nat (Z.shiftr (Z.of_nat (length fin)) 6) in
  Ok (concat (blocks nb data) ++ concat (blocks nf fin)).
