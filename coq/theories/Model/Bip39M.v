(* Executable model of btc_hd_wallet/bip39.py.  The string route of mnemonic_from_entropy
   (bin()[2:], zfill, 11-character chunks, int(.,2)) is modelled by its arithmetic meaning:
   the (ENT+CS)-bit number  entropy * 2^CS + top-CS-bits-of-SHA256  split into 11-bit digits.
   Model of the repaired code (size validation on the decoded bytes, D4). *)
From BHW Require Import Lib.Base Lib.Digits Lib.ListAux Model.Helper.
From BHWGen Require Import Consts Wordlist.

(* bytes.fromhex: pairs of hex digits, ASCII whitespace allowed between pairs *)
Definition hexdigit (c : Z) : option Z :=
  if (48 <=? c) && (c <=? 57) then Some (c - 48)
  else if (97 <=? c) && (c <=? 102) then Some (c - 87)
  else if (65 <=? c) && (c <=? 70) then Some (c - 55) else None.
Definition is_hexws (c : Z) : bool := (c =? 32) || ((9 <=? c) && (c <=? 13)).
Fixpoint fromhex (s : str) : res bytes :=
  match s with
  | [] => Ok []
  | c :: r =>
      if is_hexws c then fromhex r else
      match hexdigit c, r with
      | Some h, d :: r' => match hexdigit d with
                           | Some l => rmap (cons (16 * h + l)) (fromhex r')
                           | None => Err end
      | _, _ => Err
      end
  end.

Section Bip39.
Variable sha256 : bytes -> bytes.

Definition checksum_length (entropy_bits : Z) : Z := entropy_bits / 32.

Definition mnemonic_indexes (e : bytes) : res (list Z) :=
  let bits := 8 * Z.of_nat (length e) in
  if negb (memb bits CORRECT_ENTROPY_BITS) then Err else
  let cs := checksum_length bits in
  let total := be2z e * 2 ^ cs + be2z (sha256 e) / 2 ^ (256 - cs) in
  Ok (rev (to_le_fixed 2048 (Z.to_nat ((bits + cs) / 11)) total)).

Fixpoint join_space (ws : list str) : str :=
  match ws with
  | [] => []
  | [w] => w
  | w :: r => w ++ 32 :: join_space r
  end.

Definition mnemonic_from_entropy_bytes (e : bytes) : res str :=
  do idx <- mnemonic_indexes e;
  do ws <- map_res (fun i => of_option (nth_error word_list (Z.to_nat i))) idx;
  Ok (join_space ws).

Definition mnemonic_from_entropy (hex : str) : res str :=
  do e <- fromhex hex; mnemonic_from_entropy_bytes e.
End Bip39.

(* bip39_seed_from_mnemonic: unicodedata.normalize, str.encode and hashlib.pbkdf2_hmac are external *)
Section Seed.
Variable nfkd : str -> str.                        (* unicodedata.normalize("NFKD", .) *)
Variable utf8 : str -> bytes.                      (* str.encode("utf-8") *)
Variable pbkdf2 : bytes -> bytes -> Z -> bytes.    (* hashlib.pbkdf2_hmac("sha512", pw, salt, rounds) -> 64 bytes *)

Definition s_mnemonic : str := [109;110;101;109;111;110;105;99].      (* "mnemonic" *)

Definition bip39_seed_from_mnemonic (mnemonic password : str) : bytes :=
  let mnemonic := nfkd mnemonic in
  let password := nfkd password in
  let passphrase := nfkd s_mnemonic ++ password in
  pbkdf2 (utf8 mnemonic) (utf8 passphrase) PBKDF2_ROUNDS.
End Seed.
