(* Executable model of btc_hd_wallet/keys.py, ecdsa-fallback branches (the live
   ones in this sandbox).  The curve is a parameter. *)
From BHW Require Import Lib.Base Lib.Digits Lib.ListAux Model.Helper Spec.Curve.

Section Keys.
Variable C : curve.

(* PrivateKey(sec_exp: bytes): ecdsa.SigningKey.from_string wants exactly 32 bytes
   encoding an integer in [1, n-1]; .k = to_string() = the same 32 bytes; .K = k.G *)
Definition privkey_of_bytes (b : bytes) : res (bytes * pt C) :=
  if negb (length b =? 32)%nat then Err else
  let k := be2z b in
  if (k <? 1) || (order C <=? k) then Err else
  match G_mul C k with
  | Some K => do kb <- z2be 32 k; Ok (kb, K)
  | None => Err
  end.

(* PrivateKey(sec_exp: int) / PrivateKey.from_int *)
Definition privkey_of_int (k : Z) : res (bytes * pt C) :=
  do b <- int_to_big_endian k 32; privkey_of_bytes b.

(* PublicKey.sec(compressed) *)
Definition sec (K : pt C) (compressed : bool) : bytes :=
  if compressed then ser_c C K else ser_u C K.

(* PublicKey.parse *)
Definition pubkey_parse (b : bytes) : res (pt C) := of_option (parse_pt C b).

End Keys.
