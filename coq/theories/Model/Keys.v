(* Executable model of btc_hd_wallet/keys.py, ecdsa-fallback branches (the live
   ones in this sandbox).  The curve is a parameter. *)
From BHW Require Import Lib.Base Lib.Digits Lib.ListAux Model.Helper Spec.Curve.

Section Keys.
Variable C : curve.

(* PrivateKey(sec_exp: bytes): ecdsa.SigningKey.from_string wants exactly 32 bytes
   encoding an integer in [1, n-1]; .k = to_string() = the same 32 bytes; .K = k.G *)
Definition privkey_of_bytes (b : bytes) : res (bytes * pt C) :=
  if negb (length b =? 32)%nat then Err else
  let k := be2z b in
  if (k <? 1) || (order C <=? k) then Err else
  match G_mul C k with
  | Some K => do kb <- z2be 32 k; Ok (kb, K)
  | None => Err
  end.

(* PrivateKey(sec_exp: int) / PrivateKey.from_int *)
Definition privkey_of_int (k : Z) : res (bytes * pt C) :=
  do b <- int_to_big_endian k 32; privkey_of_bytes b.

(* PublicKey.sec(compressed) *)
Definition sec (K : pt C) (compressed : bool) : bytes :=
  if compressed then ser_c C K else ser_u C K.

(* PublicKey.parse *)
Definition pubkey_parse (b : bytes) : res (pt C) := of_option (parse_pt C b).


(* PrivateKey.wif / from_wif *)
Variable alph : list Z.
Variable sha256 : bytes -> bytes.

Definition wif_payload (k : bytes) (compressed testnet : bool) : bytes :=
  (if testnet then [239] else [128]) ++ k ++ (if compressed then [1] else []).
Definition wif (k : bytes) (compressed testnet : bool) : res str :=
  encode_base58_checksum alph sha256 (wif_payload k compressed testnet).

Definition from_wif (s : str) : res (bytes * pt C) :=
  do decoded <- decode_base58_checksum alph sha256 s;
  match s with
  | [] => Err                                              (* wif_str[0]: IndexError *)
  | c0 :: _ =>
      if (c0 =? 75) || (c0 =? 76) || (c0 =? 99) then        (* "K", "L", "c" *)
        match rev decoded with
        | 1 :: _ => privkey_of_bytes (drop 1 (drop_last 1 decoded))   (* assert decoded[-1] == 1 *)
        | _ => Err
        end
      else privkey_of_bytes (drop 1 decoded)
  end.
End Keys.
