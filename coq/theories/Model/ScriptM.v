(* Executable model of btc_hd_wallet/script.py: Script.parse / raw_serialize / serialize
   and the four script builders.  A command is an opcode (Python int) or a data
   element (Python bytes). *)
From BHW Require Import Lib.Base Lib.Digits Lib.ListAux Model.Helper.

Inductive cmd := Op (o : Z) | Data (d : bytes).

Definition beq_cmd (a b : cmd) : bool :=
  match a, b with
  | Op x, Op y => x =? y
  | Data x, Data y => beq_bytes x y
  | _, _ => false
  end.
Fixpoint beq_cmds (a b : list cmd) : bool :=
  match a, b with
  | [], [] => true
  | x :: a', y :: b' => beq_cmd x y && beq_cmds a' b'
  | _, _ => false
  end.

(* one command of raw_serialize *)
Definition ser_cmd (c : cmd) : res bytes :=
  match c with
  | Op o => int_to_little_endian o 1
  | Data d =>
      let len := Z.of_nat (length d) in
      if len <=? 75 then
        do l <- int_to_little_endian len 1; Ok (l ++ d)
      else if (75 <? len) && (len <? 256) then
        do a <- int_to_little_endian 76 1; do l <- int_to_little_endian len 1; Ok (a ++ l ++ d)
      else if (256 <=? len) && (len <=? 520) then
        do a <- int_to_little_endian 77 1; do l <- int_to_little_endian len 2; Ok (a ++ l ++ d)
      else Err
  end.

Fixpoint raw_serialize (cmds : list cmd) : res bytes :=
  match cmds with
  | [] => Ok []
  | c :: r => do x <- ser_cmd c; do y <- raw_serialize r; Ok (x ++ y)
  end.

Definition serialize (cmds : list cmd) : res bytes :=
  do r <- raw_serialize cmds;
  do v <- encode_varint (Z.of_nat (length r));
  Ok (v ++ r).

(* the while loop of Script.parse; every iteration consumes at least one byte,
   so |remaining bytes| + 1 is enough fuel and fuel exhaustion is an error *)
Fixpoint parse_loop (fuel : nat) (s : stream) (count len : Z) (acc : list cmd)
  : res (list cmd * Z * stream) :=
  match fuel with
  | O => Err
  | S f =>
      if count <? len then
        do (cur, s1) <- sread_exact 1 s;
        match cur with
        | [cb] =>
            let count := count + 1 in
            if (1 <=? cb) && (cb <=? 75) then
              do (d, s2) <- sread_exact (Z.to_nat cb) s1;
              parse_loop f s2 (count + cb) len (acc ++ [Data d])
            else if cb =? 76 then
              do (l, s2) <- sread_exact 1 s1;
              let dl := little_endian_to_int l in
              do (d, s3) <- sread_exact (Z.to_nat dl) s2;
              parse_loop f s3 (count + dl + 1) len (acc ++ [Data d])
            else if cb =? 77 then
              do (l, s2) <- sread_exact 2 s1;
              let dl := little_endian_to_int l in
              do (d, s3) <- sread_exact (Z.to_nat dl) s2;
              parse_loop f s3 (count + dl + 2) len (acc ++ [Data d])
            else parse_loop f s1 count len (acc ++ [Op cb])
        | _ => Err
        end
      else Ok (acc, count, s)
  end.

Definition parse (s : stream) : res (list cmd * stream) :=
  do (len, s1) <- read_varint s;
  do (cmds, count, s2) <- parse_loop (S (length (sremaining s1))) s1 0 len [];
  if count =? len then Ok (cmds, s2) else Err.

Definition parse_bytes (b : bytes) : res (list cmd) := rmap fst (parse (mkstream b)).

(* builders *)
Definition p2wsh_script (h256 : bytes) : list cmd := [Op 0; Data h256].
Definition p2wpkh_script (h160 : bytes) : list cmd := [Op 0; Data h160].
Definition p2sh_script (h160 : bytes) : list cmd := [Op 169; Data h160; Op 135].
Definition p2pkh_script (h160 : bytes) : list cmd := [Op 118; Op 169; Data h160; Op 136; Op 172].
