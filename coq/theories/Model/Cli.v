(* Executable model of btc_hd_wallet/__main__.py: the argument validators and the decision structure of main().
   argparse itself (tokenisation, abbreviations, exit plumbing) is outside the model.  Model of the code after the
   fix: commit that refuses hardened address indexes in --interval (D6). *)
From BHW Require Import Lib.Base Lib.ListAux Model.Helper Model.WalletUtils.
From BHWGen Require Import Consts.

(* value_in_interval: int(value), then min <= value < max *)
Definition value_in_interval (value : str) (min_ max_ : Z) : res Z :=
  do v <- py_int value; if (min_ <=? v) && (v <? max_) then Ok v else Err.
Definition address_index (value : str) : res Z := value_in_interval value 0 (2 ^ 32 - 1).
Definition account_index (value : str) : res Z := value_in_interval value 0 (2 ^ 31 - 1).

Definition len (s : str) : Z := Z.of_nat (length s).
Definition extended_key (value : str) : res str := if len value =? 111 then Ok value else Err.
Definition mnemonic (value : str) : res str :=
  if memb (Z.of_nat (length (split_on 32 value []))) CORRECT_MNEMONIC_LENGTH then Ok (strip value) else Err.
Definition bip39_seed (value : str) : res str := if len value =? 128 then Ok value else Err.
Definition entropy_hex (value : str) : res str := if memb (len value * 4) CORRECT_ENTROPY_BITS then Ok value else Err.

(* file_: the three file-system facts the validator consults *)
Record fs_view := { is_dir : bool; exists_ : bool; parent_writable : bool }.
Definition file_ (v : fs_view) : bool := negb (is_dir v) && negb (exists_ v) && parent_writable v.

(* the options of one invocation, as strings (None = option absent) *)
Record argv := {
  a_account : option str; a_interval : option (str * str); a_file : option fs_view;
  a_command : Z;                  (* 0 none, 1 new, 2 from-master-xprv, 3 from-mnemonic, 4 from-bip39-seed, 5 from-entropy-hex *)
  a_secret : str;                 (* the positional argument of commands 2..5 *)
  a_mnemonic_len : option str }.

(* does argument validation (and the main() guard) accept the vector?  Ok (account, lo, hi) *)
Definition accepts (a : argv) : res (Z * Z * Z) :=
  do account <- match a_account a with Some s => account_index s | None => Ok 0 end;
  do iv <- match a_interval a with
           | Some (s, e) => do lo <- address_index s; do hi <- address_index e; Ok (lo, hi)
           | None => Ok (0, 20) end;
  do _ <- match a_file a with Some v => if file_ v then Ok tt else Err | None => Ok tt end;
  do _ <- (if a_command a =? 0 then Err                      (* no sub-command: help + exit 1 *)
           else if a_command a =? 1 then
             match a_mnemonic_len a with
             | Some s => do n <- py_int s; if memb n CORRECT_MNEMONIC_LENGTH then Ok tt else Err
             | None => Ok tt end
           else if a_command a =? 2 then rmap (fun _ => tt) (extended_key (a_secret a))
           else if a_command a =? 3 then rmap (fun _ => tt) (mnemonic (a_secret a))
           else if a_command a =? 4 then rmap (fun _ => tt) (bip39_seed (a_secret a))
           else if a_command a =? 5 then rmap (fun _ => tt) (entropy_hex (a_secret a))
           else Err);
  (* main(): BIP44 address indexes are not hardened *)
  if 2147483648 <? snd iv then Err else Ok (account, fst iv, snd iv).
