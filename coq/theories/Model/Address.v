(* Executable model of the address helpers (helper.py), PublicKey.address (keys.py) and the five
   BaseWallet address methods (base_wallet.py).  Prefix bytes and hrps are regenerated literals. *)
From BHW Require Import Lib.Base Lib.ListAux Model.Helper Model.Keys Model.Bip32M Model.ScriptM Model.Bech32M Spec.Curve.
From BHWGen Require Import Consts.

(* `X if testnet else Y`: the regenerated literal list is [X; Y] *)
Definition pick {A} (tbl : option (list A)) (testnet : bool) : res A :=
  match tbl with
  | Some [t; m] => Ok (if testnet then t else m)
  | _ => Err
  end.

Section Address.
Variable C : curve.
Variable alph : list Z.
Variable sha256 : bytes -> bytes.
Variable hash160 : bytes -> bytes.          (* helper.hash160 = ripemd160 o sha256 *)

Definition h160_to_p2pkh_address (h160 : bytes) (testnet : bool) : res str :=
  do p <- pick P2PKH_ADDR_BYTES testnet; encode_base58_checksum alph sha256 (p ++ h160).
Definition h160_to_p2sh_address (h160 : bytes) (testnet : bool) : res str :=
  do p <- pick P2SH_ADDR_BYTES testnet; encode_base58_checksum alph sha256 (p ++ h160).
Definition h160_to_p2wpkh_address (h160 : bytes) (testnet : bool) (witver : Z) : res (option str) :=
  do hrp <- pick P2WPKH_ADDR_STRS testnet; Bech32M.encode hrp witver h160.
Definition h256_to_p2wsh_address (h256 : bytes) (testnet : bool) (witver : Z) : res (option str) :=
  do hrp <- pick P2WSH_ADDR_STRS testnet; Bech32M.encode hrp witver h256.

(* PublicKey.address(compressed, testnet, addr_type): 0 = "p2pkh", 1 = "p2wpkh", else ValueError *)
Definition pk_address (K : pt C) (compressed testnet : bool) (addr_type : Z) : res (option str) :=
  let h := hash160 (sec C K compressed) in
  if addr_type =? 0 then rmap Some (h160_to_p2pkh_address h testnet)
  else if addr_type =? 1 then h160_to_p2wpkh_address h testnet 0
  else Err.

Definition witness_script (K : pt C) : list cmd := [Op 81; Data (ser_c C K); Op 81; Op 174].

Definition p2pkh_address (nd : node) (testnet : bool) : res (option str) :=
  do K <- public_key C nd; pk_address K true testnet 0.
Definition p2wpkh_address (nd : node) (testnet : bool) : res (option str) :=
  do K <- public_key C nd; pk_address K true testnet 1.
Definition p2sh_p2wpkh_address (nd : node) (testnet : bool) : res (option str) :=
  do K <- public_key C nd;
  do rs <- raw_serialize (p2wpkh_script (hash160 (ser_c C K)));
  rmap Some (h160_to_p2sh_address (hash160 rs) testnet).
Definition p2wsh_address (nd : node) (testnet : bool) : res (option str) :=
  do K <- public_key C nd;
  do ws <- raw_serialize (witness_script K);
  h256_to_p2wsh_address (sha256 ws) testnet 0.
Definition p2sh_p2wsh_address (nd : node) (testnet : bool) : res (option str) :=
  do K <- public_key C nd;
  do ws <- raw_serialize (witness_script K);
  do rs <- raw_serialize (p2wsh_script (sha256 ws));
  rmap Some (h160_to_p2sh_address (hash160 rs) testnet).
End Address.
