(* Executable model of btc_hd_wallet/paper_wallet.py and the parts of base_wallet.py it uses
   (node_extended_keys, determine_node_version_int), plus paranoia_mode from __main__.py.
   Python dict / list / str / None values are a generic `tree`. *)
From BHW Require Import Lib.Base Lib.Digits Lib.ListAux Model.Helper Model.Keys Model.Bip32M Model.WalletUtils
  Model.Bip39M Model.Bip85M Model.Address Model.BaseWallet Spec.Curve.
From BHWGen Require Import Consts.
From Coq Require Import String Ascii.

Inductive tree :=
| TStr (s : str)
| TNone
| TList (l : list tree)
| TDict (kv : list (str * tree)).

Definition k (s : string) : str := map (fun a => Z.of_N (N_of_ascii a)) (list_ascii_of_string s).
Definition topt (o : option str) : tree := match o with Some s => TStr s | None => TNone end.

Fixpoint zrange_from (lo : Z) (n : nat) : list Z :=
  match n with O => [] | S m => lo :: zrange_from (lo + 1) m end.
(* range(lo, hi) *)
Definition zrange (lo hi : Z) : list Z := zrange_from lo (Z.to_nat (hi - lo)).

Fixpoint dict_get (key : str) (kv : list (str * tree)) : res tree :=
  match kv with
  | [] => Err                                              (* KeyError *)
  | (k', v) :: r => if beq_bytes k' key then Ok v else dict_get key r
  end.
Definition tget (key : str) (t : tree) : res tree :=
  match t with TDict kv => dict_get key kv | _ => Err end.

Record wallet := { w_master : node; w_testnet : bool; w_mnemonic : option str; w_password : option str }.

Section PaperWallet.
Variable C : curve.
Variable hmac512 : bytes -> bytes -> bytes.
Variable sha256 : bytes -> bytes.
Variable hash160 : bytes -> bytes.
Variable alph : list Z.

Definition w_watch_only (w : wallet) : bool := negb (is_prv (w_master w)).

(* Bip32Path.bip(): from the purpose slot *)
Definition path_bip (p : bpath) : Z :=
  match bp_items p with
  | Some v :: _ => if v =? 44 + 2147483648 then BIP_44 else if v =? 49 + 2147483648 then BIP_49
                   else if v =? 84 + 2147483648 then BIP_84 else BIP_44
  | _ => BIP_44
  end.

(* determine_node_version_int: parses the node's own path string *)
Definition node_version (w : wallet) (nd : node) (key_type : Z) : res Z :=
  do p <- path_parse (node_repr nd);
  version_int key_type (path_bip p) (w_testnet w).

Definition node_extended_public_key (w : wallet) (nd : node) : res str :=
  do v <- node_version w nd KEY_PUB; extended_public_key C hash160 alph sha256 nd (Some v).
Definition node_extended_private_key (w : wallet) (nd : node) : res str :=
  if negb (is_prv nd) then Err else
  do v <- node_version w nd KEY_PRV; extended_private_key C hash160 alph sha256 nd (Some v).

Definition node_extended_keys (w : wallet) (nd : node) : res tree :=
  do prv <- (if w_watch_only w then Ok TNone else rmap TStr (node_extended_private_key w nd));
  do pub <- node_extended_public_key w nd;
  Ok (TDict [(k "path", TStr (node_repr nd)); (k "pub", TStr pub); (k "prv", prv)]).

(* address functions as the wallet calls them: 44 -> p2pkh, 49 -> p2sh-p2wpkh, 84 -> p2wpkh *)
Definition addr_fnc (purpose : Z) (w : wallet) (nd : node) : res (option str) :=
  if purpose =? 44 then p2pkh_address C alph sha256 hash160 nd (w_testnet w)
  else if purpose =? 49 then p2sh_p2wpkh_address C alph sha256 hash160 nd (w_testnet w)
  else p2wpkh_address C alph sha256 hash160 nd (w_testnet w).

Definition row (purpose : Z) (w : wallet) (nd : node) : res tree :=
  do a <- addr_fnc purpose w nd;
  do K <- public_key C nd;
  do wf <- (if w_watch_only w then Ok TNone
            else do kK <- private_key C nd; rmap TStr (wif alph sha256 (fst kK) true (w_testnet w)));
  Ok (TList [TStr (node_repr nd); topt a; TStr (hexstr (ser_c C K)); wf]).

Definition account_path (purpose : Z) (w : wallet) (account : Z) : list Z :=
  [purpose + HARDENED; (if w_testnet w then 1 + HARDENED else HARDENED); account + HARDENED].

(* bip44 / bip49 / bip84 *)
Definition bip_section (purpose : Z) (w : wallet) (account lo hi : Z) : res (tree * tree) :=
  do acct <- derive_path C hmac512 (w_master w) (account_path purpose w account);
  do keys <- node_extended_keys w acct;
  do ext <- derive_path C hmac512 acct [0];
  do children <- map_res (fun i => ckd C hmac512 ext i) (zrange lo hi);
  do rows <- map_res (row purpose w) children;
  Ok (keys, TList rows).

Definition bip85_data (w : wallet) : res tree :=
  if w_watch_only w then Err else                  (* self.bip85 is None: AttributeError *)
  let m := w_master w in
  do m24 <- bip39_mnemonic C hmac512 sha256 m 24 0;
  do m18 <- bip39_mnemonic C hmac512 sha256 m 18 0;
  do m12 <- bip39_mnemonic C hmac512 sha256 m 12 0;
  do w0 <- wif85 C hmac512 sha256 alph m 0; do w1 <- wif85 C hmac512 sha256 alph m 1; do w2 <- wif85 C hmac512 sha256 alph m 2;
  do x0 <- xprv85 C hmac512 sha256 hash160 alph m 0; do x1 <- xprv85 C hmac512 sha256 hash160 alph m 1;
  do x2 <- xprv85 C hmac512 sha256 hash160 alph m 2;
  Ok (TDict [(k "m/83696968'/39'/0'/24'/0'", TStr m24); (k "m/83696968'/39'/0'/18'/0'", TStr m18);
             (k "m/83696968'/39'/0'/12'/0'", TStr m12);
             (k "m/83696968'/2'/0'", TStr w0); (k "m/83696968'/2'/1'", TStr w1); (k "m/83696968'/2'/2'", TStr w2);
             (k "m/83696968'/32'/0'", TStr x0); (k "m/83696968'/32'/1'", TStr x1); (k "m/83696968'/32'/2'", TStr x2)]).

Definition master_data (w : wallet) : tree :=
  TDict [(k "mnemonic", topt (w_mnemonic w)); (k "password", topt (w_password w))].

Definition section_tree (p : tree * tree) : tree :=
  TDict [(k "account_extended_keys", fst p); (k "groups", snd p)].

Definition generate (w : wallet) (account lo hi : Z) : res tree :=
  do s44 <- bip_section 44 w account lo hi;
  do s49 <- bip_section 49 w account lo hi;
  do s84 <- bip_section 84 w account lo hi;
  do b85 <- bip85_data w;
  Ok (TDict [(k "MASTER", master_data w); (k "BIP85", b85);
             (k "BIP44", section_tree s44); (k "BIP49", section_tree s49); (k "BIP84", section_tree s84)]).

(* wasabi_json (as data, before json.dumps) *)
Definition upper_hex (b : bytes) : str :=
  flat_map (fun x => let h c := if c <? 10 then c + 48 else c + 55 in [h (x / 16); h (x mod 16)]) b.
Definition wasabi (w : wallet) : res tree :=
  do nd <- by_path C hmac512 (w_master w) (k "m/84'/0'/0'");
  do xp <- extended_public_key C hash160 alph sha256 nd None;
  do fp <- fingerprint C hash160 (w_master w);
  Ok (TDict [(k "ExtPubKey", TStr xp); (k "MasterFingerprint", TStr (upper_hex fp));
             (k "ColdCardFirmwareVersion", TStr (k "3.1.3"))]).
End PaperWallet.

(* ---- __main__.paranoia_mode, on arbitrary trees ---- *)
Definition strip_last (t : tree) : res tree :=
  match t with
  | TList l => Ok (TList (drop_last 1 l))
  | TStr s => Ok (TStr (drop_last 1 s))               (* group[:-1] on a str *)
  | _ => Err
  end.
Definition paranoia_section (v : tree) : res tree :=
  do aek <- tget (k "account_extended_keys") v;
  do path <- tget (k "path") aek;
  do pub <- tget (k "pub") aek;
  do groups <- tget (k "groups") v;
  match groups with
  | TList gs => do gs' <- map_res strip_last gs;
                Ok (TDict [(k "account_extended_keys", TDict [(k "path", path); (k "pub", pub)]); (k "groups", TList gs')])
  | TDict kv => Ok (TDict [(k "account_extended_keys", TDict [(k "path", path); (k "pub", pub)]); (k "groups", TList [])])
                 (* iterating a dict yields its keys (strings): modelled only for the empty dict *)
  | _ => Err
  end.
Definition whitelisted (key : str) : bool :=
  beq_bytes key (k "BIP44") || beq_bytes key (k "BIP49") || beq_bytes key (k "BIP84").
Fixpoint paranoia_items (kv : list (str * tree)) : res (list (str * tree)) :=
  match kv with
  | [] => Ok []
  | (key, v) :: r =>
      if whitelisted key then
        do v' <- paranoia_section v; do r' <- paranoia_items r; Ok ((key, v') :: r')
      else paranoia_items r
  end.
Definition paranoia_mode (data : tree) : res tree :=
  match data with TDict kv => rmap TDict (paranoia_items kv) | _ => Err end.
