(* Executable model of btc_hd_wallet/bip85.py (BIP85DeterministicEntropy), ecdsa-fallback branch of correct_key. *)
From BHW Require Import Lib.Base Lib.Digits Lib.ListAux Model.Helper Model.Keys Model.Bip32M Model.WalletUtils
  Model.Bip39M Spec.Curve.
From BHWGen Require Import Consts.

(* base64.b64encode: Lib/PyInt.v (shared with Py/Interp.v) *)
From BHW Require Export Lib.PyInt.

Definition hexstr (b : bytes) : str :=
  flat_map (fun x => let h c := if c <? 10 then c + 48 else c + 87 in [h (x / 16); h (x mod 16)]) b.

(* the literal pieces of the path templates *)
Definition s_prefix : str := [109;47;56;51;54;57;54;57;54;56;39;47].            (* "m/83696968'/" *)
Definition q_slash : str := [39; 47].                                           (* "'/" *)
Definition q : str := [39].                                                     (* "'" *)

Section Bip85.
Variable C : curve.
Variable hmac512 : bytes -> bytes -> bytes.
Variable sha256 : bytes -> bytes.
Variable hash160 : bytes -> bytes.
Variable alph : list Z.

(* entropy(path) *)
Definition entropy (master : node) (path : str) : res bytes :=
  do p <- path_parse path;
  do nd <- derive_path C hmac512 master (to_list p);
  do kK <- private_key C nd;
  Ok (hmac512 BIP85_KEY (fst kK)).

Definition byte_count_from_word_count (wc : Z) : res Z :=
  if memb wc CORRECT_MNEMONIC_LENGTH then Ok ((wc - 1) * 11 / 8 + 1) else Err.

(* correct_key: 0 and >= n are refused *)
Definition correct_key (kb : bytes) : res unit :=
  let k := big_endian_to_int kb in
  if k =? 0 then Err else if CURVE_ORDER <=? k then Err else Ok tt.

Definition bip39_mnemonic (master : node) (word_count index : Z) : res str :=
  let path := s_prefix ++ [51;57] ++ q_slash ++ [48] ++ q_slash ++ str_of_int word_count ++ q_slash ++ str_of_int index ++ q in
  do e <- entropy master path;
  do width <- byte_count_from_word_count word_count;
  mnemonic_from_entropy sha256 (hexstr (take (Z.to_nat width) e)).

Definition wif85 (master : node) (index : Z) : res str :=
  let path := s_prefix ++ [50] ++ q_slash ++ str_of_int index ++ q in
  do e <- entropy master path;
  do _ <- correct_key (take 32 e);
  do kK <- privkey_of_bytes C (take 32 e);
  wif alph sha256 (fst kK) true false.

Definition xprv85 (master : node) (index : Z) : res str :=
  let path := s_prefix ++ [51;50] ++ q_slash ++ str_of_int index ++ q in
  do e <- entropy master path;
  let left := take 32 e in let right := drop 32 e in
  do _ <- correct_key right;
  extended_private_key C hash160 alph sha256
    {| is_prv := true; nkey := right; nchain := left; ndepth := 0; nindex := 0; ntestnet := false;
       nparent := None; nparsed_fpr := None; nparsed_version := None |} None.

Definition hex85 (master : node) (num_bytes index : Z) : res str :=
  if negb ((16 <=? num_bytes) && (num_bytes <=? 64)) then Err else
  let path := s_prefix ++ [49;50;56;49;54;57] ++ q_slash ++ str_of_int num_bytes ++ q_slash ++ str_of_int index ++ q in
  do e <- entropy master path;
  Ok (hexstr (take (Z.to_nat num_bytes) e)).

Definition pwd85 (master : node) (pwd_len index : Z) : res str :=
  if negb ((20 <=? pwd_len) && (pwd_len <=? 86)) then Err else
  let path := s_prefix ++ [55;48;55;55;54;52] ++ q_slash ++ str_of_int pwd_len ++ q_slash ++ str_of_int index ++ q in
  do e <- entropy master path;
  Ok (take (Z.to_nat pwd_len) (b64encode e)).
End Bip85.
