(* Executable model of btc_hd_wallet/wallet_utils.py: Bip32Path (parse / format) and the
   Version tables.  Path model is of the repaired convert_hardened (range checks, D5). *)
From BHW Require Import Lib.Base Lib.Digits Lib.ListAux Model.Helper.
From BHWGen Require Import Consts.

(* Python int(str) on ASCII input (strip, sign, digits with single underscores): Lib/PyInt.v, shared with Py/Interp.v *)
From BHW Require Export Lib.PyInt.

(* str(n) for an int *)
Definition str_of_nonneg (n : Z) : str :=
  if n =? 0 then [48] else map (fun d => d + 48) (rev (to_le 10 (S (Z.to_nat (Z.log2 n))) n)).
Definition str_of_int (n : Z) : str := if n <? 0 then 45 :: str_of_nonneg (- n) else str_of_nonneg n.

(* s.split("/") *)
Fixpoint split_on (sep : Z) (s : str) (cur : str) : list str :=
  match s with
  | [] => [rev cur]
  | c :: r => if c =? sep then rev cur :: split_on sep r [] else split_on sep r (c :: cur)
  end.
Definition split_slash (s : str) : list str := split_on 47 s [].

(* ---- Bip32Path ---- *)
Definition convert_hardened (s : str) : res Z :=
  match rev s with
  | [] => Err                                      (* str_int[-1] on "" : IndexError (never reached: caller tests truthiness) *)
  | last :: rinit =>
      if (last =? 39) || (last =? 104) then         (* "'" or "h" *)
        do n <- py_int (rev rinit);
        if (0 <=? n) && (n <? 2147483648) then Ok (n + 2147483648) else Err
      else
        do n <- py_int s;
        if (0 <=? n) && (n <? 4294967296) then Ok n else Err
  end.

Record bpath := { bp_items : list (option Z); bp_private : bool }.   (* the five slots *)

(* integrity_check: no value after a None (ints are ints by construction here) *)
Fixpoint integrity (items : list (option Z)) (none_found : bool) : bool :=
  match items with
  | [] => true
  | None :: r => integrity r true
  | Some _ :: r => if none_found then false else integrity r none_found
  end.

Definition slot (l : list str) (i : nat) : res (option Z) :=
  match nth_error l i with
  | Some (c :: r) => rmap Some (convert_hardened (c :: r))
  | _ => Ok None                                    (* missing (list_get -> None) or empty string: falsy *)
  end.

Definition path_parse (s : str) : res bpath :=
  let l := split_slash s in
  match l with
  | [] => Err
  | first :: _ =>
      if beq_bytes first [109] || beq_bytes first [77] then
        do a <- slot l 1; do b <- slot l 2; do c <- slot l 3; do d <- slot l 4; do e <- slot l 5;
        let items := [a; b; c; d; e] in
        if integrity items false then Ok {| bp_items := items; bp_private := beq_bytes first [109] |} else Err
      else Err
  end.

Fixpoint somes {A} (l : list (option A)) : list A :=
  match l with [] => [] | Some x :: r => x :: somes r | None :: r => somes r end.
Definition to_list (p : bpath) : list Z := somes (bp_items p).

Definition repr_hardened (n : Z) : str :=
  if 2147483648 <=? n then str_of_int (n - 2147483648) ++ [39] else str_of_int n.

Fixpoint join_slash (items : list str) : str :=
  match items with [] => [] | x :: r => 47 :: x ++ join_slash r end.
Definition path_repr (p : bpath) : str :=
  (if bp_private p then [109] else [77]) ++ join_slash (map repr_hardened (to_list p)).

(* a path object built from an index list of length <= 5 *)
Definition path_of_list (private : bool) (l : list Z) : bpath :=
  {| bp_items := map Some l ++ repeat None (5 - length l); bp_private := private |}.

(* ---- Version ---- *)
Definition version_int (key_type bip : Z) (testnet : bool) : res Z :=
  of_option (option_map snd (find (fun e => match fst e with (k, b, t) => (k =? key_type) && (b =? bip) && Bool.eqb t testnet end) VERSION_TABLE)).

Definition valid_version (v : Z) : bool := memb v (TESTNET_VERSIONS ++ MAINNET_VERSIONS).
Definition version_bip (v : Z) : Z :=
  if memb v BIP44_VERSIONS then BIP_44 else if memb v BIP49_VERSIONS then BIP_49
  else if memb v BIP84_VERSIONS then BIP_84 else BIP_44.
(* Version.parse: (key_type, bip, testnet) *)
Definition version_parse (v : Z) : res (Z * Z * bool) :=
  if negb (valid_version v) then Err else
  Ok (if memb v PRV_VERSIONS then KEY_PRV else KEY_PUB, version_bip v, memb v TESTNET_VERSIONS).
