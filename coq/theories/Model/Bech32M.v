(* Executable model of btc_hd_wallet/bech32.py (BIP173/BIP350 reference code), function by function.
   CHARSET, BECH32M_CONST and the five generator words are regenerated from /repo. *)
From BHW Require Import Lib.Base Lib.ListAux Model.Helper.
From BHWGen Require Import Consts.

Inductive encoding := BECH32 | BECH32M.
Definition enc_eqb (a b : encoding) : bool :=
  match a, b with BECH32, BECH32 => true | BECH32M, BECH32M => true | _, _ => false end.

Definition generator : list Z :=
  match POLYMOD_INTS with Some l => firstn 5 l | None => [] end.

(* for i in range(5): chk ^= generator[i] if ((top >> i) & 1) else 0 *)
Fixpoint gen_xor (gs : list Z) (i : Z) (top chk : Z) : Z :=
  match gs with
  | [] => chk
  | g :: r => gen_xor r (i + 1) top (Z.lxor chk (if Z.testbit top i then g else 0))
  end.
Definition polymod_step (chk value : Z) : Z :=
  let top := Z.shiftr chk 25 in
  let chk := Z.lxor (Z.shiftl (Z.land chk 33554431) 5) value in
  gen_xor generator 0 top chk.
Definition bech32_polymod (values : list Z) : Z := fold_left polymod_step values 1.

Definition bech32_hrp_expand (hrp : str) : list Z :=
  map (fun x => Z.shiftr x 5) hrp ++ [0] ++ map (fun x => Z.land x 31) hrp.

Definition bech32_verify_checksum (hrp : str) (data : list Z) : option encoding :=
  let c := bech32_polymod (bech32_hrp_expand hrp ++ data) in
  if c =? 1 then Some BECH32 else if c =? BECH32M_CONST then Some BECH32M else None.

Definition bech32_create_checksum (hrp : str) (data : list Z) (spec : encoding) : list Z :=
  let values := bech32_hrp_expand hrp ++ data in
  let const := match spec with BECH32M => BECH32M_CONST | BECH32 => 1 end in
  let pm := Z.lxor (bech32_polymod (values ++ [0; 0; 0; 0; 0; 0])) const in
  map (fun i => Z.land (Z.shiftr pm (5 * (5 - i))) 31) [0; 1; 2; 3; 4; 5].

(* CHARSET[d]: IndexError outside 0..31 (negative indexes wrap in Python: -32..-1 are valid) *)
Definition charset_at (d : Z) : res Z :=
  if (0 <=? d) then of_option (nth_error CHARSET (Z.to_nat d))
  else if (-32 <=? d) then of_option (nth_error CHARSET (Z.to_nat (32 + d))) else Err.

Definition bech32_encode (hrp : str) (data : list Z) (spec : encoding) : res str :=
  let combined := data ++ bech32_create_checksum hrp data spec in
  do cs <- map_res charset_at combined;
  Ok (hrp ++ [49] ++ cs).

(* str.lower / str.upper on ASCII (the function first rejects everything outside 33..126) *)
Definition lower_c (c : Z) : Z := if (65 <=? c) && (c <=? 90) then c + 32 else c.
Definition upper_c (c : Z) : Z := if (97 <=? c) && (c <=? 122) then c - 32 else c.

Fixpoint rfind (c : Z) (s : str) (i : Z) (best : Z) : Z :=
  match s with [] => best | x :: r => rfind c r (i + 1) (if x =? c then i else best) end.

Definition bech32_decode (bech : str) : option (str * list Z * encoding) :=
  if existsb (fun x => (x <? 33) || (126 <? x)) bech
     || (negb (beq_bytes (map lower_c bech) bech) && negb (beq_bytes (map upper_c bech) bech))
  then None else
  let bech := map lower_c bech in
  let pos := rfind 49 bech 0 (-1) in
  let len := Z.of_nat (length bech) in
  if (pos <? 1) || (len <? pos + 7) || (90 <? len) then None else
  let tail := skipn (Z.to_nat (pos + 1)) bech in
  if negb (forallb (fun x => memb x CHARSET) tail) then None else
  let hrp := firstn (Z.to_nat pos) bech in
  let data := map (fun x => match index_of x CHARSET with Some i => i | None => -1 end) tail in
  match bech32_verify_checksum hrp data with
  | None => None
  | Some spec => Some (hrp, drop_last 6 data, spec)
  end.

(* convertbits: the acc/bits loop, the inner `while bits >= tobits` with fuel frombits+1 *)
Fixpoint cb_emit (fuel : nat) (acc bits tobits maxv : Z) (ret : list Z) : Z * list Z :=
  match fuel with
  | O => (bits, ret)
  | S f => if tobits <=? bits then
             let bits := bits - tobits in
             cb_emit f acc bits tobits maxv (ret ++ [Z.land (Z.shiftr acc bits) maxv])
           else (bits, ret)
  end.
Fixpoint cb_loop (data : list Z) (acc bits frombits tobits maxv max_acc : Z) (ret : list Z)
  : option (Z * Z * list Z) :=
  match data with
  | [] => Some (acc, bits, ret)
  | value :: r =>
      if (value <? 0) || negb (Z.shiftr value frombits =? 0) then None else
      let acc := Z.land (Z.lor (Z.shiftl acc frombits) value) max_acc in
      let bits := bits + frombits in
      let '(bits, ret) := cb_emit (Z.to_nat frombits + 1) acc bits tobits maxv ret in
      cb_loop r acc bits frombits tobits maxv max_acc ret
  end.
Definition convertbits (data : list Z) (frombits tobits : Z) (pad : bool) : option (list Z) :=
  let maxv := Z.shiftl 1 tobits - 1 in
  let max_acc := Z.shiftl 1 (frombits + tobits - 1) - 1 in
  match cb_loop data 0 0 frombits tobits maxv max_acc [] with
  | None => None
  | Some (acc, bits, ret) =>
      if pad then
        Some (if negb (bits =? 0) then ret ++ [Z.land (Z.shiftl acc (tobits - bits)) maxv] else ret)
      else if (frombits <=? bits) || negb (Z.land (Z.shiftl acc (tobits - bits)) maxv =? 0) then None
      else Some ret
  end.

(* decode(hrp, addr) -> (witver, witprog) or (None, None) *)
Definition decode (hrp addr : str) : option (Z * list Z) :=
  match bech32_decode addr with
  | None => None      (* hrpgot = None != hrp *)
  | Some (hrpgot, data, spec) =>
      if negb (beq_bytes hrpgot hrp) then None else
      match data with
      | [] => None    (* data[0] raises IndexError in the reference code; cannot happen after a valid checksum: len >= 0... kept as refusal *)
      | d0 :: rest =>
          match convertbits rest 5 8 false with
          | None => None
          | Some decoded =>
              let n := Z.of_nat (length decoded) in
              if (n <? 2) || (40 <? n) then None else
              if 16 <? d0 then None else
              if (d0 =? 0) && negb (n =? 20) && negb (n =? 32) then None else
              if ((d0 =? 0) && negb (enc_eqb spec BECH32)) || (negb (d0 =? 0) && negb (enc_eqb spec BECH32M)) then None else
              Some (d0, decoded)
          end
      end
  end.

(* encode(hrp, witver, witprog) -> str or None *)
Definition encode (hrp : str) (witver : Z) (witprog : list Z) : res (option str) :=
  let spec := if witver =? 0 then BECH32 else BECH32M in
  match convertbits witprog 8 5 true with
  | None => Err                                   (* [witver] + None: TypeError *)
  | Some d =>
      do ret <- bech32_encode hrp (witver :: d) spec;
      Ok (match decode hrp ret with None => None | Some _ => Some ret end)
  end.
