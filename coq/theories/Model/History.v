(* A wallet object as a state machine.  The only mutable state the code has is bookkeeping:
   node.children (every ckd appends the new child to its parent's list) and the counter of an
   address generator.  Requests name nodes by their path from the wallet's master node.
   `step` returns the new state and the answer; the state records every append that happened. *)
From BHW Require Import Lib.Base Lib.Digits Lib.ListAux Model.Helper Model.Keys Model.Bip32M Model.WalletUtils
  Model.Address Model.BaseWallet Model.PaperWallet Spec.Curve.
From BHWGen Require Import Consts.

Inductive op :=
| ODerive (path : list Z)                       (* master.derive_path(path): the node *)
| OByPath (s : str)                             (* wallet.by_path(s) *)
| OGenChildren (path : list Z) (lo hi : Z)      (* node.generate_children((lo, hi)) *)
| OAddr (kind : Z) (path : list Z)              (* one of the five address methods on the node at path *)
| OExtKeys (path : list Z)                      (* node_extended_keys *)
| OGenerate (account lo hi : Z)                 (* PaperWallet.generate *)
| OWasabi.

Inductive answer :=
| ANode (nd : res node)
| ANodes (l : res (list node))
| AStr (s : res (option str))
| ATree (t : res tree).

(* one append event: (path of the parent node, index of the appended child) *)
Definition event := (list Z * Z)%type.
Record hstate := { root : wallet; appended : list event }.

Section History.
Variable C : curve.
Variable hmac512 : bytes -> bytes -> bytes.
Variable sha256 hash160 : bytes -> bytes.
Variable alph : list Z.

(* the appends a derivation along `path` from the node at `base` performs, while it succeeds *)
Fixpoint derive_events (nd : node) (base path : list Z) : list event :=
  match path with
  | [] => []
  | i :: r => match ckd C hmac512 nd i with
              | Ok c => (base, i) :: derive_events c (base ++ [i]) r
              | Err => []
              end
  end.

Definition addr_of (kind : Z) (w : wallet) (nd : node) : res (option str) :=
  if kind =? 0 then p2pkh_address C alph sha256 hash160 nd (w_testnet w)
  else if kind =? 1 then p2wpkh_address C alph sha256 hash160 nd (w_testnet w)
  else if kind =? 2 then p2sh_p2wpkh_address C alph sha256 hash160 nd (w_testnet w)
  else if kind =? 3 then p2wsh_address C sha256 nd (w_testnet w)
  else p2sh_p2wsh_address C alph sha256 hash160 nd (w_testnet w).

(* the answer: a function of the wallet value and the request -- it has no access to `appended` *)
Definition eval (w : wallet) (o : op) : answer :=
  let m := w_master w in
  match o with
  | ODerive path => ANode (derive_path C hmac512 m path)
  | OByPath s => ANode (by_path C hmac512 m s)
  | OGenChildren path lo hi =>
      ANodes (do nd <- derive_path C hmac512 m path; map_res (fun i => ckd C hmac512 nd i) (zrange lo hi))
  | OAddr kind path => AStr (do nd <- derive_path C hmac512 m path; addr_of kind w nd)
  | OExtKeys path => ATree (do nd <- derive_path C hmac512 m path; node_extended_keys C sha256 hash160 alph w nd)
  | OGenerate account lo hi => ATree (generate C hmac512 sha256 hash160 alph w account lo hi)
  | OWasabi => ATree (wasabi C hmac512 sha256 hash160 alph w)
  end.

(* bookkeeping performed by a request (only the derivations made directly from the master are tracked here;
   it is enough that SOME appends happen and that nothing ever reads them) *)
Definition events_of (w : wallet) (o : op) : list event :=
  match o with
  | ODerive path | OAddr _ path | OExtKeys path | OGenChildren path _ _ => derive_events (w_master w) [] path
  | _ => []
  end.

Definition step (s : hstate) (o : op) : hstate * answer :=
  ({| root := root s; appended := appended s ++ events_of (root s) o |}, eval (root s) o).

Definition run (s : hstate) (ops : list op) : hstate := fold_left (fun st o => fst (step st o)) ops s.

(* address_generator(node, addr_fnc): the counter after a list of sent values (None or 0 count as 1) *)
Definition send_step (index : Z) (sent : option Z) : Z :=
  index + match sent with Some v => if v =? 0 then 1 else v | None => 1 end.
Definition gen_index (sends : list (option Z)) : Z := fold_left send_step sends 0.
(* the k-th yield: (str(child), addr(child)) for child = node.ckd(index) *)
Definition gen_yield (w : wallet) (nd : node) (kind : Z) (sends : list (option Z)) : res (str * option str) :=
  do c <- ckd C hmac512 nd (gen_index sends);
  do a <- addr_of kind w c;
  Ok (node_repr c, a).
End History.
