(* Executable model of btc_hd_wallet/helper.py (Base58, Base58Check, varint,
   endian conversions).  Written function by function after the Python text;
   quirks kept (s[:-1] pad count, hex()/fromhex detour, slice semantics). *)
From BHW Require Import Lib.Base Lib.Digits Lib.ListAux.

Definition str := list Z.          (* Python str as a list of code points *)

(* int.from_bytes(b, 'big') / 'little' *)
Definition be2z (b : bytes) : Z := of_be 256 b.
Definition le2z (b : bytes) : Z := of_le 256 b.

(* n.to_bytes(len, 'big'|'little'): OverflowError when n < 0 or n >= 256^len *)
Definition z2le (len : nat) (n : Z) : res bytes :=
  if (n <? 0) || (256 ^ Z.of_nat len <=? n) then Err else Ok (to_le_fixed 256 len n).
Definition z2be (len : nat) (n : Z) : res bytes := rmap (@rev Z) (z2le len n).

Definition int_to_little_endian (n : Z) (len : nat) := z2le len n.
Definition int_to_big_endian (n : Z) (len : nat) := z2be len n.
Definition little_endian_to_int := le2z.
Definition big_endian_to_int := be2z.

(* minimal big-endian bytes of a positive number, as hex(num)[2:] -> fromhex gives;
   0 gives the single byte 00 ("0" is padded to "00") *)
Definition min_be_bytes (num : Z) : bytes :=
  if num =? 0 then [0]
  else rev (to_le 256 (S (Z.to_nat (Z.log2 num))) num).

Section Base58.
Variable alph : list Z.                 (* BASE58_ALPHABET, regenerated *)
Variable sha256 : bytes -> bytes.       (* hashlib.sha256(x).digest(), external *)

Definition hash256 (s : bytes) : bytes := sha256 (sha256 s).

Definition chr58 (d : Z) : res Z := of_option (nth_error alph (Z.to_nat d)).

(* encode_base58 *)
Definition encode_base58 (data : bytes) : res str :=
  let count := count_leading 0 data in
  let num := be2z data in
  let prefix := repeat 49 count in           (* '1' * count *)
  (* while num > 0: num, mod = divmod(num, 58); result = ALPH[mod] + result *)
  do body <- map_res chr58 (rev (to_le 58 (S (Z.to_nat (Z.log2 num))) num));
  Ok (prefix ++ body).

Definition encode_base58_checksum (data : bytes) : res str :=
  encode_base58 (data ++ take 4 (hash256 data)).

(* the for-loop of decode_base58: ValueError on a foreign character *)
Fixpoint b58_accumulate (s : str) (num : Z) : res Z :=
  match s with
  | [] => Ok num
  | c :: r =>
      match index_of c alph with
      | None => Err
      | Some i => b58_accumulate r (num * 58 + i)
      end
  end.

Definition decode_base58 (s : str) : res bytes :=
  do num <- b58_accumulate s 0;
  let res := min_be_bytes num in
  do one <- of_option (nth_error alph 0);     (* BASE58_ALPHABET[0] *)
  let pad := count_leading one (drop_last 1 s) in
  Ok (zeros pad ++ res).

Definition decode_base58_checksum (s : str) : res bytes :=
  do num_bytes <- decode_base58 s;
  let checksum := take_last 4 num_bytes in
  if beq_bytes (take 4 (hash256 (drop_last 4 num_bytes))) checksum
  then Ok (drop_last 4 num_bytes) else Err.

Definition b58decode_addr (s : str) : res bytes :=
  rmap (drop 1) (decode_base58_checksum s).

End Base58.

(* ---- varint ---- *)
(* BytesIO: (data, position); read(n) returns up to n bytes (short reads are silent) *)
Record stream := { sdata : bytes; spos : nat }.
Definition sread (n : nat) (s : stream) : bytes * stream :=
  let chunk := firstn n (skipn (spos s) (sdata s)) in
  (chunk, {| sdata := sdata s; spos := spos s + length chunk |}).
Definition mkstream (b : bytes) : stream := {| sdata := b; spos := 0 |}.
Definition sremaining (s : stream) : bytes := skipn (spos s) (sdata s).

Definition encode_varint (i : Z) : res bytes :=
  if i <? 253 then int_to_little_endian i 1
  else if i <? 65536 then rmap (cons 253) (int_to_little_endian i 2)
  else if i <? 4294967296 then rmap (cons 254) (int_to_little_endian i 4)
  else if i <? 18446744073709551616 then rmap (cons 255) (int_to_little_endian i 8)
  else Err.

(* s.read(n) that must deliver n bytes (the repaired code raises on a short read) *)
Definition sread_exact (n : nat) (s : stream) : res (bytes * stream) :=
  let '(chunk, s') := sread n s in
  if (length chunk =? n)%nat then Ok (chunk, s') else Err.

(* read_varint *)
Definition read_varint (s : stream) : res (Z * stream) :=
  do (b, s1) <- sread_exact 1 s;
  match b with
  | [i] =>
      if i =? 253 then do (d, s2) <- sread_exact 2 s1; Ok (little_endian_to_int d, s2)
      else if i =? 254 then do (d, s2) <- sread_exact 4 s1; Ok (little_endian_to_int d, s2)
      else if i =? 255 then do (d, s2) <- sread_exact 8 s1; Ok (little_endian_to_int d, s2)
      else Ok (i, s1)
  | _ => Err
  end.
