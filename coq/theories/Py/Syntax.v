(* MiniPy: the fragment of Python in which the pure functions of btc_hd_wallet are written,
   as a deep embedding.  harness/pytrans.py translates the *source text* of /repo into terms of
   these types on every run (coq/gen/PyAst.v); Py/Interp.v gives them a semantics; the theorems of
   Proofs/Py*.v are about the semantics of the regenerated terms.  Stdlib only. *)
From Coq Require Export ZArith List String Bool.
Export ListNotations.
Open Scope Z_scope.

(* exceptions, by class; Unmodelled = the interpreter refuses to give a meaning (outside the
   fragment); OutOfFuel = a `while` loop ran longer than the fuel given *)
Inductive exn := IndexError | TypeError | ValueError | OverflowError | ZeroDivisionError
               | RuntimeError | KeyError | ArgumentError | AssertionError | Unmodelled | OutOfFuel.

Definition exn_eqb (a b : exn) : bool :=
  match a, b with
  | IndexError, IndexError | TypeError, TypeError | ValueError, ValueError | OverflowError, OverflowError
  | ZeroDivisionError, ZeroDivisionError | RuntimeError, RuntimeError | KeyError, KeyError
  | ArgumentError, ArgumentError | AssertionError, AssertionError | Unmodelled, Unmodelled | OutOfFuel, OutOfFuel => true
  | _, _ => false
  end.

Inductive val : Type :=
| VNone
| VBool (b : bool)
| VInt (z : Z)
| VStr (s : list Z)          (* code points *)
| VBytes (b : list Z)
| VList (l : list val)
| VTuple (l : list val)
| VEnum (e : string)         (* members of enum classes, by qualified name *)
| VObj (cls : string) (fields : list val).   (* an instance whose fields are only READ by the translated methods; fields in __init__ order *)

Inductive binop := Add | Sub | Mul | FloorDiv | Mod | LShift | RShift | BitAnd | BitOr | BitXor | Pow.
Inductive cmpop := Eq | NotEq | Lt | LtE | Gt | GtE | In_ | NotIn | Is | IsNot.
Inductive unop := Not | USub | Invert.

Inductive builtin :=
| BLen | BOrd | BChr | BRange | BDivmod | BHex | BBin | BFromHex
| BFromBytesBig | BFromBytesLittle | BAny | BAll | BBytes | BInt | BStr | BMin | BMax | BBool | BListOf | BIsInt | BIntDiv | BChunks | BIsInstanceInt | BB64Encode.

Inductive meth :=
| MLower | MUpper | MFind | MRfind | MIndex | MJoin | MToBytesBig | MToBytesLittle
| MStartswith | MEndswith | MHex | MZfill | MSplit | MStrip | MIsdigit | MEncodeAscii | MFormat | MEncodeUtf8 | MDecode.

Inductive expr : Type :=
| EConst (v : val)
| EVar (x : string)
| EGlob (x : string)
| EBin (op : binop) (a b : expr)
| EUn (op : unop) (a : expr)
| ECmp (op : cmpop) (a b : expr)
| EAnd (a b : expr)
| EOr (a b : expr)
| EIf (c a b : expr)                                  (* a if c else b *)
| EList (l : exprs)
| ETuple (l : exprs)
| EIndex (a i : expr)
| EField (a : expr) (i : nat) (name : string)         (* self.name, the i-th field *)
| EObj (cls : string) (fields : exprs)                 (* the object under construction in __init__ / a finished instance, as a value *)
| ESlice (a : expr) (lo hi : option expr)
| ECall (f : string) (args : exprs)                    (* a translated or external function *)
| ECallStar (f : string) (star : expr) (args : exprs)  (* call with the items of star spliced in front of args *)
| EBuiltin (b : builtin) (args : exprs)
| EMeth (m : meth) (obj : expr) (args : exprs)
| EComp (body : expr) (x : string) (iter : expr) (cond : option expr)   (* list comprehension *)
| EQuant (is_all : bool) (body : expr) (x : string) (iter : expr)       (* any/all over a generator, short-circuit *)
with exprs : Type :=
| ENil
| ECons (e : expr) (es : exprs).

Inductive stmt : Type :=
| SAssign (x : string) (e : expr)
| SAug (x : string) (op : binop) (e : expr)
| SUnpack (xs : list string) (e : expr)
| SAppend (x : string) (e : expr)                      (* x.append(e), x a never-aliased local list *)
| SExpr (e : expr)
| SIf (c : expr) (t f : block)
| SFor (x : string) (iter : expr) (body : block)
| SWhile (c : expr) (body : block)
| SReturn (e : expr)
| SRaise (e : exn)
| STry (body : block) (z : exn) (handler : block)      (* try: body except z: handler -- body is ONE return/expression statement (no binding survives it) *)
| SBreak
| SPass
with block : Type :=
| BNil
| BCons (s : stmt) (b : block).

Record fundef := { f_params : list string; f_locals : list string; f_body : block }.

Declare Scope py_scope.
Delimit Scope py_scope with py.
Notation "s ;; b" := (BCons s b) (at level 61, right associativity) : py_scope.
Notation "e ,, es" := (ECons e es) (at level 61, right associativity) : py_scope.
