(* Semantics of MiniPy (Py/Syntax.v): a total, executable interpreter.
   - values are immutable; `x.append(e)` rebinds x (the translator admits it only on never-aliased locals);
   - `for` iterates structurally over the materialised items; `while` takes fuel (OutOfFuel when exhausted);
   - calls to other functions go through `fenv` (semantic functions of already interpreted definitions and
     of the external primitives), so the interpreter itself is structurally recursive on the syntax;
   - anything outside the fragment evaluates to `Exc Unmodelled`, never to a made-up value. *)
From BHW Require Import Lib.Base Lib.Digits Lib.ListAux Lib.PyInt.
From BHW Require Export Py.Syntax.

Inductive R (A : Type) : Type := Val (a : A) | Exc (e : exn).
Arguments Val {A} a.
Arguments Exc {A} e.
Definition bindR {A B} (r : R A) (f : A -> R B) : R B :=
  match r with Val a => f a | Exc e => Exc e end.
Notation "'let!' x := r 'in' k" := (bindR r (fun x => k))
  (at level 200, x pattern, r at level 100, k at level 200).

(* ------------------------------------------------------------------ environments *)
Definition env := list (string * option val).
Fixpoint lookup (x : string) (e : env) : option (option val) :=
  match e with
  | [] => None
  | (y, v) :: r => if String.eqb x y then Some v else lookup x r
  end.
(* rebinding keeps the position: the shape of the environment never changes *)
Fixpoint set (x : string) (v : val) (e : env) : option env :=
  match e with
  | [] => None
  | (y, w) :: r => if String.eqb x y then Some ((y, Some v) :: r)
                   else match set x v r with Some r' => Some ((y, w) :: r') | None => None end
  end.

(* ------------------------------------------------------------------ values *)
Definition truthy (v : val) : bool :=
  match v with
  | VNone => false
  | VBool b => b
  | VInt z => negb (z =? 0)
  | VStr s => match s with [] => false | _ => true end
  | VBytes s => match s with [] => false | _ => true end
  | VList l => match l with [] => false | _ => true end
  | VTuple l => match l with [] => false | _ => true end
  | VEnum _ => true
  | VObj _ _ => true
  end.

Fixpoint val_eqb (a b : val) {struct a} : bool :=
  let fix list_eqb (l1 l2 : list val) {struct l1} : bool :=
    match l1, l2 with
    | [], [] => true
    | x :: r1, y :: r2 => val_eqb x y && list_eqb r1 r2
    | _, _ => false
    end in
  match a, b with
  | VNone, VNone => true
  | VBool x, VBool y => Bool.eqb x y
  | VBool x, VInt y => (if x then 1 else 0) =? y
  | VInt x, VBool y => x =? (if y then 1 else 0)
  | VInt x, VInt y => x =? y
  | VStr x, VStr y => beq_bytes x y
  | VBytes x, VBytes y => beq_bytes x y
  | VList x, VList y => list_eqb x y
  | VTuple x, VTuple y => list_eqb x y
  | VEnum x, VEnum y => String.eqb x y
  | _, _ => false
  end.

(* contiguous-sublist search: `a in b`, b.find(a), b.rfind(a) on str *)
Fixpoint prefixb (a b : list Z) : bool :=
  match a, b with
  | [], _ => true
  | x :: a', y :: b' => (x =? y) && prefixb a' b'
  | _ :: _, [] => false
  end.
Fixpoint find_from (a b : list Z) (i : Z) : Z :=
  if prefixb a b then i else
  match b with [] => -1 | _ :: r => find_from a r (i + 1) end.
Fixpoint rfind_from (a b : list Z) (i : Z) (best : Z) : Z :=
  let best := if prefixb a b then i else best in
  match b with [] => best | _ :: r => rfind_from a r (i + 1) best end.

Definition ascii (s : list Z) : bool := forallb (fun c => (0 <=? c) && (c <? 128)) s.
Definition lower_c (c : Z) : Z := if (65 <=? c) && (c <=? 90) then c + 32 else c.
Definition upper_c (c : Z) : Z := if (97 <=? c) && (c <=? 122) then c - 32 else c.

(* hex digits *)
Definition hexdigit (d : Z) : Z := if d <? 10 then 48 + d else 87 + d.
Definition unhex (c : Z) : option Z :=
  if (48 <=? c) && (c <=? 57) then Some (c - 48)
  else if (97 <=? c) && (c <=? 102) then Some (c - 87)
  else if (65 <=? c) && (c <=? 70) then Some (c - 55) else None.
(* digits of n >= 0 in base b, most significant first; "0" for zero *)
Definition digits_be (b n : Z) : list Z :=
  if n =? 0 then [0] else rev (to_le b (S (Z.to_nat (Z.log2 n))) n).
(* bytes.fromhex: pairs of hex digits; ASCII white space (9..13, 32) is skipped between pairs, not inside one;
   anything else -- including non-ASCII characters -- is ValueError *)
Definition hexws (c : Z) : bool := (c =? 32) || ((9 <=? c) && (c <=? 13)).
Fixpoint fromhex (s : list Z) : R (list Z) :=
  match s with
  | [] => Val []
  | [c] => if hexws c then Val [] else Exc ValueError
  | c1 :: ((c2 :: r) as tl) =>
      match unhex c1, unhex c2 with
      | Some h, Some l => let! t := fromhex r in Val (16 * h + l :: t)
      | _, _ => if hexws c1 then fromhex tl else Exc ValueError
      end
  end.

Definition to_bytes_le (n len : Z) : R (list Z) :=
  if len <? 0 then Exc ValueError
  else if (n <? 0) || (256 ^ len <=? n) then Exc OverflowError
  else Val (to_le_fixed 256 (Z.to_nat len) n).

(* Python slice bounds (step 1) *)
Definition norm_idx (i len : Z) : Z := if i <? 0 then Z.max (i + len) 0 else Z.min i len.
Definition slice {A} (l : list A) (lo hi : option Z) : list A :=
  let len := Z.of_nat (List.length l) in
  let lo' := match lo with Some i => norm_idx i len | None => 0 end in
  let hi' := match hi with Some i => norm_idx i len | None => len end in
  firstn (Z.to_nat (hi' - lo')) (skipn (Z.to_nat lo') l).
Definition index {A} (l : list A) (i : Z) : R A :=
  let len := Z.of_nat (List.length l) in
  let j := if i <? 0 then i + len else i in
  if (j <? 0) || (len <=? j) then Exc IndexError
  else match nth_error l (Z.to_nat j) with Some x => Val x | None => Exc IndexError end.

Definition opt_int (v : option val) : R (option Z) :=
  match v with
  | None => Val None
  | Some VNone => Val None
  | Some (VInt z) => Val (Some z)
  | Some _ => Exc TypeError
  end.

Definition iter_items (v : val) : R (list val) :=
  match v with
  | VStr s => Val (map (fun c => VStr [c]) s)
  | VBytes s => Val (map VInt s)
  | VList l => Val l
  | VTuple l => Val l
  | _ => Exc TypeError
  end.

Definition range_list (lo hi step : Z) : R (list val) :=
  if step =? 0 then Exc ValueError
  else if 0 <? step then
    let n := if lo <? hi then (hi - lo + step - 1) / step else 0 in
    Val (map (fun k => VInt (lo + Z.of_nat k * step)) (seq 0 (Z.to_nat n)))
  else
    let n := if hi <? lo then (lo - hi - step - 1) / (- step) else 0 in
    Val (map (fun k => VInt (lo + Z.of_nat k * step)) (seq 0 (Z.to_nat n))).

Definition apply_binop (op : binop) (a b : val) : R val :=
  match op, a, b with
  | Add, VInt x, VInt y => Val (VInt (x + y))
  | Add, VStr x, VStr y => Val (VStr (x ++ y))
  | Add, VBytes x, VBytes y => Val (VBytes (x ++ y))
  | Add, VList x, VList y => Val (VList (x ++ y))
  | Add, VTuple x, VTuple y => Val (VTuple (x ++ y))
  | Sub, VInt x, VInt y => Val (VInt (x - y))
  | Mul, VInt x, VInt y => Val (VInt (x * y))
  | Mul, VStr x, VInt n => Val (VStr (List.concat (repeat x (Z.to_nat n))))
  | Mul, VInt n, VStr x => Val (VStr (List.concat (repeat x (Z.to_nat n))))
  | Mul, VBytes x, VInt n => Val (VBytes (List.concat (repeat x (Z.to_nat n))))
  | Mul, VInt n, VBytes x => Val (VBytes (List.concat (repeat x (Z.to_nat n))))
  | FloorDiv, VInt x, VInt y => if y =? 0 then Exc ZeroDivisionError else Val (VInt (x / y))
  | Mod, VInt x, VInt y => if y =? 0 then Exc ZeroDivisionError else Val (VInt (x mod y))
  | LShift, VInt x, VInt y => if y <? 0 then Exc ValueError else Val (VInt (Z.shiftl x y))
  | RShift, VInt x, VInt y => if y <? 0 then Exc ValueError else Val (VInt (Z.shiftr x y))
  | BitAnd, VInt x, VInt y => Val (VInt (Z.land x y))
  | BitOr, VInt x, VInt y => Val (VInt (Z.lor x y))
  | BitXor, VInt x, VInt y => Val (VInt (Z.lxor x y))
  | Pow, VInt x, VInt y => if y <? 0 then Exc Unmodelled else Val (VInt (x ^ y))
  | _, VBool _, _ => Exc Unmodelled
  | _, _, VBool _ => Exc Unmodelled
  | Mod, VStr _, _ => Exc Unmodelled            (* printf-style formatting *)
  | _, _, _ => Exc TypeError
  end.

Definition apply_unop (op : unop) (a : val) : R val :=
  match op, a with
  | Not, v => Val (VBool (negb (truthy v)))
  | USub, VInt x => Val (VInt (- x))
  | Invert, VInt x => Val (VInt (- x - 1))
  | _, VBool _ => Exc Unmodelled
  | _, _ => Exc TypeError
  end.

Definition is_obj (v : val) : bool := match v with VObj _ _ => true | _ => false end.
Definition apply_cmp (op : cmpop) (a b : val) : R val :=
  if is_obj a || is_obj b then Exc Unmodelled else      (* identity / user-defined __eq__ are outside the fragment *)
  match op with
  | Eq => Val (VBool (val_eqb a b))
  | NotEq => Val (VBool (negb (val_eqb a b)))
  | Is => match b with VNone => Val (VBool (match a with VNone => true | _ => false end)) | _ => Exc Unmodelled end
  | IsNot => match b with VNone => Val (VBool (match a with VNone => false | _ => true end)) | _ => Exc Unmodelled end
  | In_ | NotIn =>
      let neg := match op with NotIn => true | _ => false end in
      match a, b with
      | VStr x, VStr y => Val (VBool (xorb neg (0 <=? find_from x y 0)))
      | _, VStr _ => Exc TypeError
      | VInt x, VBytes y => Val (VBool (xorb neg (memb x y)))
      | _, VBytes _ => Exc Unmodelled
      | x, VList l => Val (VBool (xorb neg (existsb (val_eqb x) l)))
      | x, VTuple l => Val (VBool (xorb neg (existsb (val_eqb x) l)))
      | _, _ => Exc TypeError
      end
  | Lt | LtE | Gt | GtE =>
      match a, b with
      | VInt x, VInt y =>
          Val (VBool (match op with Lt => x <? y | LtE => x <=? y | Gt => y <? x | _ => y <=? x end))
      | VBool _, _ | _, VBool _ => Exc Unmodelled
      | VStr _, VStr _ | VBytes _, VBytes _ | VList _, VList _ | VTuple _, VTuple _ => Exc Unmodelled
      | _, _ => Exc TypeError
      end
  end.

Definition apply_index (a i : val) : R val :=
  match a, i with
  | VStr s, VInt k => let! c := index s k in Val (VStr [c])
  | VBytes s, VInt k => let! c := index s k in Val (VInt c)
  | VList l, VInt k => index l k
  | VTuple l, VInt k => index l k
  | (VStr _ | VBytes _ | VList _ | VTuple _), VBool _ => Exc Unmodelled
  | _, _ => Exc TypeError
  end.

Definition apply_slice (a : val) (lo hi : option Z) : R val :=
  match a with
  | VStr s => Val (VStr (slice s lo hi))
  | VBytes s => Val (VBytes (slice s lo hi))
  | VList l => Val (VList (slice l lo hi))
  | VTuple l => Val (VTuple (slice l lo hi))
  | _ => Exc TypeError
  end.

Definition all_ints (l : list val) : option (list Z) :=
  fold_right (fun v acc => match v, acc with VInt z, Some r => Some (z :: r) | _, _ => None end) (Some []) l.
Definition all_strs (l : list val) : option (list (list Z)) :=
  fold_right (fun v acc => match v, acc with VStr z, Some r => Some (z :: r) | _, _ => None end) (Some []) l.

(* int(str): Lib/PyInt.py_int gives CPython's meaning for ASCII input (white space stripped, sign, digits with single
   underscores); non-ASCII input (other Unicode digits / spaces are accepted by CPython) is refused as Unmodelled *)
Definition plain_digits (ds : list Z) : bool :=
  match ds with [] => false | _ => forallb is_digit ds end.
Definition int_of_str (s : list Z) : R val :=
  if ascii s then match py_int s with Ok z => Val (VInt z) | Err => Exc ValueError end else Exc Unmodelled.

(* str(int) *)
Definition str_of_int (n : Z) : list Z :=
  if n <? 0 then 45 :: map (fun d => 48 + d) (digits_be 10 (- n)) else map (fun d => 48 + d) (digits_be 10 n).

Definition apply_builtin (b : builtin) (args : list val) : R val :=
  match b, args with
  | BLen, [VStr s] => Val (VInt (Z.of_nat (List.length s)))
  | BLen, [VBytes s] => Val (VInt (Z.of_nat (List.length s)))
  | BLen, [VList s] => Val (VInt (Z.of_nat (List.length s)))
  | BLen, [VTuple s] => Val (VInt (Z.of_nat (List.length s)))
  | BLen, [_] => Exc TypeError
  | BOrd, [VStr [c]] => Val (VInt c)
  | BOrd, [VBytes [c]] => Val (VInt c)
  | BOrd, [_] => Exc TypeError
  | BChr, [VInt c] => if (0 <=? c) && (c <? 1114112) then Val (VStr [c]) else Exc ValueError
  | BChr, [_] => Exc TypeError
  | BRange, [VInt hi] => let! l := range_list 0 hi 1 in Val (VList l)
  | BRange, [VInt lo; VInt hi] => let! l := range_list lo hi 1 in Val (VList l)
  | BRange, [VInt lo; VInt hi; VInt st] => let! l := range_list lo hi st in Val (VList l)
  | BRange, _ => Exc TypeError
  | BDivmod, [VInt x; VInt y] => if y =? 0 then Exc ZeroDivisionError else Val (VTuple [VInt (x / y); VInt (x mod y)])
  | BDivmod, [_; _] => Exc TypeError
  | BHex, [VInt n] =>
      Val (VStr (if n <? 0 then 45 :: 48 :: 120 :: map hexdigit (digits_be 16 (- n))
                 else 48 :: 120 :: map hexdigit (digits_be 16 n)))
  | BHex, [_] => Exc TypeError
  | BBin, [VInt n] =>
      Val (VStr (if n <? 0 then 45 :: 48 :: 98 :: map (fun d => 48 + d) (digits_be 2 (- n))
                 else 48 :: 98 :: map (fun d => 48 + d) (digits_be 2 n)))
  | BBin, [_] => Exc TypeError
  | BFromHex, [VStr s] => let! b := fromhex s in Val (VBytes b)
  | BFromHex, [_] => Exc TypeError
  | BFromBytesBig, [VBytes s] => Val (VInt (of_be 256 s))
  | BFromBytesLittle, [VBytes s] => Val (VInt (of_le 256 s))
  | (BFromBytesBig | BFromBytesLittle), [VList l] =>
      match all_ints l with
      | Some s => if forallb byte_okb s then Val (VInt (match b with BFromBytesBig => of_be 256 s | _ => of_le 256 s end))
                  else Exc ValueError
      | None => Exc TypeError
      end
  | (BFromBytesBig | BFromBytesLittle), [_] => Exc TypeError
  | BAny, [v] => let! l := iter_items v in Val (VBool (existsb truthy l))
  | BAll, [v] => let! l := iter_items v in Val (VBool (forallb truthy l))
  | BBytes, [VList l] =>
      match all_ints l with
      | Some s => if forallb byte_okb s then Val (VBytes s) else Exc ValueError
      | None => Exc TypeError
      end
  | BBytes, [VBytes s] => Val (VBytes s)
  | BBytes, [_] => Exc Unmodelled
  | BInt, [VInt z] => Val (VInt z)
  | BInt, [VStr s] => int_of_str s
  | BInt, [VStr s; VInt 2] =>
      match s with [] => Exc ValueError | _ =>
      if forallb (fun c => (c =? 48) || (c =? 49)) s then Val (VInt (fold_left (fun acc c => acc * 2 + (c - 48)) s 0))
      else Exc Unmodelled end
  | BInt, _ => Exc Unmodelled
  | BStr, [VInt z] => Val (VStr (str_of_int z))
  | BStr, [VStr s] => Val (VStr s)
  | BStr, _ => Exc Unmodelled
  | BMin, [VInt x; VInt y] => Val (VInt (Z.min x y))
  | BMax, [VInt x; VInt y] => Val (VInt (Z.max x y))
  | (BMin | BMax), _ => Exc Unmodelled
  | BBool, [v] => Val (VBool (truthy v))
  | BListOf, [v] => let! l := iter_items v in Val (VList l)
  | BIntDiv, [VInt a; VInt b] =>
      (* int(a / b): float division then truncation; exact (= floor) when 0 <= a < 2^52 and 0 < b < 2^52 *)
      if (0 <=? a) && (a <? 4503599627370496) && (0 <? b) && (b <? 4503599627370496) then Val (VInt (a / b)) else Exc Unmodelled
  | BIntDiv, _ => Exc Unmodelled
  | BChunks, [VInt k; VStr s] =>
      (* re.findall("." * k, s): non-overlapping k-character chunks from the left, a shorter tail is dropped; '.' does not match a newline *)
      if (k <=? 0) || memb 10 s then Exc Unmodelled
      else Val (VList (map VStr ((fix ch (n : nat) (l : list Z) : list (list Z) :=
                                   match n with O => [] | S n' => firstn (Z.to_nat k) l :: ch n' (skipn (Z.to_nat k) l) end)
                                  (Nat.div (List.length s) (Z.to_nat k)) s)))
  | BChunks, _ => Exc Unmodelled
  | BIsInt, [VInt _] => Val (VBool true)          (* type(x) == int: exactly int, not bool *)
  | BIsInt, [_] => Val (VBool false)
  | BB64Encode, [VBytes b] => if forallb (fun c => (0 <=? c) && (c <? 256)) b then Val (VBytes (b64encode b)) else Exc Unmodelled
  | BB64Encode, [_] => Exc TypeError
  | BIsInstanceInt, [VInt _] => Val (VBool true)  (* isinstance(x, int): bool is a subclass of int *)
  | BIsInstanceInt, [VBool _] => Val (VBool true)
  | BIsInstanceInt, [_] => Val (VBool false)
  | _, _ => Exc TypeError
  end.

Definition strip_ws (s : list Z) : list Z := PyInt.strip s.      (* str.strip() on ASCII text: 9..13 and 28..32 *)

(* str.split(sep) for a one-character separator *)
Fixpoint split_on (c : Z) (s : list Z) (cur : list Z) : list (list Z) :=
  match s with
  | [] => [rev cur]
  | x :: r => if x =? c then rev cur :: split_on c r [] else split_on c r (x :: cur)
  end.

(* TEMPLATE.format(args) for a template whose only fields are the plain "{}": int and str arguments (str() of them);
   any other brace, and any other argument type, is outside the fragment *)
Fixpoint format_go (t : list Z) (args : list val) {struct t} : R (list Z) :=
  match t with
  | [] => Val []
  | 123 :: 125 :: r =>
      match args with
      | a :: ar =>
          let! s := match a with VInt z => Val (str_of_int z) | VStr s => Val s | _ => Exc Unmodelled end in
          let! rest := format_go r ar in Val (s ++ rest)
      | [] => Exc IndexError
      end
  | c :: r => if (c =? 123) || (c =? 125) then Exc Unmodelled else let! rest := format_go r args in Val (c :: rest)
  end.

Definition apply_meth (m : meth) (obj : val) (args : list val) : R val :=
  match m, obj, args with
  | MLower, VStr s, [] => if ascii s then Val (VStr (map lower_c s)) else Exc Unmodelled
  | MUpper, VStr s, [] => if ascii s then Val (VStr (map upper_c s)) else Exc Unmodelled
  | MFind, VStr s, [VStr a] => Val (VInt (find_from a s 0))
  | MRfind, VStr s, [VStr a] => Val (VInt (rfind_from a s 0 (-1)))
  | MIndex, VStr s, [VStr a] => let i := find_from a s 0 in if i <? 0 then Exc ValueError else Val (VInt i)
  | (MFind | MRfind | MIndex), VStr _, [_] => Exc TypeError
  | MIndex, VList l, [x] =>
      (fix go (l : list val) (i : Z) : R val :=
         match l with [] => Exc ValueError | y :: r => if val_eqb y x then Val (VInt i) else go r (i + 1) end) l 0
  | MJoin, VStr sep, [v] =>
      let! items := iter_items v in
      match all_strs items with
      | Some ss => Val (VStr (match ss with [] => [] | h :: t => h ++ List.concat (map (fun x => sep ++ x) t) end))
      | None => Exc TypeError
      end
  | MJoin, VBytes sep, [v] =>
      let! items := iter_items v in
      match fold_right (fun x acc => match x, acc with VBytes z, Some r => Some (z :: r) | _, _ => None end) (Some []) items with
      | Some ss => Val (VBytes (match ss with [] => [] | h :: t => h ++ List.concat (map (fun x => sep ++ x) t) end))
      | None => Exc TypeError
      end
  | MToBytesLittle, VInt n, [VInt len] => let! b := to_bytes_le n len in Val (VBytes b)
  | MToBytesBig, VInt n, [VInt len] => let! b := to_bytes_le n len in Val (VBytes (rev b))
  | (MToBytesLittle | MToBytesBig), VInt _, [_] => Exc TypeError
  | MStartswith, VStr s, [VStr a] => Val (VBool (prefixb a s))
  | MStartswith, VBytes s, [VBytes a] => Val (VBool (prefixb a s))
  | MEndswith, VStr s, [VStr a] => Val (VBool (prefixb (rev a) (rev s)))
  | MEndswith, VBytes s, [VBytes a] => Val (VBool (prefixb (rev a) (rev s)))
  | MHex, VBytes s, [] => Val (VStr (List.concat (map (fun c => [hexdigit (c / 16); hexdigit (c mod 16)]) s)))
  | MZfill, VStr s, [VInt w] =>
      match s with
      | 43 :: _ | 45 :: _ => Exc Unmodelled
      | _ => Val (VStr (repeat 48 (Z.to_nat (w - Z.of_nat (List.length s))) ++ s))
      end
  | MSplit, VStr s, [VStr [c]] => Val (VList (map VStr (split_on c s [])))
  | MStrip, VStr s, [] => if ascii s then Val (VStr (strip_ws s)) else Exc Unmodelled
  | MIsdigit, VStr s, [] => if ascii s then Val (VBool (plain_digits s)) else Exc Unmodelled
  | MEncodeAscii, VStr s, [] => if ascii s then Val (VBytes s) else Exc Unmodelled
  | MDecode, VBytes b, [] => if ascii b then Val (VStr b) else Exc Unmodelled     (* bytes.decode(): UTF-8; the identity on ASCII *)
  | MEncodeUtf8, VStr s, [] => match utf8_encode s with Some b => Val (VBytes b) | None => Exc Unmodelled end
  | MFormat, VStr t, args => let! r := format_go t args in Val (VStr r)
  | _, _, _ => Exc Unmodelled
  end.

(* ------------------------------------------------------------------ the interpreter *)
Inductive sres := SNormal (e : env) | SRet (v : val) | SBrk (e : env) | SExc (x : exn).

Fixpoint comp_map (f : val -> R (option val)) (l : list val) : R (list val) :=
  match l with
  | [] => Val []
  | v :: r => let! o := f v in let! t := comp_map f r in
              Val (match o with Some x => x :: t | None => t end)
  end.
(* any(...) / all(...) over a generator: stops at the first decisive element *)
Fixpoint quant (is_all : bool) (f : val -> R val) (l : list val) : R val :=
  match l with
  | [] => Val (VBool is_all)
  | v :: r => let! b := f v in
              if Bool.eqb (truthy b) is_all then quant is_all f r else Val (VBool (negb is_all))
  end.
Fixpoint for_loop (body : val -> env -> sres) (items : list val) (e : env) : sres :=
  match items with
  | [] => SNormal e
  | v :: r => match body v e with
              | SNormal e' => for_loop body r e'
              | SBrk e' => SNormal e'
              | o => o
              end
  end.
Fixpoint while_loop (fuel : nat) (cond : env -> R val) (body : env -> sres) (e : env) : sres :=
  match fuel with
  | O => SExc OutOfFuel
  | S f => match cond e with
           | Exc x => SExc x
           | Val c => if truthy c then
                        match body e with
                        | SNormal e' => while_loop f cond body e'
                        | SBrk e' => SNormal e'
                        | o => o
                        end
                      else SNormal e
           end
  end.
Fixpoint set_many (xs : list string) (vs : list val) (e : env) : option env :=
  match xs, vs with
  | [], [] => Some e
  | x :: xr, v :: vr => match set x v e with Some e' => set_many xr vr e' | None => None end
  | _, _ => None
  end.

Section Interp.
Variable fenv : string -> option (list val -> R val).
Variable genv : string -> option val.
Variable fuel : nat.

Fixpoint eval (en : env) (e : expr) {struct e} : R val :=
  match e with
  | EConst v => Val v
  | EVar x => match lookup x en with Some (Some v) => Val v | _ => Exc Unmodelled end
  | EGlob x => match genv x with Some v => Val v | None => Exc Unmodelled end
  | EBin op a b => let! va := eval en a in let! vb := eval en b in apply_binop op va vb
  | EUn op a => let! va := eval en a in apply_unop op va
  | ECmp op a b => let! va := eval en a in let! vb := eval en b in apply_cmp op va vb
  | EAnd a b => let! va := eval en a in if truthy va then eval en b else Val va
  | EOr a b => let! va := eval en a in if truthy va then Val va else eval en b
  | EIf c a b => let! vc := eval en c in if truthy vc then eval en a else eval en b
  | EList l => let! vs := evals en l in Val (VList vs)
  | ETuple l => let! vs := evals en l in Val (VTuple vs)
  | EIndex a i => let! va := eval en a in let! vi := eval en i in apply_index va vi
  | EField a i _ =>
      let! va := eval en a in
      match va with
      | VObj _ fs => match nth_error fs i with Some v => Val v | None => Exc Unmodelled end
      | _ => Exc Unmodelled
      end
  | EObj cls fs => let! vs := evals en fs in Val (VObj cls vs)
  | ESlice a lo hi =>
      let! va := eval en a in
      let! vlo := match lo with Some x => let! v := eval en x in opt_int (Some v) | None => Val None end in
      let! vhi := match hi with Some x => let! v := eval en x in opt_int (Some v) | None => Val None end in
      apply_slice va vlo vhi
  | ECall f args =>
      let! vs := evals en args in
      match fenv f with Some sem => sem vs | None => Exc Unmodelled end
  | ECallStar f star args =>
      let! vst := eval en star in
      let! items := iter_items vst in
      let! vs := evals en args in
      match fenv f with Some sem => sem (items ++ vs) | None => Exc Unmodelled end
  | EBuiltin b args => let! vs := evals en args in apply_builtin b vs
  | EMeth m obj args => let! vo := eval en obj in let! vs := evals en args in apply_meth m vo vs
  | EComp body x it cond =>
      let! vi := eval en it in
      let! items := iter_items vi in
      let! vs := comp_map (fun v =>
                   let en' := (x, Some v) :: en in
                   match cond with
                   | None => let! r := eval en' body in Val (Some r)
                   | Some c => let! vc := eval en' c in
                               if truthy vc then let! r := eval en' body in Val (Some r) else Val None
                   end) items in
      Val (VList vs)
  | EQuant is_all body x it =>
      let! vi := eval en it in
      let! items := iter_items vi in
      quant is_all (fun v => eval ((x, Some v) :: en) body) items
  end
with evals (en : env) (l : exprs) {struct l} : R (list val) :=
  match l with
  | ENil => Val []
  | ECons e r => let! v := eval en e in let! vs := evals en r in Val (v :: vs)
  end.

Fixpoint exec (en : env) (s : stmt) {struct s} : sres :=
  match s with
  | SAssign x e =>
      match eval en e with
      | Exc z => SExc z
      | Val v => match set x v en with Some en' => SNormal en' | None => SExc Unmodelled end
      end
  | SAug x op e =>
      match lookup x en with
      | Some (Some old) =>
          match eval en e with
          | Exc z => SExc z
          | Val v => match apply_binop op old v with
                     | Exc z => SExc z
                     | Val w => match set x w en with Some en' => SNormal en' | None => SExc Unmodelled end
                     end
          end
      | _ => SExc Unmodelled
      end
  | SUnpack xs e =>
      match eval en e with
      | Exc z => SExc z
      | Val v => match iter_items v with
                 | Exc z => SExc z
                 | Val items =>
                     if (List.length items =? List.length xs)%nat then
                       match set_many xs items en with Some en' => SNormal en' | None => SExc Unmodelled end
                     else SExc ValueError
                 end
      end
  | SAppend x e =>
      match lookup x en with
      | Some (Some (VList l)) =>
          match eval en e with
          | Exc z => SExc z
          | Val v => match set x (VList (l ++ [v])) en with Some en' => SNormal en' | None => SExc Unmodelled end
          end
      | _ => SExc Unmodelled
      end
  | SExpr e => match eval en e with Exc z => SExc z | Val _ => SNormal en end
  | SIf c t f =>
      match eval en c with
      | Exc z => SExc z
      | Val v => if truthy v then exec_block en t else exec_block en f
      end
  | SFor x it body =>
      match eval en it with
      | Exc z => SExc z
      | Val vi => match iter_items vi with
                  | Exc z => SExc z
                  | Val items =>
                      for_loop (fun v en1 => match set x v en1 with
                                             | Some en2 => exec_block en2 body
                                             | None => SExc Unmodelled
                                             end) items en
                  end
      end
  | SWhile c body => while_loop fuel (fun en1 => eval en1 c) (fun en1 => exec_block en1 body) en
  | SReturn e => match eval en e with Exc z => SExc z | Val v => SRet v end
  | SRaise z => SExc z
  | STry body z handler =>
      match exec_block en body with
      | SExc z' => if exn_eqb z' z then exec_block en handler else SExc z'
      | o => o
      end
  | SBreak => SBrk en
  | SPass => SNormal en
  end
with exec_block (en : env) (b : block) {struct b} : sres :=
  match b with
  | BNil => SNormal en
  | BCons s r => match exec en s with SNormal en' => exec_block en' r | o => o end
  end.

Fixpoint bind_params (ps : list string) (vs : list val) : option env :=
  match ps, vs with
  | [], [] => Some []
  | p :: pr, v :: vr => match bind_params pr vr with Some e => Some ((p, Some v) :: e) | None => None end
  | _, _ => None
  end.

Definition call (fd : fundef) (args : list val) : R val :=
  match bind_params (f_params fd) args with
  | None => Exc TypeError
  | Some en0 =>
      match exec_block (en0 ++ map (fun x => (x, None)) (f_locals fd)) (f_body fd) with
      | SNormal _ => Val VNone
      | SRet v => Val v
      | SBrk _ => Exc Unmodelled
      | SExc z => Exc z
      end
  end.
End Interp.

(* function environments are built up definition by definition (no recursion between source functions) *)
Definition fenv_t := string -> option (list val -> R val).
Definition fenv_add (name : string) (sem : list val -> R val) (f : fenv_t) : fenv_t :=
  fun x => if String.eqb x name then Some sem else f x.
Definition fenv_empty : fenv_t := fun _ => None.

(* the environment of a whole list of definitions, built by a fold: each level is constructed once, which makes it
   the form to *execute* (call-by-value evaluation of the chain of named environments in gen/PyAst.v rebuilds every
   level twice per level).  gen/PyAst.v proves the two equal (build_chain). *)
Fixpoint build (genv : string -> option val) (fuel : nat) (l : list (string * fundef)) (acc : fenv_t) : fenv_t :=
  match l with
  | [] => acc
  | (n, a) :: r => build genv fuel r (fenv_add n (call acc genv fuel a) acc)
  end.
Lemma build_app genv fuel l1 l2 acc : build genv fuel (l1 ++ l2) acc = build genv fuel l2 (build genv fuel l1 acc).
Proof. revert acc; induction l1 as [|[n a] r IH]; intros acc; cbn [build app]; [reflexivity|apply IH]. Qed.
