(* Symbolic execution of the MiniPy interpreter inside proofs. *)
From BHW Require Import Lib.Base Lib.ListAux Py.Interp.


#[global] Arguments Z.shiftr : simpl never.
#[global] Arguments Z.shiftl : simpl never.
#[global] Arguments Z.land : simpl never.
#[global] Arguments Z.lxor : simpl never.
#[global] Arguments Z.lor : simpl never.
#[global] Arguments Z.testbit : simpl never.
#[global] Arguments Z.add : simpl nomatch.
#[global] Arguments Z.sub : simpl nomatch.
#[global] Arguments Z.mul : simpl nomatch.
#[global] Arguments Z.ltb : simpl nomatch.
#[global] Arguments Z.leb : simpl nomatch.
#[global] Arguments Z.eqb : simpl nomatch.
#[global] Arguments Z.compare : simpl nomatch.
#[global] Arguments Z.div : simpl never.
#[global] Arguments Z.modulo : simpl never.
#[global] Arguments Z.pow : simpl never.
#[global] Arguments Z.max : simpl never.
#[global] Arguments Z.min : simpl never.
#[global] Arguments Z.of_nat : simpl nomatch.
#[global] Arguments Z.to_nat : simpl nomatch.
#[global] Arguments Pos.to_nat : simpl nomatch.
#[global] Arguments Pos.iter_op : simpl nomatch.
#[global] Arguments fold_left : simpl never.
#[global] Arguments range_list : simpl never.
#[global] Arguments firstn : simpl never.
#[global] Arguments skipn : simpl never.
#[global] Arguments slice : simpl nomatch.
#[global] Arguments index : simpl nomatch.
#[global] Arguments find_from : simpl never.
#[global] Arguments rfind_from : simpl never.

Ltac is_Zlit z := lazymatch z with Z0 => idtac | Zpos _ => idtac | Zneg _ => idtac end.
(* ranges with literal bounds are materialised; symbolic ones are left folded for a lemma *)
Ltac eval_ranges := repeat match goal with |- context [range_list ?a ?b ?c] =>
   is_Zlit a; is_Zlit b; is_Zlit c;
   let r := eval vm_compute in (range_list a b c) in change (range_list a b c) with r end.

Lemma if_Val {A} (b : bool) (x y : A) : (if b then Val x else Val y) = Val (if b then x else y).
Proof. destruct b; reflexivity. Qed.
Lemma if_VInt (b : bool) x y : (if b then VInt x else VInt y) = VInt (if b then x else y).
Proof. destruct b; reflexivity. Qed.
Lemma if_VBool (b : bool) x y : (if b then VBool x else VBool y) = VBool (if b then x else y).
Proof. destruct b; reflexivity. Qed.
Lemma if_same {A} (b : bool) (x : A) : (if b then x else x) = x.
Proof. destruct b; reflexivity. Qed.

Ltac pyifs := repeat (rewrite ?if_Val, ?if_VInt, ?if_VBool).
Ltac pystep := cbn; eval_ranges; cbn; pyifs; cbn.

(* bit tests as Python writes them *)
Lemma testbit_py t i : 0 <= i -> negb (Z.land (Z.shiftr t i) 1 =? 0) = Z.testbit t i.
Proof.
  intros Hi. replace (Z.testbit t i) with (Z.testbit (Z.shiftr t i) 0)
    by (rewrite Z.shiftr_spec by lia; f_equal; lia).
  change 1 with (Z.ones 1). rewrite Z.land_ones by lia. change (2 ^ 1) with 2.
  rewrite Z.bit0_odd, Zmod_odd. destruct (Z.odd (Z.shiftr t i)); reflexivity.
Qed.

(* comprehensions and quantifiers over mapped item lists *)
Lemma comp_map_map {A} (f : val -> R (option val)) (h : A -> val) (g : A -> val) l :
  (forall x, f (h x) = Val (Some (g x))) -> comp_map f (map h l) = Val (map g l).
Proof. intros H. induction l as [|x r IH]; cbn; [reflexivity|]. rewrite H. cbn. rewrite IH. reflexivity. Qed.

Lemma comp_map_map_R {A} (f : val -> R (option val)) (h : A -> val) (g : A -> R val) l :
  (forall x, f (h x) = bindR (g x) (fun r => Val (Some r))) ->
  comp_map f (map h l) = (fix go (l : list A) : R (list val) :=
     match l with [] => Val [] | x :: r => bindR (g x) (fun v => bindR (go r) (fun t => Val (v :: t))) end) l.
Proof.
  intros H. induction l as [|x r IH]; cbn; [reflexivity|]. rewrite H. destruct (g x); cbn; [|reflexivity].
  rewrite IH. reflexivity.
Qed.

Lemma quant_all_map {A} (f : val -> R val) (h : A -> val) (p : A -> bool) l :
  (forall x, f (h x) = Val (VBool (p x))) -> quant true f (map h l) = Val (VBool (forallb p l)).
Proof.
  intros H. induction l as [|x r IH]; cbn; [reflexivity|]. rewrite H. cbn.
  destruct (p x); cbn; [exact IH|reflexivity].
Qed.
Lemma quant_any_map {A} (f : val -> R val) (h : A -> val) (p : A -> bool) l :
  (forall x, f (h x) = Val (VBool (p x))) -> quant false f (map h l) = Val (VBool (existsb p l)).
Proof.
  intros H. induction l as [|x r IH]; cbn; [reflexivity|]. rewrite H. cbn.
  destruct (p x); cbn; [reflexivity|exact IH].
Qed.

Lemma comp_map_res {A} (f : val -> R (option val)) (h : A -> val) (g : A -> res Z) (k : Z -> val) e l :
  (forall x, f (h x) = match g x with Ok z => Val (Some (k z)) | Err => Exc e end) ->
  comp_map f (map h l) = match map_res g l with Ok zs => Val (map k zs) | Err => Exc e end.
Proof.
  intros H. induction l as [|x r IH]; cbn; [reflexivity|]. rewrite H.
  destruct (g x); cbn; [|reflexivity]. rewrite IH. destruct (map_res g r); reflexivity.
Qed.

Lemma all_strs_map {A} (f : A -> list Z) l : all_strs (map (fun x => VStr (f x)) l) = Some (map f l).
Proof. induction l as [|x r IH]; cbn; [reflexivity|]. unfold all_strs in IH. rewrite IH. reflexivity. Qed.

Lemma join_empty_singletons (cs : list Z) :
  match map (fun c => [c]) cs with [] => [] | h :: t => h ++ List.concat (map (fun x => [] ++ x) t) end = cs.
Proof.
  destruct cs as [|c r]; [reflexivity|]. cbn [map app]. f_equal.
  induction r as [|x r IH]; cbn; [reflexivity|]. f_equal. exact IH.
Qed.

(* what a model result says about an interpreter result: the value, or a genuine Python exception *)
Definition genuine (e : exn) : Prop := e <> Unmodelled /\ e <> OutOfFuel.
Definition agrees (r : R val) (m : res val) : Prop :=
  match m with Ok v => r = Val v | Err => exists e, r = Exc e /\ genuine e end.
Lemma join_empty_singletons' (cs : list Z) :
  match map (fun c => [c]) cs with [] => [] | h :: t => h ++ List.concat (map (fun x : list Z => x) t) end = cs.
Proof.
  destruct cs as [|c r]; [reflexivity|]. cbn [map app]. f_equal.
  induction r as [|x r IH]; cbn; [reflexivity|]. f_equal. exact IH.
Qed.

(* ---- slices, searches on single characters ---- *)
Lemma slice_from {A} (l : list A) i : 0 <= i -> slice l (Some i) None = skipn (Z.to_nat i) l.
Proof.
  intros Hi. unfold slice, norm_idx. replace (i <? 0) with false by lia.
  destruct (Z.min_spec i (Z.of_nat (List.length l))) as [[H E]|[H E]]; rewrite E.
  - rewrite firstn_all2; [reflexivity|]. rewrite skipn_length. lia.
  - rewrite firstn_all2 by (rewrite skipn_length; lia).
    rewrite Nat2Z.id. rewrite skipn_all. rewrite skipn_all2 by lia. reflexivity.
Qed.
Lemma slice_to {A} (l : list A) i : 0 <= i -> slice l None (Some i) = firstn (Z.to_nat i) l.
Proof.
  intros Hi. unfold slice, norm_idx. replace (i <? 0) with false by lia.
  change (Z.to_nat 0) with 0%nat. cbn [skipn]. rewrite Z.sub_0_r.
  destruct (Z.min_spec i (Z.of_nat (List.length l))) as [[H E]|[H E]]; rewrite E; [reflexivity|].
  rewrite Nat2Z.id, firstn_all. rewrite firstn_all2 by lia. reflexivity.
Qed.
Lemma slice_to_neg {A} (l : list A) k : 0 < k -> slice l None (Some (- k)) = drop_last (Z.to_nat k) l.
Proof.
  intros Hk. unfold slice, norm_idx, drop_last. replace (- k <? 0) with true by lia.
  change (Z.to_nat 0) with 0%nat. cbn [skipn]. rewrite Z.sub_0_r. f_equal. lia.
Qed.
Lemma slice_from_neg {A} (l : list A) k : 0 < k -> slice l (Some (- k)) None = take_last (Z.to_nat k) l.
Proof.
  intros Hk. unfold slice, norm_idx, take_last. replace (- k <? 0) with true by lia.
  rewrite firstn_all2 by (rewrite skipn_length; lia). f_equal. lia.
Qed.

Lemma prefixb_single c l : prefixb [c] l = match l with x :: _ => c =? x | [] => false end.
Proof. destruct l as [|x r]; cbn; [reflexivity|]. rewrite andb_true_r. reflexivity. Qed.

Lemma find_from_single c l i :
  find_from [c] l i = match index_of c l with Some j => i + j | None => -1 end.
Proof.
  revert i; induction l as [|x r IH]; intros i.
  - reflexivity.
  - change (find_from [c] (x :: r) i) with (if prefixb [c] (x :: r) then i else find_from [c] r (i + 1)).
    rewrite prefixb_single. cbn [index_of]. rewrite Z.eqb_sym. destruct (x =? c) eqn:E; [lia|]. rewrite IH.
    destruct (index_of c r); cbn [option_map]; lia.
Qed.
Lemma find_from_single_memb c l : (0 <=? find_from [c] l 0) = memb c l.
Proof.
  rewrite find_from_single. destruct (index_of c l) as [j|] eqn:E.
  - assert (0 <= j) by (clear -E; revert j E; induction l as [|x r IH]; intros j E; cbn in E; [discriminate|];
      destruct (x =? c); [inversion E; lia|]; destruct (index_of c r) as [k|]; cbn in E; [inversion E; specialize (IH k eq_refl); lia|discriminate]).
    symmetry. replace (0 <=? 0 + j) with true by lia. apply memb_spec.
    assert (index_of c l <> None) as H1 by congruence. destruct (in_dec Z.eq_dec c l) as [Hin|Hn]; [exact Hin|].
    apply index_of_none in Hn. congruence.
  - symmetry. replace (0 <=? -1) with false by lia. apply index_of_none in E.
    destruct (memb c l) eqn:M; [apply memb_spec in M; contradiction|reflexivity].
Qed.
Lemma rfind_from_single c l i b : rfind_from [c] l i b = 
  (fix rf (s : list Z) (i best : Z) := match s with [] => best | x :: r => rf r (i + 1) (if x =? c then i else best) end) l i b.
Proof.
  revert i b; induction l as [|x r IH]; intros i b.
  - reflexivity.
  - change (rfind_from [c] (x :: r) i b) with (rfind_from [c] r (i + 1) (if prefixb [c] (x :: r) then i else b)).
    rewrite prefixb_single, IH, (Z.eqb_sym c x). reflexivity.
Qed.

#[global] Arguments memb : simpl never.
#[global] Arguments index_of : simpl never.

Lemma comp_map_map_In {A} (f : val -> R (option val)) (h : A -> val) (g : A -> val) l :
  (forall x, In x l -> f (h x) = Val (Some (g x))) -> comp_map f (map h l) = Val (map g l).
Proof.
  induction l as [|x r IH]; intros H; cbn [map comp_map]; [reflexivity|].
  rewrite (H x (or_introl eq_refl)). cbn [bindR]. rewrite IH by (intros y Hy; apply H; right; exact Hy). reflexivity.
Qed.
