(* BIP85 applications, from the BIP: fully hardened path m/83696968'/app'/..., entropy =
   HMAC-SHA512("bip-entropy-from-k", k_path), truncated per application. *)
From BHW Require Import Lib.Base.

Definition H : Z := 2147483648.
Inductive app := AMnemonic (words : Z) | AWif | AXprv | AHex (nbytes : Z) | APwd (len : Z).

Definition app_ok (a : app) : bool :=
  match a with
  | AMnemonic w => (w =? 12) || (w =? 15) || (w =? 18) || (w =? 21) || (w =? 24)
  | AWif | AXprv => true
  | AHex n => (16 <=? n) && (n <=? 64)
  | APwd l => (20 <=? l) && (l <=? 86)
  end.

Definition app_path (a : app) (index : Z) : list Z :=
  match a with
  | AMnemonic w => [83696968 + H; 39 + H; 0 + H; w + H; index + H]
  | AWif => [83696968 + H; 2 + H; index + H]
  | AXprv => [83696968 + H; 32 + H; index + H]
  | AHex n => [83696968 + H; 128169 + H; n + H; index + H]
  | APwd l => [83696968 + H; 707764 + H; l + H; index + H]
  end.

Definition entropy_key : bytes := [98;105;112;45;101;110;116;114;111;112;121;45;102;114;111;109;45;107].
Definition mnemonic_bytes (w : Z) : Z := w * 4 / 3.     (* 12 -> 16, 15 -> 20, 18 -> 24, 21 -> 28, 24 -> 32 *)
