(* Bitcoin script / compactSize wire format, written from the protocol description:
   minimal pushes (1-75 bare length byte, 76-255 OP_PUSHDATA1, 256-520 OP_PUSHDATA2)
   and variable-length integers in their shortest form. Independent of the model. *)
From BHW Require Import Lib.Base.

Definition le_bytes (n : nat) (v : Z) : bytes :=
  map (fun i => (v / 256 ^ Z.of_nat i) mod 256) (seq 0 n).

Definition compact_size (i : Z) : option bytes :=
  if i <? 0 then None
  else if i <=? 252 then Some [i]
  else if i <=? 65535 then Some (253 :: le_bytes 2 i)
  else if i <=? 4294967295 then Some (254 :: le_bytes 4 i)
  else if i <=? 18446744073709551615 then Some (255 :: le_bytes 8 i)
  else None.

Inductive item := SOp (o : Z) | SPush (d : bytes).

Definition push (d : bytes) : option bytes :=
  let n := Z.of_nat (length d) in
  if (1 <=? n) && (n <=? 75) then Some (n :: d)
  else if (76 <=? n) && (n <=? 255) then Some (76 :: n :: d)
  else if (256 <=? n) && (n <=? 520) then Some (77 :: le_bytes 2 n ++ d)
  else None.

Definition item_bytes (i : item) : option bytes :=
  match i with
  | SOp o => if (0 <=? o) && (o <=? 255) then Some [o] else None
  | SPush d => push d
  end.

Fixpoint script_bytes (l : list item) : option bytes :=
  match l with
  | [] => Some []
  | i :: r => match item_bytes i, script_bytes r with
              | Some a, Some b => Some (a ++ b)
              | _, _ => None
              end
  end.

Definition script_wire (l : list item) : option bytes :=
  match script_bytes l with
  | Some raw => match compact_size (Z.of_nat (length raw)) with
                | Some v => Some (v ++ raw)
                | None => None
                end
  | None => None
  end.

(* a byte that stands for itself as an opcode when parsed (not a push prefix) *)
Definition plain_opcode (o : Z) : bool := (o =? 0) || ((78 <=? o) && (o <=? 255)).
Definition item_wf (i : item) : bool :=
  match i with
  | SOp o => plain_opcode o
  | SPush d => (1 <=? Z.of_nat (length d)) && (Z.of_nat (length d) <=? 520) && wf_bytesb d
  end.
