(* BIP39 mnemonic generation, from the BIP text: ENT in {128,...,256}, CS = ENT/32,
   the ENT bits followed by the first CS bits of SHA256(entropy), split into 11-bit groups. *)
From BHW Require Import Lib.Base.
From BHW Require Import Spec.Bip39Words.
From Coq Require Import String Ascii.

Definition scodes (s : string) : list Z :=
  List.map (fun a => Z.of_N (N_of_ascii a)) (list_ascii_of_string s).
Definition english : list (list Z) := List.map scodes official_english.

(* bits, most significant first *)
Fixpoint byte_bits (n : nat) (b : Z) : list bool :=
  match n with O => [] | S k => List.app (byte_bits k (b / 2)) [Z.odd b] end.
Definition bits_of (bs : list Z) : list bool := flat_map (byte_bits 8) bs.
Fixpoint bits_val (l : list bool) (acc : Z) : Z :=
  match l with [] => acc | b :: r => bits_val r (2 * acc + (if b then 1 else 0)) end.
Fixpoint groups (fuel : nat) (k : nat) (l : list bool) : list (list bool) :=
  match fuel with
  | O => []
  | S f => match l with [] => [] | _ => firstn k l :: groups f k (skipn k l) end
  end.

Definition valid_ent (nbytes : nat) : bool :=
  match nbytes with 16%nat | 20%nat | 24%nat | 28%nat | 32%nat => true | _ => false end.

Definition word_indexes (sha256 : list Z -> list Z) (e : list Z) : option (list Z) :=
  if valid_ent (List.length e) then
    let cs := (List.length e * 8 / 32)%nat in
    let all := List.app (bits_of e) (firstn cs (bits_of (sha256 e))) in
    Some (List.map (fun g => bits_val g 0) (groups 30 11 all))
  else None.
