(* SLIP-132 / BIP32 version bytes, written by hand from the registry.
   key type: 0 = private, 1 = public;  flavour: 0 = BIP44 (x/t), 1 = BIP49 (y/u), 2 = BIP84 (z/v). *)
From BHW Require Import Lib.Base.

Definition slip132 : list ((Z * Z * bool) * Z) :=
  [ ((0, 0, false), 0x0488ADE4)   (* xprv *) ; ((0, 1, false), 0x049d7878)   (* yprv *)
  ; ((0, 2, false), 0x04b2430c)   (* zprv *) ; ((1, 0, false), 0x0488B21E)   (* xpub *)
  ; ((1, 1, false), 0x049d7cb2)   (* ypub *) ; ((1, 2, false), 0x04b24746)   (* zpub *)
  ; ((0, 0, true),  0x04358394)   (* tprv *) ; ((0, 1, true),  0x044a4e28)   (* uprv *)
  ; ((0, 2, true),  0x045f18bc)   (* vprv *) ; ((1, 0, true),  0x043587CF)   (* tpub *)
  ; ((1, 1, true),  0x044a5262)   (* upub *) ; ((1, 2, true),  0x045f1cf6)   (* vpub *) ].
