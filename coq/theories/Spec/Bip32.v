(* BIP32, written from the BIP text.  Parameters: the curve, HMAC-SHA512, HASH160.
   ser32 / ser256 are big-endian fixed width; an extended key carries
   (key, chain code, depth, parent fingerprint, child number). *)
From BHW Require Import Lib.Base Lib.Digits Spec.Curve.

Section Bip32Spec.
Variable C : curve.
Variable hmac512 : bytes -> bytes -> bytes.    (* key -> data -> 64 bytes *)
Variable hash160 : bytes -> bytes.

Definition be (len : nat) (v : Z) : bytes := rev (to_le_fixed 256 len v).
Definition ser32 := be 4.
Definition ser256 := be 32.
Definition parse256 (b : bytes) : Z := of_le 256 (rev b).
Definition hardened (i : Z) : bool := 2147483648 <=? i.

Record xprv := { x_k : Z; x_c : bytes; x_depth : Z; x_fpr : bytes; x_idx : Z }.
Record xpub := { X_K : pt C; X_c : bytes; X_depth : Z; X_fpr : bytes; X_idx : Z }.

Definition point (k : Z) : option (pt C) := G_mul C k.
Definition fingerprint_of (K : pt C) : bytes := firstn 4 (hash160 (ser_c C K)).

(* CKDpriv((kpar, cpar), i) -> (ki, ci), None when the key is invalid *)
Definition CKDpriv (par : xprv) (i : Z) : option xprv :=
  match point (x_k par) with
  | None => None
  | Some Kpar =>
      let data := if hardened i then 0 :: ser256 (x_k par) ++ ser32 i
                  else ser_c C Kpar ++ ser32 i in
      let I := hmac512 (x_c par) data in
      let IL := parse256 (firstn 32 I) in
      let IR := skipn 32 I in
      let ki := (IL + x_k par) mod order C in
      if (order C <=? IL) || (ki =? 0) then None
      else Some {| x_k := ki; x_c := IR; x_depth := x_depth par + 1;
                   x_fpr := fingerprint_of Kpar; x_idx := i |}
  end.

(* CKDpub((Kpar, cpar), i) -> (Ki, ci): only for non-hardened i *)
Definition CKDpub (par : xpub) (i : Z) : option xpub :=
  if hardened i then None else
  let I := hmac512 (X_c par) (ser_c C (X_K par) ++ ser32 i) in
  let IL := parse256 (firstn 32 I) in
  let IR := skipn 32 I in
  if order C <=? IL then None else
  match padd C (point IL) (Some (X_K par)) with
  | None => None
  | Some Ki => Some {| X_K := Ki; X_c := IR; X_depth := X_depth par + 1;
                       X_fpr := fingerprint_of (X_K par); X_idx := i |}
  end.

(* N((k, c)) -> (K, c) *)
Definition neuter (x : xprv) : option xpub :=
  match point (x_k x) with
  | Some K => Some {| X_K := K; X_c := x_c x; X_depth := x_depth x; X_fpr := x_fpr x; X_idx := x_idx x |}
  | None => None
  end.

(* master key generation *)
Definition master (seed : bytes) (seed_key : bytes) : option xprv :=
  let I := hmac512 seed_key seed in
  let IL := parse256 (firstn 32 I) in
  if (IL =? 0) || (order C <=? IL) then None
  else Some {| x_k := IL; x_c := skipn 32 I; x_depth := 0; x_fpr := [0;0;0;0]; x_idx := 0 |}.

(* serialisation: 4 version | 1 depth | 4 fingerprint | 4 child number | 32 chain code | 33 key *)
Definition ser_prv (version : Z) (x : xprv) : bytes :=
  ser32 version ++ be 1 (x_depth x) ++ x_fpr x ++ ser32 (x_idx x) ++ x_c x ++ 0 :: ser256 (x_k x).
Definition ser_pub (version : Z) (x : xpub) : bytes :=
  ser32 version ++ be 1 (X_depth x) ++ X_fpr x ++ ser32 (X_idx x) ++ X_c x ++ ser_c C (X_K x).

Fixpoint derive_prv (x : xprv) (path : list Z) : option xprv :=
  match path with
  | [] => Some x
  | i :: r => match CKDpriv x i with Some c => derive_prv c r | None => None end
  end.
Fixpoint derive_pub (x : xpub) (path : list Z) : option xpub :=
  match path with
  | [] => Some x
  | i :: r => match CKDpub x i with Some c => derive_pub c r | None => None end
  end.
End Bip32Spec.

Arguments X_K {C} _.
Arguments X_c {C} _.
Arguments X_depth {C} _.
Arguments X_fpr {C} _.
Arguments X_idx {C} _.
