(* BIP32 path strings, strict grammar, written independently of the model:
     path  ::= ("m" | "M") ("/" comp)*
     comp  ::= digits | digits "'" | digits "h"        digits ::= [0-9]+
   A component denotes n (0 <= n < 2^32) or n + 2^31 (0 <= n < 2^31) when marked. *)
From BHW Require Import Lib.Base Lib.ListAux.

Definition isdig (c : Z) : bool := (48 <=? c) && (c <=? 57).
Fixpoint dec_val (s : list Z) (acc : Z) : Z :=
  match s with [] => acc | c :: r => dec_val r (acc * 10 + (c - 48)) end.

Inductive cls := WellFormed (private : bool) (path : list Z) | Malformed | Lenient.

Fixpoint split_s (s : list Z) (cur : list Z) : list (list Z) :=
  match s with
  | [] => [rev cur]
  | c :: r => if c =? 47 then rev cur :: split_s r [] else split_s r (c :: cur)
  end.

(* Some (Some v): strict component with value v;  Some None: definitely malformed;  None: lenient / undecided *)
Definition lit_char (c : Z) : bool :=   (* characters some Python integer literal may contain *)
  isdig c || (c =? 95) || ((9 <=? c) && (c <=? 13)) || ((28 <=? c) && (c <=? 32)) || (c =? 43) || (c =? 45).
Definition nonempty {A} (l : list A) : bool := match l with [] => false | _ => true end.

(* white space that Python's int() skips around the literal (ASCII): 9..13 and 32 *)
Definition int_ws (c : Z) : bool := ((9 <=? c) && (c <=? 13)) || (c =? 32).
Fixpoint drop_ws (s : list Z) : list Z := match s with c :: r => if int_ws c then drop_ws r else s | [] => [] end.
Definition trim_ws (s : list Z) : list Z := rev (drop_ws (rev (drop_ws s))).
(* white space, then '-', then a non-zero plain decimal number: a negative number however leniently int() reads it *)
Definition negative_literal (body : list Z) : bool :=
  match trim_ws body with
  | 45 :: ds => nonempty ds && forallb isdig ds && negb (dec_val ds 0 =? 0)
  | _ => false
  end.

Definition comp_val (t : list Z) : option (option Z) :=
  match rev t with
  | [] => Some None                                        (* empty component *)
  | l :: rinit =>
      let marked := (l =? 39) || (l =? 104) in
      let body := if marked then rev rinit else t in
      if nonempty body && forallb isdig body then
        let v := dec_val body 0 in
        if marked then (if v <? 2147483648 then Some (Some (v + 2147483648)) else Some None)
        else (if v <? 4294967296 then Some (Some v) else Some None)
      else match body with
      | [] => Some None                                    (* a bare marker *)
      | 45 :: ds =>
          if nonempty ds && forallb isdig ds then (if dec_val ds 0 =? 0 then None else Some None)  (* negative: out of range *)
          else if forallb lit_char ds then None else Some None
      | _ => if negative_literal body then Some None             (* " -1": negative behind white space: out of range *)
             else if forallb lit_char body then None else Some None   (* junk token *)
      end
  end.

Fixpoint classify_comps (l : list (list Z)) (acc : list Z) : option (option (list Z)) :=
  match l with
  | [] => Some (Some (rev acc))
  | t :: r =>
      match comp_val t with
      | Some (Some v) => classify_comps r (v :: acc)
      | Some None => match t with
                     | [] => if forallb (fun x => negb (nonempty x)) r
                             then Some (Some (rev acc))    (* trailing "/"s: empty but not inner (nothing follows) *)
                             else Some None
                     | _ => Some None
                     end
      | None => match classify_comps r (0 :: acc) with
                | Some None => Some None                   (* a later definite fault still decides *)
                | _ => None
                end
      end
  end.

Definition classify (s : list Z) : cls :=
  match split_s s [] with
  | [109] :: comps => match classify_comps comps [] with
                      | Some (Some p) => WellFormed true p | Some None => Malformed | None => Lenient end
  | [77] :: comps => match classify_comps comps [] with
                     | Some (Some p) => WellFormed false p | Some None => Malformed | None => Lenient end
  | _ => Malformed                                          (* wrong root marker *)
  end.

(* formatting *)
Fixpoint dec_digits (fuel : nat) (n : Z) (acc : list Z) : list Z :=
  match fuel with
  | O => acc
  | S f => if n <? 10 then (n + 48) :: acc else dec_digits f (n / 10) ((n mod 10 + 48) :: acc)
  end.
Definition dec (n : Z) : list Z := dec_digits 40 n [].
Definition fmt_comp (i : Z) : list Z := if 2147483648 <=? i then dec (i - 2147483648) ++ [39] else dec i.
Definition fmt_path (mark : list Z) (p : list Z) : list Z :=
  mark ++ concat (map (fun i => 47 :: fmt_comp i) p).
