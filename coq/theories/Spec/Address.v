(* Standard Bitcoin address forms, written from the specifications (BIP13/16/141/173):
   version bytes 00/05 (mainnet) 6f/c4 (testnet); hrp bc / tb; scriptPubKey templates. *)
From BHW Require Import Lib.Base.

Definition p2pkh_version (testnet : bool) : Z := if testnet then 0x6f else 0x00.
Definition p2sh_version (testnet : bool) : Z := if testnet then 0xc4 else 0x05.
Definition segwit_hrp (testnet : bool) : list Z := if testnet then [116; 98] else [98; 99].   (* "tb" / "bc" *)

(* scriptPubKey / redeem script templates *)
Definition p2pkh_spk (h160 : bytes) : bytes := [0x76; 0xa9; 0x14] ++ h160 ++ [0x88; 0xac].
Definition p2sh_spk (h160 : bytes) : bytes := [0xa9; 0x14] ++ h160 ++ [0x87].
Definition p2wpkh_spk (h160 : bytes) : bytes := [0x00; 0x14] ++ h160.
Definition p2wsh_spk (h256 : bytes) : bytes := [0x00; 0x20] ++ h256.
(* 1-of-1 multisig witness script used by the wallet: OP_1 <33-byte key> OP_1 OP_CHECKMULTISIG *)
Definition multisig_1of1 (sec : bytes) : bytes := [0x51; 0x21] ++ sec ++ [0x51; 0xae].

(* payloads that are Base58Check-encoded / segwit programs *)
Definition p2pkh_payload (hash160 : bytes -> bytes) (sec : bytes) (testnet : bool) : bytes :=
  p2pkh_version testnet :: hash160 sec.
Definition p2sh_p2wpkh_payload (hash160 : bytes -> bytes) (sec : bytes) (testnet : bool) : bytes :=
  p2sh_version testnet :: hash160 (p2wpkh_spk (hash160 sec)).
Definition p2wsh_program (sha256 : bytes -> bytes) (sec : bytes) : bytes := sha256 (multisig_1of1 sec).
Definition p2sh_p2wsh_payload (sha256 hash160 : bytes -> bytes) (sec : bytes) (testnet : bool) : bytes :=
  p2sh_version testnet :: hash160 (p2wsh_spk (sha256 (multisig_1of1 sec))).
