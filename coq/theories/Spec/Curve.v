(* The abstract curve: what the BIP32 theorems need from secp256k1 and from the
   SEC encodings of python-ecdsa.  A record of operations and a record of laws;
   theorems quantify over every curve satisfying the laws. *)
From BHW Require Import Lib.Base.

Record curve := {
  pt : Type;                                   (* finite points *)
  order : Z;                                   (* n *)
  G_mul : Z -> option pt;                      (* k.G ; None = point at infinity *)
  padd : option pt -> option pt -> option pt;  (* group law, None = infinity *)
  ser_c : pt -> bytes;                         (* compressed SEC *)
  ser_u : pt -> bytes;                         (* uncompressed SEC *)
  parse_pt : bytes -> option pt;               (* VerifyingKey.from_string *)
}.

Record curve_laws (C : curve) : Prop := {
  order_pos : 2 <= order C;
  G_mul_mod : forall k, G_mul C (k mod order C) = G_mul C k;
  G_mul_zero : G_mul C 0 = None;
  G_mul_some : forall k, 0 < k < order C -> G_mul C k <> None;
  G_mul_add : forall a b, G_mul C (a + b) = padd C (G_mul C a) (G_mul C b);
  G_mul_inj : forall a b K, 0 < a < order C -> 0 < b < order C ->
              G_mul C a = Some K -> G_mul C b = Some K -> a = b;
  ser_c_len : forall K, length (ser_c C K) = 33%nat;
  ser_c_wf : forall K, wf_bytes (ser_c C K);
  ser_c_prefix : forall K, exists t r, ser_c C K = t :: r /\ (t = 2 \/ t = 3);
  ser_u_len : forall K, length (ser_u C K) = 65%nat;
  ser_u_wf : forall K, wf_bytes (ser_u C K);
  ser_u_prefix : forall K, exists r, ser_u C K = 4 :: r;
  ser_c_inj : forall K K', ser_c C K = ser_c C K' -> K = K';
  parse_ser_c : forall K, parse_pt C (ser_c C K) = Some K;
  parse_ser_u : forall K, parse_pt C (ser_u C K) = Some K;
}.
