(* BIP173 / BIP350 constants and the checksum polynomial, written from the BIPs (independent of the model). *)
From BHW Require Import Lib.Base.
From Coq Require Import String Ascii.

Definition scodes (s : string) : list Z :=
  List.map (fun a => Z.of_N (N_of_ascii a)) (list_ascii_of_string s).

Definition charset : list Z := scodes "qpzry9x8gf2tvdw0s3jn54khce6mua7l".
Definition gen : list Z := [0x3b6a57b2; 0x26508e6d; 0x1ea119fa; 0x3d4233dd; 0x2a1462b3].
Definition bech32_const : Z := 1.
Definition bech32m_const : Z := 0x2bc830a3.

(* c(x) * x mod g(x) over GF(32), as in the BIP's polymod, for symbols v in 0..31 *)
Definition spec_step (c v : Z) : Z :=
  let c0 := c / 33554432 in
  let c' := Z.lxor ((c mod 33554432) * 32) v in
  fold_left (fun acc ig => if Z.odd (c0 / 2 ^ (fst ig)) then Z.lxor acc (snd ig) else acc)
            (combine [0;1;2;3;4] gen) c'.
Definition spec_polymod (vs : list Z) : Z := fold_left spec_step vs 1.
Definition spec_hrp_expand (hrp : list Z) : list Z :=
  List.map (fun x => x / 32) hrp ++ [0] ++ List.map (fun x => x mod 32) hrp.

(* segwit address rules of BIP173/BIP350 *)
Definition legal (witver : Z) (proglen : nat) : bool :=
  (0 <=? witver) && (witver <=? 16) && (2 <=? proglen)%nat && (proglen <=? 40)%nat &&
  (negb (witver =? 0) || (proglen =? 20)%nat || (proglen =? 32)%nat).
Definition const_for (witver : Z) : Z := if witver =? 0 then bech32_const else bech32m_const.
