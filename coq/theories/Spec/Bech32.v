(* BIP173 / BIP350 constants and the checksum polynomial, written from the BIPs (independent of the model). *)
From BHW Require Import Lib.Base.
From Coq Require Import String Ascii.

Definition scodes (s : string) : list Z :=
  List.map (fun a => Z.of_N (N_of_ascii a)) (list_ascii_of_string s).

Definition charset : list Z := scodes "qpzry9x8gf2tvdw0s3jn54khce6mua7l".
Definition gen : list Z := [0x3b6a57b2; 0x26508e6d; 0x1ea119fa; 0x3d4233dd; 0x2a1462b3].
Definition bech32_const : Z := 1.
Definition bech32m_const : Z := 0x2bc830a3.

(* c(x) * x mod g(x) over GF(32), as in the BIP's polymod, for symbols v in 0..31 *)
Definition spec_step (c v : Z) : Z :=
  let c0 := c / 33554432 in
  let c' := Z.lxor ((c mod 33554432) * 32) v in
  fold_left (fun acc ig => if Z.odd (c0 / 2 ^ (fst ig)) then Z.lxor acc (snd ig) else acc)
            (combine [0;1;2;3;4] gen) c'.
Definition spec_polymod (vs : list Z) : Z := fold_left spec_step vs 1.
Definition spec_hrp_expand (hrp : list Z) : list Z :=
  List.map (fun x => x / 32) hrp ++ [0] ++ List.map (fun x => x mod 32) hrp.

(* segwit address rules of BIP173/BIP350 *)
Definition legal (witver : Z) (proglen : nat) : bool :=
  (0 <=? witver) && (witver <=? 16) && (2 <=? proglen)%nat && (proglen <=? 40)%nat &&
  (negb (witver =? 0) || (proglen =? 20)%nat || (proglen =? 32)%nat).
Definition const_for (witver : Z) : Z := if witver =? 0 then bech32_const else bech32m_const.

(* ---- an independent segwit address reader for the Spec-side checks of the correspondence (lower-case addresses, as the
   library emits them): hrp, the separator, data characters of the BIP's charset, checksum constant by witness version,
   5-to-8 bit regrouping without padding, BIP141 program rules.  Uses only the constants above. ---- *)
Fixpoint spec_sym_index (c : Z) (l : list Z) (i : Z) : option Z :=
  match l with [] => None | x :: r => if x =? c then Some i else spec_sym_index c r (i + 1) end.
Fixpoint spec_symbols (s : list Z) : option (list Z) :=
  match s with
  | [] => Some []
  | c :: r => match spec_sym_index c charset 0, spec_symbols r with Some v, Some vs => Some (v :: vs) | _, _ => None end
  end.
Definition spec_regroup_5_8 (d : list Z) : option (list Z) :=
  let step (st : Z * Z * list Z) (v : Z) :=
    let '(acc, bits, out) := st in
    let acc := acc * 32 + v in let bits := bits + 5 in
    if 8 <=? bits then (acc mod 2 ^ (bits - 8), bits - 8, out ++ [acc / 2 ^ (bits - 8)]) else (acc, bits, out) in
  let '(acc, bits, out) := fold_left step d (0, 0, []) in
  if (bits <? 5) && (acc =? 0) then Some out else None.
Fixpoint spec_list_eqb (a b : list Z) : bool :=
  match a, b with [] , [] => true | x :: r, y :: q => (x =? y) && spec_list_eqb r q | _, _ => false end.
Definition spec_decode (hrp s : list Z) : option (Z * list Z) :=
  let n := List.length hrp in
  if spec_list_eqb (firstn n s) hrp && spec_list_eqb (firstn 1 (skipn n s)) [49] then
    match spec_symbols (skipn (S n) s) with
    | Some (v :: rest) =>
        if (6 <=? List.length rest)%nat && (spec_polymod (spec_hrp_expand hrp ++ v :: rest) =? const_for v) then
          match spec_regroup_5_8 (firstn (List.length rest - 6) rest) with
          | Some prog => if legal v (List.length prog) then Some (v, prog) else None
          | None => None
          end
        else None
    | _ => None
    end
  else None.
