(* Base58 as used by Bitcoin: the alphabet, written by hand from the protocol
   description (no 0, O, I, l), never regenerated. *)
From BHW Require Import Lib.Base.
From Coq Require Import String Ascii.

Definition codes (s : string) : list Z :=
  List.map (fun a => Z.of_N (N_of_ascii a)) (list_ascii_of_string s).

Definition alphabet : list Z :=
  codes "123456789ABCDEFGHJKLMNPQRSTUVWXYZabcdefghijkmnopqrstuvwxyz".
