(* Helpers for the generated correspondence files: hex literals, oracle tables. *)
From BHW Require Import Lib.Base Lib.ListAux.
From Coq Require Import String Ascii.

Definition hexval (a : ascii) : Z :=
  let n := Z.of_N (N_of_ascii a) in
  if (48 <=? n) && (n <=? 57) then n - 48
  else if (97 <=? n) && (n <=? 102) then n - 87
  else if (65 <=? n) && (n <=? 70) then n - 55 else 0.

Fixpoint unhex (s : string) : list Z :=
  match s with
  | String a (String b r) => (16 * hexval a + hexval b) :: unhex r
  | _ => []
  end.

Definition codes (s : string) : list Z :=
  List.map (fun a => Z.of_N (N_of_ascii a)) (list_ascii_of_string s).

(* oracle tables: association lists logged from the running implementation.
   A miss returns the ill-formed value [-1], which can never equal a real digest. *)
Definition table := list (list Z * list Z).
Fixpoint lookup (t : table) (k : list Z) : list Z :=
  match t with
  | [] => [-1]
  | (k', v) :: r => if beq_bytes k' k then v else lookup r k
  end.
Definition hextable (t : list (string * string)) : table :=
  List.map (fun p => (unhex (fst p), unhex (snd p))) t.

Definition beq_res {A} (eq : A -> A -> bool) (a b : res A) : bool :=
  match a, b with
  | Ok x, Ok y => eq x y
  | Err, Err => true
  | _, _ => false
  end.

(* verdict codes: 0 ok, 1 model<>impl, 2 property fails on impl output, 3 both *)
Definition verdict (model_agrees prop_holds : bool) : Z :=
  (if model_agrees then 0 else 1) + (if prop_holds then 0 else 2).
