(* C11 correspondence: cases written by harness/props/c11.py *)
From BHW Require Import Lib.Base Lib.ListAux Model.Helper Model.Bech32M Spec.Bech32 Exec.Common.
From BHWGen Require Import Consts.
From Coq Require Import String.

Inductive case :=
(* bech32.encode(hrp, witver, prog): observed None / string / exception, and decode(hrp, string) *)
| Enc (hrp : str) (witver : Z) (prog : list Z) (ob : res (option str)) (back : option (Z * list Z))
(* bech32.decode(hrp, addr) on an arbitrary string *)
| Dec (hrp : str) (addr : str) (ob : option (Z * list Z))
(* a valid address and a same-length variant of it differing only in the data part; observed decode of the variant *)
| Mut (hrp : str) (orig : str) (variant : str) (ob : option (Z * list Z)).

Definition beq_zp (a b : Z * list Z) : bool := (fst a =? fst b) && beq_bytes (snd a) (snd b).
Definition beq_opt {A} (eq : A -> A -> bool) (a b : option A) : bool :=
  match a, b with Some x, Some y => eq x y | None, None => true | _, _ => false end.

Fixpoint hamming (a b : list Z) : nat :=
  match a, b with
  | x :: a', y :: b' => if x =? y then hamming a' b' else S (hamming a' b')
  | _, _ => O
  end.

(* spec-level validity of an address string for a given hrp: lower-case form, separator, charset, checksum constant *)
Definition spec_data (hrp addr : list Z) : option (list Z) :=
  let n := List.length hrp in
  if beq_bytes (firstn n addr) hrp && match nth_error addr n with Some 49 => true | _ => false end then
    let tail := skipn (S n) addr in
    if forallb (fun c => memb c charset) tail
    then Some (List.map (fun c => match index_of c charset with Some i => i | None => 0 end) tail) else None
  else None.

Definition check_case (c : case) : Z :=
  match c with
  | Enc hrp v prog ob back =>
      let m := encode hrp v prog in
      let m_back := match m with Ok (Some s) => decode hrp s | _ => None end in
      let agrees := beq_res (beq_opt beq_bytes) m ob && beq_opt beq_zp m_back back in
      let hrp_ok := forallb (fun x => (33 <=? x) && (x <=? 126) && negb ((65 <=? x) && (x <=? 90))) hrp && negb (match hrp with [] => true | _ => false end) in
      let prog_ok := forallb (fun b => (0 <=? b) && (b <? 256)) prog in
      let total_len := (List.length hrp + 1 + 1 + (List.length prog * 8 + 4) / 5 + 6)%nat in
      let prop :=
        if hrp_ok && prog_ok && (total_len <=? 90)%nat then
          if legal v (List.length prog) then
            match ob with
            | Ok (Some s) =>
                beq_opt beq_zp back (Some (v, prog)) &&
                match spec_data hrp s with
                | Some d => (spec_polymod (spec_hrp_expand hrp ++ d) =? const_for v) && (match d with d0 :: _ => d0 =? v | [] => false end)
                | None => false
                end
            | _ => false
            end
          else match ob with Ok (Some _) => false | _ => true end      (* an illegal version/length yields no address *)
        else true in
      verdict agrees prop
  | Dec hrp addr ob =>
      let agrees := beq_opt beq_zp (decode hrp addr) ob in
      let mixed := existsb (fun x => (65 <=? x) && (x <=? 90)) addr && existsb (fun x => (97 <=? x) && (x <=? 122)) addr in
      let prop :=
        match ob with
        | None => true
        | Some (v, prog) =>
            negb mixed && (List.length addr <=? 90)%nat &&
            let low := List.map lower_c addr in
            match spec_data (List.map lower_c hrp) low with
            | Some d => beq_bytes (List.map lower_c hrp) hrp && legal v (List.length prog) &&
                        (spec_polymod (spec_hrp_expand hrp ++ d) =? const_for v) &&
                        (* canonical conversion: the 5-bit groups between version and checksum are the program
                           bytes followed by fewer than five zero padding bits, nothing more *)
                        (match d with
                         | d0 :: rest =>
                             let groups := firstn (List.length rest - 6) rest in
                             let pad := 5 * Z.of_nat (List.length groups) - 8 * Z.of_nat (List.length prog) in
                             (d0 =? v) && (0 <=? pad) && (pad <? 5) &&
                             (fold_left (fun a g => a * 32 + g) groups 0 =? fold_left (fun a b => a * 256 + b) prog 0 * 2 ^ pad)
                         | [] => false
                         end)
            | None => false
            end
        end in
      verdict agrees prop
  | Mut hrp orig variant ob =>
      let agrees := beq_opt beq_zp (decode hrp variant) ob in
      let h := hamming orig variant in
      let n := List.length hrp in
      let v0 := nth (S n) orig 0 in let v1 := nth (S n) variant 0 in
      let class_switch := negb (Bool.eqb (v0 =? 113) (v1 =? 113)) in      (* 'q' = witness version 0 *)
      let must_reject := (1 <=? h)%nat && ((h <=? 3)%nat || ((h =? 4)%nat && negb class_switch)) in
      let prop := if must_reject then match ob with None => true | Some _ => false end else true in
      verdict agrees prop
  end.
