(* C08 correspondence: cases written by harness/props/c08.py *)
From BHW Require Import Lib.Base Lib.ListAux Model.Helper Model.Bip39M Model.Bip85M Model.Rng Spec.Bip39 Exec.Common Exec.C04.
From BHWGen Require Import Consts.
From Coq Require Import String.

Inductive case :=
(* one fresh mnemonic: word count (via new_wallet) or entropy bits (via mnemonic_from_entropy_bits, words = 0);
   the list of OS requests observed (each: the bytes answered); sha table; observed sentence *)
| Fresh (words bits : Z) (requests : list string) (sha : list (string * string)) (ob : res str)
(* dynamic facts established by the driver over many fresh wallets (flags) *)
| Stats (systemrandom_bound all_distinct every_bit_varies reseed_independent no_other_source : bool).

Definition check_case (c : case) : Z :=
  match c with
  | Fresh words bits requests sha ob =>
      let sha256 := lookup (hextable sha) in
      let reqs := List.map unhex requests in
      let urandom := fun n : nat => match reqs with r :: _ => r | [] => [] end in
      let m := if words =? 0 then mnemonic_from_entropy_bits sha256 urandom bits
               else new_wallet_mnemonic sha256 urandom words in
      let agrees := beq_res beq_bytes m ob in
      let ent := if words =? 0 then bits else 32 * words / 3 in
      let legal := memb ent [128; 160; 192; 224; 256] && ((words =? 0) || memb words [12; 15; 18; 21; 24]) in
      let prop :=
        if negb legal then negb (is_ok ob) else
        match ob, reqs with
        | Ok s, [os] =>
            (* exactly one request, of at least ENT bits, and the sentence decodes to exactly those bytes *)
            (ent <=? 8 * Z.of_nat (List.length os)) &&
            match word_indexes sha256 (firstn (Z.to_nat (ent / 8)) os) with
            | Some idx => match all_some (List.map (fun w => idx_of w english 0) (split_sp s [])) with
                          | Some got => beq_bytes got idx | None => false end
            | None => false
            end
        | _, _ => false
        end in
      verdict agrees prop
  | Stats a b c0 d e => verdict true (a && b && c0 && d && e)
  end.
