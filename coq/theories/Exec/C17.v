(* C17 correspondence: cases written by harness/props/c17.py *)
From BHW Require Import Lib.Base Lib.ListAux Model.Helper Model.WalletUtils Model.Bip32M Spec.Path Exec.Common.
From Coq Require Import String.

Inductive case :=
(* Bip32Path.parse(s): observed (private, to_list, str(path)) *)
| Parse (s : str) (ob : res (bool * list Z * str))
(* by_path(s) on a wallet vs iterated ckd over the intended index list (None = the string is a single-fault
   malformed path): observed nodes as (key, chain, depth, index) *)
| ByPath (s : str) (intended : option (list Z)) (byp : res (string * string * Z * Z)) (iter : res (string * string * Z * Z))
(* str(node) of a node derived along `path` from a root printing as `mark` *)
| Repr (prv : bool) (path : list Z) (ob : str).

Definition beq_zs := beq_bytes.
Definition eq_parse (a b : bool * list Z * str) : bool :=
  match a, b with (p, l, r), (p', l', r') => Bool.eqb p p' && beq_zs l l' && beq_zs r r' end.
Definition eq4 (a b : string * string * Z * Z) : bool :=
  match a, b with (k, c, d, i), (k', c', d', i') =>
    beq_bytes (unhex k) (unhex k') && beq_bytes (unhex c) (unhex c') && (d =? d') && (i =? i') end.

Fixpoint mk_chain (prv : bool) (path : list Z) (par : node) : node :=
  match path with
  | [] => par
  | i :: r => mk_chain prv r {| is_prv := prv; nkey := []; nchain := []; ndepth := ndepth par + 1; nindex := i; ntestnet := false;
                                nparent := Some par; nparsed_fpr := None; nparsed_version := None |}
  end.

Definition check_case (c : case) : Z :=
  match c with
  | Parse s ob =>
      let m := rmap (fun p => (bp_private p, to_list p, path_repr p)) (path_parse s) in
      let agrees := beq_res eq_parse m ob in
      let prop :=
        match classify s, ob with
        | WellFormed prv p, Ok (prv', l, r) =>
            (* honoured component by component -- also beyond five levels -- and formatting re-parses *)
            Bool.eqb prv prv' && beq_zs l p && beq_zs r (fmt_path (if prv then [109] else [77]) p)
        | WellFormed _ p, Err => (5 <? Z.of_nat (List.length p))      (* a deep path may be rejected, a valid short one may not *)
        | Malformed, Ok _ => false
        | Malformed, Err => true
        | Lenient, _ => true
        end in
      verdict agrees prop
  | ByPath s intended byp iter =>
      let prop :=
        match intended, byp, iter with
        | Some _, Ok a, Ok b => eq4 a b
        | Some _, Err, Err => true
        | Some _, _, _ => false
        | None, Ok _, _ => false             (* a malformed path derived some key *)
        | None, Err, _ => true
        end in
      verdict true prop
  | Repr prv path ob =>
      let root := {| is_prv := prv; nkey := []; nchain := []; ndepth := 0; nindex := 0; ntestnet := false;
                     nparent := None; nparsed_fpr := None; nparsed_version := None |} in
      let m := node_repr (mk_chain prv path root) in
      verdict (beq_zs m ob) (beq_zs ob (fmt_path (if prv then [109] else [77]) path))
  end.
