(* C04 correspondence: cases written by harness/props/c04.py *)
From BHW Require Import Lib.Base Lib.ListAux Model.Helper Model.Bip39M Spec.Bip39 Exec.Common.
From Coq Require Import String.

Inductive case :=
(* entropy given as a hex *string* (code points); sha table; observed mnemonic *)
| Mn (hex : str) (sha : list (string * string)) (ob : res str).

Fixpoint split_sp (s : list Z) (cur : list Z) : list (list Z) :=
  match s with
  | [] => [rev cur]
  | c :: r => if c =? 32 then rev cur :: split_sp r [] else split_sp r (c :: cur)
  end.
Fixpoint idx_of (w : list Z) (l : list (list Z)) (i : Z) : option Z :=
  match l with [] => None | x :: r => if beq_bytes x w then Some i else idx_of w r (i + 1) end.
Fixpoint all_some {A} (l : list (option A)) : option (list A) :=
  match l with [] => Some [] | Some x :: r => option_map (cons x) (all_some r) | None :: _ => None end.

Definition check_case (c : case) : Z :=
  match c with
  | Mn hex sha ob =>
      let sha256 := lookup (hextable sha) in
      let agrees := beq_res beq_bytes (mnemonic_from_entropy sha256 hex) ob in
      let prop :=
        match fromhex hex with
        | Err => true                              (* not a hex string: outside the property *)
        | Ok e =>
            match word_indexes sha256 e, ob with
            | Some idx, Ok s =>
                (* every word is in the official list, at exactly the index the bit layout prescribes *)
                match all_some (List.map (fun w => idx_of w english 0) (split_sp s [])) with
                | Some got => beq_bytes got idx
                | None => false
                end
            | Some _, Err => false
            | None, Ok _ => false                  (* a sentence for entropy of an illegal size *)
            | None, Err => true
            end
        end in
      verdict agrees prop
  end.
