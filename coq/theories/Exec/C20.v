(* C20 correspondence: cases written by harness/props/c20.py *)
From BHW Require Import Lib.Base Lib.ListAux Model.Helper Model.WalletUtils Model.Cli Spec.Path Exec.Common.
From Coq Require Import String.

Inductive case :=
(* one validator on one string: 0 address_index, 1 account_index, 2 extended_key, 3 mnemonic, 4 bip39_seed, 5 entropy_hex;
   observed: accepted (integer value for 0/1, returned string otherwise) or error *)
| Val (which : Z) (s : str) (obi : res Z) (obs : res str)
(* one full invocation: the vector (for the model's accept/reject), whether the secret is valid (None = unknown),
   and what was observed: exit status 0?, stdout empty?, stdout = API JSON?, file created?, file = API JSON?,
   pre-existing target untouched?, row path strings of the emitted data *)
| Run (a : argv) (secret_valid : option bool)
      (exit0 stdout_empty stdout_is_api file_created file_is_api existing_untouched : bool) (row_paths : list str).

Definition H := 2147483648.
Definition bip44_shaped (p : str) : bool :=
  match classify p with
  | WellFormed true [a; b; c; d; e] => (H <=? a) && (H <=? b) && (H <=? c) && (d <? H) && (e <? H)
  | _ => false
  end.

Definition check_case (c : case) : Z :=
  match c with
  | Val which s obi obs =>
      if which <? 2 then
        let m := if which =? 0 then address_index s else account_index s in
        let agrees := beq_res Z.eqb m obi in
        let prop := match obi with
                    | Ok v => (0 <=? v) && (v <? (if which =? 0 then 4294967296 else 2147483648))
                    | Err => true end in
        verdict agrees prop
      else
        let m := if which =? 2 then extended_key s else if which =? 3 then mnemonic s
                 else if which =? 4 then bip39_seed s else entropy_hex s in
        verdict (beq_res beq_bytes m obs) true
  | Run a secret_valid exit0 stdout_empty stdout_is_api file_created file_is_api existing_untouched row_paths =>
      let acc := is_ok (accepts a) in
      let agrees := match secret_valid with
                    | Some true => Bool.eqb acc exit0
                    | Some false => negb exit0 || negb acc
                    | None => if acc then true else negb exit0
                    end in
      let prop :=
        existing_untouched &&
        (if exit0 then
           (* exactly one output channel carries the API result, and every row is BIP44-shaped *)
           (match a_file a with
            | Some _ => file_created && file_is_api && stdout_empty
            | None => stdout_is_api && negb file_created end)
           && forallb bip44_shaped row_paths
         else stdout_empty && negb file_created) in
      verdict agrees prop
  end.
