(* C10 correspondence: cases as written by harness/props/c10.py *)
From BHW Require Import Lib.Base Lib.ListAux Model.Helper Exec.Common Spec.Base58.
From BHWGen Require Import Consts.
From Coq Require Import String.

Definition A := BASE58_ALPHABET.

Inductive case :=
(* bytes; sha table; observed: encode, decode(encode), encode_checksum, decode_checksum(encode_checksum) *)
| RT (bs : string) (sha : list (string * string)) (e : res str) (d : res string) (ec : res str) (dc : res string)
(* string; sha table; observed: decode, encode(decode), decode_checksum, b58decode_addr *)
| Dec (s : str) (sha : list (string * string)) (d : res string) (re : res str) (dc : res string) (da : res string).

Definition unhexr (r : res string) : res bytes := rmap unhex r.
Definition eqb_rb := beq_res beq_bytes.

Definition check_case (c : case) : Z :=
  match c with
  | RT bsx sha e d ec dc =>
      let bs := unhex bsx in
      let sha256 := lookup (hextable sha) in
      let d := unhexr d in let dc := unhexr dc in
      let m_e := encode_base58 A bs in
      let m_d := bind m_e (decode_base58 A) in
      let m_ec := encode_base58_checksum A sha256 bs in
      let m_dc := bind m_ec (decode_base58_checksum A sha256) in
      let agrees := eqb_rb m_e e && eqb_rb m_d d && eqb_rb m_ec ec && eqb_rb m_dc dc in
      (* the property, evaluated on the implementation's outputs only *)
      let prop :=
        match bs with
        | [] => true
        | _ =>
          eqb_rb d (Ok bs) && eqb_rb dc (Ok bs) &&
          match e with
          | Ok s => if (count_leading 0 bs =? List.length bs)%nat
                    then beq_bytes s (repeat 49 (List.length bs))
                    else (count_leading 49 s =? count_leading 0 bs)%nat
          | Err => false
          end
        end in
      verdict agrees prop
  | Dec s sha d re dc da =>
      let sha256 := lookup (hextable sha) in
      let d := unhexr d in let dc := unhexr dc in let da := unhexr da in
      let m_d := decode_base58 A s in
      let m_re := bind m_d (encode_base58 A) in
      let m_dc := decode_base58_checksum A sha256 s in
      let m_da := b58decode_addr A sha256 s in
      let agrees := eqb_rb m_d d && eqb_rb m_re re && eqb_rb m_dc dc && eqb_rb m_da da in
      let all_in := forallb (fun c => memb c Spec.Base58.alphabet) s in
      let p1 := (* inverse on alphabet strings; foreign characters rejected *)
        match s with
        | [] => true
        | _ => if all_in then is_ok d && eqb_rb re (Ok s)
               else negb (is_ok d) && negb (is_ok dc)
        end in
      let p2 := (* acceptance soundness *)
        match dc, d with
        | Ok p, Ok nb =>
            (4 <=? List.length nb)%nat && beq_bytes p (drop_last 4 nb)
            && beq_bytes (take_last 4 nb) (take 4 (sha256 (sha256 p)))
        | Ok _, Err => false
        | Err, _ => true
        end in
      verdict agrees (p1 && p2)
  end.
