(* C19 correspondence: cases as written by harness/props/c19.py *)
From BHW Require Import Lib.Base Lib.ListAux Model.Helper Model.ScriptM Exec.Common Spec.Script.
From Coq Require Import String.

Inductive ecmd := EOp (o : Z) | EData (hex : string).
Definition to_cmd (e : ecmd) : cmd := match e with EOp o => Op o | EData h => Data (unhex h) end.
Definition to_item (e : ecmd) : item := match e with EOp o => SOp o | EData h => SPush (unhex h) end.

Inductive case :=
(* cmds; observed raw_serialize, serialize, parse(serialize) *)
| Ser (cmds : list ecmd) (raw : res string) (ser : res string) (back : res (list ecmd))
(* input bytes; is it a proper prefix of a valid serialisation?; observed parse result and stream position *)
| Parse (inp : string) (proper_prefix : bool) (r : res (list ecmd * Z))
(* integer; observed encode_varint, read_varint(encode) = (value, position) *)
| Varint (i : Z) (e : res string) (r : res (Z * Z))
(* bytes; observed read_varint = (value, position) *)
| ReadV (inp : string) (r : res (Z * Z))
(* input bytes; the parsed commands; the parsed OBJECT serialised again; and serialised once more after OP_1 was appended to its cmds *)
| Reser (inp : string) (cmds : res (list ecmd)) (again : res string) (after_append : res string).

Definition unhexr (r : res string) : res bytes := rmap unhex r.
Definition eqb_rb := beq_res beq_bytes.
Definition eqb_cmdsr := beq_res beq_cmds.
Definition opt_res {A} (o : option A) : res A := match o with Some a => Ok a | None => Err end.
Definition eqb_zz (a b : Z * Z) := (fst a =? fst b) && (snd a =? snd b).

Definition m_read_varint (b : bytes) : res (Z * Z) :=
  rmap (fun p => (fst p, Z.of_nat (spos (snd p)))) (read_varint (mkstream b)).

Definition varint_size (tag : Z) : Z :=
  if tag =? 253 then 3 else if tag =? 254 then 5 else if tag =? 255 then 9 else 1.

(* Spec-level reading of an ACCEPTED parse: the commands explain every byte of the declared body -- an opcode is its byte, a data
   element is a push header (1..75, PUSHDATA1 n, PUSHDATA2 lo hi) whose declared length is the element's length, followed by
   exactly the element; nothing is left over.  (An element shorter than its header declares = a truncated push was accepted.) *)
Fixpoint explains (cmds : list cmd) (body : bytes) : bool :=
  match cmds with
  | [] => match body with [] => true | _ => false end
  | Op o :: r => match body with x :: rest => (x =? o) && explains r rest | [] => false end
  | Data d :: r =>
      let n := List.length d in
      let payload rest := (n <=? List.length rest)%nat && beq_bytes (firstn n rest) d && explains r (skipn n rest) in
      match body with
      | 76 :: l :: rest => (l =? Z.of_nat n) && payload rest
      | 77 :: lo :: hi :: rest => (lo + 256 * hi =? Z.of_nat n) && payload rest
      | x :: rest => (1 <=? x) && (x <=? 75) && (x =? Z.of_nat n) && payload rest
      | [] => false
      end
  end.

Definition check_case (c : case) : Z :=
  match c with
  | Ser ecmds raw ser back =>
      let cmds := map to_cmd ecmds in
      let items := map to_item ecmds in
      let raw := unhexr raw in let ser := unhexr ser in
      let back := rmap (map to_cmd) back in
      let m_raw := raw_serialize cmds in
      let m_ser := serialize cmds in
      let m_back := bind m_ser parse_bytes in
      let agrees := eqb_rb m_raw raw && eqb_rb m_ser ser && eqb_cmdsr m_back back in
      let prop :=
        if forallb item_wf items then
          eqb_rb raw (opt_res (script_bytes items)) && eqb_rb ser (opt_res (script_wire items))
          && eqb_cmdsr back (Ok cmds)
        else if existsb (fun i => match i with SPush d => (520 <? Z.of_nat (List.length d)) | _ => false end) items
        then negb (is_ok raw) && negb (is_ok ser)
        else true in
      verdict agrees prop
  | Parse inp pp r =>
      let b := unhex inp in
      let m := rmap (fun p => (fst p, Z.of_nat (spos (snd p)))) (parse (mkstream b)) in
      let r' := rmap (fun p => (map to_cmd (fst p), snd p)) r in
      let agrees := beq_res (fun x y => beq_cmds (fst x) (fst y) && (snd x =? snd y)) m r' in
      let prop :=
        match r with
        | Err => true
        | Ok (_, pos) =>
            negb pp &&
            match b with
            | [] => false
            | tag :: _ =>
                let vs := varint_size tag in
                let declared := if tag <? 253 then tag
                                else le2z (firstn (Z.to_nat (vs - 1)) (skipn 1 b)) in
                (vs <=? Z.of_nat (List.length b)) && (pos =? vs + declared) && (pos <=? Z.of_nat (List.length b)) &&
                match r' with
                | Ok (cmds, _) => explains cmds (firstn (Z.to_nat declared) (skipn (Z.to_nat vs) b))
                | Err => true
                end
            end
        end in
      verdict agrees prop
  | Reser inp ecmds again after =>
      let b := unhex inp in
      let m_cmds := rmap fst (parse (mkstream b)) in
      let m_again := bind m_cmds serialize in
      let m_after := bind m_cmds (fun c => serialize (c ++ [Op 81])) in
      let agrees := eqb_cmdsr m_cmds (rmap (map to_cmd) ecmds) && eqb_rb m_again (unhexr again) && eqb_rb m_after (unhexr after) in
      let prop :=
        match ecmds with
        | Err => true
        | Ok es =>
            let items := map to_item es in
            if forallb item_wf items then
              eqb_rb (unhexr again) (opt_res (script_wire items)) && eqb_rb (unhexr after) (opt_res (script_wire (items ++ [SOp 81])))
            else if existsb (fun i => match i with SPush d => (520 <? Z.of_nat (List.length d)) | _ => false end) items
            then negb (is_ok again)
            else true
        end in
      verdict agrees prop
  | Varint i e r =>
      let e := unhexr e in
      let m_e := encode_varint i in
      let m_r := bind m_e m_read_varint in
      let agrees := eqb_rb m_e e && beq_res eqb_zz m_r r in
      let prop :=
        eqb_rb e (opt_res (compact_size i)) &&
        match e with
        | Ok eb => beq_res eqb_zz r (Ok (i, Z.of_nat (List.length eb)))
        | Err => true
        end in
      verdict agrees prop
  | ReadV inp r =>
      let b := unhex inp in
      let agrees := beq_res eqb_zz (m_read_varint b) r in
      let prop :=
        match r, b with
        | Err, _ => true
        | Ok (v, pos), tag :: rest =>
            let vs := varint_size tag in
            (pos =? vs) && (vs <=? Z.of_nat (List.length b)) &&
            (v =? (if tag <? 253 then tag else le2z (firstn (Z.to_nat (vs - 1)) rest)))
        | Ok _, [] => false
        end in
      verdict agrees prop
  end.
