(* Correspondence of the MiniPy interpreter + translator with CPython: the regenerated terms of gen/PyAst.v are
   run by Py/Interp.v on the arguments the real functions were called with (cases written by harness/props/pysem.py);
   the verdict is 0 when value / exception class coincide, 1 otherwise.  This validates the part of the tie that the
   source-level theorems (Proofs/Py*.v) trust: the translation and the semantics given to the fragment. *)
From BHW Require Import Lib.Base Lib.ListAux Exec.Common Py.Interp.
From BHWGen Require Import PyAst.
From Coq Require Import String.
Open Scope string_scope.

Fixpoint val_same (a b : val) {struct a} : bool :=
  let fix list_same (l1 l2 : list val) {struct l1} : bool :=
    match l1, l2 with
    | [], [] => true
    | x :: r1, y :: r2 => val_same x y && list_same r1 r2
    | _, _ => false
    end in
  match a, b with
  | VNone, VNone => true
  | VBool x, VBool y => Bool.eqb x y
  | VInt x, VInt y => (x =? y)%Z
  | VStr x, VStr y => beq_bytes x y
  | VBytes x, VBytes y => beq_bytes x y
  | VList x, VList y => list_same x y
  | VTuple x, VTuple y => list_same x y
  | VEnum x, VEnum y => String.eqb x y
  | VObj c x, VObj d y => String.eqb c d && list_same x y
  | _, _ => false
  end.

Definition exn_same (a b : exn) : bool :=
  match a, b with
  | IndexError, IndexError | TypeError, TypeError | ValueError, ValueError | OverflowError, OverflowError
  | ZeroDivisionError, ZeroDivisionError | RuntimeError, RuntimeError | KeyError, KeyError | ArgumentError, ArgumentError | AssertionError, AssertionError => true
  | _, _ => false
  end.

Definition R_same (a b : R val) : bool :=
  match a, b with
  | Val x, Val y => val_same x y
  | Exc x, Exc y => exn_same x y
  | _, _ => false
  end.

(* external primitives from the logged oracle table of hashlib.sha256 *)
Definition ext_of (sha : table) : fenv_t :=
  fun name =>
    if String.eqb name "helper.sha256" then
      Some (fun args => match args with [VBytes b] => Val (VBytes (Common.lookup sha b)) | _ => Exc TypeError end)
    else if String.eqb name "helper.hash256" then
      Some (fun args => match args with [VBytes b] => Val (VBytes (Common.lookup sha (Common.lookup sha b))) | _ => Exc TypeError end)
    else None.

(* + the logged table of BIP85DeterministicEntropy.entropy (path string -> 64 bytes, or None when it raised) *)
Fixpoint ent_lookup (t : list (list Z * option string)) (p : list Z) : R val :=
  match t with
  | [] => Exc Unmodelled                       (* a path the implementation never asked for *)
  | (k, v) :: r => if beq_bytes k p then match v with Some h => Val (VBytes (Common.unhex h)) | None => Exc ValueError end else ent_lookup r p
  end.
Definition ext_of2 (sha : table) (ent : list (list Z * option string)) : fenv_t :=
  fun name =>
    if String.eqb name "bip85.BIP85DeterministicEntropy.entropy" then
      Some (fun args => match args with [_; VStr p] => ent_lookup ent p | _ => Exc TypeError end)
    else ext_of sha name.

(* + the logged answers of bip39.random.getrandbits (k -> value) *)
Fixpoint rng_lookup (t : list (Z * Z)) (k : Z) : R val :=
  match t with [] => Exc Unmodelled | (a, v) :: r => if (a =? k)%Z then Val (VInt v) else rng_lookup r k end.
Definition ext_of3 (sha : table) (rng : list (Z * Z)) : fenv_t :=
  fun name =>
    if String.eqb name "bip39.random.getrandbits" then
      Some (fun args => match args with [VInt k] => rng_lookup rng k | _ => Exc TypeError end)
    else ext_of sha name.

(* + a generic logged table: (external primitive, arguments) -> result, as the wrappers saw them *)
Fixpoint args_same (a b : list val) : bool :=
  match a, b with [], [] => true | x :: r, y :: q => val_same x y && args_same r q | _, _ => false end.
Fixpoint tbl_lookup (t : list (string * list val * R val)) (name : string) (args : list val) : R val :=
  match t with
  | [] => Exc Unmodelled
  | (n, a, r) :: rest => if String.eqb n name && args_same a args then r else tbl_lookup rest name args
  end.
Definition ext_of4 (sha : table) (t : list (string * list val * R val)) : fenv_t :=
  fun name => if existsb (fun e => String.eqb (fst (fst e)) name) t then Some (tbl_lookup t name) else ext_of sha name.

Inductive case :=
| SemT (sha : list (string * string)) (tbl : list (string * list val * R val)) (f : string) (args : list val) (expected : R val)
| SemR (sha : list (string * string)) (rng : list (Z * Z)) (f : string) (args : list val) (expected : R val)
| Sem (sha : list (string * string)) (f : string) (args : list val) (expected : R val)
| SemE (sha : list (string * string)) (ent : list (list Z * option string)) (f : string) (args : list val) (expected : R val).

Definition fuel_default : nat := 5000.

Definition check_case (c : case) : Z :=
  match c with
  | Sem sha f args expected =>
      match build genv fuel_default asts (ext_of (hextable sha)) f with   (* = fenv_all, by PyAst.build_chain *)
      | Some sem => match sem args with
                    | Exc Unmodelled => 4          (* the semantics refuses to describe this call: outside the fragment, tallied *)
                    | r => if R_same r expected then 0 else 1
                    end
      | None => 1
      end
  | SemT sha tbl f args expected =>
      match build genv fuel_default asts (ext_of4 (hextable sha) tbl) f with
      | Some sem => match sem args with
                    | Exc Unmodelled => 4
                    | r => if R_same r expected then 0 else 1
                    end
      | None => 1
      end
  | SemR sha rng f args expected =>
      match build genv fuel_default asts (ext_of3 (hextable sha) rng) f with
      | Some sem => match sem args with
                    | Exc Unmodelled => 4
                    | r => if R_same r expected then 0 else 1
                    end
      | None => 1
      end
  | SemE sha ent f args expected =>
      match build genv fuel_default asts (ext_of2 (hextable sha) ent) f with
      | Some sem => match sem args with
                    | Exc Unmodelled => 4
                    | r => if R_same r expected then 0 else 1
                    end
      | None => 1
      end
  end.
