(* C07 correspondence: cases written by harness/props/c07.py *)
From BHW Require Import Lib.Base Lib.ListAux Model.Helper Model.Keys Model.Bip32M Model.WalletUtils Model.BaseWallet
  Spec.Curve Spec.Bip32 Spec.Slip132 Exec.Common Exec.Secp256k1 Exec.Bip32E.
From BHWGen Require Import Consts.
From Coq Require Import String.

(* what is observed of a parsed-back node *)
Record pnode := { p_key : string; p_chain : string; p_depth : Z; p_index : Z; p_pfpr : string;
                  p_version : Z; p_reser : str; p_eq : bool }.

Inductive case :=
(* start node, version, private?; observed: printed string, then the parse-back via str / bytes / stream *)
| Ser (o : oracles) (s : start) (v : Z) (ext : res str) (back : list (res pnode))
(* BaseWallet.from_extended_key(string): observed (testnet, watch_only, key, chain, depth, index) *)
| FromExt (o : oracles) (s : str) (ob : res (bool * bool * string * string * Z * Z * bool))
(* Version(key_type, bip, testnet) -> int -> Version.parse *)
| Ver (kt bip : Z) (net : bool) (i : res Z) (back : res (Z * Z * bool))
(* Version.parse of an arbitrary integer *)
| VerParse (v : Z) (back : res (Z * Z * bool))
(* extended PUBLIC key of a private node: of the node as constructed, and of the node parsed back from its xprv string *)
| PubOfPrv (o : oracles) (s : start) (v : Z) (direct : res str) (reparsed : res str).

Definition in_slip (v : Z) : bool := existsb (fun e => snd e =? v) slip132.
Definition slip_lookup (v : Z) : option (Z * Z * bool) :=
  option_map fst (find (fun e => snd e =? v) slip132).
Definition eq_triple (a b : Z * Z * bool) : bool :=
  match a, b with (x, y, z), (x', y', z') => (x =? x') && (y =? y') && Bool.eqb z z' end.

Definition m_back (o : oracles) (nd : node) (prv : bool) (v : Z) (s : str) : res (bytes * bytes * Z * Z * bytes * Z * str * bool) :=
  do nd2 <- parse_str A (sha256 o) prv s (ntestnet nd);
  do pf <- parent_fingerprint C (hash160 o) nd2;
  do ver <- of_option (nparsed_version nd2);
  do re <- (if prv then extended_private_key C (hash160 o) A (sha256 o) nd2 (Some v)
            else extended_public_key C (hash160 o) A (sha256 o) nd2 (Some v));
  do e <- node_eq C (hash160 o) nd2 nd;
  Ok (nkey nd2, nchain nd2, ndepth nd2, nindex nd2, pf, ver, re, e).

Definition back_eq (m : res (bytes * bytes * Z * Z * bytes * Z * str * bool)) (ob : res pnode) : bool :=
  match m, ob with
  | Err, Err => true
  | Ok (k, c, d, i, pf, ver, re, e), Ok p =>
      beq_bytes k (unhex (p_key p)) && beq_bytes c (unhex (p_chain p)) && (d =? p_depth p) && (i =? p_index p)
      && beq_bytes pf (unhex (p_pfpr p)) && (ver =? p_version p) && beq_bytes re (p_reser p) && Bool.eqb e (p_eq p)
  | _, _ => false
  end.

Definition check_case (c : case) : Z :=
  match c with
  | Ser o s v ext back =>
      let nd := start_node s in
      let prv := s_prv s in
      let m_ext := if prv then extended_private_key C (hash160 o) A (sha256 o) nd (Some v)
                   else extended_public_key C (hash160 o) A (sha256 o) nd (Some v) in
      let agrees := beq_res beq_bytes m_ext ext &&
        match m_ext with
        | Ok ms => forallb (back_eq (m_back o nd prv v ms)) back
        | Err => true
        end in
      (* the property, on the implementation's outputs *)
      let excluded := (s_depth s =? 0) && (s_index s =? 0) &&
                      negb (match s_pfpr s with Some f => beq_bytes (unhex f) [0;0;0;0] | None => true end) in
      let in_dom := (0 <=? v) && (v <? 4294967296) && (0 <=? s_depth s) && (s_depth s <? 256)
                    && (0 <=? s_index s) && (s_index s <? 4294967296) in
      let fpr0 := match s_pfpr s with Some f => unhex f | None => [0;0;0;0] end in
      let prop :=
        if negb in_dom || excluded then true else
        match ext with
        | Err => false
        | Ok es =>
            (if in_slip v then (List.length es =? 111)%nat else true) &&
            forallb (fun b => match b with
                              | Err => false
                              | Ok p =>
                                  (be2z (unhex (p_key p)) =? be2z (unhex (s_key s))) && beq_bytes (unhex (p_chain p)) (unhex (s_chain s))
                                  && (p_depth p =? s_depth s) && (p_index p =? s_index s) && beq_bytes (unhex (p_pfpr p)) fpr0
                                  && (p_version p =? v) && beq_bytes (p_reser p) es && p_eq p
                              end) back
        end in
      verdict agrees prop
  | FromExt o s ob =>
      let m := rmap (fun p => (snd p, watch_only (fst p), nkey (fst p), nchain (fst p), ndepth (fst p), nindex (fst p), ntestnet (fst p)))
                    (from_extended_key A (sha256 o) s) in
      let agrees :=
        match m, ob with
        | Err, Err => true
        | Ok (t, w, k, c, d, i, nt), Ok (t', w', k', c', d', i', nt') =>
            Bool.eqb t t' && Bool.eqb w w' && beq_bytes k (unhex k') && beq_bytes c (unhex c') && (d =? d') && (i =? i') && Bool.eqb nt nt'
        | _, _ => false
        end in
      let prop :=
        match decode_base58_checksum A (sha256 o) s, ob with
        | Ok b, Ok (t, w, _, _, _, _, nt) =>
            match slip_lookup (be2z (firstn 4 b)) with
            | Some (kt, _, net) => Bool.eqb t net && Bool.eqb w (kt =? 1) && Bool.eqb nt net
            | None => false                          (* a wallet was built from an unknown version *)
            end
        | Ok b, Err => true
        | Err, Ok _ => false
        | Err, Err => true
        end in
      verdict agrees prop
  | Ver kt bip net i back =>
      let m_i := version_int kt bip net in
      let m_b := bind m_i version_parse in
      let agrees := beq_res Z.eqb m_i i && beq_res eq_triple m_b back in
      let spec := option_map snd (find (fun e => eq_triple (fst e) (kt, bip, net)) slip132) in
      let prop := match spec, i with
                  | Some v, Ok v' => (v =? v') && beq_res eq_triple back (Ok (kt, bip, net))
                  | None, _ => true
                  | Some _, Err => false
                  end in
      verdict agrees prop
  | PubOfPrv o s v direct reparsed =>
      let nd := start_node s in
      let m_direct := extended_public_key C (hash160 o) A (sha256 o) nd (Some v) in
      let m_re := do xs <- extended_private_key C (hash160 o) A (sha256 o) nd None;
                  do nd2 <- parse_str A (sha256 o) true xs (ntestnet nd);
                  extended_public_key C (hash160 o) A (sha256 o) nd2 (Some v) in
      let agrees := beq_res beq_bytes m_direct direct && beq_res beq_bytes m_re reparsed in
      let kk := be2z (unhex (s_key s)) in
      let fpr0 := match s_pfpr s with Some f => unhex f | None => [0;0;0;0] end in
      let expect := match G_mul C kk with
                    | Some K => Ok (Spec.Bip32.ser_pub C v {| Spec.Bip32.X_K := K; Spec.Bip32.X_c := unhex (s_chain s); Spec.Bip32.X_depth := s_depth s;
                                                             Spec.Bip32.X_fpr := fpr0; Spec.Bip32.X_idx := s_index s |})
                    | None => Err end in
      let dec r := match r with Ok x => decode_base58_checksum A (sha256 o) x | Err => Err end in
      let prop := beq_res beq_bytes (dec direct) expect && beq_res beq_bytes (dec reparsed) expect in
      verdict agrees prop
  | VerParse v back =>
      let agrees := beq_res eq_triple (version_parse v) back in
      let prop := match slip_lookup v, back with
                  | Some t, Ok t' => eq_triple t t'
                  | None, Err => true
                  | _, _ => false
                  end in
      verdict agrees prop
  end.
