(* C03 correspondence: cases written by harness/props/c03.py *)
From BHW Require Import Lib.Base Lib.ListAux Model.Helper Model.Keys Model.Bip32M Model.Bip39M Model.Bip85M Model.BaseWallet
  Spec.Curve Exec.Common Exec.Secp256k1 Exec.Bip32E.
From BHWGen Require Import Consts.
From Coq Require Import String.

(* string-keyed oracle tables *)
Fixpoint slookup {B} (t : list (str * B)) (d : B) (k : str) : B :=
  match t with [] => d | (k', v) :: r => if beq_bytes k' k then v else slookup r d k end.
Definition pb_lookup (t : list (string * string * Z * string)) (pw salt : bytes) (rounds : Z) : bytes :=
  match find (fun e => match e with (p, s, r, _) => beq_bytes (unhex p) pw && beq_bytes (unhex s) salt && (r =? rounds) end) t with
  | Some (_, _, _, o) => unhex o | None => [-1] end.

Inductive case :=
(* bip39_seed_from_mnemonic(mnemonic, password): nfkd / utf8 / pbkdf2 tables; observed seed; the seed recomputed
   independently by the driver (own normalisation, salt and round count) *)
| Seed (nf : list (str * str)) (u8 : list (str * string)) (pb : list (string * string * Z * string))
       (mnemonic password : str) (ob : res string) (expected : string)
(* the five constructors on one mnemonic: observed (key, chain) of wallet.master for each route and network *)
| Routes (o : oracles) (nf : list (str * str)) (u8 : list (str * string)) (pb : list (string * string * Z * string))
         (entropy_hex mnemonic password : str) (obs : list (res (string * string)))
(* BaseWallet.from_mnemonic on arbitrary text (irregular white space, other scripts) x both networks: observed (key, chain,
   stored mnemonic); the master key material recomputed independently by the driver from exactly the given text *)
| MnRoute (o : oracles) (nf : list (str * str)) (u8 : list (str * string)) (pb : list (string * string * Z * string))
          (mnemonic password : str) (obs : list (res (string * string * str))) (exp_key exp_chain : string).

Definition mat (r : res (node * bool * option str * option str)) : res (bytes * bytes) :=
  rmap (fun p => match p with (m, _, _, _) => (nkey m, nchain m) end) r.

Definition eq_mat (m : res (bytes * bytes)) (ob : res (string * string)) : bool :=
  match m, ob with
  | Err, Err => true
  | Ok (k, c), Ok (k', c') => (be2z k =? be2z (unhex k')) && beq_bytes c (unhex c')
  | _, _ => false
  end.

Definition check_case (c : case) : Z :=
  match c with
  | Seed nf u8 pb mn pw ob expected =>
      let nfkd := fun s => slookup nf [-1] s in
      let utf8 := fun s => unhex (slookup u8 "ff"%string s) in
      let m := bip39_seed_from_mnemonic nfkd utf8 (pb_lookup pb) mn pw in
      verdict (beq_res beq_bytes (Ok m) (rmap unhex ob)) (beq_res beq_bytes (rmap unhex ob) (Ok (unhex expected)))
  | Routes o nf u8 pb eh mn pw obs =>
      let nfkd := fun s => slookup nf [-1] s in
      let utf8 := fun s => unhex (slookup u8 "ff"%string s) in
      let pbk := pb_lookup pb in
      let hm := hmac512 o in let sha := sha256 o in
      let seed := bip39_seed_from_mnemonic nfkd utf8 pbk mn pw in
      let xprv t := bind (from_mnemonic hm nfkd utf8 pbk mn pw t)
                      (fun p => match p with (m, _, _, _) => extended_private_key C (hash160 o) A sha m None end) in
      let via_xprv t := bind (xprv t) (fun s => rmap (fun p => (fst p, snd p, @None str, @None str)) (from_extended_key A sha s)) in
      let ms := flat_map (fun t =>
                  [mat (from_mnemonic hm nfkd utf8 pbk mn pw t); mat (from_entropy_hex hm sha nfkd utf8 pbk eh pw t);
                   mat (from_bip39_seed_bytes hm seed t); mat (from_bip39_seed_hex hm (hexstr seed) t);
                   mat (via_xprv t)]) [false; true] in
      let agrees := (List.length ms =? List.length obs)%nat && forallb (fun p => eq_mat (fst p) (snd p)) (combine ms obs) in
      let prop := match obs with
                  | Ok (k0, c0) :: rest =>
                      forallb (fun ob => match ob with
                                         | Ok (k', c') => (be2z (unhex k0) =? be2z (unhex k')) && beq_bytes (unhex c0) (unhex c')
                                         | Err => false end) rest
                  | Err :: rest => forallb (fun ob => negb (is_ok ob)) rest
                  | [] => false
                  end in
      verdict agrees prop
  | MnRoute o nf u8 pb mn pw obs ek ec =>
      let nfkd := fun s => slookup nf [-1] s in
      let utf8 := fun s => unhex (slookup u8 "ff"%string s) in
      let pbk := pb_lookup pb in
      let hm := hmac512 o in
      let ms := map (fun t => from_mnemonic hm nfkd utf8 pbk mn pw t) [false; true] in
      let same (m : res (node * bool * option str * option str)) (ob : res (string * string * str)) : bool :=
        match m, ob with
        | Err, Err => true
        | Ok (nd, _, Some smn, _), Ok (k', c', smn') =>
            (be2z (nkey nd) =? be2z (unhex k')) && beq_bytes (nchain nd) (unhex c') && beq_bytes smn smn'
        | _, _ => false
        end in
      let agrees := (List.length ms =? List.length obs)%nat && forallb (fun p => same (fst p) (snd p)) (combine ms obs) in
      let prop := negb (List.length obs =? 0)%nat &&
                  forallb (fun ob => match ob with
                                     | Ok (k', c', smn') => (be2z (unhex ek) =? be2z (unhex k')) && beq_bytes (unhex ec) (unhex c') && beq_bytes smn' mn
                                     | Err => false end) obs in
      verdict agrees prop
  end.
