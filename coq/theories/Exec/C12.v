(* C12 correspondence: cases written by harness/props/c12.py *)
From BHW Require Import Lib.Base Lib.ListAux Model.Helper Model.Keys Model.Bip32M Model.WalletUtils Model.Bip39M Model.Bip85M
  Spec.Curve Spec.Bip32 Spec.Bip85 Spec.Bip39 Exec.Common Exec.Secp256k1 Exec.Bip32E Exec.C04.
From BHWGen Require Import Consts.
From Coq Require Import String.

Inductive case :=
(* master node; application code (0 mnemonic, 1 wif, 2 xprv, 3 hex, 4 pwd), parameter, index; observed string *)
| B85 (o : oracles) (s : start) (appc param index : Z) (ob : res str).

Definition to_app (appc param : Z) : app :=
  if appc =? 0 then AMnemonic param else if appc =? 1 then AWif else if appc =? 2 then AXprv
  else if appc =? 3 then AHex param else APwd param.

Definition check_case (c : case) : Z :=
  match c with
  | B85 o s appc param index ob =>
      let master := start_node s in
      let hm := hmac512 o in let sha := sha256 o in let h160 := hash160 o in
      let m :=
        if appc =? 0 then bip39_mnemonic C hm sha master param index
        else if appc =? 1 then wif85 C hm sha A master index
        else if appc =? 2 then xprv85 C hm sha h160 A master index
        else if appc =? 3 then hex85 C hm master param index
        else pwd85 C hm master param index in
      let agrees := beq_res beq_bytes m ob in
      let a := to_app appc param in
      let in_dom := app_ok a && (0 <=? index) && (index <? 2147483648) in
      let x0 := {| x_k := be2z (unhex (s_key s)); x_c := unhex (s_chain s); x_depth := s_depth s; x_fpr := []; x_idx := s_index s |} in
      let prop :=
        if negb in_dom then negb (is_ok ob) else
        match derive_prv C hm h160 x0 (app_path a index), ob with
        | Some x, Ok out =>
            let e := hm entropy_key (ser256 (x_k x)) in
            match a with
            | AMnemonic w =>
                match word_indexes sha (firstn (Z.to_nat (mnemonic_bytes w)) e) with
                | Some idx => match all_some (List.map (fun wd => idx_of wd english 0) (split_sp out [])) with
                              | Some got => beq_bytes got idx | None => false end
                | None => false
                end
            | AWif => beq_res beq_bytes (decode_base58_checksum A sha out) (Ok (128 :: firstn 32 e ++ [1]))
            | AXprv =>
                beq_res beq_bytes (decode_base58_checksum A sha out)
                  (Ok (ser_prv 76066276 {| x_k := be2z (skipn 32 e); x_c := firstn 32 e; x_depth := 0; x_fpr := [0;0;0;0]; x_idx := 0 |}))
            | AHex n => beq_bytes out (hexstr (firstn (Z.to_nat n) e))
            | APwd l => beq_bytes out (firstn (Z.to_nat l) (b64encode e)) && negb (memb 61 out) && (Z.of_nat (List.length out) =? l)
            end
        | None, Err => true
        | Some x, Err =>
            (* only an invalid derived secret (0 or >= n) may be refused, and only by WIF / XPRV *)
            let e := hm entropy_key (ser256 (x_k x)) in
            match a with
            | AWif => let k := be2z (firstn 32 e) in (k =? 0) || (CURVE_ORDER <=? k)
            | AXprv => let k := be2z (skipn 32 e) in (k =? 0) || (CURVE_ORDER <=? k)
            | _ => false
            end
        | None, Ok _ => false
        end in
      verdict agrees prop
  end.
