(* C09 correspondence: cases written by harness/props/c09.py *)
From BHW Require Import Lib.Base Lib.ListAux Model.Helper Model.Keys Spec.Curve Exec.Common Exec.Secp256k1 Exec.Bip32E.
From BHWGen Require Import Consts.
From Coq Require Import String.

Inductive case :=
(* PrivateKey(bytes): observed (k, sec compressed, sec uncompressed) *)
| PrivB (b : string) (ob : res (string * string * string))
(* PrivateKey(int) and PrivateKey.from_int(int) *)
| PrivI (k : Z) (ob : res (string * string * string)) (ob2 : res (string * string * string))
(* wif(compressed, testnet) of key k, then from_wif of it: observed string, decoded key *)
| Wif (sha : list (string * string)) (k : string) (compressed testnet : bool) (w : res str) (back : res string)
(* from_wif of an arbitrary string *)
| FromWif (sha : list (string * string)) (s : str) (back : res string)
(* PublicKey.parse(bytes): observed (sec compressed, sec uncompressed) *)
| Sec (b : string) (ob : res (string * string)).

Definition m_priv (r : res (bytes * pt C)) : res (bytes * bytes * bytes) :=
  rmap (fun p => (fst p, ser_c C (snd p), ser_u C (snd p))) r.
Definition eq3 (m : res (bytes * bytes * bytes)) (ob : res (string * string * string)) : bool :=
  match m, ob with
  | Err, Err => true
  | Ok (a, b, c), Ok (a', b', c') => beq_bytes a (unhex a') && beq_bytes b (unhex b') && beq_bytes c (unhex c')
  | _, _ => false
  end.

Definition check_case (c : case) : Z :=
  match c with
  | PrivB bx ob =>
      let b := unhex bx in
      let agrees := eq3 (m_priv (privkey_of_bytes C b)) ob in
      let v := be2z b in
      let should := (List.length b =? 32)%nat && (1 <=? v) && (v <? CURVE_ORDER) in
      let prop := match ob with
                  | Ok (k, sc, su) => should && beq_bytes (unhex k) b &&
                                      match G_mul C v with
                                      | Some K => beq_bytes (unhex sc) (ser_c C K) && beq_bytes (unhex su) (ser_u C K)
                                      | None => false end
                  | Err => negb should
                  end in
      verdict agrees prop
  | PrivI k ob ob2 =>
      let m := m_priv (privkey_of_int C k) in
      let agrees := eq3 m ob && eq3 m ob2 in
      let should := (1 <=? k) && (k <? CURVE_ORDER) in
      let prop := Bool.eqb (is_ok ob) should && Bool.eqb (is_ok ob2) should in
      verdict agrees prop
  | Wif sha kx comp test w back =>
      let k := unhex kx in
      let sha256 := lookup (hextable sha) in
      let m_w := wif A sha256 k comp test in
      let m_back := rmap fst (bind m_w (from_wif C A sha256)) in
      let agrees := beq_res beq_bytes m_w w && beq_res beq_bytes m_back (rmap unhex back) in
      let prop :=
        match w with
        | Ok s =>
            beq_res beq_bytes (decode_base58_checksum A sha256 s)
                    (Ok ((if test then [239] else [128]) ++ k ++ (if comp then [1] else [])))
            && beq_res beq_bytes (rmap unhex back) (Ok k)
        | Err => false
        end in
      verdict agrees prop
  | FromWif sha s back =>
      let sha256 := lookup (hextable sha) in
      let m := rmap fst (from_wif C A sha256 s) in
      let agrees := beq_res beq_bytes m (rmap unhex back) in
      let prop := match back with
                  | Ok k => let v := be2z (unhex k) in (1 <=? v) && (v <? CURVE_ORDER)
                  | Err => true end in
      verdict agrees prop
  | Sec bx ob =>
      let b := unhex bx in
      let m := rmap (fun K => (ser_c C K, ser_u C K)) (pubkey_parse C b) in
      let agrees := match m, ob with
                    | Err, Err => true
                    | Ok (a, b'), Ok (a', b'') => beq_bytes a (unhex a') && beq_bytes b' (unhex b'')
                    | _, _ => false end in
      let prop := match ob with
                  | Ok (sc, su) =>
                      (* the accepted key is a point on the curve and both encodings parse back to it *)
                      match parse_pt C (unhex su) with
                      | Some (x, y) => Secp.on_curve x y && beq_bytes (ser_c C (x, y)) (unhex sc)
                                       (* ... and the accepted key is the one that was given: re-encoding in the given form is the input
                                          (python-ecdsa also accepts the raw 64-byte and the hybrid 06/07 forms; those have no SEC re-encoding to compare) *)
                                       && (match b with
                                           | 2 :: _ | 3 :: _ => beq_bytes (unhex sc) b
                                           | 4 :: _ => beq_bytes (unhex su) b
                                           | _ => true end)
                      | None => false end
                  | Err => true
                  end in
      verdict agrees prop
  end.
