(* Executable secp256k1 (Jacobian arithmetic over Bignums.BigZ) packaged as a `curve`
   record.  Used ONLY by the correspondence runs (vm_compute); no theorem depends on it.
   That this instance satisfies curve_laws is a mathematical fact not proved here
   (see DESIGN.md, trusted base); it is compared with python-ecdsa by execution. *)
From Bignums Require Import BigZ.
From BHW Require Import Lib.Base Lib.Digits Model.Helper Spec.Curve.

Module Secp.
Local Open Scope bigZ_scope.

Definition Pz : Z := (2^256 - 2^32 - 977)%Z.
Definition Nz : Z := 115792089237316195423570985008687907852837564279074904382605163141518161494337%Z.
Definition P : bigZ := BigZ.of_Z Pz.
Definition GX : bigZ := BigZ.of_Z 55066263022277343669578718895168534326250603453777594175500187360389116729240%Z.
Definition GY : bigZ := BigZ.of_Z 32670510020758816978083085130507043184471273380659243275938904335757337482424%Z.

Definition fmod (a : bigZ) : bigZ := a mod P.
Definition fmul a b := fmod (a * b).
Definition fsub a b := fmod (a - b).
Definition fadd a b := fmod (a + b).

Fixpoint fpow_pos (a : bigZ) (e : positive) : bigZ :=
  match e with
  | xH => a
  | xO e' => let t := fpow_pos a e' in fmul t t
  | xI e' => let t := fpow_pos a e' in fmul (fmul t t) a
  end.
Definition finv a := fpow_pos a (Z.to_pos (Pz - 2)).
Definition fsqrt a := fpow_pos a (Z.to_pos ((Pz + 1) / 4)).

Definition jac := option (bigZ * bigZ * bigZ).
Definition jdbl (q : jac) : jac :=
  match q with
  | None => None
  | Some (x, y, z) =>
      if BigZ.eqb y 0 then None else
      let yy := fmul y y in
      let s := fmul 4 (fmul x yy) in
      let m := fmul 3 (fmul x x) in
      let x' := fsub (fmul m m) (fmul 2 s) in
      let y' := fsub (fmul m (fsub s x')) (fmul 8 (fmul yy yy)) in
      let z' := fmul 2 (fmul y z) in
      Some (x', y', z')
  end.
Definition jadd_aff (q : jac) (a : option (bigZ * bigZ)) : jac :=
  match q, a with
  | None, None => None
  | None, Some (x2, y2) => Some (x2, y2, 1)
  | Some _, None => q
  | Some (x1, y1, z1), Some (x2, y2) =>
      let zz := fmul z1 z1 in
      let u2 := fmul x2 zz in
      let s2 := fmul y2 (fmul zz z1) in
      let h := fsub u2 x1 in
      let r := fsub s2 y1 in
      if BigZ.eqb h 0 then (if BigZ.eqb r 0 then jdbl q else None) else
      let hh := fmul h h in
      let hhh := fmul hh h in
      let v := fmul x1 hh in
      let x3 := fsub (fsub (fmul r r) hhh) (fmul 2 v) in
      let y3 := fsub (fmul r (fsub v x3)) (fmul y1 hhh) in
      let z3 := fmul h z1 in
      Some (x3, y3, z3)
  end.
Definition to_affine (q : jac) : option (bigZ * bigZ) :=
  match q with
  | None => None
  | Some (x, y, z) =>
      let zi := finv z in let zi2 := fmul zi zi in
      Some (fmul x zi2, fmul y (fmul zi2 zi))
  end.
Fixpoint jmul_pos (k : positive) (a : bigZ * bigZ) : jac :=
  match k with
  | xH => Some (fst a, snd a, 1)
  | xO k' => jdbl (jmul_pos k' a)
  | xI k' => jadd_aff (jdbl (jmul_pos k' a)) (Some a)
  end.

Definition point := (Z * Z)%type.
Definition outz (o : option (bigZ * bigZ)) : option point :=
  match o with Some (x, y) => Some (BigZ.to_Z x, BigZ.to_Z y) | None => None end.
Definition inz (p : point) : bigZ * bigZ := (BigZ.of_Z (fst p), BigZ.of_Z (snd p)).

Definition gmul (k : Z) : option point :=
  match (k mod Nz)%Z with
  | Zpos kp => outz (to_affine (jmul_pos kp (GX, GY)))
  | _ => None
  end.
Definition add (a b : option point) : option point :=
  match a, b with
  | None, _ => b
  | _, None => a
  | Some pa, Some pb => outz (to_affine (jadd_aff (Some (fst (inz pa), snd (inz pa), 1)) (Some (inz pb))))
  end.

Definition be32 (v : Z) : bytes := rev (to_le_fixed 256 32 v).
Definition serc (p : point) : bytes := (2 + (snd p) mod 2)%Z :: be32 (fst p).
Definition seru (p : point) : bytes := 4%Z :: be32 (fst p) ++ be32 (snd p).

Definition on_curve (x y : Z) : bool :=
  let bx := BigZ.of_Z x in let by_ := BigZ.of_Z y in
  (x <? Pz)%Z && (y <? Pz)%Z &&
  BigZ.eqb (fmul by_ by_) (fadd (fmul bx (fmul bx bx)) 7).

(* python-ecdsa VerifyingKey.from_string, default encodings: raw (64), uncompressed (65, 04),
   compressed (33, 02/03), hybrid (65, 06/07) *)
Definition parse (b : bytes) : option point :=
  let len := length b in
  if (len =? 33)%nat then
    match b with
    | t :: xs =>
        if ((t =? 2) || (t =? 3))%Z then
          let x := be2z xs in
          let bx := BigZ.of_Z x in
          let alpha := fadd (fmul bx (fmul bx bx)) 7 in
          let beta := fsqrt alpha in
          if (x <? Pz)%Z && BigZ.eqb (fmul beta beta) alpha then
            let y := BigZ.to_Z beta in
            let y := if (y mod 2 =? t - 2)%Z then y else (Pz - y)%Z in
            Some (x, y)
          else None
        else None
    | [] => None
    end
  else if (len =? 65)%nat then
    match b with
    | t :: r =>
        let x := be2z (firstn 32 r) in let y := be2z (skipn 32 r) in
        if (t =? 4)%Z then (if on_curve x y then Some (x, y) else None)
        else if ((t =? 6) || (t =? 7))%Z then
          (if on_curve x y && (y mod 2 =? t - 6)%Z then Some (x, y) else None)
        else None
    | [] => None
    end
  else if (len =? 64)%nat then
    let x := be2z (firstn 32 b) in let y := be2z (skipn 32 b) in
    if on_curve x y then Some (x, y) else None
  else None.

Definition secp256k1 : curve :=
  {| pt := point; order := Nz; G_mul := gmul; padd := add;
     ser_c := serc; ser_u := seru; parse_pt := parse |}.
End Secp.
