(* Correspondence cases for the wallet-level properties (C06, C14, C15, C16): written by harness/props/walletfam.py *)
From BHW Require Import Lib.Base Lib.ListAux Model.Helper Model.Keys Model.Bip32M Model.WalletUtils Model.Bech32M Model.Address
  Model.Bip85M Model.BaseWallet Model.PaperWallet Spec.Curve Spec.Bip32 Spec.Slip132 Spec.Address Spec.Path
  Exec.Common Exec.Secp256k1 Exec.Bip32E Exec.C05.
From BHWGen Require Import Consts.
From Coq Require Import String.

Fixpoint beq_tree (a b : tree) : bool :=
  match a, b with
  | TStr x, TStr y => beq_bytes x y
  | TNone, TNone => true
  | TList l, TList m =>
      (fix go (l m : list tree) : bool :=
         match l, m with
         | [], [] => true
         | x :: l', y :: m' => beq_tree x y && go l' m'
         | _, _ => false
         end) l m
  | TDict l, TDict m =>
      (fix go (l m : list (str * tree)) : bool :=
         match l, m with
         | [], [] => true
         | (k1, x) :: l', (k2, y) :: m' => beq_bytes k1 k2 && beq_tree x y && go l' m'
         | _, _ => false
         end) l m
  | _, _ => false
  end.

(* all string leaves *)
Fixpoint leaves (t : tree) : list str :=
  match t with
  | TStr s => [s]
  | TNone => []
  | TList l => flat_map leaves l
  | TDict kv => flat_map (fun p => leaves (snd p)) kv
  end.

Definition rmd160 (sha : bytes -> bytes) (x : bytes) : bytes := rmd (sha x).

(* how the driver built the wallet: from a seed (master_key), with the mnemonic/password it echoes *)
Record wspec := { ws_seed : string; ws_testnet : bool; ws_mnemonic : option str; ws_password : option str }.

Section W.
Variable o : oracles.
Definition hm := hmac512 o.
Definition sha := sha256 o.
Definition h160 := rmd160 sha.          (* hash160 through the RIPEMD-160 model *)

Definition mk_wallet (s : wspec) : res wallet :=
  do m <- master_key hm (unhex (ws_seed s)) (codes "Bitcoin seed") (ws_testnet s);
  Ok {| w_master := m; w_testnet := ws_testnet s; w_mnemonic := ws_mnemonic s; w_password := ws_password s |}.

(* ---- Spec-level check of one BIP44/49/84 section of generate() ---- *)
Definition slip (kt bip : Z) (net : bool) : Z :=
  match find (fun e => match fst e with (a, b, c) => (a =? kt) && (b =? bip) && Bool.eqb c net end) slip132 with
  | Some e => snd e | None => -1 end.
Definition bip_code (purpose : Z) : Z := if purpose =? 44 then 0 else if purpose =? 49 then 1 else 2.

Definition tstr (t : res tree) : option str := match t with Ok (TStr s) => Some s | _ => None end.
Definition b58dec (s : option str) : res bytes := match s with Some x => decode_base58_checksum A sha x | None => Err end.

Definition addr_ok (purpose : Z) (net : bool) (secc : bytes) (a : option str) : bool :=
  if purpose =? 44 then beq_res beq_bytes (b58dec a) (Ok (p2pkh_payload h160 secc net))
  else if purpose =? 49 then beq_res beq_bytes (b58dec a) (Ok (p2sh_p2wpkh_payload h160 secc net))
  else match a with
       | Some s => match Spec.Bech32.spec_decode (segwit_hrp net) s with
                   | Some (v, p) => (v =? 0) && beq_bytes p (h160 secc) | None => false end
       | None => false end.

Definition H := 2147483648.
Definition is_some {T} (x : option T) : bool := match x with Some _ => true | None => false end.

Definition row_ok (purpose : Z) (net : bool) (x0 : xprv) (acct_path : list Z) (i : Z) (r : tree) : bool :=
  match r with
  | TList [TStr path; a; TStr sec; TStr wf] =>
      match derive_prv C hm h160 x0 (acct_path ++ [0; i]) with
      | Some x =>
          match G_mul C (x_k x) with
          | Some K =>
              beq_bytes path (fmt_path [109] (acct_path ++ [0; i]))
              && beq_bytes sec (hexstr (ser_c C K))
              && beq_res beq_bytes (decode_base58_checksum A sha wf) (Ok ((if net then 239 else 128) :: ser256 (x_k x) ++ [1]))
              && addr_ok purpose net (ser_c C K) (match a with TStr s => Some s | _ => None end)
          | None => false
          end
      | None => false
      end
  | _ => false
  end.

Definition section_ok (purpose : Z) (net : bool) (x0 : xprv) (account lo hi : Z) (sec : res tree) : bool :=
  let acct_path := [purpose + H; (if net then 1 else 0) + H; account + H] in
  match bind sec (tget (k "account_extended_keys")), bind sec (tget (k "groups")) with
  | Ok keys, Ok (TList rows) =>
      match derive_prv C hm h160 x0 acct_path with
      | Some xa =>
          beq_bytes (match tstr (tget (k "path") keys) with Some s => s | None => [] end) (fmt_path [109] acct_path)
          && beq_res beq_bytes (b58dec (tstr (tget (k "prv") keys))) (Ok (ser_prv (slip 0 (bip_code purpose) net) xa))
          && (match neuter C xa with
              | Some Xa => beq_res beq_bytes (b58dec (tstr (tget (k "pub") keys))) (Ok (ser_pub C (slip 1 (bip_code purpose) net) Xa))
              | None => false end)
          && (Z.of_nat (List.length rows) =? Z.max 0 (hi - lo))
          && forallb (fun p => row_ok purpose net x0 acct_path (fst p) (snd p)) (combine (zrange lo hi) rows)
      | None => false
      end
  | _, _ => false
  end.
End W.

(* ---- paranoia: secret positions of an unfiltered generate()-shaped tree ---- *)
Definition secrets_of (data : tree) : list str :=
  let sec_section (key : string) :=
    match tget (k key) data with
    | Ok v =>
        (match bind (tget (k "account_extended_keys") v) (tget (k "prv")) with Ok (TStr s) => [s] | _ => [] end) ++
        (match tget (k "groups") v with
         | Ok (TList rows) => flat_map (fun r => match r with TList l => match rev l with TStr s :: _ => [s] | _ => [] end | _ => [] end) rows
         | _ => [] end)
    | Err => [] end in
  (match tget (k "MASTER") data with Ok m => leaves m | Err => [] end) ++
  (match tget (k "BIP85") data with Ok m => leaves m | Err => [] end) ++
  sec_section "BIP44"%string ++ sec_section "BIP49"%string ++ sec_section "BIP84"%string.

(* the public positions of an unfiltered generate()-shaped tree: path and pub of each BIP section, every row minus its last column *)
Definition public_of (data : tree) : list str :=
  let pub_section (key : string) :=
    match tget (k key) data with
    | Ok v =>
        (match bind (tget (k "account_extended_keys") v) (tget (k "path")) with Ok t => leaves t | Err => [] end) ++
        (match bind (tget (k "account_extended_keys") v) (tget (k "pub")) with Ok t => leaves t | Err => [] end) ++
        (match tget (k "groups") v with
         | Ok (TList rows) => flat_map (fun r => match r with TList l => flat_map leaves (removelast l) | _ => [] end) rows
         | _ => [] end)
    | Err => [] end in
  pub_section "BIP44"%string ++ pub_section "BIP49"%string ++ pub_section "BIP84"%string.

Fixpoint prefixb (p s : str) : bool :=
  match p, s with [], _ => true | x :: p', y :: s' => (x =? y) && prefixb p' s' | _ :: _, [] => false end.
Fixpoint is_sub (p s : str) : bool :=
  prefixb p s || match s with [] => false | _ :: s' => is_sub p s' end.

Definition prv_versions : list Z := [0x0488ADE4; 0x049d7878; 0x04b2430c; 0x04358394; 0x044a4e28; 0x045f18bc].
(* does a string decode (Base58Check, any checksum oracle) to a private-key encoding? *)
Definition looks_private (sha : bytes -> bytes) (s : str) : bool :=
  match decode_base58_checksum A sha s with
  | Ok (v :: r) =>
      (((v =? 128) || (v =? 239)) && ((List.length r =? 32)%nat || (List.length r =? 33)%nat))
      || ((List.length (v :: r) =? 78)%nat && memb (be2z (firstn 4 (v :: r))) prv_versions)
  | _ => false
  end.

Inductive case :=
(* generate(account, (lo, hi)) on a wallet built from a seed *)
| Gen (o : oracles) (w : wspec) (account lo hi : Z) (ob : res tree)
(* paranoia_mode(data) *)
| Par (sha : list (string * string)) (data : tree) (ob : res tree)
(* wasabi export *)
| Was (o : oracles) (w : wspec) (ob : res tree)
(* watch-only wallet from an extended public key string: addresses / keys / row of the node at a sub-path,
   next to what the full wallet (built from the seed) gives at export-path ++ sub-path *)
| Watch (o : oracles) (w : wspec) (export_path : list Z) (xpub : str) (sub : list Z)
        (ob : res tree) (full : res tree)
(* Wasabi export of a wallet re-imported from an extended PRIVATE key string *)
| WasX (o : oracles) (xprv : str) (ob : res tree)
(* private-data requests on a watch-only wallet: observed dict {watch_only, bip85, xprv, keys, row} for the node at `sub` *)
| WatchPriv (o : oracles) (xpub : str) (sub : list Z) (purpose : Z) (ob : res tree)
(* node_extended_keys on a node at an arbitrary path of a wallet of either network (incl. foreign coin types) *)
| NodeKeys (o : oracles) (w : wspec) (path : list Z) (ob : res tree)
(* the command line with --paranoia: the secrets of the wallet (for the requested and for the default account / interval)
   and everything the program wrote to stdout and to its --file *)
| ParCli (secrets : list str) (publics : list str) (out : str)
(* generate_children(interval) on a node of a watch-only wallet; interval = Python range arguments (a step is legal).
   touches = some index of the range is >= 2^31 (computed by the driver from the arguments alone); observed child indexes *)
| WatchGen (touches : bool) (ob : res (list Z)).

Definition watch_tree (o : oracles) (w : wallet) (nd : node) : res tree :=
  let sha := sha256 o in let h := rmd160 sha in
  do a1 <- p2pkh_address C A sha h nd (w_testnet w);
  do a2 <- p2wpkh_address C A sha h nd (w_testnet w);
  do a3 <- p2sh_p2wpkh_address C A sha h nd (w_testnet w);
  do a4 <- p2wsh_address C sha nd (w_testnet w);
  do a5 <- p2sh_p2wsh_address C A sha h nd (w_testnet w);
  do K <- public_key C nd;
  do pf <- parent_fingerprint C h nd;
  Ok (TDict [(k "addrs", TList [topt a1; topt a2; topt a3; topt a4; topt a5]);
             (k "sec", TStr (hexstr (ser_c C K))); (k "chain", TStr (hexstr (nchain nd)));
             (k "depth", TStr (str_of_int (ndepth nd))); (k "index", TStr (str_of_int (nindex nd)));
             (k "pfpr", TStr (hexstr pf))]).

Definition watch_priv_tree (o : oracles) (w : wallet) (nd : node) (purpose : Z) : res tree :=
  let sha := sha256 o in let h := rmd160 sha in
  let xprv := match node_extended_private_key C sha h A w nd with Ok s => TStr s | Err => TStr (k "ERR") end in
  do keys <- node_extended_keys C sha h A w nd;
  do rw <- row C sha h A purpose w nd;
  Ok (TDict [(k "watch_only", TStr (if w_watch_only w then k "True" else k "False"));
             (k "bip85", TStr (if w_watch_only w then k "None" else k "obj"));
             (k "xprv", xprv); (k "keys", keys); (k "row", rw)]).

Definition check_case (c : case) : Z :=
  match c with
  | WatchPriv o xpub sub purpose ob =>
      let m :=
        do we <- from_extended_key A (sha256 o) xpub;
        let w := {| w_master := fst we; w_testnet := snd we; w_mnemonic := None; w_password := None |} in
        do nd <- derive_path C (hmac512 o) (w_master w) sub;
        watch_priv_tree o w nd purpose in
      let agrees := beq_res beq_tree m ob in
      let prop :=
        match ob with
        | Ok t =>
            beq_res beq_tree (tget (k "watch_only") t) (Ok (TStr (k "True")))
            && beq_res beq_tree (tget (k "bip85") t) (Ok (TStr (k "None")))
            && beq_res beq_tree (tget (k "xprv") t) (Ok (TStr (k "ERR")))
            && beq_res beq_tree (bind (tget (k "keys") t) (tget (k "prv"))) (Ok TNone)
            && match tget (k "row") t with Ok (TList l) => match rev l with TNone :: _ => true | _ => false end | _ => false end
            (* and nothing in the whole answer decodes to a private-key encoding *)
            && forallb (fun l => negb (looks_private (sha256 o) l)) (leaves t)
        | Err => true
        end in
      verdict agrees prop
  | WatchGen touches ob =>
      verdict true (if touches then negb (is_ok ob)
                    else match ob with Ok l => forallb (fun i => (0 <=? i) && (i <? H)) l | Err => true end)
  | ParCli secrets publics out =>
      verdict true (forallb (fun x => match x with [] => true | _ => negb (is_sub x out) end) secrets
                    && forallb (fun x => is_sub x out) publics)
  | NodeKeys o ws path ob =>
      let m := do w <- mk_wallet o ws; do nd <- derive_path C (hm o) (w_master w) path; node_extended_keys C (sha o) (h160 o) A w nd in
      let agrees := beq_res beq_tree m ob in
      let flavour := match path with
                     | p :: _ => if p =? 49 + H then 1 else if p =? 84 + H then 2 else 0
                     | [] => 0 end in
      let ver (t : res tree) : Z := match b58dec o (tstr t) with Ok b => be2z (firstn 4 b) | Err => -2 end in
      let prop :=
        match ob with
        | Ok t => (ver (tget (k "pub") t) =? slip 1 flavour (ws_testnet ws)) && (ver (tget (k "prv") t) =? slip 0 flavour (ws_testnet ws))
        | Err => true
        end in
      verdict agrees prop
  | WasX o xprv ob =>
      let m :=
        do we <- from_extended_key A (sha256 o) xprv;
        let w := {| w_master := fst we; w_testnet := snd we; w_mnemonic := None; w_password := None |} in
        wasabi C (hm o) (sha o) (h160 o) A w in
      let agrees := beq_res beq_tree m ob in
      let prop :=
        match decode_base58_checksum A (sha256 o) xprv, ob with
        | Ok b, Ok t =>
            match find (fun e => snd e =? be2z (firstn 4 b)) slip132 with
            | Some (_, _, net, _) =>
                match b58dec o (tstr (tget (k "ExtPubKey") t)) with
                | Ok xb => be2z (firstn 4 xb) =? (if net then 70617039 else 76067358)
                | Err => false end
            | None => false
            end
        | _, Err => true
        | Err, Ok _ => false
        end in
      verdict agrees prop
  | Gen o ws account lo hi ob =>
      let m := bind (mk_wallet o ws) (fun w => generate C (hm o) (sha o) (h160 o) A w account lo hi) in
      let agrees := beq_res beq_tree m ob in
      let in_dom := (0 <=? account) && (account <? H) && (0 <=? lo) && (hi <=? H) in
      let prop :=
        if negb in_dom then true else
        match master C (hm o) (unhex (ws_seed ws)) (codes "Bitcoin seed"), ob with
        | Some x0, Ok _ =>
            let net := ws_testnet ws in
            section_ok o 44 net x0 account lo hi (bind ob (tget (k "BIP44")))
            && section_ok o 49 net x0 account lo hi (bind ob (tget (k "BIP49")))
            && section_ok o 84 net x0 account lo hi (bind ob (tget (k "BIP84")))
            && beq_res beq_tree (bind ob (tget (k "MASTER")))
                 (Ok (TDict [(k "mnemonic", topt (ws_mnemonic ws)); (k "password", topt (ws_password ws))]))
        | Some _, Err => false
        | None, Err => true
        | None, Ok _ => false
        end in
      verdict agrees prop
  | Par shat data ob =>
      let sha := lookup (hextable shat) in
      let agrees := beq_res beq_tree (paranoia_mode data) ob in
      let prop :=
        match ob with
        | Err => true
        | Ok out =>
            let ls := leaves out in
            let secrets := filter (fun s => negb (match s with [] => true | _ => false end)) (secrets_of data) in
            forallb (fun l => negb (existsb (beq_bytes l) secrets) && negb (looks_private sha l)) ls
            (* every kept public leaf is a leaf of the unfiltered data *)
            && forallb (fun l => existsb (beq_bytes l) (leaves data)) ls
            (* and no public datum is lost *)
            && forallb (fun l => existsb (beq_bytes l) ls) (public_of data)
        end in
      verdict agrees prop
  | Was o ws ob =>
      let m := bind (mk_wallet o ws) (wasabi C (hm o) (sha o) (h160 o) A) in
      let agrees := beq_res beq_tree m ob in
      let prop :=
        match master C (hm o) (unhex (ws_seed ws)) (codes "Bitcoin seed"), ob with
        | Some x0, Ok t =>
            match derive_prv C (hm o) (h160 o) x0 [84 + H; 0 + H; 0 + H], G_mul C (x_k x0) with
            | Some xa, Some K0 =>
                (match neuter C xa with
                 | Some Xa => beq_res beq_bytes (b58dec o (tstr (tget (k "ExtPubKey") t)))
                                (Ok (ser_pub C (if ws_testnet ws then 70617039 else 76067358) Xa))
                 | None => false end)
                && beq_bytes (match tstr (tget (k "MasterFingerprint") t) with Some s => s | None => [] end)
                             (upper_hex (firstn 4 (h160 o (ser_c C K0))))
            | _, _ => false
            end
        | Some _, Err => false
        | None, _ => true
        end in
      verdict agrees prop
  | Watch o ws export_path xpub sub ob full =>
      let m :=
        do we <- from_extended_key A (sha o) xpub;
        let w := {| w_master := fst we; w_testnet := snd we; w_mnemonic := None; w_password := None |} in
        do nd <- derive_path C (hm o) (w_master w) sub;
        watch_tree o w nd in
      let agrees := beq_res beq_tree m ob in
      let prop :=
        if existsb (fun i => H <=? i) sub then negb (is_ok ob)          (* hardened from public data: refused *)
        else match full, ob with
             | Ok f, Ok t =>
                 beq_tree f t
                 (* the addresses carry the tags of the network named by the key's version prefix *)
                 && (let net := ws_testnet ws in
                     match tget (k "addrs") t with
                     | Ok (TList [TStr a1; TStr a2; TStr a3; TStr a4; TStr a5]) =>
                         (match b58dec o (Some a1) with Ok (v :: _) => v =? (if net then 111 else 0) | _ => false end)
                         && (match b58dec o (Some a3) with Ok (v :: _) => v =? (if net then 196 else 5) | _ => false end)
                         && (match b58dec o (Some a5) with Ok (v :: _) => v =? (if net then 196 else 5) | _ => false end)
                         && is_some (Spec.Bech32.spec_decode (segwit_hrp net) a2) && is_some (Spec.Bech32.spec_decode (segwit_hrp net) a4)
                     | _ => false end)
             | Err, _ => true
             | Ok _, Err => false
             end in
      verdict agrees prop
  end.
