(* C05 correspondence: cases written by harness/props/c05.py *)
From BHW Require Import Lib.Base Lib.ListAux Model.Helper Model.Keys Model.Bip32M Model.ScriptM Model.Bech32M Model.Address
  Model.Ripemd Spec.Curve Spec.Address Spec.Bech32 Exec.Common Exec.Secp256k1 Exec.Bip32E.
From BHWGen Require Import Consts.
From Coq Require Import String.

Definition rmd (x : bytes) : bytes := match ripemd160 x with Ok b => b | Err => [-1] end.

Inductive case :=
(* node key (private scalar bytes or public SEC), private?, wallet network; sha table;
   observed: p2pkh, p2wpkh, p2sh-p2wpkh, p2wsh, p2sh-p2wsh, and PublicKey.address uncompressed p2pkh *)
| Addr (sha : list (string * string)) (prv : bool) (key : string) (testnet : bool) (ob : list (res (option str)))
(* ripemd160(data): repository result and OpenSSL's *)
| Rmd (data : string) (repo : res string) (openssl : option string)
(* hash160(data) *)
| H160 (sha : list (string * string)) (data : string) (ob : res string)
(* builders: raw_serialize of p2pkh/p2sh/p2wpkh (20-byte h) or p2wsh (32-byte h) *)
| Scr (h : string) (ob : list (res string)).

Definition beq_oaddr (a b : res (option str)) : bool :=
  beq_res (fun x y => match x, y with Some p, Some q => beq_bytes p q | None, None => true | _, _ => false end) a b.

Definition b58_payload (sha256 : bytes -> bytes) (a : res (option str)) : res bytes :=
  match a with Ok (Some s) => decode_base58_checksum A sha256 s | _ => Err end.
Definition segwit_prog (hrp : str) (a : res (option str)) : option (Z * list Z) :=
  match a with Ok (Some s) => Spec.Bech32.spec_decode hrp s | _ => None end.

Definition check_case (c : case) : Z :=
  match c with
  | Addr sha prv key testnet ob =>
      let sha256 := lookup (hextable sha) in
      let hash160 := fun x => rmd (sha256 x) in
      let nd := {| is_prv := prv; nkey := unhex key; nchain := []; ndepth := 0; nindex := 0; ntestnet := testnet;
                   nparent := None; nparsed_fpr := None; nparsed_version := None |} in
      let m := [ p2pkh_address C A sha256 hash160 nd testnet; p2wpkh_address C A sha256 hash160 nd testnet;
                 p2sh_p2wpkh_address C A sha256 hash160 nd testnet; p2wsh_address C sha256 nd testnet;
                 p2sh_p2wsh_address C A sha256 hash160 nd testnet;
                 bind (public_key C nd) (fun K => pk_address C A sha256 hash160 K false testnet 0);
                 (* the same PublicKey object reused: uncompressed P2PKH asked after the compressed forms, and the reverse *)
                 bind (public_key C nd) (fun K => pk_address C A sha256 hash160 K false testnet 0);
                 bind (public_key C nd) (fun K => pk_address C A sha256 hash160 K true testnet 0) ] in
      let agrees := (List.length m =? List.length ob)%nat && forallb (fun p => beq_oaddr (fst p) (snd p)) (combine m ob) in
      let prop :=
        match public_key C nd, ob with
        | Ok K, [a1; a2; a3; a4; a5; a6; a7; a8] =>
            let secc := ser_c C K in let hrp := segwit_hrp testnet in
            beq_res beq_bytes (b58_payload sha256 a1) (Ok (p2pkh_payload hash160 secc testnet))
            && (match segwit_prog hrp a2 with Some (v, p) => (v =? 0) && beq_bytes p (hash160 secc) | None => false end)
            && beq_res beq_bytes (b58_payload sha256 a3) (Ok (p2sh_p2wpkh_payload hash160 secc testnet))
            && (match segwit_prog hrp a4 with Some (v, p) => (v =? 0) && beq_bytes p (p2wsh_program sha256 secc) | None => false end)
            && beq_res beq_bytes (b58_payload sha256 a5) (Ok (p2sh_p2wsh_payload sha256 hash160 secc testnet))
            && beq_res beq_bytes (b58_payload sha256 a6) (Ok (p2pkh_payload hash160 (ser_u C K) testnet))
            && beq_res beq_bytes (b58_payload sha256 a7) (Ok (p2pkh_payload hash160 (ser_u C K) testnet))
            && beq_res beq_bytes (b58_payload sha256 a8) (Ok (p2pkh_payload hash160 secc testnet))
        | Ok _, _ => false
        | Err, _ => true
        end in
      verdict agrees prop
  | Rmd data repo openssl =>
      let agrees := beq_res beq_bytes (ripemd160 (unhex data)) (rmap unhex repo) in
      let prop := match openssl, repo with
                  | Some o, Ok r => beq_bytes (unhex o) (unhex r)
                  | Some _, Err => false
                  | None, _ => true end in
      verdict agrees prop
  | H160 sha data ob =>
      let sha256 := lookup (hextable sha) in
      verdict (beq_res beq_bytes (Ok (rmd (sha256 (unhex data)))) (rmap unhex ob)) true
  | Scr hx ob =>
      let h := unhex hx in
      let m := [raw_serialize (p2pkh_script h); raw_serialize (p2sh_script h); raw_serialize (p2wpkh_script h); raw_serialize (p2wsh_script h)] in
      let agrees := forallb (fun p => beq_res beq_bytes (fst p) (rmap unhex (snd p))) (combine m ob) in
      let prop :=
        match ob with
        | [a; b; c0; d] =>
            if (List.length h =? 20)%nat then
              beq_res beq_bytes (rmap unhex a) (Ok (p2pkh_spk h)) && beq_res beq_bytes (rmap unhex b) (Ok (p2sh_spk h))
              && beq_res beq_bytes (rmap unhex c0) (Ok (p2wpkh_spk h))
            else if (List.length h =? 32)%nat then beq_res beq_bytes (rmap unhex d) (Ok (p2wsh_spk h)) else true
        | _ => false
        end in
      verdict agrees prop
  end.
