(* C13 correspondence: cases written by harness/props/c13.py.  The driver runs request sequences on SHARED objects
   and, for every request, a stateless recomputation on FRESH objects; both answers come here as strings. *)
From BHW Require Import Lib.Base Lib.ListAux Model.Helper Exec.Common.
From Coq Require Import String.

Inductive case :=
(* one history: per request (description, answer on shared objects, answer recomputed on fresh objects) *)
| Hist (answers : list (str * str * str)) (root_before root_after : str)
(* address generator: the sends, the yielded path strings *)
| Gen (sends : list (option Z)) (paths : list str) (prefix : str)
(* a second generator with another address function on a node an earlier generator already walked:
   (path, address) pairs it yields on the shared wallet, and the same computed statelessly on a fresh wallet *)
| GenA (shared fresh : list (str * str))
(* effects table flags computed by the audit *)
| Flag (ok : bool).

Fixpoint dec (fuel : nat) (n : Z) (acc : list Z) : list Z :=
  match fuel with O => acc | S f => if n <? 10 then (n + 48) :: acc else dec f (n / 10) ((n mod 10 + 48) :: acc) end.

Fixpoint expected_paths (prefix : str) (index : Z) (sends : list (option Z)) : list str :=
  (prefix ++ 47 :: dec 20 index []) ::
  match sends with
  | [] => []
  | s :: r => expected_paths prefix (index + match s with Some v => if v =? 0 then 1 else v | None => 1 end) r
  end.

Definition check_case (c : case) : Z :=
  match c with
  | Hist answers before after =>
      verdict true (forallb (fun t => match t with (_, shared, fresh) => beq_bytes shared fresh end) answers && beq_bytes before after)
  | Gen sends paths prefix =>
      verdict true ((List.length paths =? S (List.length sends))%nat &&
                    forallb (fun p => beq_bytes (fst p) (snd p)) (combine paths (expected_paths prefix 0 sends)))
  | GenA shared fresh =>
      verdict true ((List.length shared =? List.length fresh)%nat &&
                    forallb (fun p => beq_bytes (fst (fst p)) (fst (snd p)) && beq_bytes (snd (fst p)) (snd (snd p))) (combine shared fresh))
  | Flag ok => verdict true ok
  end.
