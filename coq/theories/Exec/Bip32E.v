(* Correspondence cases for the BIP32 family (C01, C02, C18, C07): written by harness/props/bip32fam.py *)
From BHW Require Import Lib.Base Lib.ListAux Model.Helper Model.Keys Model.Bip32M Spec.Curve Spec.Bip32
  Exec.Common Exec.Secp256k1.
From BHWGen Require Import Consts.
From Coq Require Import String.

Definition C := Secp.secp256k1.
Definition A := BASE58_ALPHABET.

(* HMAC oracle: (key, msg) -> out *)
Definition htable := list (list Z * list Z * list Z).
Fixpoint hlookup (t : htable) (k m : list Z) : list Z :=
  match t with
  | [] => [-1]
  | (k', m', v) :: r => if beq_bytes k' k && beq_bytes m' m then v else hlookup r k m
  end.
Definition hhextable (t : list (string * string * string)) : htable :=
  List.map (fun p => (unhex (fst (fst p)), unhex (snd (fst p)), unhex (snd p))) t.

(* an observed node: key, chain, depth, index, parent fingerprint, xpub string, xprv string (if private) *)
Record onode := { o_key : string; o_chain : string; o_depth : Z; o_index : Z; o_pfpr : string;
                  o_xpub : str; o_xprv : option str }.

(* starting node as constructed by the driver *)
Record start := { s_prv : bool; s_key : string; s_chain : string; s_depth : Z; s_index : Z;
                  s_testnet : bool; s_pfpr : option string }.

Definition start_node (s : start) : node :=
  {| is_prv := s_prv s; nkey := unhex (s_key s); nchain := unhex (s_chain s); ndepth := s_depth s;
     nindex := s_index s; ntestnet := s_testnet s; nparent := None;
     nparsed_fpr := option_map unhex (s_pfpr s); nparsed_version := None |}.

Record oracles := { or_hmac : list (string * string * string); or_h160 : list (string * string);
                    or_sha : list (string * string) }.

Section WithOracles.
Variable o : oracles.
Definition hmac512 := hlookup (hhextable (or_hmac o)).
Definition hash160 := lookup (hextable (or_h160 o)).
Definition sha256 := lookup (hextable (or_sha o)).

Definition beq_str := beq_bytes.
Definition beq_ostr (a b : option str) : bool :=
  match a, b with Some x, Some y => beq_str x y | None, None => true | _, _ => false end.

(* what the model says the observation of a node is *)
Definition observe (nd : node) : res (bytes * bytes * Z * Z * bytes * str * option str) :=
  do pf <- parent_fingerprint C hash160 nd;
  do xpub <- extended_public_key C hash160 A sha256 nd None;
  do xprv <- (if is_prv nd then rmap Some (extended_private_key C hash160 A sha256 nd None) else Ok None);
  Ok (nkey nd, nchain nd, ndepth nd, nindex nd, pf, xpub, xprv).

Definition obs_eq (m : res (bytes * bytes * Z * Z * bytes * str * option str)) (ob : res onode) : bool :=
  match m, ob with
  | Err, Err => true
  | Ok (k, c, d, i, pf, xpub, xprv), Ok ob =>
      beq_bytes k (unhex (o_key ob)) && beq_bytes c (unhex (o_chain ob)) && (d =? o_depth ob) && (i =? o_index ob)
      && beq_bytes pf (unhex (o_pfpr ob)) && beq_str xpub (o_xpub ob) && beq_ostr xprv (o_xprv ob)
  | _, _ => false
  end.

(* Spec-level check of a privately derived node *)
Definition spec_prv_ok (s : start) (path : list Z) (ob : res onode) : bool :=
  let k0 := be2z (unhex (s_key s)) in
  let x0 := {| x_k := k0; x_c := unhex (s_chain s); x_depth := s_depth s;
               x_fpr := match s_pfpr s with Some f => unhex f | None => [0;0;0;0] end; x_idx := s_index s |} in
  let in_range := forallb (fun i => (0 <=? i) && (i <? 4294967296)) path in
  match derive_prv C hmac512 hash160 x0 path, ob with
  | Some x, Ok ob =>
      in_range &&
      (* a derived child carries the full 32-byte key; the start node itself (empty path) is returned as stored (32 or 33 bytes) *)
      (match path with [] => be2z (unhex (o_key ob)) =? x_k x | _ => beq_bytes (unhex (o_key ob)) (ser256 (x_k x)) end)
      && beq_bytes (unhex (o_chain ob)) (x_c x)
      && (o_depth ob =? x_depth x) && (o_index ob =? x_idx x)
      && (match path with [] => true | _ => beq_bytes (unhex (o_pfpr ob)) (x_fpr x) end)
      && (match path, o_xprv ob with
          | [], _ => true
          | _, Some xs => beq_res beq_str (Ok xs)
                (encode_base58_checksum A sha256 (ser_prv (if s_testnet s then 70615956 else 76066276) x))
          | _, None => false
          end)
      && (match path, neuter C x with
          | [], _ => true
          | _, Some X => beq_res beq_str (Ok (o_xpub ob))
                (encode_base58_checksum A sha256 (ser_pub C (if s_testnet s then 70617039 else 76067358) X))
          | _, None => false
          end)
  | None, Err => true
  | Some _, Err => negb in_range || (255 <=? s_depth s + Z.of_nat (List.length path))  (* out-of-range index must raise; in range (and depth <= 255) it must not *)
  | None, Ok _ => false               (* an invalid child was returned *)
  end.

Definition spec_pub_ok (s : start) (path : list Z) (ob : res onode) : bool :=
  match parse_pt C (unhex (s_key s)) with
  | None => negb (is_ok ob) || match path with [] => true | _ => false end
  | Some K0 =>
    let X0 := {| X_K := K0; X_c := unhex (s_chain s); X_depth := s_depth s;
                 X_fpr := match s_pfpr s with Some f => unhex f | None => [0;0;0;0] end; X_idx := s_index s |} in
    match derive_pub C hmac512 hash160 X0 path, ob with
    | Some X, Ok ob =>
        beq_bytes (unhex (o_key ob)) (ser_c C (X_K X)) && beq_bytes (unhex (o_chain ob)) (X_c X)
        && (o_depth ob =? X_depth X) && (o_index ob =? X_idx X)
        && (match path with [] => true | _ => beq_bytes (unhex (o_pfpr ob)) (X_fpr X) end)
    | None, Err => true
    | Some _, Err => true             (* spurious IL = 0 refusal / out-of-range index are safe refusals *)
    | None, Ok _ => false
    end
  end.
End WithOracles.

Inductive case :=
(* derive along a path from a start node *)
| Derive (o : oracles) (s : start) (path : list Z) (ob : res onode)
(* private derivation vs public derivation from the neutered start *)
| PubPriv (o : oracles) (s : start) (path : list Z) (prv : res onode) (pub : res onode)
(* master key from a seed *)
| Master (o : oracles) (seed : string) (testnet : bool) (ob : res onode)
(* the node returned by derive_path itself, no serialisation: (key, chain, depth, index) *)
| DeriveRaw (o : oracles) (s : start) (path : list Z) (ob : res (string * string * Z * Z))
(* the node returned by master_key itself, no serialisation *)
| MasterRaw (o : oracles) (seed : string) (testnet : bool) (ob : res (string * string * Z * Z)).

Definition check_case (c : case) : Z :=
  match c with
  | Derive o s path ob =>
      let m := bind (derive_path C (hmac512 o) (start_node s) path) (observe o) in
      let agrees := obs_eq m ob in
      let prop := if s_prv s then spec_prv_ok o s path ob else spec_pub_ok o s path ob in
      verdict agrees prop
  | PubPriv o s path prv pub =>
      let nd := start_node s in
      let m_prv := bind (derive_path C (hmac512 o) nd path) (observe o) in
      let pn := match public_key C nd with
                | Ok K => Ok {| is_prv := false; nkey := ser_c C K; nchain := nchain nd; ndepth := ndepth nd;
                                nindex := nindex nd; ntestnet := ntestnet nd; nparent := None;
                                nparsed_fpr := nparsed_fpr nd; nparsed_version := None |}
                | Err => Err end in
      let m_pub := bind (bind pn (fun pn => derive_path C (hmac512 o) pn path)) (observe o) in
      let agrees := obs_eq m_prv prv && obs_eq m_pub pub in
      let prop :=
        match prv, pub with
        | Ok a, Ok b =>
            (* same chain code, depth, index, fingerprint, xpub string; pub key = point of prv key *)
            beq_bytes (unhex (o_chain a)) (unhex (o_chain b)) && (o_depth a =? o_depth b) && (o_index a =? o_index b)
            && beq_bytes (unhex (o_pfpr a)) (unhex (o_pfpr b)) && beq_str (o_xpub a) (o_xpub b)
            && match G_mul C (be2z (unhex (o_key a))) with
               | Some K => beq_bytes (ser_c C K) (unhex (o_key b)) | None => false end
        | Err, Ok _ => false
        | Ok _, Err => existsb (fun i => 2147483648 <=? i) path   (* refusal is required for hardened, tolerated only at IL = 0 (checked by model agreement) *)
                       || agrees
        | Err, Err => true
        end in
      verdict agrees prop
  | DeriveRaw o s path ob =>
      let m := rmap (fun nd => (nkey nd, nchain nd, ndepth nd, nindex nd)) (derive_path C (hmac512 o) (start_node s) path) in
      let ob' := rmap (fun p => match p with (k, c, d, i) => (unhex k, unhex c, d, i) end) ob in
      let eq4 (a b : bytes * bytes * Z * Z) :=
        match a, b with (k, c, d, i), (k', c', d', i') => beq_bytes k k' && beq_bytes c c' && (d =? d') && (i =? i') end in
      let agrees := beq_res eq4 m ob' in
      let in_range := forallb (fun i => (0 <=? i) && (i <? 4294967296)) path in
      let prop :=
        if s_prv s then
          let x0 := {| x_k := be2z (unhex (s_key s)); x_c := unhex (s_chain s); x_depth := s_depth s; x_fpr := []; x_idx := s_index s |} in
          match derive_prv C (hmac512 o) (hash160 o) x0 path, ob' with
          | Some x, Ok (k, c, d, i) => in_range && beq_bytes k (ser256 (x_k x)) && beq_bytes c (x_c x) && (d =? x_depth x) && (i =? x_idx x)
          | None, Err => true
          | Some _, Err => negb in_range
          | None, Ok _ => false
          end
        else
          match parse_pt C (unhex (s_key s)) with
          | None => negb (is_ok ob') || match path with [] => true | _ => false end
          | Some K0 =>
            let X0 := {| X_K := K0; X_c := unhex (s_chain s); X_depth := s_depth s; X_fpr := []; X_idx := s_index s |} in
            match derive_pub C (hmac512 o) (hash160 o) X0 path, ob' with
            | Some X, Ok (k, c, d, i) => beq_bytes k (ser_c C (X_K X)) && beq_bytes c (X_c X) && (d =? X_depth X) && (i =? X_idx X)
            | None, Err => true
            | Some _, Err => true
            | None, Ok _ => false
            end
          end in
      verdict agrees prop
  | MasterRaw o seed t ob =>
      let m := rmap (fun nd => (nkey nd, nchain nd, ndepth nd, nindex nd)) (master_key (hmac512 o) (unhex seed) (codes "Bitcoin seed") t) in
      let ob' := rmap (fun p => match p with (k, c, d, i) => (unhex k, unhex c, d, i) end) ob in
      let eq4 (a b : bytes * bytes * Z * Z) :=
        match a, b with (k, c, d, i), (k', c', d', i') => beq_bytes k k' && beq_bytes c c' && (d =? d') && (i =? i') end in
      let agrees := beq_res eq4 m ob' in
      let prop :=
        match master C (hmac512 o) (unhex seed) (codes "Bitcoin seed"), ob' with
        | Some x, Ok (k, c, d, i) => (be2z k =? x_k x) && beq_bytes c (x_c x) && (d =? 0) && (i =? 0)
        | None, Err => true
        | _, _ => false
        end in
      verdict agrees prop
  | Master o seed t ob =>
      let m := bind (master_key (hmac512 o) (unhex seed) (codes "Bitcoin seed") t) (observe o) in
      let agrees := obs_eq m ob in
      let prop :=
        match master C (hmac512 o) (unhex seed) (codes "Bitcoin seed"), ob with
        | Some x, Ok ob => beq_bytes (unhex (o_key ob)) (ser256 (x_k x)) && beq_bytes (unhex (o_chain ob)) (x_c x)
                           && (o_depth ob =? 0) && (o_index ob =? 0) && beq_bytes (unhex (o_pfpr ob)) [0;0;0;0]
        | None, Err => true
        | _, _ => false
        end in
      verdict agrees prop
  end.
