(* C09 at the level of the SOURCE (method: Props/C11Src.v): PrivateKey.wif (with PrivateKey.__bytes__) of keys.py.
   For every 32-byte key, both flags and every K, the MiniPy semantics of the regenerated term returns the string the
   model's wif returns, i.e. Base58Check((ef|80) || k || (01|empty)); with the model-level theorems of Props/C09.v that
   string starts with the flavour's character and is decoded by from_wif back to exactly k.  (PrivateKey.__init__ /
   from_wif / PublicKey call python-ecdsa: outside the fragment, tied by correspondence.) *)
From BHW Require Import Lib.Base Lib.ListAux Model.Helper Model.Keys Spec.Curve Proofs.Wif Py.Interp Py.Tactics Proofs.PyKeys.
From BHWGen Require Import Consts PyAst.
Open Scope string_scope.
Open Scope Z_scope.
Open Scope list_scope.

Section C09Src.
Variable C : curve.
Hypothesis laws : curve_laws C.
Hypothesis order_eq : order C = CURVE_ORDER.
Variable sha256 : bytes -> bytes.
Hypothesis sha256_len : forall x, List.length (sha256 x) = 32%nat.
Hypothesis sha256_wf : forall x, wf_bytes (sha256 x).
Variable ext : fenv_t.
Hypothesis ext_hash256 :
  ext "helper.hash256" = Some (fun args => match args with [VBytes b] => Val (VBytes (hash256 sha256 b)) | _ => Exc TypeError end).
Notation A := BASE58_ALPHABET.

Theorem C09_source_wif_is_model : forall fuel k K (compressed testnet : bool),
  wf_bytes k -> (2 * (List.length k + 6) < fuel)%nat ->
  exists s, wif A sha256 k compressed testnet = Ok s /\
            sem_keys__PrivateKey__wif ext fuel [VObj "PrivateKey" [VBytes k; K]; VBool compressed; VBool testnet] = Val (VStr s).
Proof. exact (wif_sem sha256 sha256_wf ext ext_hash256). Qed.

(* what the source prints for a valid key decodes back to that key, and carries the flavour's first character *)
Theorem C09_source_wif_roundtrip : forall fuel k K Kobj (compressed testnet : bool),
  wf_bytes k -> privkey_of_bytes C k = Ok (k, K) -> (76 < fuel)%nat ->
  exists s, sem_keys__PrivateKey__wif ext fuel [VObj "PrivateKey" [VBytes k; Kobj]; VBool compressed; VBool testnet] = Val (VStr s) /\
            from_wif C A sha256 s = Ok (k, K) /\ first_char_ok (hd 0 s) compressed testnet.
Proof.
  intros fuel k K Kobj compressed testnet Hwf Hp Hf.
  assert (Hlen : List.length k = 32%nat).
  { unfold privkey_of_bytes in Hp. destruct (List.length k =? 32)%nat eqn:E; [apply Nat.eqb_eq in E; exact E|discriminate]. }
  destruct (wif_sem sha256 sha256_wf ext ext_hash256 fuel k Kobj compressed testnet Hwf ltac:(rewrite Hlen; lia)) as (s & E1 & E2).
  destruct (from_wif_wif C laws order_eq sha256 sha256_len sha256_wf k compressed testnet K Hwf Hp) as (s' & F1 & F2).
  destruct (wif_first_char C laws order_eq sha256 sha256_len sha256_wf k compressed testnet Hwf Hlen) as (s'' & G1 & G2).
  pose proof (eq_trans (eq_sym E1) F1) as X1. pose proof (eq_trans (eq_sym E1) G1) as X2.
  inversion X1; subst s'. inversion X2; subst s''.
  exists s. split; [exact E2|]. split; [exact F2|exact G2].
Qed.
End C09Src.

Theorem C09_source_translated :
  forallb (fun q => existsb (String.eqb q) translated) ["keys.PrivateKey.__bytes__"; "keys.PrivateKey.wif"; "helper.encode_base58_checksum"] = true.
Proof. reflexivity. Qed.

Print Assumptions C09_source_wif_is_model.
Print Assumptions C09_source_wif_roundtrip.
Print Assumptions C09_source_translated.
