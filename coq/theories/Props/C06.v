(* C06 -- Paper-wallet records are mutually consistent and follow BIP44/49/84.
   Structure theorems over the model of PaperWallet.generate, for every curve / HMAC / hash function:
   what each section contains is a function of the master node, the network, the account and the interval;
   row i is built from the single node at m/purpose'/coin'/account'/0/i.  That the node at a path is the
   BIP32 one is C01; that its address/WIF/SEC are the standard encodings is C05/C09; the SLIP-132 table is C07. *)
From BHW Require Import Lib.Base Lib.ListAux Model.Helper Model.Keys Model.Bip32M Model.WalletUtils Model.Address
  Model.PaperWallet Spec.Curve Proofs.Wallet.
From BHWGen Require Import Consts.
From Coq Require String.
Import String.StringSyntax.

Section C06.
Variable C : curve.
Variable hmac512 : bytes -> bytes -> bytes.
Variable sha256 hash160 : bytes -> bytes.
Variable alph : list Z.

(* account node at [purpose', coin', account'], its extended keys, and exactly one row per index of
   range(lo, hi), in order, each built from the node at account path ++ [0; i] *)
Theorem C06_bip_section_spec : forall purpose w account lo hi keys rows,
  bip_section C hmac512 sha256 hash160 alph purpose w account lo hi = Ok (keys, rows) ->
  exists acct rs,
    derive_path C hmac512 (w_master w) (account_path purpose w account) = Ok acct /\
    node_extended_keys C sha256 hash160 alph w acct = Ok keys /\ rows = TList rs /\
    Forall2 (fun i r => exists nd, derive_path C hmac512 (w_master w) (account_path purpose w account ++ [0; i]) = Ok nd /\
                                   row C sha256 hash160 alph purpose w nd = Ok r) (zrange lo hi) rs.
Proof. exact (bip_section_spec C hmac512 sha256 hash160 alph). Qed.

Theorem C06_rows_count : forall purpose w account lo hi keys rs,
  bip_section C hmac512 sha256 hash160 alph purpose w account lo hi = Ok (keys, TList rs) ->
  Z.of_nat (length rs) = Z.max 0 (hi - lo).
Proof. exact (rows_count C hmac512 sha256 hash160 alph). Qed.

(* path string, address, SEC hex and WIF of a row all come from ONE node *)
Theorem C06_row_shape : forall purpose w nd r,
  row C sha256 hash160 alph purpose w nd = Ok r ->
  exists a K wf, r = TList [TStr (node_repr nd); topt a; TStr (Bip85M.hexstr (ser_c C K)); wf] /\
    public_key C nd = Ok K /\ addr_fnc C sha256 hash160 alph purpose w nd = Ok a /\
    (w_watch_only w = true -> wf = TNone) /\
    (w_watch_only w = false -> exists kK s, private_key C nd = Ok kK /\
                                          wif alph sha256 (fst kK) true (w_testnet w) = Ok s /\ wf = TStr s).
Proof. exact (row_shape C hmac512 sha256 hash160 alph). Qed.

(* coin type 0' on mainnet, 1' on testnet; purpose and account hardened *)
Theorem C06_account_path : forall purpose w account,
  nth 1 (account_path purpose w account) 0 = (if w_testnet w then 1 else 0) + 2147483648 /\
  nth 0 (account_path purpose w account) 0 = purpose + 2147483648 /\
  nth 2 (account_path purpose w account) 0 = account + 2147483648.
Proof. exact coin_type_tag. Qed.

(* the account keys are printed under the SLIP-132 flavour of (purpose, network), and the account's
   path string is m/purpose'/coin'/account' *)
Theorem C06_account_version_slip132 : forall purpose w account acct key_type,
  node_repr (w_master w) = [109] ->
  derive_path C hmac512 (w_master w) (account_path purpose w account) = Ok acct ->
  0 <= account < 2147483648 -> (purpose = 44 \/ purpose = 49 \/ purpose = 84) ->
  node_version w acct key_type = version_int key_type (purpose_code purpose) (w_testnet w) /\
  node_repr acct = path_repr (path_of_list true (account_path purpose w account)).
Proof. exact (account_version C hmac512 sha256 hash160 alph). Qed.

(* top-level layout of generate(): MASTER echoes mnemonic/passphrase, then BIP85 and the three sections *)
Theorem C06_generate_layout : forall w account lo hi t,
  generate C hmac512 sha256 hash160 alph w account lo hi = Ok t ->
  exists s44 s49 s84 b85,
    bip_section C hmac512 sha256 hash160 alph 44 w account lo hi = Ok s44 /\
    bip_section C hmac512 sha256 hash160 alph 49 w account lo hi = Ok s49 /\
    bip_section C hmac512 sha256 hash160 alph 84 w account lo hi = Ok s84 /\
    bip85_data C hmac512 sha256 hash160 alph w = Ok b85 /\
    t = TDict [(k "MASTER", master_data w); (k "BIP85", b85); (k "BIP44", section_tree s44);
               (k "BIP49", section_tree s49); (k "BIP84", section_tree s84)].
Proof. exact (generate_layout C hmac512 sha256 hash160 alph). Qed.
End C06.

Print Assumptions C06_bip_section_spec.
Print Assumptions C06_rows_count.
Print Assumptions C06_row_shape.
Print Assumptions C06_account_path.
Print Assumptions C06_account_version_slip132.
Print Assumptions C06_generate_layout.
