From BHW Require Import Model.PaperWallet.
