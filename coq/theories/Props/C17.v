(* C17 -- Path strings are honoured component by component or rejected.
   The model is of the repaired convert_hardened (fix: commit, D5).  Deep paths (more than five
   levels) are silently shortened by the code: proved as C17_deep_path_refuted with a concrete
   witness (known finding D7; the pinned test-suite asserts the truncation). *)
From BHW Require Import Lib.Base Lib.ListAux Model.Helper Model.WalletUtils Model.Bip32M Model.BaseWallet
  Spec.Curve Spec.Path Proofs.Path.

(* 1. formatting and re-parsing is the identity, for every path of up to five levels *)
Theorem C17_format_parse_id : forall private l,
  (length l <= 5)%nat -> Forall (fun i => 0 <= i < 4294967296) l ->
  path_parse (path_repr (path_of_list private l)) = Ok (path_of_list private l).
Proof. exact format_parse_id. Qed.

(* 2. the ' and h markers are equivalent *)
Theorem C17_marker_equiv : forall ds, convert_hardened (ds ++ [39]) = convert_hardened (ds ++ [104]).
Proof. exact marker_equiv. Qed.

(* 3. looking a node up by path string = applying each component in order as a child derivation *)
Theorem C17_by_path_is_fold_ckd : forall C hmac512 master l,
  (length l <= 5)%nat -> Forall (fun i => 0 <= i < 4294967296) l ->
  by_path C hmac512 master (path_repr (path_of_list true l)) = derive_path C hmac512 master l.
Proof.
  intros C hmac512 master l Hl Hr. unfold by_path. rewrite format_parse_id by assumption.
  cbn [bind]. unfold to_list, path_of_list. cbn [bp_items]. rewrite somes_path_of_list. reflexivity.
Qed.

(* 4. malformed paths raise *)
Theorem C17_wrong_root_rejected : forall s first rest,
  split_slash s = first :: rest -> first <> [109] -> first <> [77] -> path_parse s = Err.
Proof. exact wrong_root_rejected. Qed.

Theorem C17_bad_component_rejected : forall s i t,
  (1 <= i <= 5)%nat -> nth_error (split_slash s) i = Some t -> t <> [] ->
  convert_hardened t = Err -> path_parse s = Err.
Proof. exact bad_component_rejected. Qed.

Theorem C17_empty_inner_rejected : forall s i j t,
  (1 <= i < j)%nat -> (j <= 5)%nat ->
  nth_error (split_slash s) i = Some [] -> nth_error (split_slash s) j = Some t -> t <> [] ->
  path_parse s = Err.
Proof. exact empty_inner_rejected. Qed.

Theorem C17_out_of_range_rejected :
  (forall ds n m, (m = 39 \/ m = 104) -> py_int ds = Ok n -> n < 0 \/ 2147483648 <= n ->
                  convert_hardened (ds ++ [m]) = Err) /\
  (forall s l t n, rev s = l :: t -> l <> 39 -> l <> 104 -> py_int s = Ok n -> n < 0 \/ 4294967296 <= n ->
                   convert_hardened s = Err).
Proof. split; [exact out_of_range_marked|exact out_of_range_plain]. Qed.

(* 5. deeper than five levels: the full statement ("honoured in full or rejected") is FALSE of the
      faithful model; witness m/1/2/3/4/5/6 parses to the five-level path m/1/2/3/4/5 *)
Theorem C17_deep_path_refuted : exists s p,
  classify s = WellFormed true [1;2;3;4;5;6] /\ path_parse s = Ok p /\ to_list p = [1;2;3;4;5].
Proof.
  exists [109;47;49;47;50;47;51;47;52;47;53;47;54]. eexists. vm_compute. repeat split.
Qed.

(* non-vacuity / sanity *)
Example C17_minus_one_marked_rejected : path_parse [109;47;45;49;39] = Err.   (* "m/-1'" *)
Proof. vm_compute. reflexivity. Qed.
Example C17_bip44_example :
  rmap to_list (path_parse [109;47;52;52;39;47;48;104;47;49;39;47;48;47;53]) = Ok [2147483692; 2147483648; 2147483649; 0; 5].
Proof. vm_compute. reflexivity. Qed.

Print Assumptions C17_format_parse_id.
Print Assumptions C17_marker_equiv.
Print Assumptions C17_by_path_is_fold_ckd.
Print Assumptions C17_wrong_root_rejected.
Print Assumptions C17_bad_component_rejected.
Print Assumptions C17_empty_inner_rejected.
Print Assumptions C17_out_of_range_rejected.
Print Assumptions C17_deep_path_refuted.
