(* C10 -- Base58Check is lossless and never accepts a string with a wrong checksum.
   Statements only; every proof is `exact <lemma from Proofs/Base58.v>`.
   The alphabet is the one regenerated from /repo (BHWGen.Consts); sha256 is any
   function returning 32 well-formed bytes. *)
From BHW Require Import Lib.Base Lib.ListAux Model.Helper Proofs.Base58 Spec.Base58.
From BHWGen Require Import Consts.

Definition A := BASE58_ALPHABET.

(* obligations about the regenerated alphabet (finite, by computation) *)
Lemma alphabet_is_spec : A = Spec.Base58.alphabet.
Proof. vm_compute. reflexivity. Qed.
Lemma A_len : length A = 58%nat. Proof. reflexivity. Qed.
Lemma A_nodup : NoDup A. Proof. apply nodupb_spec. vm_compute. reflexivity. Qed.
Lemma A_0 : nth_error A 0 = Some 49. Proof. reflexivity. Qed.

Section C10.
Variable sha256 : bytes -> bytes.
Hypothesis sha256_len : forall x, length (sha256 x) = 32%nat.
Hypothesis sha256_wf : forall x, wf_bytes (sha256 x).

(* 1. decoding inverts encoding on every non-empty byte string *)
Theorem C10_decode_encode : forall bs, wf_bytes bs -> bs <> [] ->
  exists s, encode_base58 A bs = Ok s /\ decode_base58 A s = Ok bs.
Proof. exact (decode_encode A sha256 A_len A_nodup A_0). Qed.

(* 2. leading zero bytes map one-for-one to leading '1' characters *)
Theorem C10_leading_zeros : forall z b r, wf_bytes (b :: r) -> b <> 0 ->
  exists body, encode_base58 A (zeros z ++ b :: r) = Ok (repeat 49 z ++ body)
               /\ body <> [] /\ hd 0 body <> 49.
Proof. exact (leading_zeros_are_ones A sha256 A_len A_nodup A_0). Qed.

Theorem C10_all_zero : forall z, encode_base58 A (zeros z) = Ok (repeat 49 z).
Proof. exact (all_zero_all_ones A sha256 A_len). Qed.

(* 3. encoding is the exact inverse of decoding on every non-empty alphabet string *)
Theorem C10_encode_decode : forall s, s <> [] -> in_alph A s ->
  exists bs, decode_base58 A s = Ok bs /\ encode_base58 A bs = Ok s /\ wf_bytes bs /\ bs <> [].
Proof. exact (encode_decode A sha256 A_len A_nodup A_0). Qed.

(* 4. any character outside the alphabet makes the decoder raise *)
Theorem C10_bad_char : forall s c, In c s -> ~ In c A -> decode_base58 A s = Err.
Proof. exact (bad_char_rejected A). Qed.

(* 5. the checksummed decoder returns p exactly when the decoded bytes are
      p ++ first-four-bytes-of-double-SHA256(p); everything else raises *)
Theorem C10_checksum_sound : forall s p,
  decode_base58_checksum A sha256 s = Ok p <->
  decode_base58 A s = Ok (p ++ checksum4 sha256 p).
Proof. exact (checksum_sound A sha256 sha256_len). Qed.

Theorem C10_too_short : forall s nb,
  decode_base58 A s = Ok nb -> (length nb < 4)%nat -> decode_base58_checksum A sha256 s = Err.
Proof. exact (too_short_rejected A sha256 A_len sha256_len). Qed.

Theorem C10_wrong_checksum : forall s p c,
  decode_base58 A s = Ok (p ++ c) -> length c = 4%nat -> c <> checksum4 sha256 p ->
  decode_base58_checksum A sha256 s = Err.
Proof. exact (wrong_checksum_rejected A sha256 A_len sha256_len). Qed.

Theorem C10_checksum_roundtrip : forall p, wf_bytes p ->
  exists s, encode_base58_checksum A sha256 p = Ok s /\ decode_base58_checksum A sha256 s = Ok p.
Proof. exact (decode_encode_checksum A sha256 A_len A_nodup A_0 sha256_len sha256_wf). Qed.
End C10.

(* non-vacuity: the hypotheses on sha256 are satisfiable *)
Example sha_witness : exists f : bytes -> bytes,
  (forall x, length (f x) = 32%nat) /\ (forall x, wf_bytes (f x)).
Proof. exists (fun _ => zeros 32). split; intros; [reflexivity|apply wf_zeros]. Qed.
Example roundtrip_instance :
  decode_base58 A [49; 49; 50; 110] = Ok [0; 0; 103].
Proof. vm_compute. reflexivity. Qed.

Print Assumptions C10_decode_encode.
Print Assumptions C10_leading_zeros.
Print Assumptions C10_all_zero.
Print Assumptions C10_encode_decode.
Print Assumptions C10_bad_char.
Print Assumptions C10_checksum_sound.
Print Assumptions C10_too_short.
Print Assumptions C10_wrong_checksum.
Print Assumptions C10_checksum_roundtrip.
