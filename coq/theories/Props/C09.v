(* C09 -- Key encodings (WIF, SEC) round-trip and out-of-range keys are rejected. *)
From BHW Require Import Lib.Base Model.Helper Model.Keys Spec.Curve Proofs.Wif Proofs.CurveWitness.
From BHWGen Require Import Consts.

Section C09.
Variable C : curve.
Hypothesis laws : curve_laws C.
Hypothesis order_eq : order C = CURVE_ORDER.
Variable sha256 : bytes -> bytes.
Hypothesis sha256_len : forall x, length (sha256 x) = 32%nat.
Hypothesis sha256_wf : forall x, wf_bytes (sha256 x).
Notation A := BASE58_ALPHABET.

(* a key is constructed exactly from 32 bytes encoding a scalar in [1, n-1]; .k is those bytes, .K = k.G *)
Theorem C09_privkey_accepts_iff : forall b, wf_bytes b ->
  (exists K, privkey_of_bytes C b = Ok (b, K) /\ G_mul C (be2z b) = Some K) <->
  (length b = 32%nat /\ 1 <= be2z b < CURVE_ORDER).
Proof. exact (privkey_accepts_iff C laws order_eq sha256 sha256_len sha256_wf). Qed.

Theorem C09_privkey_int_accepts_iff : forall k,
  is_ok (privkey_of_int C k) = true <-> 1 <= k < CURVE_ORDER.
Proof. exact (privkey_int_accepts_iff C laws order_eq sha256 sha256_len sha256_wf). Qed.

(* both SEC encodings parse back to the same key *)
Theorem C09_sec_roundtrip : forall K c, pubkey_parse C (sec C K c) = Ok K.
Proof. exact (sec_roundtrip C laws order_eq sha256 sha256_len sha256_wf). Qed.

(* the first character of every WIF string, for every 32-byte key and every checksum:
   K/L (mainnet compressed), c (testnet compressed), 5 / 9 (uncompressed) *)
Theorem C09_wif_first_char : forall k compressed testnet,
  wf_bytes k -> length k = 32%nat ->
  exists s, wif A sha256 k compressed testnet = Ok s /\ first_char_ok (hd 0 s) compressed testnet.
Proof. exact (wif_first_char C laws order_eq sha256 sha256_len sha256_wf). Qed.

(* so the first-character heuristic of from_wif is right on the whole scalar range: all four flavours decode back to k *)
Theorem C09_from_wif_wif : forall k compressed testnet K,
  wf_bytes k -> privkey_of_bytes C k = Ok (k, K) ->
  exists s, wif A sha256 k compressed testnet = Ok s /\ from_wif C A sha256 s = Ok (k, K).
Proof. exact (from_wif_wif C laws order_eq sha256 sha256_len sha256_wf). Qed.
End C09.

Example C09_laws_satisfiable : exists C, curve_laws C /\ order C = CURVE_ORDER.
Proof. exists witness. split; [exact witness_laws|exact witness_order]. Qed.

Print Assumptions C09_privkey_accepts_iff.
Print Assumptions C09_privkey_int_accepts_iff.
Print Assumptions C09_sec_roundtrip.
Print Assumptions C09_wif_first_char.
Print Assumptions C09_from_wif_wif.
