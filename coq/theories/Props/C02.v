(* C02 -- Public-only derivation agrees with private derivation on every normal path. *)
From BHW Require Import Lib.Base Model.Helper Model.Keys Model.Bip32M Spec.Curve Spec.Bip32
  Proofs.Bip32 Proofs.Endian.
From BHWGen Require Import Consts.

Section C02.
Variable C : curve.
Hypothesis laws : curve_laws C.
Hypothesis order_eq : order C = CURVE_ORDER.
Variable hmac512 : bytes -> bytes -> bytes.
Variable hash160 : bytes -> bytes.
Hypothesis hmac_len : forall k d, length (hmac512 k d) = 64%nat.
Hypothesis hmac_wf : forall k d, wf_bytes (hmac512 k d).
Hypothesis hash160_len : forall x, length (hash160 x) = 20%nat.

(* one normal step: same public key, chain code, depth, index, fingerprint; the only
   disagreement is the spurious refusal at IL = 0, stated exactly *)
Theorem C02_ckd_pub_priv_agree : forall nd pn K i,
  valid_prv nd -> pub_of C nd pn K -> 0 <= i < 2147483648 ->
  let IL := be2z (take 32 (hmac512 (nchain nd) (ser_c C K ++ ser32 i))) in
  match ckd_prv C hmac512 nd i with
  | Ok c => if IL =? 0 then ckd_pub C hmac512 pn i = Err
            else exists c' Kc, ckd_pub C hmac512 pn i = Ok c' /\ pub_of C c c' Kc /\
                               parent_fingerprint C hash160 c' = parent_fingerprint C hash160 c
  | Err => ckd_pub C hmac512 pn i = Err
  end.
Proof. exact (ckd_pub_priv_agree C laws order_eq hmac512 hash160 hmac_len hmac_wf hash160_len). Qed.

(* any path: whatever public-only derivation returns is the neutered private derivation *)
Theorem C02_derive_pub_sound : forall path nd pn K c',
  valid_prv nd -> pub_of C nd pn K -> Forall (fun i => 0 <= i) path ->
  derive_path C hmac512 pn path = Ok c' ->
  exists c Kc, derive_path C hmac512 nd path = Ok c /\ valid_prv c /\ pub_of C c c' Kc /\
               (path <> [] -> parent_fingerprint C hash160 c' = parent_fingerprint C hash160 c).
Proof. exact (derive_pub_sound C laws order_eq hmac512 hash160 hmac_len hmac_wf hash160_len). Qed.

(* hardened derivation from public data is refused, for every index >= 2^31 *)
Theorem C02_pub_hardened_refused : forall pn i, 2147483648 <= i -> ckd_pub C hmac512 pn i = Err.
Proof. exact (pub_hardened_refused C laws order_eq hmac512 hash160 hmac_len hmac_wf hash160_len). Qed.
End C02.

Print Assumptions C02_ckd_pub_priv_agree.
Print Assumptions C02_derive_pub_sound.
Print Assumptions C02_pub_hardened_refused.
