(* C12 at the level of the SOURCE (method: Props/C11Src.v): BIP85DeterministicEntropy.byte_count_from_word_count, the
   static method that maps the allowed word counts to entropy widths (12/15/18/21/24 -> 16/20/24/28/32) and refuses every
   other count.  (The five application methods and entropy() work on node objects: outside the fragment; their path
   component conversion is covered by Props/C17Src.v, mnemonic_from_entropy by Props/C04Src.v.) *)
From BHW Require Import Lib.Base Lib.ListAux Model.Helper Model.Bip85M Py.Interp Py.Tactics.
From BHWGen Require Import Consts PyAst.
Open Scope string_scope.
Open Scope Z_scope.
Open Scope list_scope.

Theorem C12_source_byte_count_is_model : forall ext fuel wc,
  sem_bip85__BIP85DeterministicEntropy__byte_count_from_word_count ext fuel [VInt wc]
  = match byte_count_from_word_count wc with Ok w => Val (VInt w) | Err => Exc ValueError end.
Proof.
  intros ext fuel wc.
  unfold sem_bip85__BIP85DeterministicEntropy__byte_count_from_word_count, call,
    ast_bip85__BIP85DeterministicEntropy__byte_count_from_word_count, byte_count_from_word_count. pystep.
  unfold memb. change CORRECT_MNEMONIC_LENGTH with [12; 15; 18; 21; 24]. cbn [existsb].
  repeat match goal with |- context [(?a =? ?c) || _] => destruct (a =? c); cbn [orb] end; pystep; reflexivity.
Qed.

(* the source accepts exactly the five BIP39 word counts and returns ENT/8 for each *)
Theorem C12_source_byte_count_table : forall ext fuel wc w,
  sem_bip85__BIP85DeterministicEntropy__byte_count_from_word_count ext fuel [VInt wc] = Val (VInt w) ->
  (wc, w) = (12, 16) \/ (wc, w) = (15, 20) \/ (wc, w) = (18, 24) \/ (wc, w) = (21, 28) \/ (wc, w) = (24, 32).
Proof.
  intros ext fuel wc w H. rewrite C12_source_byte_count_is_model in H. unfold byte_count_from_word_count in H.
  destruct (memb wc CORRECT_MNEMONIC_LENGTH) eqn:M; [|discriminate]. inversion H; subst.
  apply memb_spec in M. unfold CORRECT_MNEMONIC_LENGTH in M. cbn [In] in M.
  destruct M as [<-|[<-|[<-|[<-|[<-|[]]]]]]; cbn; tauto.
Qed.

Theorem C12_source_translated :
  existsb (String.eqb "bip85.BIP85DeterministicEntropy.byte_count_from_word_count") translated = true.
Proof. reflexivity. Qed.

Print Assumptions C12_source_byte_count_is_model.
Print Assumptions C12_source_byte_count_table.
Print Assumptions C12_source_translated.
