(* C12 at the level of the SOURCE (method: Props/C11Src.v): BIP85DeterministicEntropy.byte_count_from_word_count, the
   static method that maps the allowed word counts to entropy widths (12/15/18/21/24 -> 16/20/24/28/32) and refuses every
   other count; and three of the five applications, hex, pwd and bip39_mnemonic, with the instance method entropy(path) as an
   external primitive: for every parameter and index the source hands entropy() exactly the model's path string
   m/83696968'/128169'/n'/i' resp. m/83696968'/39'/0'/wc'/i' (str.format), refuses n outside 16..64 / a word count outside
   the five, and returns the hex of the first n bytes (pwd: the first n characters of the base64 text, 20..86) resp. the BIP39 sentence (source of mnemonic_from_entropy) of the
   first byte_count(wc) bytes.  (entropy(), wif and xprv work on node objects / ecdsa: outside the fragment;
   the path parser those strings go through is covered by Props/C17Src.v.) *)
From BHW Require Import Lib.Base Lib.ListAux Model.Helper Model.Bip32M Model.Bip39M Model.Bip85M Spec.Curve Py.Interp Py.Tactics Proofs.PyBip85.
From BHWGen Require Import Consts PyAst.
Open Scope string_scope.
Open Scope Z_scope.
Open Scope list_scope.

Theorem C12_source_byte_count_is_model : forall ext fuel wc,
  sem_bip85__BIP85DeterministicEntropy__byte_count_from_word_count ext fuel [VInt wc]
  = match byte_count_from_word_count wc with Ok w => Val (VInt w) | Err => Exc ValueError end.
Proof.
  intros ext fuel wc.
  unfold sem_bip85__BIP85DeterministicEntropy__byte_count_from_word_count, call,
    ast_bip85__BIP85DeterministicEntropy__byte_count_from_word_count, byte_count_from_word_count. pystep.
  unfold memb. change CORRECT_MNEMONIC_LENGTH with [12; 15; 18; 21; 24]. cbn [existsb].
  repeat match goal with |- context [(?a =? ?c) || _] => destruct (a =? c); cbn [orb] end; pystep; reflexivity.
Qed.

(* the source accepts exactly the five BIP39 word counts and returns ENT/8 for each *)
Theorem C12_source_byte_count_table : forall ext fuel wc w,
  sem_bip85__BIP85DeterministicEntropy__byte_count_from_word_count ext fuel [VInt wc] = Val (VInt w) ->
  (wc, w) = (12, 16) \/ (wc, w) = (15, 20) \/ (wc, w) = (18, 24) \/ (wc, w) = (21, 28) \/ (wc, w) = (24, 32).
Proof.
  intros ext fuel wc w H. rewrite C12_source_byte_count_is_model in H. unfold byte_count_from_word_count in H.
  destruct (memb wc CORRECT_MNEMONIC_LENGTH) eqn:M; [|discriminate]. inversion H; subst.
  apply memb_spec in M. unfold CORRECT_MNEMONIC_LENGTH in M. cbn [In] in M.
  destruct M as [<-|[<-|[<-|[<-|[<-|[]]]]]]; cbn; tauto.
Qed.

Section C12Apps.
Variable C : curve.
Variable hmac512 : bytes -> bytes -> bytes.
Hypothesis hmac_wf : forall k m, wf_bytes (hmac512 k m).
Variable sha256 : bytes -> bytes.
Hypothesis sha256_wf : forall x, wf_bytes (sha256 x).
Hypothesis sha256_len : forall x, List.length (sha256 x) = 32%nat.
Variable master : node.
Variable ext : fenv_t.
(* entropy(path) of THIS object: the model's entropy of its master node (HMAC-SHA512 under the BIP85 key of the private key
   derived along the parsed path); a failure there is some exception *)
Hypothesis ext_entropy :
  ext "bip85.BIP85DeterministicEntropy.entropy"
  = Some (fun args => match args with
                      | [_; VStr p] => match entropy C hmac512 master p with Ok e => Val (VBytes e) | Err => Exc ValueError end
                      | _ => Exc TypeError
                      end).
Hypothesis ext_sha256 :
  ext "helper.sha256" = Some (fun args => match args with [VBytes b] => Val (VBytes (sha256 b)) | _ => Exc TypeError end).

Lemma entropy_wf : forall p e, entropy C hmac512 master p = Ok e -> wf_bytes e.
Proof.
  intros p e H. unfold entropy in H.
  destruct (WalletUtils.path_parse p); cbn [bind] in H; [|discriminate].
  destruct (derive_path C hmac512 master _); cbn [bind] in H; [|discriminate].
  destruct (private_key C _); cbn [bind] in H; [|discriminate]. inversion H. apply hmac_wf.
Qed.

Theorem C12_source_hex_is_model : forall fuel self n i,
  agrees (sem_bip85__BIP85DeterministicEntropy__hex ext fuel [self; VInt n; VInt i]) (rmap VStr (hex85 C hmac512 master n i)).
Proof. intros. exact (hex_sem (entropy C hmac512 master) entropy_wf ext ext_entropy fuel self n i). Qed.

Theorem C12_source_pwd_is_model : forall fuel self n i,
  agrees (sem_bip85__BIP85DeterministicEntropy__pwd ext fuel [self; VInt n; VInt i]) (rmap VStr (pwd85 C hmac512 master n i)).
Proof. intros. exact (pwd_sem (entropy C hmac512 master) entropy_wf ext ext_entropy fuel self n i). Qed.

Theorem C12_source_mnemonic_is_model : forall fuel self wc i,
  agrees (sem_bip85__BIP85DeterministicEntropy__bip39_mnemonic ext fuel [self; VInt wc; VInt i])
         (rmap VStr (bip39_mnemonic C hmac512 sha256 master wc i)).
Proof.
  intros. exact (bip39_mnemonic_sem (entropy C hmac512 master) entropy_wf ext ext_entropy sha256 sha256_wf sha256_len ext_sha256 fuel self wc i).
Qed.
End C12Apps.

Theorem C12_source_translated :
  forallb (fun q => existsb (String.eqb q) translated)
    ["bip85.BIP85DeterministicEntropy.byte_count_from_word_count"; "bip85.BIP85DeterministicEntropy.hex";
     "bip85.BIP85DeterministicEntropy.bip39_mnemonic"; "bip85.BIP85DeterministicEntropy.pwd"; "bip39.mnemonic_from_entropy"] = true /\
  extern_ok_bip85__BIP85DeterministicEntropy__entropy = true.
Proof. split; reflexivity. Qed.

Print Assumptions C12_source_hex_is_model.
Print Assumptions C12_source_mnemonic_is_model.
Print Assumptions C12_source_pwd_is_model.
Print Assumptions C12_source_byte_count_is_model.
Print Assumptions C12_source_byte_count_table.
Print Assumptions C12_source_translated.
