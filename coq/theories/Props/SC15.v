(* C15: structure premise of the models this property's theorems are about (Proofs/StructureP.v):
   the listed modules of /repo, as they are NOW, have no state, decorator, override or field beyond the pinned ones. *)
From Coq Require Import List String.
Import ListNotations.
From BHW Require Import Proofs.StructureP.
Open Scope string_scope.

Theorem C15_structure : structure_ok ["__main__"; "paper_wallet"] = true.
Proof. vm_compute. reflexivity. Qed.

Print Assumptions C15_structure.
