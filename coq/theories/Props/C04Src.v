(* C04 at the level of the SOURCE (method: Props/C11Src.v): bip39.mnemonic_from_entropy, the function defect D4 lived in.
   For every text the MiniPy semantics of the regenerated term (sha256 external) is the model's function -- through the
   code's own string route (bin()[2:], zfill, re.findall("." * 11, .), int(., 2), word_list[.], " ".join), linked to the
   arithmetic model by Proofs/Bip39Str.v.  Hence: for every hex text decoding to 16/20/24/28/32 bytes the source returns the
   sentence of the words at the Spec's indexes; for every other size, or a text that bytes.fromhex refuses, it raises. *)
From BHW Require Import Lib.Base Lib.Digits Lib.ListAux Model.Helper Model.Bip39M Spec.Bip39 Proofs.Bip39 Proofs.Bip39Str
  Py.Interp Py.Tactics Proofs.PyBip39.
From BHWGen Require Import Consts Wordlist PyAst.
Open Scope string_scope.
Open Scope Z_scope.
Open Scope list_scope.

Section C04Src.
Variable sha256 : bytes -> bytes.
Hypothesis sha256_len : forall x, List.length (sha256 x) = 32%nat.
Hypothesis sha256_wf : forall x, wf_bytes (sha256 x).
Variable ext : fenv_t.
Hypothesis ext_sha256 :
  ext "helper.sha256" = Some (fun args => match args with [VBytes b] => Val (VBytes (sha256 b)) | _ => Exc TypeError end).

Theorem C04_source_is_model : forall fuel hex,
  agrees (sem_bip39__mnemonic_from_entropy ext fuel [VStr hex]) (rmap VStr (Bip39M.mnemonic_from_entropy sha256 hex)).
Proof. exact (mnemonic_from_entropy_sem sha256 sha256_wf sha256_len ext ext_sha256). Qed.

(* legal sizes: the source returns the sentence made of the list entries at the indexes the arithmetic Spec prescribes
   (C04_decode_encode says what those indexes are) *)
Theorem C04_source_good_size : forall fuel hex e,
  Bip39M.fromhex hex = Ok e ->
  (List.length e = 16 \/ List.length e = 20 \/ List.length e = 24 \/ List.length e = 28 \/ List.length e = 32)%nat ->
  exists idx ws, mnemonic_indexes sha256 e = Ok idx /\
    Forall2 (fun i w => nth_error word_list (Z.to_nat i) = Some w) idx ws /\
    sem_bip39__mnemonic_from_entropy ext fuel [VStr hex] = Val (VStr (join_space ws)).
Proof.
  intros fuel hex e Hh Hl.
  assert (Hwf : wf_bytes e) by (eapply fromhex_wf; [|exact Hh]; apply le_n).
  destruct (good_size_accepted sha256 sha256_len sha256_wf e Hwf Hl) as (idx & ws & H1 & H2 & H3).
  exists idx, ws. repeat split; try assumption.
  assert (A := mnemonic_from_entropy_sem sha256 sha256_wf sha256_len ext ext_sha256 fuel hex).
  unfold Bip39M.mnemonic_from_entropy in A. rewrite Hh in A. cbn [bind] in A. rewrite H3 in A. exact A.
Qed.

(* any other size, or a text bytes.fromhex refuses: the source raises instead of returning a sentence *)
Theorem C04_source_bad_size_rejected : forall fuel hex,
  (Bip39M.fromhex hex = Err \/
   exists e, Bip39M.fromhex hex = Ok e /\ List.length e <> 16%nat /\ List.length e <> 20%nat /\ List.length e <> 24%nat /\
             List.length e <> 28%nat /\ List.length e <> 32%nat) ->
  exists x, sem_bip39__mnemonic_from_entropy ext fuel [VStr hex] = Exc x /\ genuine x.
Proof.
  intros fuel hex H.
  assert (A := mnemonic_from_entropy_sem sha256 sha256_wf sha256_len ext ext_sha256 fuel hex).
  unfold Bip39M.mnemonic_from_entropy in A.
  destruct H as [H|(e & H & N1 & N2 & N3 & N4 & N5)]; rewrite H in A; cbn [bind rmap agrees] in A; [exact A|].
  rewrite (bad_size_rejected sha256 sha256_len sha256_wf e N1 N2 N3 N4 N5) in A. exact A.
Qed.
End C04Src.

Theorem C04_source_translated :
  forallb (fun q => existsb (String.eqb q) translated)
    ["bip39.mnemonic_from_entropy"; "bip39.checksum_length"; "bip39.correct_entropy_bits_value"] = true.
Proof. reflexivity. Qed.

Print Assumptions C04_source_is_model.
Print Assumptions C04_source_good_size.
Print Assumptions C04_source_bad_size_rejected.
Print Assumptions C04_source_translated.
