(* C20 at the level of the SOURCE (method: Props/C11Src.v): the argument validators of __main__.py.  For every ASCII argument
   text the MiniPy semantics of the regenerated terms is the model's function; hence whatever the source of
   account_index / address_index accepts is a BIP44-shaped (hardened-able / non-hardened) index, and the other validators
   accept exactly the stated lengths.  (file_ consults the file system, main() and parse_args use argparse and classes:
   outside the fragment, tied by correspondence.) *)
From BHW Require Import Lib.Base Lib.ListAux Lib.PyInt Model.Helper Model.WalletUtils Model.Cli Py.Interp Py.Tactics Proofs.PyCli.
From BHWGen Require Import Consts PyAst.
Open Scope string_scope.
Open Scope Z_scope.
Open Scope list_scope.

Theorem C20_source_validators_are_model : forall ext fuel value,
  (ascii value = true -> sem___main____address_index ext fuel [VStr value] = vres_int (address_index value) value) /\
  (ascii value = true -> sem___main____account_index ext fuel [VStr value] = vres_int (account_index value) value) /\
  sem___main____extended_key ext fuel [VStr value] = vres_str (extended_key value) /\
  sem___main____bip39_seed ext fuel [VStr value] = vres_str (bip39_seed value) /\
  sem___main____entropy_hex ext fuel [VStr value] = vres_str (entropy_hex value) /\
  (ascii value = true -> sem___main____mnemonic ext fuel [VStr value] = vres_str (mnemonic value)).
Proof.
  intros. repeat split; intros.
  - apply address_index_sem; assumption. - apply account_index_sem; assumption.
  - apply extended_key_sem. - apply bip39_seed_sem. - apply entropy_hex_sem. - apply mnemonic_sem; assumption.
Qed.

(* an accepted account index can be hardened (0 <= v < 2^31 - 1), an accepted address index is a non-hardened-or-not 32-bit
   child number below 2^32 - 1; everything else raises (ValueError when the text is not an integer, ArgumentError otherwise) *)
Theorem C20_source_index_ranges : forall ext fuel value v,
  ascii value = true ->
  (sem___main____account_index ext fuel [VStr value] = Val v -> exists n, v = VInt n /\ 0 <= n < 2147483647 /\ py_int value = Ok n) /\
  (sem___main____address_index ext fuel [VStr value] = Val v -> exists n, v = VInt n /\ 0 <= n < 4294967295 /\ py_int value = Ok n).
Proof.
  intros ext fuel value v Ha. split; intros H.
  - rewrite account_index_sem in H by exact Ha. unfold account_index, value_in_interval, vres_int in H.
    change (2 ^ 31 - 1) with 2147483647 in H.
    destruct (py_int value) as [n|]; cbn [bind] in H; [|discriminate].
    destruct ((0 <=? n) && (n <? 2147483647)) eqn:R; [|discriminate].
    inversion H. exists n. repeat split; try reflexivity; lia.
  - rewrite address_index_sem in H by exact Ha. unfold address_index, value_in_interval, vres_int in H.
    change (2 ^ 32 - 1) with 4294967295 in H.
    destruct (py_int value) as [n|]; cbn [bind] in H; [|discriminate].
    destruct ((0 <=? n) && (n <? 4294967295)) eqn:R; [|discriminate].
    inversion H. exists n. repeat split; try reflexivity; lia.
Qed.

Theorem C20_source_translated :
  forallb (fun q => existsb (String.eqb q) translated)
    ["__main__.value_in_interval"; "__main__.address_index"; "__main__.account_index"; "__main__.extended_key";
     "__main__.mnemonic"; "__main__.bip39_seed"; "__main__.entropy_hex"] = true.
Proof. reflexivity. Qed.

Print Assumptions C20_source_validators_are_model.
Print Assumptions C20_source_index_ranges.
Print Assumptions C20_source_translated.
