(* C10 at the level of the SOURCE (method: Props/C11Src.v): the MiniPy semantics of the regenerated terms of
   helper.encode_base58 and encode_base58_checksum equals the model, for every byte string; with the model-level
   theorems of Props/C10.v this gives the leading-zero rule and the decode-back statement for what the SOURCE emits; the
   same for decode_base58 (incl. the hex()/bytes.fromhex detour, Proofs/PyHex.v), decode_base58_checksum and b58decode_addr:
   round trip through the source of both directions, rejection of foreign characters, checksum soundness.
   hash256 is external (`ext`), assumed to be double SHA-256 for a sha256 returning well-formed bytes.
   The inner `while num > 0` gets fuel > 2 * (number of bytes): 58^2 > 256. *)
From BHW Require Import Lib.Base Lib.ListAux Model.Helper Proofs.Base58 Spec.Base58 Py.Interp Py.Tactics Proofs.PyHelper Proofs.PyBase58Dec.
From BHWGen Require Import Consts PyAst.
Open Scope string_scope.
Open Scope Z_scope.
Open Scope list_scope.

Lemma A_nodup : NoDup A. Proof. apply nodupb_spec. vm_compute. reflexivity. Qed.
Lemma A_0 : nth_error A 0 = Some 49. Proof. reflexivity. Qed.

Theorem C10_source_encode_is_model : forall ext fuel data,
  wf_bytes data -> (2 * List.length data < fuel)%nat ->
  exists s, encode_base58 A data = Ok s /\ sem_helper__encode_base58 ext fuel [VBytes data] = Val (VStr s).
Proof. exact encode_base58_sem. Qed.

(* what the source of encode_base58 emits decodes back (model decoder) to the input, for every non-empty byte string *)
Theorem C10_source_encode_decodes_back : forall ext fuel bs,
  wf_bytes bs -> bs <> [] -> (2 * List.length bs < fuel)%nat ->
  exists s, sem_helper__encode_base58 ext fuel [VBytes bs] = Val (VStr s) /\ decode_base58 A s = Ok bs.
Proof.
  intros ext fuel bs Hwf Hne Hf.
  destruct (encode_base58_sem ext fuel bs Hwf Hf) as (s & E1 & E2).
  destruct (decode_encode A (fun x => x) A_len A_nodup A_0 bs Hwf Hne) as (s' & E3 & E4).
  rewrite E1 in E3. inversion E3; subst s'. exists s. split; assumption.
Qed.

(* leading zero bytes become leading '1' characters, one for one, in the output of the source *)
Theorem C10_source_leading_zeros : forall ext fuel z b r,
  wf_bytes (b :: r) -> b <> 0 -> (2 * List.length (zeros z ++ b :: r) < fuel)%nat ->
  exists body, sem_helper__encode_base58 ext fuel [VBytes (zeros z ++ b :: r)] = Val (VStr (repeat 49 z ++ body))
               /\ body <> [] /\ hd 0 body <> 49.
Proof.
  intros ext fuel z b r Hwf Hb Hf.
  assert (Hw : wf_bytes (zeros z ++ b :: r)) by (apply wf_app; split; [apply wf_zeros|exact Hwf]).
  destruct (encode_base58_sem ext fuel _ Hw Hf) as (s & E1 & E2).
  destruct (leading_zeros_are_ones A (fun x => x) A_len A_nodup A_0 z b r Hwf Hb) as (body & E3 & N1 & N2).
  rewrite E1 in E3. inversion E3; subst s. exists body. repeat split; assumption.
Qed.

Theorem C10_source_checksum_encode_is_model : forall sha256 ext fuel data,
  (forall x, wf_bytes (sha256 x)) ->
  ext "helper.hash256" = Some (fun args => match args with [VBytes b] => Val (VBytes (hash256 sha256 b)) | _ => Exc TypeError end) ->
  wf_bytes data -> (2 * (List.length data + 4) < fuel)%nat ->
  exists s, encode_base58_checksum A sha256 data = Ok s /\
            sem_helper__encode_base58_checksum ext fuel [VBytes data] = Val (VStr s).
Proof. intros sha256 ext fuel data H1 H2. exact (encode_base58_checksum_sem sha256 H1 ext H2 fuel data). Qed.

(* ---- the decoders ---- *)
Theorem C10_source_decode_is_model : forall ext fuel s,
  sem_helper__decode_base58 ext fuel [VStr s]
  = match decode_base58 A s with Ok b => Val (VBytes b) | Err => Exc ValueError end.
Proof. exact decode_base58_sem. Qed.

(* full round trip through the SOURCE of both functions: for every non-empty byte string the source of decode_base58
   applied to what the source of encode_base58 returns gives the bytes back *)
Theorem C10_source_roundtrip : forall ext fuel bs,
  wf_bytes bs -> bs <> [] -> (2 * List.length bs < fuel)%nat ->
  exists s, sem_helper__encode_base58 ext fuel [VBytes bs] = Val (VStr s) /\
            sem_helper__decode_base58 ext fuel [VStr s] = Val (VBytes bs).
Proof.
  intros ext fuel bs Hwf Hne Hf.
  destruct (C10_source_encode_decodes_back ext fuel bs Hwf Hne Hf) as (s & E & D).
  exists s. split; [exact E|]. rewrite decode_base58_sem, D. reflexivity.
Qed.

(* a character outside the alphabet: the source raises ValueError *)
Theorem C10_source_bad_char : forall ext fuel s c,
  In c s -> ~ In c A -> sem_helper__decode_base58 ext fuel [VStr s] = Exc ValueError.
Proof.
  intros ext fuel s c H1 H2. rewrite decode_base58_sem, (bad_char_rejected A s c H1 H2). reflexivity.
Qed.

(* the checksummed decoder (hash256 external): the source returns p exactly when the decoded bytes are p followed by
   the first four bytes of the double SHA-256 of p, and raises ValueError otherwise *)
Theorem C10_source_checksum_sound : forall sha256 ext fuel s,
  (forall x, List.length (sha256 x) = 32%nat) ->
  ext "helper.hash256" = Some (fun args => match args with [VBytes b] => Val (VBytes (hash256 sha256 b)) | _ => Exc TypeError end) ->
  (forall p, sem_helper__decode_base58_checksum ext fuel [VStr s] = Val (VBytes p) <->
             decode_base58 A s = Ok (p ++ checksum4 sha256 p)) /\
  ((forall p, decode_base58 A s <> Ok (p ++ checksum4 sha256 p)) ->
   sem_helper__decode_base58_checksum ext fuel [VStr s] = Exc ValueError).
Proof.
  intros sha256 ext fuel s Hlen Hext. rewrite (decode_base58_checksum_sem sha256 ext Hext).
  split.
  - intros p. rewrite <- (checksum_sound A sha256 Hlen s p).
    destruct (decode_base58_checksum A sha256 s) as [b|]; split; intros H; try discriminate; inversion H; subst; reflexivity.
  - intros H. destruct (decode_base58_checksum A sha256 s) as [b|] eqn:E; [|reflexivity].
    exfalso. apply (H b). apply (checksum_sound A sha256 Hlen). exact E.
Qed.

Theorem C10_source_b58decode_addr_is_model : forall sha256 ext fuel s,
  ext "helper.hash256" = Some (fun args => match args with [VBytes b] => Val (VBytes (hash256 sha256 b)) | _ => Exc TypeError end) ->
  sem_helper__b58decode_addr ext fuel [VStr s]
  = match b58decode_addr A sha256 s with Ok b => Val (VBytes b) | Err => Exc ValueError end.
Proof. intros sha256 ext fuel s H. exact (b58decode_addr_sem sha256 ext H fuel s). Qed.

Theorem C10_source_translated :
  forallb (fun q => existsb (String.eqb q) translated) ["helper.encode_base58"; "helper.encode_base58_checksum"; "helper.decode_base58"; "helper.decode_base58_checksum"; "helper.b58decode_addr"] = true.
Proof. reflexivity. Qed.

Print Assumptions C10_source_encode_is_model.
Print Assumptions C10_source_encode_decodes_back.
Print Assumptions C10_source_leading_zeros.
Print Assumptions C10_source_checksum_encode_is_model.
Print Assumptions C10_source_decode_is_model.
Print Assumptions C10_source_roundtrip.
Print Assumptions C10_source_bad_char.
Print Assumptions C10_source_checksum_sound.
Print Assumptions C10_source_b58decode_addr_is_model.
Print Assumptions C10_source_translated.
