(* C17 / C12 at the level of the SOURCE (method: Props/C11Src.v): Bip32Path.convert_hardened, the function that turns one
   path component into a child number (defect D5 lived here).  For every ASCII component the MiniPy semantics of the
   regenerated term is the model's function; hence whatever the source returns is a legal child number, hardened exactly
   when the component carries a ' or h marker, and every other component raises. *)
From BHW Require Import Lib.Base Lib.ListAux Lib.PyInt Model.Helper Model.WalletUtils Py.Interp Py.Tactics Proofs.Path Proofs.PyPath Proofs.PyPathObj.
From BHWGen Require Import Consts PyAst.
Open Scope string_scope.
Open Scope Z_scope.
Open Scope list_scope.

Theorem C17_source_convert_hardened_is_model : forall ext fuel s,
  ascii s = true ->
  sem_wallet_utils__Bip32Path__convert_hardened ext fuel [VStr s]
  = match convert_hardened s with
    | Ok n => Val (VInt n)
    | Err => Exc (match s with [] => IndexError | _ => ValueError end)
    end.
Proof. exact convert_hardened_sem. Qed.

(* what the source returns is always a 32-bit child number; with a marker it is hardened and the number before the marker
   was in [0, 2^31); without one the decimal value itself was in [0, 2^32) *)
Theorem C17_source_component_range : forall ext fuel s v,
  ascii s = true ->
  sem_wallet_utils__Bip32Path__convert_hardened ext fuel [VStr s] = Val v ->
  exists n, v = VInt n /\ 0 <= n < 4294967296 /\
    (forall body m, s = body ++ [m] -> (m = 39 \/ m = 104) -> 2147483648 <= n /\ py_int body = Ok (n - 2147483648)) /\
    (forall body m, s = body ++ [m] -> m <> 39 -> m <> 104 -> py_int s = Ok n).
Proof.
  intros ext fuel s v Ha H. rewrite convert_hardened_sem in H by exact Ha.
  unfold convert_hardened in H.
  destruct (rev s) as [|last rinit] eqn:Er; [discriminate|].
  assert (Hs : s = rev rinit ++ [last]) by (apply (f_equal (@rev Z)) in Er; rewrite rev_involutive in Er; exact Er).
  destruct ((last =? 39) || (last =? 104)) eqn:EL.
  - destruct (py_int (rev rinit)) as [k|] eqn:Ek; cbn [bind] in H; [|discriminate].
    destruct ((0 <=? k) && (k <? 2147483648)) eqn:R; [|discriminate].
    inversion H; subst v. exists (k + 2147483648). split; [reflexivity|]. split; [lia|]. split.
    + intros body m E Hm. rewrite Hs in E. apply app_inj_tail in E as [E1 E2]. subst. split; [lia|].
      replace (k + 2147483648 - 2147483648) with k by lia. exact Ek.
    + intros body m E N1 N2. rewrite Hs in E. apply app_inj_tail in E as [E1 E2]. subst. lia.
  - destruct (py_int s) as [k|] eqn:Ek; cbn [bind] in H; [|discriminate].
    destruct ((0 <=? k) && (k <? 4294967296)) eqn:R; [|discriminate].
    inversion H; subst v. exists k. split; [reflexivity|]. split; [lia|]. split.
    + intros body m E Hm. rewrite Hs in E. apply app_inj_tail in E as [E1 E2]. subst. lia.
    + intros. reflexivity.
Qed.

(* out-of-range components raise in the source: a marked number outside [0, 2^31), an unmarked one outside [0, 2^32) *)
Theorem C17_source_out_of_range_raises : forall ext fuel body m k,
  ascii (body ++ [m]) = true -> body ++ [m] <> [] ->
  ((m = 39 \/ m = 104) /\ py_int body = Ok k /\ (k < 0 \/ 2147483648 <= k)) \/
  (m <> 39 /\ m <> 104 /\ py_int (body ++ [m]) = Ok k /\ (k < 0 \/ 4294967296 <= k)) ->
  sem_wallet_utils__Bip32Path__convert_hardened ext fuel [VStr (body ++ [m])] = Exc ValueError.
Proof.
  intros ext fuel body m k Ha Hne H. rewrite convert_hardened_sem by exact Ha.
  unfold convert_hardened. rewrite rev_app_distr. cbn [rev app]. rewrite rev_involutive.
  assert (Hm : match body ++ [m] with [] => IndexError | _ => ValueError end = ValueError) by (destruct body; reflexivity).
  destruct H as [[Hm1 [Hk Hr]]|[N1 [N2 [Hk Hr]]]].
  - replace ((m =? 39) || (m =? 104)) with true by (destruct Hm1; subst; reflexivity).
    rewrite Hk. cbn [bind]. replace ((0 <=? k) && (k <? 2147483648)) with false by lia. exact (f_equal Exc Hm).
  - replace ((m =? 39) || (m =? 104)) with false by lia.
    rewrite Hk. cbn [bind]. replace ((0 <=? k) && (k <? 4294967296)) with false by lia. exact (f_equal Exc Hm).
Qed.

(* ---- the whole path object at the level of the source (Proofs/PyPathObj.v): parse (with list_get's try/except, the
   constructor and integrity_check), to_list and __repr__ ---- *)

(* Bip32Path.parse: for every ASCII string the MiniPy semantics of the regenerated term returns the model's path object,
   and raises a genuine Python exception exactly where the model rejects *)
Theorem C17_source_parse_is_model : forall ext fuel s,
  ascii s = true ->
  agrees (sem_wallet_utils__Bip32Path__parse ext fuel [VStr s]) (rmap vpath (path_parse s)).
Proof. exact parse_sem. Qed.

(* str(path): the model's string, for every object whose slots hold ints or None *)
Theorem C17_source_repr_is_model : forall ext fuel a b c d e prv,
  sem_wallet_utils__Bip32Path____repr__ ext fuel [vpath5 a b c d e prv]
  = Val (VStr (path_repr {| bp_items := [a; b; c; d; e]; bp_private := prv |})).
Proof. exact repr_sem. Qed.

(* the constructor refuses a value to the right of a None (integrity_check), and builds the object otherwise *)
Theorem C17_source_constructor : forall ext fuel a b c d e prv,
  sem_wallet_utils__Bip32Path____init__ ext fuel [vopt a; vopt b; vopt c; vopt d; vopt e; VBool prv]
  = if integrity [a; b; c; d; e] false then Val (vpath5 a b c d e prv) else Exc RuntimeError.
Proof. exact init_sem. Qed.

(* clause 1 of the property on the source terms: for every index list of at most five levels over [0, 2^32) and both root
   marks, what the source of __repr__ prints is mapped back by the source of parse to the same object, whose to_list is
   the index list *)
Theorem C17_source_format_parse_id : forall ext fuel private l,
  (List.length l <= 5)%nat -> Forall (fun i => 0 <= i < 4294967296) l ->
  let obj := vpath (path_of_list private l) in
  sem_wallet_utils__Bip32Path____repr__ ext fuel [obj] = Val (VStr (path_repr (path_of_list private l))) /\
  sem_wallet_utils__Bip32Path__parse ext fuel [VStr (path_repr (path_of_list private l))] = Val obj /\
  sem_wallet_utils__Bip32Path__to_list ext fuel [obj] = Val (VList (map VInt l)).
Proof. exact source_format_parse_id. Qed.

(* malformed strings raise in the source: wrong root marker, a bad / out-of-range component in positions 1..5, an empty
   inner component (model-level theorems of Props/C17.v transported through C17_source_parse_is_model) *)
Theorem C17_source_malformed_raises : forall ext fuel s,
  ascii s = true -> path_parse s = Err ->
  exists e, sem_wallet_utils__Bip32Path__parse ext fuel [VStr s] = Exc e /\ genuine e.
Proof.
  intros ext fuel s Ha He. assert (P := parse_sem ext fuel s Ha). rewrite He in P. exact P.
Qed.

Theorem C17_source_translated :
  forallb (fun q => existsb (String.eqb q) translated)
    ["wallet_utils.Bip32Path.convert_hardened"; "wallet_utils.Bip32Path.is_hardened"; "wallet_utils.Bip32Path.is_private";
     "wallet_utils.list_get"; "wallet_utils.Bip32Path._to_list"; "wallet_utils.Bip32Path.to_list"; "wallet_utils.Bip32Path.integrity_check";
     "wallet_utils.Bip32Path.__init__"; "wallet_utils.Bip32Path.m"; "wallet_utils.Bip32Path.repr_hardened";
     "wallet_utils.Bip32Path.__repr__"; "wallet_utils.Bip32Path.parse"] = true.
Proof. reflexivity. Qed.

Print Assumptions C17_source_convert_hardened_is_model.
Print Assumptions C17_source_component_range.
Print Assumptions C17_source_out_of_range_raises.
Print Assumptions C17_source_parse_is_model.
Print Assumptions C17_source_repr_is_model.
Print Assumptions C17_source_constructor.
Print Assumptions C17_source_format_parse_id.
Print Assumptions C17_source_malformed_raises.
Print Assumptions C17_source_translated.
