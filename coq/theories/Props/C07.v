(* C07 -- Extended keys round-trip through serialisation for all fields and 12 versions. *)
From BHW Require Import Lib.Base Lib.ListAux Model.Helper Model.Keys Model.Bip32M Model.WalletUtils Model.BaseWallet
  Spec.Curve Spec.Bip32 Spec.Slip132 Proofs.Base58 Proofs.Bip32 Proofs.ExtKey Proofs.Endian.
From BHWGen Require Import Consts.

(* ---- the twelve version constants (finite, by computation over the regenerated tables) ---- *)
Theorem C07_version_table_is_slip132 :
  forall e, In e slip132 -> version_int (fst (fst (fst e))) (snd (fst (fst e))) (snd (fst e)) = Ok (snd e).
Proof.
  intros e He. repeat (destruct He as [<-|He]; [vm_compute; reflexivity|]). destruct He.
Qed.

Theorem C07_version_parse_inverse :
  forall e, In e slip132 -> version_parse (snd e) = Ok (fst e).
Proof.
  intros e He. repeat (destruct He as [<-|He]; [vm_compute; reflexivity|]). destruct He.
Qed.

Theorem C07_versions_distinct : NoDup (map snd slip132) /\ length slip132 = 12%nat.
Proof. split; [apply nodupb_spec; vm_compute; reflexivity|reflexivity]. Qed.

Theorem C07_unknown_version_rejected : forall v, ~ In v (map snd slip132) -> version_parse v = Err.
Proof.
  intros v H. unfold version_parse.
  destruct (valid_version v) eqn:E; [|reflexivity]. exfalso. apply H.
  unfold valid_version in E. apply memb_spec in E. revert E. vm_compute. tauto.
Qed.

Theorem C07_versions_give_111_chars : forall e, In e slip132 -> version_bounds_ok (snd e) = true.
Proof.
  intros e He. repeat (destruct He as [<-|He]; [vm_compute; reflexivity|]). destruct He.
Qed.

Section C07.
Variable C : curve.
Hypothesis laws : curve_laws C.
Hypothesis order_eq : order C = CURVE_ORDER.
Variable hmac512 : bytes -> bytes -> bytes.
Variable hash160 : bytes -> bytes.
Hypothesis hmac_len : forall k d, length (hmac512 k d) = 64%nat.
Hypothesis hmac_wf : forall k d, wf_bytes (hmac512 k d).
Hypothesis hash160_len : forall x, length (hash160 x) = 20%nat.
Variable sha256 : bytes -> bytes.
Hypothesis sha256_len : forall x, length (sha256 x) = 32%nat.
Hypothesis sha256_wf : forall x, wf_bytes (sha256 x).
Notation A := BASE58_ALPHABET.

(* private nodes: every field survives; the parsed node re-serialises to the same 78 bytes *)
Theorem C07_prv_roundtrip : forall nd v fpr t,
  valid_prv nd -> fields_ok C hash160 nd v fpr ->
  exists b nd', serialize_private C hash160 nd (Some v) = Ok b /\ length b = 78%nat /\
    parse_bytes true b t = nd' /\
    nkey nd' = 0 :: key32 nd /\ nchain nd' = nchain nd /\ ndepth nd' = ndepth nd /\ nindex nd' = nindex nd /\
    ntestnet nd' = t /\ nparsed_version nd' = Some v /\ parent_fingerprint C hash160 nd' = Ok fpr /\
    valid_prv nd' /\ scalar nd' = scalar nd /\
    serialize_private C hash160 nd' (Some v) = Ok b.
Proof. exact (prv_roundtrip C laws order_eq hmac512 hash160 hmac_len hmac_wf hash160_len). Qed.

Theorem C07_pub_roundtrip : forall pn K v fpr t,
  valid_pub C pn K -> fields_ok C hash160 pn v fpr ->
  exists b nd', serialize_public C hash160 pn (Some v) = Ok b /\ length b = 78%nat /\
    parse_bytes false b t = nd' /\
    nkey nd' = ser_c C K /\ nchain nd' = nchain pn /\ ndepth nd' = ndepth pn /\ nindex nd' = nindex pn /\
    ntestnet nd' = t /\ nparsed_version nd' = Some v /\ parent_fingerprint C hash160 nd' = Ok fpr /\
    serialize_public C hash160 nd' (Some v) = Ok b.
Proof. exact (pub_roundtrip C laws order_eq hmac512 hash160 hmac_len hmac_wf hash160_len). Qed.

(* through the Base58Check string: parsing the printed string yields the parse of the 78 bytes *)
Theorem C07_string_roundtrip : forall prv b t, wf_bytes b ->
  exists s, encode_base58_checksum A sha256 b = Ok s /\ parse_str A sha256 prv s t = Ok (parse_bytes prv b t).
Proof.
  intros prv b t Hw.
  destruct (decode_encode_checksum A sha256 eq_refl ltac:(apply nodupb_spec; vm_compute; reflexivity) eq_refl sha256_len sha256_wf b Hw)
    as [s [He Hd]].
  exists s. split; [exact He|]. unfold parse_str. rewrite Hd. reflexivity.
Qed.

(* the string has exactly 111 characters when the version is one of the twelve *)
Theorem C07_string_length_111 : forall b,
  wf_bytes b -> length b = 78%nat -> version_bounds_ok (be2z (firstn 4 b)) = true ->
  exists s, encode_base58_checksum A sha256 b = Ok s /\ length s = 111%nat.
Proof.
  intros b Hw Hl Hv. unfold encode_base58_checksum.
  apply (b58_length_111 A); [reflexivity| | |].
  - apply wf_app. split; [exact Hw|]. apply Forall_firstn. apply sha256_wf.
  - rewrite app_length, Hl. unfold take, hash256. rewrite firstn_length, sha256_len. reflexivity.
  - rewrite firstn_app, Hl. cbn [Nat.sub firstn]. rewrite app_nil_r. exact Hv.
Qed.

(* a wallet cannot be built from an unknown version *)
Theorem C07_from_extended_key_unknown : forall s n0,
  parse_str A sha256 true s false = Ok n0 ->
  (forall v, nparsed_version n0 = Some v -> ~ In v (map snd slip132)) ->
  from_extended_key A sha256 s = Err.
Proof.
  intros s n0 Hp Hv. unfold from_extended_key. rewrite Hp. cbn [bind].
  destruct (nparsed_version n0) as [v|]; cbn [of_option bind]; [|reflexivity].
  rewrite C07_unknown_version_rejected by (apply Hv; reflexivity). reflexivity.
Qed.

(* an extended public key is a function of the public view only; its key field is a compressed point *)
Theorem C07_xpub_public_only : forall nd pn K v fpr,
  valid_prv nd -> G_mul C (scalar nd) = Some K -> fields_ok C hash160 nd v fpr ->
  valid_pub C pn K -> fields_ok C hash160 pn v fpr ->
  nchain pn = nchain nd -> ndepth pn = ndepth nd -> nindex pn = nindex nd ->
  serialize_public C hash160 nd (Some v) = serialize_public C hash160 pn (Some v) /\
  exists b tag r, serialize_public C hash160 nd (Some v) = Ok b /\ skipn 45 b = tag :: r /\ (tag = 2 \/ tag = 3).
Proof. exact (xpub_public_only C laws order_eq hmac512 hash160 hmac_len hmac_wf hash160_len). Qed.

Theorem C07_master_serialization : forall nd v b,
  is_master nd = true -> valid_prv nd -> 0 <= v < 4294967296 ->
  serialize_private C hash160 nd (Some v) = Ok b ->
  firstn 9 (skipn 4 b) = [0; 0;0;0;0; 0;0;0;0].
Proof. exact (master_serialization C laws order_eq hmac512 hash160 hmac_len hmac_wf hash160_len). Qed.
End C07.

Print Assumptions C07_version_table_is_slip132.
Print Assumptions C07_version_parse_inverse.
Print Assumptions C07_unknown_version_rejected.
Print Assumptions C07_prv_roundtrip.
Print Assumptions C07_pub_roundtrip.
Print Assumptions C07_string_roundtrip.
Print Assumptions C07_string_length_111.
Print Assumptions C07_from_extended_key_unknown.
Print Assumptions C07_xpub_public_only.
Print Assumptions C07_master_serialization.
