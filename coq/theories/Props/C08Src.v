(* C08 at the level of the SOURCE (method: Props/C11Src.v): bip39.mnemonic_from_entropy_bits, the one function through which a
   fresh wallet draws its entropy.  random.getrandbits(k) of the module-level object `random = random.SystemRandom()` (that
   binding is pinned: extern_ok_bip39__random__getrandbits) is an external primitive.
   - whatever integer the generator answers, the MiniPy semantics of the regenerated term returns the BIP39 sentence (source of
     mnemonic_from_entropy) of exactly int_to_big_endian(answer, bits/8): the function has no other input, no bit is masked,
     shifted or replaced, and sizes outside 128/160/192/224/256 are refused;
   - with CPython's SystemRandom.getrandbits (Model/Rng.v: ceil(k/8) OS bytes, shifted right by the excess) that is the model
     of Props/C08.v, hence the sentence encodes exactly the bytes the OS answered. *)
From BHW Require Import Lib.Base Lib.ListAux Model.Helper Model.Bip39M Model.Bip85M Model.Rng Py.Interp Py.Tactics Proofs.PyRng Proofs.Rng.
From BHWGen Require Import Consts PyAst.
Open Scope string_scope.
Open Scope Z_scope.
Open Scope list_scope.

Section C08Src.
Variable sha256 : bytes -> bytes.
Hypothesis sha256_wf : forall x, wf_bytes (sha256 x).
Hypothesis sha256_len : forall x, List.length (sha256 x) = 32%nat.
Variable ext : fenv_t.
Hypothesis ext_sha256 :
  ext "helper.sha256" = Some (fun args => match args with [VBytes b] => Val (VBytes (sha256 b)) | _ => Exc TypeError end).

Theorem C08_source_any_answer : forall (rnd : Z -> Z),
  ext "bip39.random.getrandbits" = Some (fun args => match args with [VInt k] => Val (VInt (rnd k)) | _ => Exc TypeError end) ->
  forall fuel bits,
  agrees (sem_bip39__mnemonic_from_entropy_bits ext fuel [VInt bits])
         (rmap VStr (if negb (memb bits CORRECT_ENTROPY_BITS) then Err else
                     do eb <- int_to_big_endian (rnd bits) (Z.to_nat (bits / 8));
                     Bip39M.mnemonic_from_entropy sha256 (hexstr eb))).
Proof. intros rnd Hr fuel bits. exact (mnemonic_from_entropy_bits_sem rnd sha256 sha256_wf sha256_len ext Hr ext_sha256 fuel bits). Qed.

Variable urandom : nat -> bytes.
Hypothesis ext_rng :
  ext "bip39.random.getrandbits"
  = Some (fun args => match args with [VInt k] => Val (VInt (getrandbits k (urandom (request_bytes k)))) | _ => Exc TypeError end).

Theorem C08_source_entropy_bits_is_model : forall fuel bits,
  agrees (sem_bip39__mnemonic_from_entropy_bits ext fuel [VInt bits]) (rmap VStr (mnemonic_from_entropy_bits sha256 urandom bits)).
Proof.
  intros fuel bits.
  exact (mnemonic_from_entropy_bits_sem (fun k => getrandbits k (urandom (request_bytes k))) sha256 sha256_wf sha256_len ext ext_rng ext_sha256 fuel bits).
Qed.
End C08Src.

Theorem C08_source_translated :
  forallb (fun q => existsb (String.eqb q) translated)
    ["bip39.mnemonic_from_entropy_bits"; "bip39.mnemonic_from_entropy"; "bip39.correct_entropy_bits_value"; "helper.int_to_big_endian"] = true /\
  extern_ok_bip39__random__getrandbits = true.
Proof. split; reflexivity. Qed.

Print Assumptions C08_source_any_answer.
Print Assumptions C08_source_entropy_bits_is_model.
Print Assumptions C08_source_translated.
