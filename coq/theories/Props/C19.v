(* C19 -- Script and varint wire encodings round-trip with standard minimal pushes.
   Statements only; proofs are `exact <lemma>` from Proofs/Script.v and Proofs/Varint.v.
   The model is of the repaired code (fix: commits for 75-byte pushes and short reads). *)
From BHW Require Import Lib.Base Model.Helper Model.ScriptM Spec.Script Proofs.Varint Proofs.Script.

(* 1. serialise then parse returns the same script (any trailing bytes are left unread) *)
Theorem C19_parse_serialize : forall cmds bs rest,
  Forall wf_cmd cmds -> serialize cmds = Ok bs ->
  exists s', parse (mkstream (bs ++ rest)) = Ok (cmds, s') /\ spos s' = length bs /\ sremaining s' = rest.
Proof. exact parse_serialize. Qed.

(* 2. the bytes are the standard ones: bare length byte 1..75, PUSHDATA1 76..255,
      PUSHDATA2 256..520 (Spec.Script.push), for every element and every script *)
Theorem C19_push_form : forall d, (1 <= length d)%nat ->
  ser_cmd (Data d) = match push d with Some b => Ok b | None => Err end.
Proof. exact push_form. Qed.

Theorem C19_serialize_is_spec : forall cmds,
  Forall (fun c => match c with Data d => (1 <= length d)%nat | _ => True end) cmds ->
  serialize cmds = match script_wire (map to_item cmds) with Some b => Ok b | None => Err end.
Proof. exact serialize_spec. Qed.

(* 3. elements over 520 bytes are refused *)
Theorem C19_too_long_refused : forall cmds d,
  In (Data d) cmds -> (520 < length d)%nat -> raw_serialize cmds = Err /\ serialize cmds = Err.
Proof. exact too_long_refused_script. Qed.

(* 4. an accepted parse accounts for exactly the declared number of bytes, all of them present *)
Theorem C19_parse_accounts : forall b cmds s',
  wf_bytes b -> parse (mkstream b) = Ok (cmds, s') ->
  exists len s1, read_varint (mkstream b) = Ok (len, s1) /\
    Z.of_nat (spos s') = Z.of_nat (spos s1) + len /\ (spos s' <= length b)%nat.
Proof. exact parse_accounts. Qed.

(* 5. input that ends early is never accepted: every proper prefix of a valid serialisation fails *)
Theorem C19_truncation_rejected : forall cmds bs k,
  Forall wf_cmd cmds -> serialize cmds = Ok bs -> (k < length bs)%nat ->
  parse_bytes (firstn k bs) = Err.
Proof. exact truncation_rejected. Qed.

(* 6. varints: round trip below 2^64, shortest standard form (= Spec.compact_size), refusal otherwise *)
Theorem C19_varint_roundtrip : forall i s rest,
  0 <= i < 18446744073709551616 ->
  exists e, encode_varint i = Ok e /\ length e = varint_len i /\ wf_bytes e /\
    (sremaining s = e ++ rest ->
     read_varint s = Ok (i, {| sdata := sdata s; spos := spos s + length e |}) /\
     sremaining {| sdata := sdata s; spos := spos s + length e |} = rest).
Proof. exact varint_roundtrip. Qed.

Theorem C19_varint_shortest : forall i,
  encode_varint i = match compact_size i with Some b => Ok b | None => Err end.
Proof. exact encode_varint_spec. Qed.

Theorem C19_varint_refuses : forall i, i < 0 \/ 18446744073709551616 <= i -> encode_varint i = Err.
Proof. exact varint_refuses. Qed.

(* non-vacuity: a concrete three-command script meets the hypotheses and round-trips *)
Example wf_example : Forall wf_cmd [Op 118; Data (repeat 7 75); Op 172].
Proof.
  constructor; [right; lia|]. constructor; [|constructor; [right; lia|constructor]].
  split; [rewrite repeat_length; lia|].
  apply Forall_forall. intros x Hx. apply repeat_spec in Hx. subst. unfold byte_ok. lia.
Qed.
Example roundtrip_example :
  bind (serialize [Op 118; Data (repeat 7 75); Op 172]) parse_bytes = Ok [Op 118; Data (repeat 7 75); Op 172].
Proof. vm_compute. reflexivity. Qed.
Example truncated_example : parse_bytes [5; 4; 170] = Err.
Proof. vm_compute. reflexivity. Qed.

Print Assumptions C19_parse_serialize.
Print Assumptions C19_push_form.
Print Assumptions C19_serialize_is_spec.
Print Assumptions C19_too_long_refused.
Print Assumptions C19_parse_accounts.
Print Assumptions C19_truncation_rejected.
Print Assumptions C19_varint_roundtrip.
Print Assumptions C19_varint_shortest.
Print Assumptions C19_varint_refuses.
