(* C15 -- Paranoia mode output contains no secret and leaves public data unchanged.
   Theorems about paranoia_mode on ARBITRARY trees (so they also say what a future extra field would do). *)
From BHW Require Import Lib.Base Lib.ListAux Model.Helper Model.PaperWallet Proofs.Wallet.
From Coq Require String.
Import String.StringSyntax.

(* only whitelisted top-level keys survive, in their original order: MASTER, BIP85 and any new key are dropped *)
Theorem C15_paranoia_keys : forall kv out,
  paranoia_items kv = Ok out -> map fst out = filter whitelisted (map fst kv).
Proof. exact paranoia_items_keys. Qed.

(* a kept section consists of exactly: the original path, the original pub, and every row minus its last element *)
Theorem C15_paranoia_section_shape : forall v s,
  paranoia_section v = Ok s ->
  exists aek path pub gs gs',
    tget (k "account_extended_keys") v = Ok aek /\ tget (k "path") aek = Ok path /\ tget (k "pub") aek = Ok pub /\
    s = TDict [(k "account_extended_keys", TDict [(k "path", path); (k "pub", pub)]); (k "groups", TList gs')] /\
    ((tget (k "groups") v = Ok (TList gs) /\ Forall2 (fun g g' => strip_last g = Ok g') gs gs') \/
     (exists kv, tget (k "groups") v = Ok (TDict kv) /\ gs' = [])).
Proof. exact paranoia_section_shape. Qed.

(* non-interference: the filtered section is a function of (path, pub, rows without their last column) alone;
   "prv", extra fields and the last column cannot influence it *)
Theorem C15_paranoia_noninterference : forall v1 v2,
  section_view v1 = section_view v2 -> paranoia_section v1 = paranoia_section v2.
Proof. exact paranoia_noninterference. Qed.

(* on a wallet row [path; address; sec; wif] exactly the WIF column disappears (C06_row_shape gives the layout) *)
Theorem C15_strip_last_row : forall a b c d, strip_last (TList [a; b; c; d]) = Ok (TList [a; b; c]).
Proof. exact strip_last_row. Qed.

Print Assumptions C15_paranoia_keys.
Print Assumptions C15_paranoia_section_shape.
Print Assumptions C15_paranoia_noninterference.
Print Assumptions C15_strip_last_row.
