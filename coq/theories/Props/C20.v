(* C20 -- CLI: bad arguments yield no wallet output; good ones equal the API result.   PARTIAL
   Proved: the eight validators are sound, accepted account/interval values give BIP44-shaped rows (model of the
   repaired main(), D6), vectors naming an existing file / a directory / an unwritable parent, or no sub-command,
   are refused.  Outside the model: argparse tokenisation and exit plumbing, the wiring of main() to the library
   (decided by the in-process and subprocess correspondence: stdout/file content = API result), and the
   check-then-open race on --file (a concurrent creator cannot be exhibited by this model). *)
From BHW Require Import Lib.Base Lib.ListAux Model.Helper Model.WalletUtils Model.PaperWallet Model.Cli Proofs.Cli.

Theorem C20_validators_sound :
  (forall s v, address_index s = Ok v -> 0 <= v < 4294967295) /\
  (forall s v, account_index s = Ok v -> 0 <= v < 2147483647) /\
  (forall s v, extended_key s = Ok v -> v = s /\ length s = 111%nat) /\
  (forall s v, bip39_seed s = Ok v -> v = s /\ length s = 128%nat) /\
  (forall s v, entropy_hex s = Ok v -> v = s /\ In (Z.of_nat (length s) * 4) [128; 160; 192; 224; 256]) /\
  (forall s v, mnemonic s = Ok v -> In (Z.of_nat (length (split_on 32 s []))) [12; 15; 18; 21; 24]).
Proof. exact validators_sound. Qed.

Theorem C20_accepted_rows_bip44_shaped : forall a account lo hi,
  accepts a = Ok (account, lo, hi) ->
  0 <= account < 2147483647 /\ 0 <= lo /\ hi <= 2147483648 /\
  (forall purpose w, 0 <= purpose -> Forall (fun c => 2147483648 <= c) (account_path purpose w account)) /\
  (forall i, In i (zrange lo hi) -> 0 <= i < 2147483648).
Proof. exact accepted_rows_bip44_shaped. Qed.

Theorem C20_existing_file_refused : forall a v,
  a_file a = Some v -> exists_ v = true \/ is_dir v = true \/ parent_writable v = false -> accepts a = Err.
Proof. exact existing_file_refused. Qed.

Theorem C20_no_command_refused : forall a, a_command a = 0 -> accepts a = Err.
Proof. exact no_command_refused. Qed.

Print Assumptions C20_validators_sound.
Print Assumptions C20_accepted_rows_bip44_shaped.
Print Assumptions C20_existing_file_refused.
Print Assumptions C20_no_command_refused.
