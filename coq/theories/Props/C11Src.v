(* C11 at the level of the SOURCE: the statements below are about `sem_bech32__*`, the MiniPy semantics
   (Py/Interp.v) of the terms that harness/pytrans.py regenerates from /repo/btc_hd_wallet/bech32.py on every run
   (gen/PyAst.v).  They are obtained from the model-level theorems of Props/C11.v through Proofs/PyBech32.v and
   Proofs/PyConvertbits.v (source semantics = model, for every input).  `ext` (the external primitives; bech32.py uses
   none) and the fuel of the inner `while` of convertbits (>= 3) are universally quantified.
   A change to bech32.py changes the regenerated terms and these proofs are re-checked against them. *)
From BHW Require Import Lib.Base Lib.ListAux Model.Helper Model.Bech32M Spec.Bech32 Proofs.Bech32 Proofs.Convertbits
  Proofs.Bech32RT Proofs.Bech32BCH Proofs.Bech32Detect Py.Interp Py.Tactics Proofs.PyBech32 Proofs.PyConvertbits.
From BHWGen Require Import Consts PyAst.
Open Scope string_scope.
Open Scope Z_scope.

Lemma vints_inj a b : vints a = vints b -> a = b.
Proof.
  unfold vints. intros H. inversion H as [H1]. clear H. revert b H1.
  induction a as [|x a IH]; intros [|y b] H; cbn in H; try discriminate; [reflexivity|].
  inversion H. f_equal. apply IH. assumption.
Qed.

Lemma vaddr_some o v prog : vaddr o = VTuple [VInt v; vints prog] -> o = Some (v, prog).
Proof.
  destruct o as [[v' p']|]; cbn; intros H; [|discriminate].
  inversion H as [[H1 H2]]. assert (H3 : vints p' = vints prog) by (unfold vints; rewrite H2; reflexivity).
  apply vints_inj in H3. subst. reflexivity.
Qed.

(* 1. every function of bech32.py: the semantics of its current source text is the model's function *)
Theorem C11_source_is_model : forall ext f,
  (forall l, sem_bech32__bech32_polymod ext f [vints l] = Val (VInt (bech32_polymod l))) /\
  (forall hrp, sem_bech32__bech32_hrp_expand ext f [vstr hrp] = Val (vints (bech32_hrp_expand hrp))) /\
  (forall hrp data, sem_bech32__bech32_verify_checksum ext f [vstr hrp; vints data] = Val (vopt venc (bech32_verify_checksum hrp data))) /\
  (forall hrp data spec, sem_bech32__bech32_create_checksum ext f [vstr hrp; vints data; venc spec] = Val (vints (bech32_create_checksum hrp data spec))) /\
  (forall hrp data spec, sem_bech32__bech32_encode ext f [vstr hrp; vints data; venc spec]
                         = match bech32_encode hrp data spec with Ok s => Val (vstr s) | Err => Exc IndexError end) /\
  (forall s, sem_bech32__bech32_decode ext f [vstr s] = Val (vdecoded (bech32_decode s))) /\
  (forall data, sem_bech32__convertbits ext (S (S (S f))) [vints data; VInt 8; VInt 5; VBool true] = Val (vopt vints (convertbits data 8 5 true))) /\
  (forall data, sem_bech32__convertbits ext (S (S (S f))) [vints data; VInt 5; VInt 8; VBool false] = Val (vopt vints (convertbits data 5 8 false))) /\
  (forall hrp s, sem_bech32__decode ext (S (S (S f))) [vstr hrp; vstr s] = Val (vaddr (decode hrp s))) /\
  (forall hrp v prog, agrees (sem_bech32__encode ext (S (S (S f))) [vstr hrp; VInt v; vints prog]) (rmap (vopt vstr) (encode hrp v prog))) /\
  (forall hrp v prog, agrees (sem_bech32__encode ext (S (S (S f))) [vstr hrp; VInt v; VBytes prog]) (rmap (vopt vstr) (encode hrp v prog))).
Proof.
  intros ext f. repeat split; intros.
  - apply polymod_sem. - apply hrp_expand_sem. - apply verify_checksum_sem. - apply create_checksum_sem.
  - apply bech32_encode_sem. - apply bech32_decode_sem. - apply convertbits_8_5_sem. - apply convertbits_5_8_sem.
  - apply decode_sem. - apply encode_sem_gen; reflexivity. - apply encode_sem_gen; reflexivity.
Qed.

(* 2. round trip through the source of encode and decode *)
Theorem C11_source_decode_encode : forall ext f hrp v prog,
  hrp <> [] -> hrp_lower hrp -> (List.length hrp <= 18)%nat ->
  Spec.Bech32.legal v (List.length prog) = true -> wf_bytes prog ->
  exists s, sem_bech32__encode ext (S (S (S f))) [vstr hrp; VInt v; VBytes prog] = Val (vstr s) /\
            sem_bech32__decode ext (S (S (S f))) [vstr hrp; vstr s] = Val (VTuple [VInt v; vints prog]).
Proof.
  intros ext f hrp v prog H1 H2 H3 H4 H5.
  destruct (decode_encode hrp v prog H1 H2 H3 H4 H5) as (s & E & D).
  exists s. split.
  - assert (A := encode_sem_gen ext f hrp v (VBytes prog) prog eq_refl). rewrite E in A. exact A.
  - rewrite decode_sem, D. reflexivity.
Qed.

(* 3. the source of decode accepts only what the source of encode emits *)
Theorem C11_source_decode_sound : forall ext f hrp s v prog,
  sem_bech32__decode ext (S (S (S f))) [vstr hrp; vstr s] = Val (VTuple [VInt v; vints prog]) ->
  Spec.Bech32.legal v (List.length prog) = true /\ wf_bytes prog /\ (List.length s <= 90)%nat /\
  (map lower_c s = s \/ map upper_c s = s) /\
  sem_bech32__encode ext (S (S (S f))) [vstr hrp; VInt v; VBytes prog] = Val (vstr (map lower_c s)).
Proof.
  intros ext f hrp s v prog H. rewrite decode_sem in H. inversion H as [H0]. apply vaddr_some in H0.
  destruct (decode_sound hrp s v prog H0) as (L & W & N & C & E).
  repeat split; try assumption.
  assert (A := encode_sem_gen ext f hrp v (VBytes prog) prog eq_refl). rewrite E in A. exact A.
Qed.

(* 4. up to three substituted characters: the source of decode returns (None, None) *)
Theorem C11_source_substitution_refused : forall ext f hrp s v prog s',
  sem_bech32__decode ext (S (S (S f))) [vstr hrp; vstr s] = Val (VTuple [VInt v; vints prog]) ->
  List.length s' = List.length s ->
  (1 <= hamming (map lower_c s) (map lower_c s') <= 3)%nat ->
  sem_bech32__decode ext (S (S (S f))) [vstr hrp; vstr s'] = Val (VTuple [VNone; VNone]).
Proof.
  intros ext f hrp s v prog s' H L K. rewrite decode_sem in H. inversion H as [H0]. apply vaddr_some in H0.
  rewrite decode_sem, (substitution_refused hrp s v prog s' H0 L K). reflexivity.
Qed.

(* 5. mixed case, over-long strings: refused by the source of decode *)
Theorem C11_source_rejects : forall ext f hrp s,
  ((map lower_c s <> s /\ map upper_c s <> s) \/ (90 < List.length s)%nat) ->
  sem_bech32__decode ext (S (S (S f))) [vstr hrp; vstr s] = Val (VTuple [VNone; VNone]).
Proof.
  intros ext f hrp s [[A B]|A]; rewrite decode_sem.
  - rewrite (decode_rejects_mixed_case hrp s A B). reflexivity.
  - rewrite (decode_rejects_long hrp s A). reflexivity.
Qed.

(* the translator reported every function of bech32.py as translated (none was replaced by `raise Unmodelled`) *)
Theorem C11_source_all_translated : untranslatable = [].
Proof. reflexivity. Qed.

Print Assumptions C11_source_is_model.
Print Assumptions C11_source_decode_encode.
Print Assumptions C11_source_decode_sound.
Print Assumptions C11_source_substitution_refused.
Print Assumptions C11_source_rejects.
Print Assumptions C11_source_all_translated.
