(* C18 -- Invalid children are reported, never returned.  The theorems quantify over the
   HMAC function: every PRF output, including IL = n, n+1, 2^256-1, n - k_par, is covered. *)
From BHW Require Import Lib.Base Model.Helper Model.Keys Model.Bip32M Spec.Curve Spec.Bip32
  Proofs.Bip32 Proofs.Endian.
From BHWGen Require Import Consts.

Section C18.
Variable C : curve.
Hypothesis laws : curve_laws C.
Hypothesis order_eq : order C = CURVE_ORDER.
Variable hmac512 : bytes -> bytes -> bytes.
Variable hash160 : bytes -> bytes.
Hypothesis hmac_len : forall k d, length (hmac512 k d) = 64%nat.
Hypothesis hmac_wf : forall k d, wf_bytes (hmac512 k d).
Hypothesis hash160_len : forall x, length (hash160 x) = 20%nat.

(* private derivation raises exactly when BIP32 says the child is invalid
   (IL >= n, or (IL + k_par) mod n = 0) -- never a reduced IL, never a zero key *)
Theorem C18_ckd_prv_invalid_iff : forall nd i fpr,
  valid_prv nd -> 0 <= i < 4294967296 ->
  (ckd_prv C hmac512 nd i = Err <-> CKDpriv C hmac512 hash160 (abs_prv nd fpr) i = None).
Proof. exact (ckd_prv_invalid_iff C laws order_eq hmac512 hash160 hmac_len hmac_wf hash160_len). Qed.

(* master key: raises exactly when IL = 0 or IL >= n *)
Theorem C18_master_key_spec : forall seed sk t,
  match master C hmac512 seed sk with
  | Some x => exists nd, master_key hmac512 seed sk t = Ok nd /\ valid_prv nd /\
                         parent_fingerprint C hash160 nd = Ok [0;0;0;0] /\ abs_prv nd [0;0;0;0] = x /\
                         is_master nd = true /\ ntestnet nd = t
  | None => master_key hmac512 seed sk t = Err
  end.
Proof. exact (master_key_spec C laws order_eq hmac512 hash160 hmac_len hmac_wf hash160_len). Qed.

(* public derivation: refuses IL >= n and the point at infinity (and, spuriously but
   safely, IL = 0); whenever the private side refuses, the public side refuses too *)
Theorem C18_ckd_pub_never_returns_invalid : forall nd pn K i,
  valid_prv nd -> pub_of C nd pn K -> 0 <= i < 2147483648 ->
  ckd_prv C hmac512 nd i = Err -> ckd_pub C hmac512 pn i = Err.
Proof.
  intros nd pn K i Hv Hp Hi He.
  pose proof (ckd_pub_priv_agree C laws order_eq hmac512 hash160 hmac_len hmac_wf hash160_len nd pn K i Hv Hp Hi) as H.
  cbv zeta in H. rewrite He in H. exact H.
Qed.
End C18.

Print Assumptions C18_ckd_prv_invalid_iff.
Print Assumptions C18_master_key_spec.
Print Assumptions C18_ckd_pub_never_returns_invalid.
