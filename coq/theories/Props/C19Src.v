(* C19 at the level of the SOURCE (see Props/C11Src.v for the method): the MiniPy semantics of the regenerated terms of
   helper.encode_varint / int_to_little_endian / little_endian_to_int equals the model, hence the Spec. *)
From BHW Require Import Lib.Base Model.Helper Spec.Script Proofs.Varint Py.Interp Py.Tactics Proofs.PyHelper.
From BHWGen Require Import PyAst.
Open Scope Z_scope.

(* the source of encode_varint emits exactly Bitcoin's compactSize, and raises outside [0, 2^64) *)
Theorem C19_source_varint_is_compact_size : forall ext fuel i,
  sem_helper__encode_varint ext fuel [VInt i]
  = match compact_size i with
    | Some b => Val (VBytes b)
    | None => Exc (if i <? 0 then OverflowError else ValueError)
    end.
Proof.
  intros ext fuel i. rewrite encode_varint_sem, encode_varint_spec.
  destruct (compact_size i); reflexivity.
Qed.

Theorem C19_source_endian : forall ext fuel,
  (forall b, sem_helper__little_endian_to_int ext fuel [VBytes b] = Val (VInt (little_endian_to_int b))) /\
  (forall n (len : nat), sem_helper__int_to_little_endian ext fuel [VInt n; VInt (Z.of_nat len)]
                         = match int_to_little_endian n len with Ok b => Val (VBytes b) | Err => Exc OverflowError end).
Proof. intros. split; intros; [apply le2int_sem|apply int2le_sem]. Qed.

Theorem C19_source_all_translated :
  forallb (fun q => existsb (String.eqb q) translated)
          ["helper.encode_varint"; "helper.int_to_little_endian"; "helper.little_endian_to_int"]%string = true.
Proof. reflexivity. Qed.

Print Assumptions C19_source_varint_is_compact_size.
Print Assumptions C19_source_endian.
Print Assumptions C19_source_all_translated.
