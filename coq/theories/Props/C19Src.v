(* C19 at the level of the SOURCE (see Props/C11Src.v for the method): the MiniPy semantics of the regenerated terms of
   helper.encode_varint / int_to_little_endian / little_endian_to_int equals the model, hence the Spec. *)
From BHW Require Import Lib.Base Model.Helper Model.ScriptM Spec.Script Proofs.Varint Proofs.Script Py.Interp Py.Tactics Proofs.PyHelper Proofs.PyScript.
From BHWGen Require Import PyAst.
Open Scope Z_scope.
Open Scope list_scope.

(* the source of encode_varint emits exactly Bitcoin's compactSize, and raises outside [0, 2^64) *)
Theorem C19_source_varint_is_compact_size : forall ext fuel i,
  sem_helper__encode_varint ext fuel [VInt i]
  = match compact_size i with
    | Some b => Val (VBytes b)
    | None => Exc (if i <? 0 then OverflowError else ValueError)
    end.
Proof.
  intros ext fuel i. rewrite encode_varint_sem, encode_varint_spec.
  destruct (compact_size i); reflexivity.
Qed.

Theorem C19_source_endian : forall ext fuel,
  (forall b, sem_helper__little_endian_to_int ext fuel [VBytes b] = Val (VInt (little_endian_to_int b))) /\
  (forall n (len : nat), sem_helper__int_to_little_endian ext fuel [VInt n; VInt (Z.of_nat len)]
                         = match int_to_little_endian n len with Ok b => Val (VBytes b) | Err => Exc OverflowError end).
Proof. intros. split; intros; [apply le2int_sem|apply int2le_sem]. Qed.

(* Script.serialize / raw_serialize (methods; the object is a value whose field `cmds` is only read): the semantics of the
   regenerated terms is the model's function -- value, or a genuine Python exception where the model refuses *)
Theorem C19_source_serialize_is_model : forall ext fuel cmds,
  agrees (sem_script__Script__raw_serialize ext fuel [vscript cmds]) (rmap VBytes (raw_serialize cmds)) /\
  agrees (sem_script__Script__serialize ext fuel [vscript cmds]) (rmap VBytes (serialize cmds)).
Proof. intros. split; [apply raw_serialize_sem|apply serialize_sem]. Qed.

(* hence the source emits the standard wire form (bare length byte 1..75, PUSHDATA1 76..255, PUSHDATA2 256..520, compactSize
   prefix) for every script of opcodes and non-empty elements, and raises when the Spec has no encoding *)
Theorem C19_source_serialize_is_spec : forall ext fuel cmds,
  Forall (fun c => match c with Data d => (1 <= List.length d)%nat | _ => True end) cmds ->
  match script_wire (map to_item cmds) with
  | Some b => sem_script__Script__serialize ext fuel [vscript cmds] = Val (VBytes b)
  | None => exists e, sem_script__Script__serialize ext fuel [vscript cmds] = Exc e /\ genuine e
  end.
Proof.
  intros ext fuel cmds H. assert (A := serialize_sem ext fuel cmds). rewrite (serialize_spec cmds H) in A.
  destruct (script_wire (map to_item cmds)); exact A.
Qed.

(* an element over 520 bytes anywhere in the script: the source raises *)
Theorem C19_source_too_long_refused : forall ext fuel cmds d,
  In (Data d) cmds -> (520 < List.length d)%nat ->
  exists e, sem_script__Script__serialize ext fuel [vscript cmds] = Exc e /\ genuine e.
Proof.
  intros ext fuel cmds d Hin Hl. assert (A := serialize_sem ext fuel cmds).
  destruct (too_long_refused_script cmds d Hin Hl) as [_ E]. rewrite E in A. exact A.
Qed.

Theorem C19_source_all_translated :
  forallb (fun q => existsb (String.eqb q) translated)
          ["helper.encode_varint"; "helper.int_to_little_endian"; "helper.little_endian_to_int";
           "script.Script.raw_serialize"; "script.Script.serialize"]%string = true.
Proof. reflexivity. Qed.

Print Assumptions C19_source_varint_is_compact_size.
Print Assumptions C19_source_endian.
Print Assumptions C19_source_serialize_is_model.
Print Assumptions C19_source_serialize_is_spec.
Print Assumptions C19_source_too_long_refused.
Print Assumptions C19_source_all_translated.
