(* C17: structure premise of the models this property's theorems are about (Proofs/StructureP.v):
   the listed modules of /repo, as they are NOW, have no state, decorator, override or field beyond the pinned ones. *)
From Coq Require Import List String.
Import ListNotations.
From BHW Require Import Proofs.StructureP.
Open Scope string_scope.

Theorem C17_structure : structure_ok ["wallet_utils"; "base_wallet"; "bip85"; "bip32"] = true.
Proof. vm_compute. reflexivity. Qed.

Print Assumptions C17_structure.
