(* C12 -- BIP85 child secrets equal the specified derivation for every app and index.
   (index handling relies on the repaired convert_hardened, D5.) *)
From BHW Require Import Lib.Base Lib.ListAux Model.Helper Model.Keys Model.Bip32M Model.WalletUtils Model.Bip39M Model.Bip85M
  Spec.Curve Spec.Bip32 Spec.Bip85 Proofs.Bip32 Proofs.Bip85.
From BHWGen Require Import Consts.

(* the string each application formats parses to the Spec's index list ... *)
Theorem C12_paths_are_spec : forall a index,
  0 <= app_param a < 2147483648 -> 0 <= index < 2147483648 ->
  rmap to_list (path_parse (path_str a index)) = Ok (app_path a index).
Proof. exact paths_are_spec. Qed.

(* ... and distinct (application, parameter, index) triples use distinct paths *)
Theorem C12_paths_injective : forall a i a' i',
  app_ok a = true -> app_ok a' = true -> app_path a i = app_path a' i' -> a = a' /\ i = i'.
Proof. exact paths_injective. Qed.

Theorem C12_hmac_key_is_spec : BIP85_KEY = entropy_key.
Proof. reflexivity. Qed.

Section C12.
Variable C : curve.
Hypothesis laws : curve_laws C.
Hypothesis order_eq : order C = CURVE_ORDER.
Variable hmac512 : bytes -> bytes -> bytes.
Variable hash160 : bytes -> bytes.
Hypothesis hmac_len : forall k d, length (hmac512 k d) = 64%nat.
Hypothesis hmac_wf : forall k d, wf_bytes (hmac512 k d).
Hypothesis hash160_len : forall x, length (hash160 x) = 20%nat.
Notation ARGS := (C laws order_eq hmac512 hash160 hmac_len hmac_wf hash160_len) (only parsing).

(* every level of every application path is hardened *)
Theorem C12_paths_hardened : forall a index,
  0 <= app_param a < 2147483648 -> 0 <= index < 2147483648 ->
  Forall (fun i => 2147483648 <= i) (app_path a index).
Proof. exact (paths_hardened C laws order_eq hmac512 hash160 hmac_len hmac_wf hash160_len). Qed.

(* the 64 bytes every application truncates are HMAC-SHA512("bip-entropy-from-k", ser256(k)) with k the
   private key Spec.derive_prv gives at that path; the model raises exactly when that derivation is invalid *)
Theorem C12_entropy_spec : forall master fpr a index,
  valid_prv master -> parent_fingerprint C hash160 master = Ok fpr ->
  0 <= app_param a < 2147483648 -> 0 <= index < 2147483648 ->
  match derive_prv C hmac512 hash160 (abs_prv master fpr) (app_path a index) with
  | Some x => entropy C hmac512 master (path_str a index) = Ok (hmac512 BIP85_KEY (ser256 (x_k x)))
  | None => entropy C hmac512 master (path_str a index) = Err
  end.
Proof. exact (entropy_spec C laws order_eq hmac512 hash160 hmac_len hmac_wf hash160_len). Qed.

(* parameters and indexes outside the allowed sets are rejected, never mapped onto another path *)
Theorem C12_out_of_range_rejected :
  (forall master n index, n < 16 \/ 64 < n -> hex85 C hmac512 master n index = Err) /\
  (forall master l index, l < 20 \/ 86 < l -> pwd85 C hmac512 master l index = Err) /\
  (forall sha256 master w index, ~ In w [12; 15; 18; 21; 24] -> bip39_mnemonic C hmac512 sha256 master w index = Err) /\
  (forall index, index < 0 \/ 2147483648 <= index -> convert_hardened (str_of_int index ++ [39]) = Err).
Proof.
  split; [exact (hex_out_of_range C laws order_eq hmac512 hash160 hmac_len hmac_wf hash160_len)|].
  split; [exact (pwd_out_of_range C laws order_eq hmac512 hash160 hmac_len hmac_wf hash160_len)|].
  split; [exact (word_count_out_of_range C laws order_eq hmac512 hash160 hmac_len hmac_wf hash160_len)|].
  exact (bad_index_component C laws order_eq hmac512 hash160 hmac_len hmac_wf hash160_len).
Qed.

(* WIF / XPRV secrets that are zero or not below the curve order are refused (C18's BIP85 clause) *)
Theorem C12_correct_key_refuses : forall kb,
  correct_key kb = Ok tt <-> 1 <= be2z kb < CURVE_ORDER \/ be2z kb < 0.
Proof. exact (correct_key_iff C laws order_eq hmac512 hash160 hmac_len hmac_wf hash160_len). Qed.
End C12.

Print Assumptions C12_paths_are_spec.
Print Assumptions C12_paths_injective.
Print Assumptions C12_paths_hardened.
Print Assumptions C12_entropy_spec.
Print Assumptions C12_out_of_range_rejected.
Print Assumptions C12_correct_key_refuses.
