(* C16 -- Mainnet and testnet artefacts never mix. *)
From BHW Require Import Lib.Base Lib.ListAux Model.Helper Model.Keys Model.Bip32M Model.WalletUtils Model.Address
  Model.BaseWallet Model.PaperWallet Spec.Curve Spec.Slip132 Spec.Address Proofs.Address Proofs.Wallet Props.C07.
From BHWGen Require Import Consts.
From Coq Require String.
Import String.StringSyntax.

(* WIF: first payload byte ef on testnet, 80 on mainnet *)
Theorem C16_wif_tag : forall kb compressed testnet,
  exists r, wif_payload kb compressed testnet = (if testnet then 239 else 128) :: r.
Proof. exact wif_tag. Qed.

(* extended keys: the version printed for (key type, flavour, network) parses back to that very network --
   for all twelve constants, so no flavour of one network is another network's constant *)
Theorem C16_version_network : forall e, In e slip132 ->
  version_int (fst (fst (fst e))) (snd (fst (fst e))) (snd (fst e)) = Ok (snd e) /\
  version_parse (snd e) = Ok (fst e).
Proof. intros e He. split; [apply C07_version_table_is_slip132|apply C07_version_parse_inverse]; exact He. Qed.

(* coin type of every generated account path: 1' on testnet, 0' on mainnet *)
Theorem C16_coin_type : forall purpose w account,
  nth 1 (account_path purpose w account) 0 = (if w_testnet w then 1 else 0) + 2147483648.
Proof. intros. apply coin_type_tag. Qed.

(* addresses: version bytes / hrp of the wallet's own network (via C05_address_spec the five address methods
   are exactly these payloads / this hrp) *)
Theorem C16_address_tags : forall hash160 sha256 sec testnet,
  hd 0 (p2pkh_payload hash160 sec testnet) = (if testnet then 0x6f else 0x00) /\
  hd 0 (p2sh_p2wpkh_payload hash160 sec testnet) = (if testnet then 0xc4 else 0x05) /\
  hd 0 (p2sh_p2wsh_payload sha256 hash160 sec testnet) = (if testnet then 0xc4 else 0x05) /\
  segwit_hrp testnet = (if testnet then [116; 98] else [98; 99]).
Proof. intros. destruct testnet; repeat split; reflexivity. Qed.

(* a wallet built from an extended key takes its network from the version prefix (and only from it) *)
Theorem C16_from_extended_key_network : forall alph sha256 s nd t,
  from_extended_key alph sha256 s = Ok (nd, t) ->
  exists n0 ver kt bp, parse_str alph sha256 true s false = Ok n0 /\ nparsed_version n0 = Some ver /\
    version_parse ver = Ok (kt, bp, t) /\ ntestnet nd = t.
Proof.
  intros alph sha256 s nd t H. unfold from_extended_key in H.
  destruct (parse_str alph sha256 true s false) as [n0|] eqn:E0; cbn [bind] in H; [|discriminate].
  destruct (nparsed_version n0) as [ver|] eqn:E1; cbn [of_option bind] in H; [|discriminate].
  destruct (version_parse ver) as [[[kt bp] tn]|] eqn:E2; cbn [bind] in H; [|discriminate].
  destruct (parse_str alph sha256 (kt =? KEY_PRV) s tn) as [nd'|] eqn:E3; cbn [bind] in H; [|discriminate].
  apply Ok_inj in H. inversion H; subst nd' tn.
  exists n0, ver, kt, bp. repeat split; auto.
  unfold parse_str in E3. destruct (decode_base58_checksum alph sha256 s); cbn [bind] in E3; [|discriminate].
  apply Ok_inj in E3. subst nd. reflexivity.
Qed.

Print Assumptions C16_wif_tag.
Print Assumptions C16_version_network.
Print Assumptions C16_coin_type.
Print Assumptions C16_address_tags.
Print Assumptions C16_from_extended_key_network.
