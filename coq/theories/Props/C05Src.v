(* C05 at the level of the SOURCE (method: Props/C11Src.v): the four address helpers of helper.py.
   - Base58 helpers: the MiniPy semantics of the regenerated terms returns Base58Check(prefix || h160) with the
     standard prefix byte per network (00/6f P2PKH, 05/c4 P2SH) -- as a string that the model encoder produces;
   - segwit helpers: returns exactly what the source of bech32.encode returns for hrp bc/tb, hence (with C11Src) a
     string that decodes back to (witver, program) for every legal pair. *)
From BHW Require Import Lib.Base Lib.ListAux Model.Helper Model.Bech32M Spec.Bech32 Proofs.Base58 Proofs.Bech32RT
  Py.Interp Py.Tactics Proofs.PyHelper Proofs.PyBech32 Proofs.PyConvertbits Proofs.PyAddress Model.Ripemd Proofs.PyRipemd Model.ScriptM Spec.Address Proofs.Address Proofs.PyScript.
From BHWGen Require Import Consts PyAst.
Open Scope string_scope.
Open Scope Z_scope.
Open Scope list_scope.

Section C05Src.
Variable sha256 : bytes -> bytes.
Hypothesis sha256_wf : forall x, wf_bytes (sha256 x).
Variable ext : fenv_t.
Hypothesis ext_hash256 :
  ext "helper.hash256" = Some (fun args => match args with [VBytes b] => Val (VBytes (hash256 sha256 b)) | _ => Exc TypeError end).

Theorem C05_source_p2pkh : forall fuel h160 (testnet : bool),
  wf_bytes h160 -> (2 * (List.length h160 + 5) < fuel)%nat ->
  exists s, encode_base58_checksum A sha256 ((if testnet then 111 else 0) :: h160) = Ok s /\
            sem_helper__h160_to_p2pkh_address ext fuel [VBytes h160; VBool testnet] = Val (VStr s).
Proof. exact (h160_to_p2pkh_sem sha256 sha256_wf ext ext_hash256). Qed.

Theorem C05_source_p2sh : forall fuel h160 (testnet : bool),
  wf_bytes h160 -> (2 * (List.length h160 + 5) < fuel)%nat ->
  exists s, encode_base58_checksum A sha256 ((if testnet then 196 else 5) :: h160) = Ok s /\
            sem_helper__h160_to_p2sh_address ext fuel [VBytes h160; VBool testnet] = Val (VStr s).
Proof. exact (h160_to_p2sh_sem sha256 sha256_wf ext ext_hash256). Qed.
End C05Src.

(* the segwit helpers: for every legal (version, program) the source returns a string which the source of
   bech32.decode maps back to (version, program) under the network's hrp *)
Lemma hrp_of_ok t : hrp_of t <> [] /\ hrp_lower (hrp_of t) /\ (List.length (hrp_of t) <= 18)%nat.
Proof.
  destruct t; cbn; (split; [discriminate|]); (split; [|lia]);
    repeat constructor; unfold hrp_char_ok; cbn; lia.
Qed.

Theorem C05_source_segwit : forall ext f prog (testnet : bool) v,
  Spec.Bech32.legal v (List.length prog) = true -> wf_bytes prog ->
  exists s, sem_helper__h160_to_p2wpkh_address ext (S (S (S f))) [VBytes prog; VBool testnet; VInt v] = Val (vstr s) /\
            sem_helper__h256_to_p2wsh_address ext (S (S (S f))) [VBytes prog; VBool testnet; VInt v] = Val (vstr s) /\
            sem_bech32__decode ext (S (S (S f))) [vstr (hrp_of testnet); vstr s] = Val (VTuple [VInt v; vints prog]).
Proof.
  intros ext f prog testnet v HL HW.
  destruct (hrp_of_ok testnet) as (H1 & H2 & H3).
  destruct (decode_encode (hrp_of testnet) v prog H1 H2 H3 HL HW) as (s & E & D).
  exists s. repeat split.
  - assert (A := h160_to_p2wpkh_sem ext f prog testnet v). rewrite E in A. exact A.
  - assert (A := h256_to_p2wsh_sem ext f prog testnet v). rewrite E in A. exact A.
  - rewrite decode_sem, D. reflexivity.
Qed.

(* the pure-Python RIPEMD-160 fallback (ripemd.py), used for HASH160 when OpenSSL lacks ripemd160: the MiniPy
   semantics of the regenerated source of `compress` is the model's compression function on every state and block
   (all 80 rounds, both lines), and the semantics of `ripemd160` is the model's digest for EVERY message: same value
   where the model returns one, a genuine Python exception (the OverflowError of (8 len).to_bytes(8)) where it does
   not.  Props/C05.v's padding theorem is about that model. *)
Theorem C05_source_ripemd_compress : forall ext fuel h0 h1 h2 h3 h4 block,
  sem_ripemd__compress ext fuel [VInt h0; VInt h1; VInt h2; VInt h3; VInt h4; VBytes block]
  = Val (let '(a, b, c, d, e) := compress (h0, h1, h2, h3, h4) block in VTuple [VInt a; VInt b; VInt c; VInt d; VInt e]).
Proof. exact compress_sem. Qed.

Theorem C05_source_ripemd160 : forall ext fuel data,
  agrees (sem_ripemd__ripemd160 ext fuel [VBytes data]) (rmap VBytes (ripemd160 data)).
Proof. exact ripemd160_sem. Qed.

(* the four script builders of script.py, through the translated constructor Script.__init__, and the source of
   raw_serialize: for every hash of the right length the bytes are the standard scriptPubKey templates *)
Theorem C05_source_script_templates : forall ext fuel h,
  (List.length h = 20%nat ->
     (exists v, sem_script__p2pkh_script ext fuel [VBytes h] = Val v /\
                sem_script__Script__raw_serialize ext fuel [v] = Val (VBytes (p2pkh_spk h))) /\
     (exists v, sem_script__p2sh_script ext fuel [VBytes h] = Val v /\
                sem_script__Script__raw_serialize ext fuel [v] = Val (VBytes (p2sh_spk h))) /\
     (exists v, sem_script__p2wpkh_script ext fuel [VBytes h] = Val v /\
                sem_script__Script__raw_serialize ext fuel [v] = Val (VBytes (p2wpkh_spk h)))) /\
  (List.length h = 32%nat ->
     exists v, sem_script__p2wsh_script ext fuel [VBytes h] = Val v /\
               sem_script__Script__raw_serialize ext fuel [v] = Val (VBytes (p2wsh_spk h))).
Proof.
  intros ext fuel h. destruct (script_templates h) as (H20 & H32 & _).
  split.
  - intros Hl. destruct (H20 Hl) as (A & B & C).
    split; [|split].
    + eexists. split; [apply p2pkh_script_sem|]. assert (R := raw_serialize_sem ext fuel (p2pkh_script h)). rewrite A in R. exact R.
    + eexists. split; [apply p2sh_script_sem|]. assert (R := raw_serialize_sem ext fuel (p2sh_script h)). rewrite B in R. exact R.
    + eexists. split; [apply p2wpkh_script_sem|]. assert (R := raw_serialize_sem ext fuel (p2wpkh_script h)). rewrite C in R. exact R.
  - intros Hl. eexists. split; [apply p2wsh_script_sem|]. assert (R := raw_serialize_sem ext fuel (p2wsh_script h)). rewrite (H32 Hl) in R. exact R.
Qed.

Theorem C05_source_translated :
  forallb (fun q => existsb (String.eqb q) translated)
    ["helper.h160_to_p2pkh_address"; "helper.h160_to_p2sh_address"; "helper.h160_to_p2wpkh_address"; "helper.h256_to_p2wsh_address";
     "ripemd.fi"; "ripemd.rol"; "ripemd.compress"; "ripemd.ripemd160";
     "script.Script.__init__"; "script.p2pkh_script"; "script.p2sh_script"; "script.p2wpkh_script"; "script.p2wsh_script"; "script.Script.raw_serialize"] = true.
Proof. reflexivity. Qed.

Print Assumptions C05_source_p2pkh.
Print Assumptions C05_source_p2sh.
Print Assumptions C05_source_segwit.
Print Assumptions C05_source_ripemd_compress.
Print Assumptions C05_source_ripemd160.
Print Assumptions C05_source_script_templates.
Print Assumptions C05_source_translated.
