(* C08 -- New wallets draw their full entropy from the operating system's CSPRNG.   PARTIAL (runtime binding is dynamic)
   The model makes the OS source an explicit input (urandom); theorems say how many bytes are requested and that
   the sentence encodes exactly those bytes.  That bip39.random IS a SystemRandom bound to the kernel CSPRNG and
   ignores random.seed() cannot be carried by a theorem: it is checked dynamically by the driver (see DESIGN.md). *)
From BHW Require Import Lib.Base Lib.ListAux Model.Helper Model.Bip39M Model.Rng Proofs.Rng.
From BHWGen Require Import Consts.

(* N words request exactly ENT/8 bytes, ENT = 32 N / 3 >= 32 N / 3 bits; no excess bits are discarded *)
Theorem C08_request_size : forall n, In n [12; 15; 18; 21; 24] ->
  exists bits, entropy_bits_of_length n = Ok bits /\ bits = 32 * n / 3 /\
               request_bytes bits = Z.to_nat (bits / 8) /\ bits mod 8 = 0 /\ memb bits CORRECT_ENTROPY_BITS = true.
Proof. exact request_size. Qed.

Section C08.
Variable sha256 : bytes -> bytes.
Hypothesis sha256_len : forall x, length (sha256 x) = 32%nat.
Hypothesis sha256_wf : forall x, wf_bytes (sha256 x).
Variable urandom : nat -> bytes.
Hypothesis urandom_len : forall n, length (urandom n) = n.
Hypothesis urandom_wf : forall n, wf_bytes (urandom n).

(* the mnemonic is the encoding of exactly the bytes the OS answered: every ENT bit, MSB included, is an OS bit,
   and the function has no other input *)
Theorem C08_entropy_is_os_bytes : forall bits,
  memb bits CORRECT_ENTROPY_BITS = true ->
  mnemonic_from_entropy_bits sha256 urandom bits
  = mnemonic_from_entropy_bytes sha256 (urandom (Z.to_nat (bits / 8))).
Proof. exact (entropy_is_os_bytes sha256 sha256_len sha256_wf urandom urandom_len urandom_wf). Qed.

(* two different OS answers can never give the same word indexes: no two fresh wallets coincide unless the OS repeats *)
Theorem C08_indexes_injective : forall e1 e2 idx,
  wf_bytes e1 -> wf_bytes e2 ->
  mnemonic_indexes sha256 e1 = Ok idx -> mnemonic_indexes sha256 e2 = Ok idx -> e1 = e2.
Proof. exact (indexes_injective sha256 sha256_len sha256_wf urandom urandom_len urandom_wf). Qed.
End C08.

Print Assumptions C08_request_size.
Print Assumptions C08_entropy_is_os_bytes.
Print Assumptions C08_indexes_injective.
