(* C03 -- Mnemonic + passphrase -> seed -> master key follows BIP39/BIP32 for all text.   (partly external)
   NFKD normalisation, UTF-8 encoding and PBKDF2-HMAC-SHA512 are library code outside the repository: they are
   parameters here; what is proved is what the repository passes to them and how the routes relate. *)
From BHW Require Import Lib.Base Lib.ListAux Model.Helper Model.Keys Model.Bip32M Model.Bip39M Model.Bip85M Model.BaseWallet
  Spec.Curve Spec.Bip32 Proofs.Bip32 Proofs.Seed Proofs.ExtKey.
From BHWGen Require Import Consts.

Theorem C03_rounds : PBKDF2_ROUNDS = 2048.
Proof. exact rounds_2048. Qed.

Section C03.
Variable C : curve.
Hypothesis laws : curve_laws C.
Hypothesis order_eq : order C = CURVE_ORDER.
Variable hmac512 : bytes -> bytes -> bytes.
Variable sha256 hash160 : bytes -> bytes.
Variable alph : list Z.
Variable nfkd : str -> str.
Variable utf8 : str -> bytes.
Variable pbkdf2 : bytes -> bytes -> Z -> bytes.
Hypothesis hmac_len : forall k d, length (hmac512 k d) = 64%nat.
Hypothesis hmac_wf : forall k d, wf_bytes (hmac512 k d).
Hypothesis hash160_len : forall x, length (hash160 x) = 20%nat.

(* seed = PBKDF2(NFKD(mnemonic), "mnemonic" + NFKD(passphrase), 2048), for every string *)
Theorem C03_seed_spec : forall mnemonic password,
  nfkd s_mnemonic = s_mnemonic ->
  bip39_seed_from_mnemonic nfkd utf8 pbkdf2 mnemonic password
  = pbkdf2 (utf8 (nfkd mnemonic)) (utf8 (s_mnemonic ++ nfkd password)) 2048.
Proof. exact (seed_spec C hmac512 sha256 alph nfkd utf8 pbkdf2). Qed.

(* master key and chain code = the two halves of HMAC-SHA512("Bitcoin seed", seed); refusal iff IL = 0 or IL >= n *)
Theorem C03_master_spec : forall seed t,
  match master C hmac512 seed seed_key with
  | Some x => exists nd, master_key hmac512 seed seed_key t = Ok nd /\ valid_prv nd /\
                         parent_fingerprint C hash160 nd = Ok [0;0;0;0] /\ abs_prv nd [0;0;0;0] = x /\
                         is_master nd = true /\ ntestnet nd = t
  | None => master_key hmac512 seed seed_key t = Err
  end.
Proof. intros. exact (master_key_spec C laws order_eq hmac512 hash160 hmac_len hmac_wf hash160_len seed seed_key t). Qed.

(* the routes hold the same key material; the network flag never changes it *)
Theorem C03_routes_agree : forall mnemonic password testnet,
  let seed := bip39_seed_from_mnemonic nfkd utf8 pbkdf2 mnemonic password in
  material (from_mnemonic hmac512 nfkd utf8 pbkdf2 mnemonic password testnet) = material (from_bip39_seed_bytes hmac512 seed testnet) /\
  (wf_bytes seed -> material (from_bip39_seed_hex hmac512 (hexstr seed) testnet) = material (from_bip39_seed_bytes hmac512 seed testnet)) /\
  (forall e, mnemonic_from_entropy sha256 e = Ok mnemonic ->
             from_entropy_hex hmac512 sha256 nfkd utf8 pbkdf2 e password testnet
             = from_mnemonic hmac512 nfkd utf8 pbkdf2 mnemonic password testnet).
Proof. exact (routes_agree C hmac512 sha256 alph nfkd utf8 pbkdf2). Qed.

Theorem C03_network_independent : forall seed,
  material (from_bip39_seed_bytes hmac512 seed true) = material (from_bip39_seed_bytes hmac512 seed false).
Proof. exact (network_independent C hmac512 sha256 alph nfkd utf8 pbkdf2). Qed.

(* the fifth route: the wallet rebuilt from the master extended private key holds the same scalar and chain code *)
Theorem C03_extended_key_route : forall nd v fpr t,
  valid_prv nd -> fields_ok C hash160 nd v fpr ->
  exists b nd', serialize_private C hash160 nd (Some v) = Ok b /\ parse_bytes true b t = nd' /\
                scalar nd' = scalar nd /\ nchain nd' = nchain nd.
Proof.
  intros nd v fpr t Hv Hf.
  destruct (prv_roundtrip C laws order_eq hmac512 hash160 hmac_len hmac_wf hash160_len nd v fpr t Hv Hf)
    as [b [nd' [H1 [_ [H2 [_ [H3 [_ [_ [_ [_ [_ [_ [H4 _]]]]]]]]]]]]]].
  exists b, nd'. auto.
Qed.
End C03.

Print Assumptions C03_rounds.
Print Assumptions C03_seed_spec.
Print Assumptions C03_master_spec.
Print Assumptions C03_routes_agree.
Print Assumptions C03_network_independent.
Print Assumptions C03_extended_key_route.
