(* C04 -- Mnemonic sentences encode their entropy losslessly with a valid checksum.
   Model of the repaired mnemonic_from_entropy (size validated on the decoded bytes, D4). *)
From BHW Require Import Lib.Base Lib.Digits Lib.ListAux Model.Helper Model.Bip39M Spec.Bip39 Proofs.Bip39 Proofs.Bip39Str.
From BHWGen Require Import Consts Wordlist.

(* the embedded word list is the official list in the official order, without duplicates *)
Theorem C04_wordlist_official : word_list = english /\ length word_list = 2048%nat.
Proof. split; [exact wordlist_official|exact wordlist_len]. Qed.
Theorem C04_wordlist_nodup : NoDup word_list.
Proof. exact wordlist_nodup. Qed.
Theorem C04_words_injective : forall i j w,
  nth_error word_list i = Some w -> nth_error word_list j = Some w -> i = j.
Proof. exact words_injective. Qed.

Section C04.
Variable sha256 : bytes -> bytes.
Hypothesis sha256_len : forall x, length (sha256 x) = 32%nat.
Hypothesis sha256_wf : forall x, wf_bytes (sha256 x).

(* for every entropy of a legal size: 12/15/18/21/24 word indexes below 2048 whose base-2^11 value is
   entropy * 2^CS + (first CS bits of SHA-256); dividing by 2^CS gives back exactly the entropy bytes *)
Theorem C04_decode_encode : forall e idx,
  wf_bytes e -> mnemonic_indexes sha256 e = Ok idx ->
  let cs := ent_bits e / 32 in
  let nw := (ent_bits e + cs) / 11 in
  (nw = 12 \/ nw = 15 \/ nw = 18 \/ nw = 21 \/ nw = 24) /\ nw = 3 * Z.of_nat (length e) / 4 /\
  length idx = Z.to_nat nw /\ Forall (fun i => 0 <= i < 2048) idx /\
  of_le 2048 (rev idx) = total sha256 e /\
  total sha256 e / 2 ^ cs = be2z e /\ total sha256 e mod 2 ^ cs = be2z (sha256 e) / 2 ^ (256 - cs) /\
  z2be (length e) (of_le 2048 (rev idx) / 2 ^ cs) = Ok e.
Proof. exact (indexes_spec sha256 sha256_len sha256_wf). Qed.

(* every legal size yields a sentence whose words are the list entries at those indexes *)
Theorem C04_good_size_accepted : forall e,
  wf_bytes e -> (length e = 16 \/ length e = 20 \/ length e = 24 \/ length e = 28 \/ length e = 32)%nat ->
  exists idx ws, mnemonic_indexes sha256 e = Ok idx /\
    Forall2 (fun i w => nth_error word_list (Z.to_nat i) = Some w) idx ws /\
    mnemonic_from_entropy_bytes sha256 e = Ok (join_space ws).
Proof. exact (good_size_accepted sha256 sha256_len sha256_wf). Qed.

(* entropy of any other size is rejected *)
Theorem C04_bad_size_rejected : forall e,
  length e <> 16%nat -> length e <> 20%nat -> length e <> 24%nat -> length e <> 28%nat -> length e <> 32%nat ->
  mnemonic_from_entropy_bytes sha256 e = Err.
Proof. exact (bad_size_rejected sha256 sha256_len sha256_wf). Qed.

(* the string route the code actually takes -- bin()[2:], zfill, "." * 11 chunks, int(c, 2) -- on bit lists, equals the
   arithmetic model above for every entropy (so the theorems above are about the code's own route) *)
Theorem C04_string_route : forall e, wf_bytes e -> indexes_str sha256 e = mnemonic_indexes sha256 e.
Proof. exact (indexes_str_eq sha256 sha256_wf sha256_len). Qed.
End C04.

Print Assumptions C04_wordlist_official.
Print Assumptions C04_wordlist_nodup.
Print Assumptions C04_words_injective.
Print Assumptions C04_decode_encode.
Print Assumptions C04_good_size_accepted.
Print Assumptions C04_bad_size_rejected.
Print Assumptions C04_string_route.
