(* C14 -- Watch-only wallets reproduce all public data and can never yield private data. *)
From BHW Require Import Lib.Base Lib.ListAux Model.Helper Model.Keys Model.Bip32M Model.Address Model.BaseWallet
  Model.PaperWallet Spec.Curve Spec.Bip32 Proofs.Bip32 Proofs.Wallet.
From BHWGen Require Import Consts.
From Coq Require String.
Import String.StringSyntax.

Section C14.
Variable C : curve.
Hypothesis laws : curve_laws C.
Hypothesis order_eq : order C = CURVE_ORDER.
Variable hmac512 : bytes -> bytes -> bytes.
Variable sha256 hash160 : bytes -> bytes.
Variable alph : list Z.
Hypothesis hmac_len : forall k d, length (hmac512 k d) = 64%nat.
Hypothesis hmac_wf : forall k d, wf_bytes (hmac512 k d).
Hypothesis hash160_len : forall x, length (hash160 x) = 20%nat.

(* along every non-hardened sub-path, whatever the public-only wallet derives is the public view of what the
   full wallet derives: same public key, chain code, depth, index, fingerprint ... *)
Theorem C14_public_agree : forall path nd pn K c',
  valid_prv nd -> pub_of C nd pn K -> Forall (fun i => 0 <= i) path ->
  derive_path C hmac512 pn path = Ok c' ->
  exists c Kc, derive_path C hmac512 nd path = Ok c /\ valid_prv c /\ pub_of C c c' Kc /\
               (path <> [] -> parent_fingerprint C hash160 c' = parent_fingerprint C hash160 c).
Proof. exact (derive_pub_sound C laws order_eq hmac512 hash160 hmac_len hmac_wf hash160_len). Qed.

(* ... and therefore the same addresses of all five kinds (they depend on the public key only) *)
Theorem C14_addresses_public_only : forall nd1 nd2 K t,
  public_key C nd1 = Ok K -> public_key C nd2 = Ok K ->
  p2pkh_address C alph sha256 hash160 nd1 t = p2pkh_address C alph sha256 hash160 nd2 t /\
  p2wpkh_address C alph sha256 hash160 nd1 t = p2wpkh_address C alph sha256 hash160 nd2 t /\
  p2sh_p2wpkh_address C alph sha256 hash160 nd1 t = p2sh_p2wpkh_address C alph sha256 hash160 nd2 t /\
  p2wsh_address C sha256 nd1 t = p2wsh_address C sha256 nd2 t /\
  p2sh_p2wsh_address C alph sha256 hash160 nd1 t = p2sh_p2wsh_address C alph sha256 hash160 nd2 t.
Proof. exact (addresses_public_only C hmac512 sha256 hash160 alph). Qed.

(* no BIP85, no extended private key (error), prv field None, WIF column None *)
Theorem C14_no_private : forall w nd,
  w_watch_only w = true ->
  bip85_data C hmac512 sha256 hash160 alph w = Err /\
  (is_prv nd = false -> node_extended_private_key C sha256 hash160 alph w nd = Err) /\
  (forall keys, node_extended_keys C sha256 hash160 alph w nd = Ok keys -> tget (k "prv") keys = Ok TNone) /\
  (forall purpose r, row C sha256 hash160 alph purpose w nd = Ok r -> exists a b c, r = TList [a; b; c; TNone]).
Proof. exact (watch_only_no_private C hmac512 sha256 hash160 alph). Qed.

(* every node a watch-only wallet can reach is public-only, and hardened derivation is refused anywhere in a path *)
Theorem C14_hardened_refused : forall path nd,
  is_prv nd = false -> Exists (fun i => 2147483648 <= i) path -> derive_path C hmac512 nd path = Err.
Proof. exact (derive_pub_hardened C hmac512 sha256 hash160 alph). Qed.

Theorem C14_children_stay_public : forall path nd c,
  derive_path C hmac512 nd path = Ok c -> is_prv c = is_prv nd /\ ntestnet c = ntestnet nd.
Proof. exact (derive_class C hmac512 sha256 hash160 alph). Qed.

(* a wallet built from a public version prefix holds a public-only master, i.e. reports itself watch-only *)
Theorem C14_flags : forall s nd t,
  from_extended_key alph sha256 s = Ok (nd, t) ->
  watch_only nd = negb (is_prv nd) /\ ntestnet nd = t.
Proof.
  intros s nd t H. split; [reflexivity|]. unfold from_extended_key in H.
  repeat match type of H with
  | bind ?x _ = Ok _ => destruct x as [?v|]; cbn [bind] in H; [|discriminate]
  end.
  destruct v1 as [[kt bp] tn]. unfold parse_str in H.
  destruct (decode_base58_checksum alph sha256 s); cbn [bind] in H; [|discriminate].
  apply Ok_inj in H. inversion H. reflexivity.
Qed.
End C14.

Print Assumptions C14_public_agree.
Print Assumptions C14_addresses_public_only.
Print Assumptions C14_no_private.
Print Assumptions C14_hardened_refused.
Print Assumptions C14_children_stay_public.
Print Assumptions C14_flags.
