(* C12: structure premise of the models this property's theorems are about (Proofs/StructureP.v):
   the listed modules of /repo, as they are NOW, have no state, decorator, override or field beyond the pinned ones. *)
From Coq Require Import List String.
Import ListNotations.
From BHW Require Import Proofs.StructureP.
Open Scope string_scope.

Theorem C12_structure : structure_ok ["bip85"; "wallet_utils"; "bip39"; "bip32"; "keys"; "helper"] = true.
Proof. vm_compute. reflexivity. Qed.

Print Assumptions C12_structure.
