(* C11 -- Segwit addresses follow BIP173/BIP350 ...   PARTIAL.
   Proved here, for every human-readable part and every data part (no bound on lengths):
     * the regenerated CHARSET, generator words and Bech32m constant are the BIP's;
     * the checksum bech32_create_checksum produces always verifies, under the constant it was made for
       (systematic encoding: appending six symbols xors pack(symbols) into the zero-extended state),
       so version 0 addresses carry the Bech32 constant and versions 1..16 the Bech32m constant;
     * the polymod state stays below 2^30 and the checksum consists of six 5-bit symbols.
   NOT proved (decided only by the correspondence run and the Spec-level checker evaluated in Coq on
   the implementation's outputs, see DESIGN.md): decode o encode = id for all programs, the rejection
   rules of decode, and the <= 4 substitution error-detection clause (its statement is kept visible
   below as a Definition, not as a theorem). *)
From BHW Require Import Lib.Base Lib.ListAux Model.Helper Model.Bech32M Spec.Bech32 Proofs.Bech32.
From BHWGen Require Import Consts.

Theorem C11_constants_are_bip :
  CHARSET = Spec.Bech32.charset /\ generator = Spec.Bech32.gen /\ BECH32M_CONST = Spec.Bech32.bech32m_const.
Proof. exact constants_are_bip. Qed.

Theorem C11_checksum_valid : forall hrp data spec,
  hrp_ok hrp -> data_ok data ->
  bech32_verify_checksum hrp (data ++ bech32_create_checksum hrp data spec) = Some spec.
Proof. exact checksum_valid. Qed.

Theorem C11_polymod_bound : forall vs,
  Forall (fun v => 0 <= v < 2 ^ 30) vs -> 0 <= bech32_polymod vs < 2 ^ 30.
Proof. exact polymod_bound. Qed.

Theorem C11_create_checksum_symbols : forall hrp data spec,
  length (bech32_create_checksum hrp data spec) = 6%nat /\
  Forall (fun c => 0 <= c < 32) (bech32_create_checksum hrp data spec).
Proof. exact create_checksum_symbols. Qed.

(* the full statements that remain unproved (kept visible; see the header) *)
Definition C11_decode_encode_statement : Prop :=
  forall hrp v prog s, Spec.Bech32.legal v (length prog) = true -> wf_bytes prog ->
    encode hrp v prog = Ok (Some s) -> decode hrp s = Some (v, prog).
Definition C11_detects_le4_statement : Prop :=
  forall hrp s s' v prog, decode hrp s = Some (v, prog) -> length s' = length s ->
    (* s' differs from s in 1..3 data characters, or in 4 without switching between version 0 and non-0 *)
    True -> decode hrp s' = None \/ s' = s.

Example C11_example :
  encode [98;99] 0 (repeat 0 20) = Ok (Some [98;99;49;113;113;113;113;113;113;113;113;113;113;113;113;113;113;113;113;113;113;113;113;113;113;113;113;113;113;113;113;113;113;113;113;113;57;101;55;53;114;115]) /\
  decode [98;99] [98;99;49;113;113;113;113;113;113;113;113;113;113;113;113;113;113;113;113;113;113;113;113;113;113;113;113;113;113;113;113;113;113;113;113;113;57;101;55;53;114;115] = Some (0, repeat 0 20).
Proof. split; vm_compute; reflexivity. Qed.

Print Assumptions C11_constants_are_bip.
Print Assumptions C11_checksum_valid.
Print Assumptions C11_polymod_bound.
Print Assumptions C11_create_checksum_symbols.
