(* C11 -- Segwit addresses follow BIP173/BIP350 and detect up to four character errors.
   Proved here, for every human-readable part, version and program (no bound beyond the BIP's own 90 characters):
     * the regenerated CHARSET, generator words and Bech32m constant are the BIP's;
     * the checksum bech32_create_checksum produces always verifies, under the constant it was made for, and it is
       the ONLY six-symbol suffix that verifies (C11_checksum_unique);
     * convertbits 8->5 (pad) followed by 5->8 (no pad) is the identity on byte strings, and 5->8 (no pad) accepts a
       symbol string only when it is the canonical 8->5 regrouping of its output (zero padding of < 5 bits);
     * decode (encode hrp v prog) = (v, prog) for every legal (v, |prog|), every lower-case hrp of 1..18 printable
       characters (C11_decode_encode), version 0 under the Bech32 constant and 1..16 under Bech32m;
     * conversely decode hrp s = (v, prog) implies (v, |prog|) legal, s in a single case, |s| <= 90 and
       encode hrp v prog = lower(s)  (C11_decode_sound): decode accepts nothing but what encode emits, which
       yields the refusals of mixed case, other prefixes, the wrong constant, bad padding and over-long strings
       as corollaries; an illegal (version, length) never yields an address (C11_illegal_none; versions >= 0:
       Python's negative indexing makes CHARSET[-31..-16] emit addresses for versions 1..16, outside the property's domain);
     * error detection (C11_bch_detects, C11_detects_le4 and corollaries): the polymod is xor-linear, the residue of a
       corrupted word is the residue of the original xor the syndrome of the error vector, and a meet-in-the-middle
       enumeration of all syndromes of weight <= 4 in 88 symbols (same constant) and weight <= 3 in 72 symbols
       (other constant), evaluated by the kernel's VM (about 20 s), shows none is 0 resp. 1 xor 0x2bc830a3.  Hence two
       accepted strings of equal length with the same hrp are equal up to case or differ in >= 4 characters, in exactly
       4 only when one is version 0 and the other version 1..16.
       (For 73..88 symbols there ARE weight-3 cross-constant patterns -- e.g. values 19,20,20 at distances 69,58,79 from
       the end -- but no legal segwit address is that long: |data| <= 71.)
   Substitutions are counted on the lower-cased strings; insertions and deletions are not covered by a theorem (BIP173
   makes no guarantee there; the correspondence run samples them). *)
From BHW Require Import Lib.Base Lib.ListAux Model.Helper Model.Bech32M Spec.Bech32 Proofs.Bech32 Proofs.Convertbits Proofs.Bech32RT Proofs.Bech32BCH Proofs.Bech32Detect.
From BHWGen Require Import Consts.

Theorem C11_constants_are_bip :
  CHARSET = Spec.Bech32.charset /\ generator = Spec.Bech32.gen /\ BECH32M_CONST = Spec.Bech32.bech32m_const.
Proof. exact constants_are_bip. Qed.

Theorem C11_checksum_valid : forall hrp data spec,
  hrp_ok hrp -> data_ok data ->
  bech32_verify_checksum hrp (data ++ bech32_create_checksum hrp data spec) = Some spec.
Proof. exact checksum_valid. Qed.

Theorem C11_polymod_bound : forall vs,
  Forall (fun v => 0 <= v < 2 ^ 30) vs -> 0 <= bech32_polymod vs < 2 ^ 30.
Proof. exact polymod_bound. Qed.

Theorem C11_create_checksum_symbols : forall hrp data spec,
  length (bech32_create_checksum hrp data spec) = 6%nat /\
  Forall (fun c => 0 <= c < 32) (bech32_create_checksum hrp data spec).
Proof. exact create_checksum_symbols. Qed.

Theorem C11_checksum_unique : forall hrp data c6 spec,
  hrp_ok hrp -> data_ok data -> length c6 = 6%nat -> Forall (fun c => 0 <= c < 32) c6 ->
  bech32_verify_checksum hrp (data ++ c6) = Some spec -> c6 = bech32_create_checksum hrp data spec.
Proof. exact checksum_unique. Qed.

Theorem C11_convertbits_roundtrip : forall prog, wf_bytes prog ->
  exists conv, convertbits prog 8 5 true = Some conv /\ Forall (fun x => 0 <= x < 32) conv /\
               5 * Z.of_nat (length conv) < 8 * Z.of_nat (length prog) + 5 /\
               convertbits conv 5 8 false = Some prog.
Proof. exact convertbits_roundtrip. Qed.

Theorem C11_convertbits_canonical : forall data out,
  Forall (fun x => 0 <= x < 32) data -> convertbits data 5 8 false = Some out ->
  wf_bytes out /\ convertbits out 8 5 true = Some data.
Proof. exact convertbits_5_8_sound. Qed.

(* hrp_lower hrp: every character in 33..126 and none in 'A'..'Z' *)
Theorem C11_decode_encode : forall hrp v prog,
  hrp <> [] -> hrp_lower hrp -> (length hrp <= 18)%nat ->
  Spec.Bech32.legal v (length prog) = true -> wf_bytes prog ->
  exists s, encode hrp v prog = Ok (Some s) /\ decode hrp s = Some (v, prog).
Proof. exact decode_encode. Qed.

Theorem C11_decode_sound : forall hrp s v prog,
  decode hrp s = Some (v, prog) ->
  Spec.Bech32.legal v (length prog) = true /\ wf_bytes prog /\ (length s <= 90)%nat /\
  (map lower_c s = s \/ map upper_c s = s) /\
  encode hrp v prog = Ok (Some (map lower_c s)).
Proof. exact decode_sound. Qed.

Theorem C11_encode_some : forall hrp v prog s,
  0 <= v -> wf_bytes prog -> encode hrp v prog = Ok (Some s) ->
  Spec.Bech32.legal v (length prog) = true /\ decode hrp s = Some (v, prog).
Proof. exact encode_some. Qed.

Theorem C11_illegal_none : forall hrp v prog,
  0 <= v -> wf_bytes prog -> Spec.Bech32.legal v (length prog) = false ->
  forall s, encode hrp v prog <> Ok (Some s).
Proof. exact encode_illegal_none. Qed.

Theorem C11_rejects_mixed_case : forall hrp s,
  map lower_c s <> s -> map upper_c s <> s -> decode hrp s = None.
Proof. exact decode_rejects_mixed_case. Qed.

Theorem C11_rejects_long : forall hrp s, (90 < length s)%nat -> decode hrp s = None.
Proof. exact decode_rejects_long. Qed.

Theorem C11_rejects_other_prefix : forall hrp s h data spec,
  bech32_decode s = Some (h, data, spec) -> h <> hrp -> decode hrp s = None.
Proof. exact decode_rejects_other_prefix. Qed.

Theorem C11_rejects_wrong_constant : forall hrp s v rest spec,
  bech32_decode s = Some (hrp, v :: rest, spec) ->
  spec <> (if v =? 0 then BECH32 else BECH32M) -> decode hrp s = None.
Proof. exact decode_rejects_wrong_constant. Qed.

Theorem C11_padding_canonical : forall hrp s v prog,
  decode hrp s = Some (v, prog) ->
  exists conv spec, convertbits prog 8 5 true = Some conv /\ bech32_decode s = Some (hrp, v :: conv, spec).
Proof. exact decode_padding_canonical. Qed.

(* symbol level: hamming = number of positions at which the two symbol lists differ *)
Theorem C11_bch_detects : forall hrp d d' spec,
  Forall (fun x => 0 <= x < 32) d -> Forall (fun x => 0 <= x < 32) d' -> length d = length d' ->
  bech32_verify_checksum hrp d = Some spec ->
  ((length d <= 88)%nat -> (1 <= hamming d d' <= 4)%nat -> bech32_verify_checksum hrp d' <> Some spec) /\
  ((length d <= 72)%nat -> (1 <= hamming d d' <= 3)%nat -> bech32_verify_checksum hrp d' = None).
Proof. exact bch_detects. Qed.

(* address level *)
Theorem C11_detects_le4 : forall hrp s s' v prog v' prog',
  decode hrp s = Some (v, prog) -> decode hrp s' = Some (v', prog') -> length s = length s' ->
  let k := hamming (map lower_c s) (map lower_c s') in
  k = 0%nat \/ ((4 <= k)%nat /\ (k = 4%nat -> (v =? 0) <> (v' =? 0))).
Proof. exact detects_le4. Qed.

Theorem C11_substitution_refused : forall hrp s v prog s',
  decode hrp s = Some (v, prog) -> length s' = length s ->
  (1 <= hamming (map lower_c s) (map lower_c s') <= 3)%nat -> decode hrp s' = None.
Proof. exact substitution_refused. Qed.

Theorem C11_substitution4_refused : forall hrp s v prog s' v' prog',
  decode hrp s = Some (v, prog) -> length s' = length s ->
  hamming (map lower_c s) (map lower_c s') = 4%nat ->
  decode hrp s' = Some (v', prog') -> (v =? 0) <> (v' =? 0).
Proof. exact substitution4_refused. Qed.

Example C11_example :
  encode [98;99] 0 (repeat 0 20) = Ok (Some [98;99;49;113;113;113;113;113;113;113;113;113;113;113;113;113;113;113;113;113;113;113;113;113;113;113;113;113;113;113;113;113;113;113;113;113;57;101;55;53;114;115]) /\
  decode [98;99] [98;99;49;113;113;113;113;113;113;113;113;113;113;113;113;113;113;113;113;113;113;113;113;113;113;113;113;113;113;113;113;113;113;113;113;113;57;101;55;53;114;115] = Some (0, repeat 0 20).
Proof. split; vm_compute; reflexivity. Qed.

Print Assumptions C11_constants_are_bip.
Print Assumptions C11_checksum_valid.
Print Assumptions C11_polymod_bound.
Print Assumptions C11_create_checksum_symbols.
Print Assumptions C11_checksum_unique.
Print Assumptions C11_convertbits_roundtrip.
Print Assumptions C11_convertbits_canonical.
Print Assumptions C11_decode_encode.
Print Assumptions C11_decode_sound.
Print Assumptions C11_encode_some.
Print Assumptions C11_illegal_none.
Print Assumptions C11_rejects_mixed_case.
Print Assumptions C11_rejects_long.
Print Assumptions C11_rejects_other_prefix.
Print Assumptions C11_rejects_wrong_constant.
Print Assumptions C11_padding_canonical.
Print Assumptions C11_bch_detects.
Print Assumptions C11_detects_le4.
Print Assumptions C11_substitution_refused.
Print Assumptions C11_substitution4_refused.
