(* C03 at the level of the SOURCE (method: Props/C11Src.v): bip39.bip39_seed_from_mnemonic, the one function that turns a
   sentence and a passphrase into the 64-byte seed.  unicodedata.normalize("NFKD", .) and hashlib.pbkdf2_hmac("sha512", ...)
   are external primitives (arbitrary functions; pinned: both module names are bound by a plain import only, and the form
   "NFKD" / the digest "sha512" are constants of the recognised calls); str.encode("utf-8") is computed (Lib/PyInt.utf8_encode).
   For every sentence and passphrase (as code point lists) whose normal forms are encodable, the MiniPy semantics of the
   regenerated term is PBKDF2-HMAC-SHA512(utf8(NFKD sentence), utf8(NFKD "mnemonic" ++ NFKD passphrase), 2048): nothing is
   stripped, case-folded, or normalised in another form, the salt prefix is exactly "mnemonic", the round count is 2048.
   (BaseWallet.from_mnemonic and the other constructors are outside the fragment, tied by correspondence.) *)
From BHW Require Import Lib.Base Lib.ListAux Lib.PyInt Model.Helper Model.Bip39M Py.Interp Py.Tactics Proofs.PySeed.
From BHWGen Require Import Consts PyAst.
Open Scope string_scope.
Open Scope Z_scope.
Open Scope list_scope.

Section C03Src.
Variable nfkd : list Z -> list Z.
Variable pbkdf2 : bytes -> bytes -> Z -> bytes.
Variable ext : fenv_t.
Hypothesis ext_nfkd :
  ext "bip39.unicodedata.normalize_nfkd" = Some (fun args => match args with [VStr s] => Val (VStr (nfkd s)) | _ => Exc TypeError end).
Hypothesis ext_pbkdf2 :
  ext "bip39.hashlib.pbkdf2_hmac_sha512"
  = Some (fun args => match args with [VBytes a; VBytes b; VInt n] => Val (VBytes (pbkdf2 a b n)) | _ => Exc TypeError end).

Theorem C03_source_seed_is_model : forall fuel m p,
  utf8_encode (nfkd m) <> None -> utf8_encode (nfkd s_mnemonic ++ nfkd p) <> None ->
  sem_bip39__bip39_seed_from_mnemonic ext fuel [VStr m; VStr p]
  = Val (VBytes (bip39_seed_from_mnemonic nfkd utf8 pbkdf2 m p)).
Proof. exact (seed_sem nfkd pbkdf2 ext ext_nfkd ext_pbkdf2). Qed.

Theorem C03_source_seed_is_spec : forall fuel m p bm bp,
  utf8_encode (nfkd m) = Some bm -> utf8_encode (nfkd [109; 110; 101; 109; 111; 110; 105; 99] ++ nfkd p) = Some bp ->
  sem_bip39__bip39_seed_from_mnemonic ext fuel [VStr m; VStr p] = Val (VBytes (pbkdf2 bm bp 2048)).
Proof.
  intros fuel m p bm bp H1 H2.
  rewrite (seed_sem nfkd pbkdf2 ext ext_nfkd ext_pbkdf2 fuel m p) by (unfold s_mnemonic; congruence).
  unfold bip39_seed_from_mnemonic, utf8. unfold s_mnemonic in *. rewrite H1, H2. reflexivity.
Qed.
End C03Src.

(* ASCII sentences and passphrases are always encodable (utf8 is the identity on them) when NFKD keeps them ASCII *)
Example C03_source_nonvacuous : utf8_encode [97; 98; 32; 12354; 233] = Some [97; 98; 32; 227; 129; 130; 195; 169].
Proof. reflexivity. Qed.

Theorem C03_source_translated :
  existsb (String.eqb "bip39.bip39_seed_from_mnemonic") translated = true /\
  extern_ok_bip39__unicodedata__normalize_nfkd = true /\ extern_ok_bip39__hashlib__pbkdf2_hmac_sha512 = true.
Proof. repeat split; reflexivity. Qed.

Print Assumptions C03_source_seed_is_model.
Print Assumptions C03_source_seed_is_spec.
Print Assumptions C03_source_translated.
