(* C18: structure premise of the models this property's theorems are about (Proofs/StructureP.v):
   the listed modules of /repo, as they are NOW, have no state, decorator, override or field beyond the pinned ones. *)
From Coq Require Import List String.
Import ListNotations.
From BHW Require Import Proofs.StructureP.
Open Scope string_scope.

Theorem C18_structure : structure_ok ["bip32"; "bip85"; "keys"] = true.
Proof. vm_compute. reflexivity. Qed.

Print Assumptions C18_structure.
