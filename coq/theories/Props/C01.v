(* C01 -- BIP32 private child derivation matches the spec for every parent and index.
   For every HMAC function returning 64 bytes (this is the PRF-substitution quantifier),
   every HASH160 returning 20 bytes and every curve satisfying curve_laws whose order is
   the regenerated CURVE_ORDER.  Statements only. *)
From BHW Require Import Lib.Base Model.Helper Model.Keys Model.Bip32M Spec.Curve Spec.Bip32
  Proofs.Bip32 Proofs.CurveWitness.
From BHWGen Require Import Consts.

Section C01.
Variable C : curve.
Hypothesis laws : curve_laws C.
Hypothesis order_eq : order C = CURVE_ORDER.
Variable hmac512 : bytes -> bytes -> bytes.
Variable hash160 : bytes -> bytes.
Hypothesis hmac_len : forall k d, length (hmac512 k d) = 64%nat.
Hypothesis hmac_wf : forall k d, wf_bytes (hmac512 k d).
Hypothesis hash160_len : forall x, length (hash160 x) = 20%nat.

(* one step: the model's child is exactly Spec.CKDpriv's (key, chain code, depth, child
   number, parent fingerprint), is again a valid node with a full 32-byte key; when the
   Spec says "invalid" the model raises *)
Theorem C01_ckd_prv_spec : forall nd i fpr,
  valid_prv nd -> 0 <= i < 4294967296 ->
  match CKDpriv C hmac512 hash160 (abs_prv nd fpr) i with
  | Some x => exists c, ckd_prv C hmac512 nd i = Ok c /\ valid_prv c /\ length (nkey c) = 32%nat /\
                        parent_fingerprint C hash160 c = Ok (x_fpr x) /\ abs_prv c (x_fpr x) = x
  | None => ckd_prv C hmac512 nd i = Err
  end.
Proof. exact (ckd_prv_spec C laws order_eq hmac512 hash160 hmac_len hmac_wf hash160_len). Qed.

Theorem C01_index_out_of_range : forall nd i,
  i < 0 \/ 4294967296 <= i -> valid_prv nd -> ckd_prv C hmac512 nd i = Err.
Proof. exact (ckd_prv_out_of_range C laws order_eq hmac512 hash160 hmac_len hmac_wf hash160_len). Qed.

(* transitively along paths of any length *)
Theorem C01_derive_path_spec : forall path nd fpr,
  valid_prv nd -> is_prv nd = true -> Forall (fun i => 0 <= i < 4294967296) path ->
  parent_fingerprint C hash160 nd = Ok fpr ->
  match derive_prv C hmac512 hash160 (abs_prv nd fpr) path with
  | Some x => exists c, derive_path C hmac512 nd path = Ok c /\ valid_prv c /\
                        parent_fingerprint C hash160 c = Ok (x_fpr x) /\ abs_prv c (x_fpr x) = x
  | None => derive_path C hmac512 nd path = Err
  end.
Proof. exact (derive_path_spec C laws order_eq hmac512 hash160 hmac_len hmac_wf hash160_len). Qed.

(* the serialised extended private key is the BIP32 78-byte layout of the Spec view *)
Theorem C01_serialize_private_spec : forall nd v fpr,
  valid_prv nd -> 0 <= v < 4294967296 -> 0 <= ndepth nd < 256 -> 0 <= nindex nd < 4294967296 ->
  parent_fingerprint C hash160 nd = Ok fpr -> (is_master nd = true -> fpr = [0;0;0;0]) ->
  serialize_private C hash160 nd (Some v) = Ok (ser_prv v (abs_prv nd fpr)).
Proof. exact (serialize_private_spec C laws order_eq hmac512 hash160 hmac_len hmac_wf hash160_len). Qed.
End C01.

(* non-vacuity: a curve satisfying the laws with this order exists *)
Example C01_laws_satisfiable : exists C, curve_laws C /\ order C = CURVE_ORDER.
Proof. exists witness. split; [exact witness_laws|exact witness_order]. Qed.
Example C01_valid_node_exists :
  valid_prv {| is_prv := true; nkey := repeat 0 31 ++ [1]; nchain := repeat 7 32; ndepth := 0; nindex := 0;
               ntestnet := false; nparent := None; nparsed_fpr := None; nparsed_version := None |}.
Proof.
  unfold valid_prv. cbn [is_prv nkey]. split; [reflexivity|]. split.
  - apply wf_bytesb_spec. vm_compute. reflexivity.
  - split; [left; reflexivity|]. vm_compute. split; [intros H; discriminate|reflexivity].
Qed.

Print Assumptions C01_ckd_prv_spec.
Print Assumptions C01_index_out_of_range.
Print Assumptions C01_derive_path_spec.
Print Assumptions C01_serialize_private_spec.
