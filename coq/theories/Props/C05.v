(* C05 -- Every address is the standard encoding of the right script on the right network. *)
From BHW Require Import Lib.Base Lib.ListAux Model.Helper Model.Keys Model.Bip32M Model.ScriptM Model.Bech32M Model.Address
  Model.Ripemd Spec.Curve Spec.Script Spec.Address Proofs.Address Proofs.Ripemd.
From BHWGen Require Import Consts.

(* the regenerated prefix bytes / hrps are the standard ones *)
Theorem C05_prefixes_are_spec :
  P2PKH_ADDR_BYTES = Some [[0x6f]; [0x00]] /\ P2SH_ADDR_BYTES = Some [[0xc4]; [0x05]] /\
  P2WPKH_ADDR_STRS = Some [[116; 98]; [98; 99]] /\ P2WSH_ADDR_STRS = Some [[116; 98]; [98; 99]].
Proof. exact prefixes_are_spec. Qed.

(* the script builders serialise to the standard templates, for every 20/32/33-byte argument *)
Theorem C05_script_templates : forall h,
  (length h = 20%nat -> raw_serialize (p2pkh_script h) = Ok (p2pkh_spk h) /\
                        raw_serialize (p2sh_script h) = Ok (p2sh_spk h) /\
                        raw_serialize (p2wpkh_script h) = Ok (p2wpkh_spk h)) /\
  (length h = 32%nat -> raw_serialize (p2wsh_script h) = Ok (p2wsh_spk h)) /\
  (length h = 33%nat -> raw_serialize [Op 81; Data h; Op 81; Op 174] = Ok (multisig_1of1 h)).
Proof. exact script_templates. Qed.

Section C05.
Variable C : curve.
Hypothesis laws : curve_laws C.
Variable sha256 : bytes -> bytes.
Variable hash160 : bytes -> bytes.
Hypothesis sha256_len : forall x, length (sha256 x) = 32%nat.
Hypothesis sha256_wf : forall x, wf_bytes (sha256 x).
Hypothesis hash160_len : forall x, length (hash160 x) = 20%nat.
Hypothesis hash160_wf : forall x, wf_bytes (hash160 x).
Notation A := BASE58_ALPHABET.

(* the five address methods are the Spec payloads/programs under Base58Check / the segwit encoder,
   on the wallet's network, for every node whose public key is K *)
Theorem C05_address_spec : forall nd K testnet,
  public_key C nd = Ok K ->
  p2pkh_address C A sha256 hash160 nd testnet = rmap Some (encode_base58_checksum A sha256 (p2pkh_payload hash160 (ser_c C K) testnet)) /\
  p2sh_p2wpkh_address C A sha256 hash160 nd testnet = rmap Some (encode_base58_checksum A sha256 (p2sh_p2wpkh_payload hash160 (ser_c C K) testnet)) /\
  p2sh_p2wsh_address C A sha256 hash160 nd testnet = rmap Some (encode_base58_checksum A sha256 (p2sh_p2wsh_payload sha256 hash160 (ser_c C K) testnet)) /\
  p2wpkh_address C A sha256 hash160 nd testnet = Bech32M.encode (segwit_hrp testnet) 0 (hash160 (ser_c C K)) /\
  p2wsh_address C sha256 nd testnet = Bech32M.encode (segwit_hrp testnet) 0 (p2wsh_program sha256 (ser_c C K)).
Proof. exact (address_spec C laws sha256 hash160 sha256_len sha256_wf hash160_len hash160_wf). Qed.

(* the Base58Check addresses decode, with the standard decoder, to exactly version byte || hash *)
Theorem C05_base58_address_decodes : forall payload, wf_bytes payload ->
  exists s, encode_base58_checksum A sha256 payload = Ok s /\ decode_base58_checksum A sha256 s = Ok payload.
Proof. exact (base58_address_decodes C laws sha256 hash160 sha256_len sha256_wf hash160_len hash160_wf). Qed.
End C05.

(* RIPEMD-160: for every message length the compression function runs over
   message || 80 || zeros || 64-bit little-endian bit count, a whole number of blocks *)
Theorem C05_ripemd_padding : forall data,
  8 * Z.of_nat (length data) < 2 ^ 64 ->
  let stream := data ++ [128] ++ repeat 0 (pad_zeros (Z.of_nat (length data))) ++ le_bytes 8 (8 * Z.of_nat (length data)) in
  processed data = Ok stream /\ (length stream mod 64 = 0)%nat /\ (pad_zeros (Z.of_nat (length data)) < 64)%nat.
Proof. exact processed_spec. Qed.

Print Assumptions C05_prefixes_are_spec.
Print Assumptions C05_script_templates.
Print Assumptions C05_address_spec.
Print Assumptions C05_base58_address_decodes.
Print Assumptions C05_ripemd_padding.
