(* C13 -- Derivation is a pure function of root key and path, whatever happened before.   (schedules PARTIAL)
   State machine model (Model/History.v): the only mutable state is bookkeeping (children lists, generator
   counters).  The theorems are over ALL finite request sequences and ALL interleavings of tagged requests.
   Their premise -- that no method reads `children`, assigns a field of an existing object, or writes a module
   global -- is re-established from the CURRENT source on every run (C13_effects_discipline, over gen/Effects.v).
   Real preemption between bytecodes is only sampled by the driver (CPython's atomic list.append is assumed). *)
From BHW Require Import Lib.Base Lib.ListAux Model.Helper Model.Keys Model.Bip32M Model.PaperWallet Model.History
  Spec.Curve Proofs.Wallet Proofs.History Proofs.EffectsP.
From BHWGen Require Import Effects.

(* statement: Proofs/EffectsP.v, effects_discipline_stmt *)
Theorem C13_effects_discipline : effects_discipline_stmt.
Proof. exact effects_discipline. Qed.

Section C13.
Variable C : curve.
Variable hmac512 : bytes -> bytes -> bytes.
Variable sha256 hash160 : bytes -> bytes.
Variable alph : list Z.

(* the answer to any request after any history equals the answer on the fresh wallet *)
Theorem C13_history_irrelevant : forall s ops o,
  snd (step C hmac512 sha256 hash160 alph (run C hmac512 sha256 hash160 alph s ops) o)
  = eval C hmac512 sha256 hash160 alph (root s) o.
Proof. exact (history_irrelevant C hmac512 sha256 hash160 alph). Qed.

(* every interleaving of requests issued by several threads answers each request as if it were alone *)
Theorem C13_interleaving_irrelevant : forall sched s,
  answers C hmac512 sha256 hash160 alph s sched
  = map (fun p => (fst p, eval C hmac512 sha256 hash160 alph (root s) (snd p))) sched.
Proof. exact (interleaving_irrelevant C hmac512 sha256 hash160 alph). Qed.

(* no request alters the root *)
Theorem C13_root_unchanged : forall s ops, root (run C hmac512 sha256 hash160 alph s ops) = root s.
Proof. exact (root_unchanged C hmac512 sha256 hash160 alph). Qed.

(* deriving a concatenated path = deriving its parts in sequence *)
Theorem C13_derive_app : forall p nd q,
  derive_path C hmac512 nd (p ++ q) = bind (derive_path C hmac512 nd p) (fun c => derive_path C hmac512 c q).
Proof. exact (derive_app C hmac512 sha256 hash160 alph). Qed.

(* address generators: consecutive indexes, or skipping ahead by the number sent *)
Theorem C13_generator_consecutive : forall n, gen_index (repeat None n) = Z.of_nat n.
Proof. exact (generator_consecutive C hmac512 sha256 hash160 alph). Qed.
Theorem C13_generator_skips : forall sends v, v <> 0 -> gen_index (sends ++ [Some v]) = gen_index sends + v.
Proof. exact (generator_skips C hmac512 sha256 hash160 alph). Qed.
End C13.

Print Assumptions C13_effects_discipline.
Print Assumptions C13_history_irrelevant.
Print Assumptions C13_interleaving_irrelevant.
Print Assumptions C13_root_unchanged.
Print Assumptions C13_derive_app.
Print Assumptions C13_generator_consecutive.
Print Assumptions C13_generator_skips.
