(* Effects discipline of the current source (regenerated table gen/Effects.v). *)
From Coq Require Import List String Bool.
Import ListNotations.
From BHWGen Require Import Effects.
Open Scope string_scope.

(* the premise that makes the model's shape faithful, re-checked against the CURRENT source on every run:
   `children` is only initialised and appended to, never read; no method assigns an attribute of an existing
   object outside constructors (the two listed exceptions assign to a freshly built local object); no module
   global is declared/assigned inside a function *)
Definition effects_discipline_stmt : Prop :=
  watched_reads = [] /\ global_decls = [] /\
  attr_mutations = [("bip32.PrvKeyNode.ckd", "self", "children", "append"); ("bip32.PubKeyNode.ckd", "self", "children", "append")] /\
  filter (fun w => negb (String.eqb (snd (fst w)) "self" && (if String.index 0 ".__init__" (fst (fst w)) then true else false))) attr_writes
  = [("base_wallet.BaseWallet.from_mnemonic", "wallet", "mnemonic"); ("base_wallet.BaseWallet.from_mnemonic", "wallet", "password");
     ("bip32.PubKeyNode._parse", "key", "parsed_version")].

Theorem effects_discipline : effects_discipline_stmt.
Proof. unfold effects_discipline_stmt. repeat split; vm_compute; reflexivity. Qed.
