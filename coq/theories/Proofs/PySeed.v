(* Source semantics of bip39.bip39_seed_from_mnemonic (regenerated term) = Model/Bip39M.v, with unicodedata.normalize("NFKD", .)
   and hashlib.pbkdf2_hmac("sha512", ., ., .) as external primitives (arbitrary functions) and str.encode("utf-8") computed. *)
From BHW Require Import Lib.Base Lib.ListAux Lib.PyInt Model.Helper Model.Bip39M Py.Interp Py.Tactics.
From BHWGen Require Import Consts PyAst.
Open Scope string_scope.
Open Scope Z_scope.
Open Scope list_scope.

Section WithExterns.
Variable nfkd : list Z -> list Z.
Variable pbkdf2 : bytes -> bytes -> Z -> bytes.
Variable ext : fenv_t.
Hypothesis ext_nfkd :
  ext "bip39.unicodedata.normalize_nfkd" = Some (fun args => match args with [VStr s] => Val (VStr (nfkd s)) | _ => Exc TypeError end).
Hypothesis ext_pbkdf2 :
  ext "bip39.hashlib.pbkdf2_hmac_sha512"
  = Some (fun args => match args with [VBytes a; VBytes b; VInt n] => Val (VBytes (pbkdf2 a b n)) | _ => Exc TypeError end).

(* str.encode("utf-8") as the model's parameter: total by giving the empty string where CPython raises (excluded by hypothesis) *)
Definition utf8 (s : list Z) : bytes := match utf8_encode s with Some b => b | None => [] end.

Lemma seed_sem fuel m p :
  utf8_encode (nfkd m) <> None -> utf8_encode (nfkd s_mnemonic ++ nfkd p) <> None ->
  sem_bip39__bip39_seed_from_mnemonic ext fuel [VStr m; VStr p]
  = Val (VBytes (bip39_seed_from_mnemonic nfkd utf8 pbkdf2 m p)).
Proof.
  intros H1 H2.
  unfold sem_bip39__bip39_seed_from_mnemonic, call, ast_bip39__bip39_seed_from_mnemonic, bip39_seed_from_mnemonic, utf8. pystep.
  rewrite !ext_nfkd. pystep.
  change [109; 110; 101; 109; 111; 110; 105; 99] with s_mnemonic.
  rewrite ext_pbkdf2.
  destruct (utf8_encode (nfkd m)) as [bm|]; [|congruence]. pystep.
  destruct (utf8_encode (nfkd s_mnemonic ++ nfkd p)) as [bp|]; [|congruence]. pystep. change PBKDF2_ROUNDS with 2048. reflexivity.
Qed.
End WithExterns.
