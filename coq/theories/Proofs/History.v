(* C13: answers do not depend on history, order, repetition or interleaving; the root never changes. *)
From BHW Require Import Lib.Base Lib.ListAux Model.Helper Model.Keys Model.Bip32M Model.PaperWallet Model.History
  Spec.Curve Proofs.Wallet.
From BHWGen Require Import Consts Effects.
From Coq Require String.
Import String.StringSyntax.

Section History.
Variable C : curve.
Variable hmac512 : bytes -> bytes -> bytes.
Variable sha256 hash160 : bytes -> bytes.
Variable alph : list Z.
Set Default Proof Using "All".

Notation step := (step C hmac512 sha256 hash160 alph).
Notation run := (run C hmac512 sha256 hash160 alph).
Notation eval := (eval C hmac512 sha256 hash160 alph).

Lemma run_root ops : forall s, root (run s ops) = root s.
Proof.
  induction ops as [|o r IH]; intros s; [reflexivity|].
  unfold History.run in *. cbn [fold_left]. rewrite IH. reflexivity.
Qed.

(* no request alters the root key material *)
Theorem root_unchanged s ops : root (run s ops) = root s.
Proof. apply run_root. Qed.

(* the answer to a request after ANY finite sequence of earlier requests is the answer on the fresh wallet *)
Theorem history_irrelevant s ops o :
  snd (step (run s ops) o) = eval (root s) o.
Proof. unfold History.step. cbn [snd]. rewrite run_root. reflexivity. Qed.

(* in particular two histories over the same root give the same answers, whatever was appended *)
Theorem history_independent s1 s2 ops1 ops2 o :
  root s1 = root s2 -> snd (step (run s1 ops1) o) = snd (step (run s2 ops2) o).
Proof. intros H. rewrite !history_irrelevant, H. reflexivity. Qed.

(* interleavings: answers of a merged schedule = answers of each request alone.  A schedule is any list of
   requests tagged with the thread that issued them; each thread's k-th answer is eval on the root. *)
Fixpoint answers (s : hstate) (sched : list (nat * op)) : list (nat * answer) :=
  match sched with
  | [] => []
  | (t, o) :: r => (t, snd (step s o)) :: answers (fst (step s o)) r
  end.

Theorem interleaving_irrelevant sched : forall s,
  answers s sched = map (fun p => (fst p, eval (root s) (snd p))) sched.
Proof.
  induction sched as [|[t o] r IH]; intros s; [reflexivity|].
  cbn [answers map fst snd]. rewrite IH. reflexivity.
Qed.

(* address generator: the k-th yield is at index sum(sent or 1), consecutive when nothing is sent *)
Theorem generator_consecutive n : gen_index (repeat None n) = Z.of_nat n.
Proof.
  unfold gen_index. assert (H : forall i, fold_left send_step (repeat None n) i = i + Z.of_nat n).
  { induction n as [|m IH]; intros i; [cbn; lia|]. cbn [repeat fold_left]. rewrite IH. unfold send_step. lia. }
  rewrite H. lia.
Qed.

Theorem generator_skips sends v : v <> 0 -> gen_index (sends ++ [Some v]) = gen_index sends + v.
Proof.
  intros Hv. unfold gen_index. rewrite fold_left_app. cbn [fold_left]. unfold send_step.
  destruct (v =? 0) eqn:E; [lia|reflexivity].
Qed.
End History.

