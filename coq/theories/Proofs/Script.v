(* Script wire format: push forms, parse o serialize = id, byte accounting, truncation. *)
From BHW Require Import Lib.Base Lib.Digits Lib.ListAux Model.Helper Model.ScriptM
  Spec.Script Proofs.Varint.

Definition to_item (c : cmd) : item := match c with Op o => SOp o | Data d => SPush d end.

Definition wf_cmd (c : cmd) : Prop :=
  match c with
  | Op o => o = 0 \/ 78 <= o <= 255
  | Data d => (1 <= length d <= 520)%nat /\ wf_bytes d
  end.

Definition opt_res {A} (o : option A) : res A := match o with Some a => Ok a | None => Err end.

(* ---- serialisation agrees with the Spec (push forms) ---- *)
Ltac zb := repeat match goal with
  | |- context [?a <=? ?b] =>
      let H := fresh in
      first [assert (H : (a <=? b) = true) by lia | assert (H : (a <=? b) = false) by lia];
      rewrite !H; clear H
  | |- context [?a <? ?b] =>
      let H := fresh in
      first [assert (H : (a <? b) = true) by lia | assert (H : (a <? b) = false) by lia];
      rewrite !H; clear H
  end; cbn [andb orb].

Theorem push_form d :
  (1 <= length d)%nat -> ser_cmd (Data d) = opt_res (push d).
Proof.
  intros Hl. unfold ser_cmd, push, int_to_little_endian.
  set (n := Z.of_nat (length d)). assert (Hn : 1 <= n) by lia.
  destruct (Z_le_gt_dec n 75); [|destruct (Z_le_gt_dec n 255); [|destruct (Z_le_gt_dec n 520)]]; zb.
  - rewrite z2le_ok by (change (256 ^ Z.of_nat 1) with 256; lia).
    rewrite le_bytes_1 by lia. reflexivity.
  - rewrite !z2le_ok by (change (256 ^ Z.of_nat 1) with 256; lia).
    rewrite !le_bytes_1 by lia. reflexivity.
  - rewrite z2le_ok by (change (256 ^ Z.of_nat 1) with 256; lia).
    rewrite z2le_ok by (change (256 ^ Z.of_nat 2) with 65536; lia).
    rewrite le_bytes_1 by lia. reflexivity.
  - reflexivity.
Qed.

Theorem op_form o : ser_cmd (Op o) = opt_res (item_bytes (SOp o)).
Proof.
  unfold ser_cmd, item_bytes, int_to_little_endian. rewrite z2le_spec.
  change (256 ^ Z.of_nat 1) with 256.
  destruct ((o <? 0) || (256 <=? o)) eqn:E.
  - destruct ((0 <=? o) && (o <=? 255)) eqn:E'; [lia|reflexivity].
  - destruct ((0 <=? o) && (o <=? 255)) eqn:E'; [|lia].
    rewrite le_bytes_1 by lia. reflexivity.
Qed.

Theorem too_long_refused d : (520 < length d)%nat -> ser_cmd (Data d) = Err.
Proof.
  intros H. rewrite push_form by lia. unfold push.
  destruct ((1 <=? Z.of_nat (length d)) && (Z.of_nat (length d) <=? 75)) eqn:E1; [lia|].
  destruct ((76 <=? Z.of_nat (length d)) && (Z.of_nat (length d) <=? 255)) eqn:E2; [lia|].
  destruct ((256 <=? Z.of_nat (length d)) && (Z.of_nat (length d) <=? 520)) eqn:E3; [lia|reflexivity].
Qed.

Theorem too_long_refused_script cmds d :
  In (Data d) cmds -> (520 < length d)%nat -> raw_serialize cmds = Err /\ serialize cmds = Err.
Proof.
  intros Hin Hl. assert (H : raw_serialize cmds = Err).
  { induction cmds as [|c r IH]; [destruct Hin|]. cbn [raw_serialize].
    destruct Hin as [->|Hin].
    - rewrite too_long_refused by exact Hl. reflexivity.
    - destruct (ser_cmd c); cbn [bind]; auto. rewrite IH by exact Hin. reflexivity. }
  split; auto. unfold serialize. rewrite H. reflexivity.
Qed.

Lemma raw_serialize_spec cmds :
  Forall (fun c => match c with Data d => (1 <= length d)%nat | _ => True end) cmds ->
  raw_serialize cmds = opt_res (script_bytes (map to_item cmds)).
Proof.
  induction 1 as [|c r Hc _ IH]; [reflexivity|].
  cbn [raw_serialize map script_bytes]. rewrite IH.
  assert (Hs : ser_cmd c = opt_res (item_bytes (to_item c))).
  { destruct c; [apply op_form|apply push_form; exact Hc]. }
  rewrite Hs. destruct (item_bytes (to_item c)); cbn [opt_res bind]; [|reflexivity].
  destruct (script_bytes (map to_item r)); reflexivity.
Qed.

Theorem serialize_spec cmds :
  Forall (fun c => match c with Data d => (1 <= length d)%nat | _ => True end) cmds ->
  serialize cmds = opt_res (script_wire (map to_item cmds)).
Proof.
  intros H. unfold serialize, script_wire. rewrite raw_serialize_spec by exact H.
  destruct (script_bytes (map to_item cmds)) as [raw|]; cbn [opt_res bind]; [|reflexivity].
  rewrite encode_varint_spec. destruct (compact_size (Z.of_nat (length raw))); reflexivity.
Qed.

(* ---- each wf command, serialised, is at least one byte, and parses back ---- *)
Lemma ser_cmd_wf c x : wf_cmd c -> ser_cmd c = Ok x -> (1 <= length x)%nat.
Proof.
  intros Hw H. destruct c as [o|d].
  - rewrite op_form in H. unfold item_bytes in H.
    destruct ((0 <=? o) && (o <=? 255)); inversion H. simpl. lia.
  - destruct Hw as [Hl _]. rewrite push_form in H by lia. unfold push in H.
    destruct ((1 <=? Z.of_nat (length d)) && (Z.of_nat (length d) <=? 75)); [inversion H; simpl; lia|].
    destruct ((76 <=? Z.of_nat (length d)) && (Z.of_nat (length d) <=? 255)); [inversion H; simpl; lia|].
    destruct ((256 <=? Z.of_nat (length d)) && (Z.of_nat (length d) <=? 520)); [inversion H; simpl; lia|discriminate].
Qed.

Lemma raw_serialize_length cmds raw :
  Forall wf_cmd cmds -> raw_serialize cmds = Ok raw -> (length cmds <= length raw)%nat.
Proof.
  revert raw; induction cmds as [|c r IH]; intros raw Hw H; [simpl; lia|].
  inversion Hw as [|? ? Hc Hr]; subst. cbn [raw_serialize] in H.
  destruct (ser_cmd c) as [x|] eqn:Ex; cbn [bind] in H; [|discriminate].
  destruct (raw_serialize r) as [y|] eqn:Ey; cbn [bind] in H; [|discriminate].
  inversion H; subst raw. rewrite app_length. cbn [length].
  pose proof (ser_cmd_wf c x Hc Ex). pose proof (IH y Hr eq_refl). lia.
Qed.

(* One loop iteration on the serialisation of one wf command. *)
Opaque le_bytes.
Lemma parse_one c x fuel s rest count len acc :
  wf_cmd c -> ser_cmd c = Ok x -> sremaining s = x ++ rest -> count < len ->
  parse_loop (S fuel) s count len acc
  = parse_loop fuel {| sdata := sdata s; spos := spos s + length x |}
      (count + Z.of_nat (length x)) len (acc ++ [c])
  /\ sremaining {| sdata := sdata s; spos := spos s + length x |} = rest.
Proof.
  intros Hw Hx Hs Hlt. cbn [parse_loop].
  destruct (count <? len) eqn:Ec; [|lia].
  destruct c as [o|d].
  - (* opcode *)
    rewrite op_form in Hx. unfold item_bytes in Hx.
    destruct ((0 <=? o) && (o <=? 255)) eqn:Eo; inversion Hx; subst x. clear Hx.
    destruct (sread_exact_rem s [o] rest Hs) as [H1 H2]. change (length [o]) with 1%nat in *.
    rewrite H1. cbn [bind].
    simpl in Hw.
    destruct ((1 <=? o) && (o <=? 75)) eqn:E1; [lia|].
    destruct (o =? 76) eqn:E2; [lia|]. destruct (o =? 77) eqn:E3; [lia|].
    split; [reflexivity|exact H2].
  - destruct Hw as [Hl Hwf]. rewrite push_form in Hx by lia. unfold push in Hx.
    set (n := Z.of_nat (length d)) in *.
    destruct ((1 <=? n) && (n <=? 75)) eqn:E1.
    + inversion Hx; subst x; clear Hx.
      change ((n :: d) ++ rest) with ([n] ++ (d ++ rest)) in Hs.
      destruct (sread_exact_rem s [n] _ Hs) as [H1 H2]. change (length [n]) with 1%nat in *.
      rewrite H1. cbn [bind]. rewrite E1.
      destruct (sread_exact_rem _ d rest H2) as [H3 H4]. cbn [sdata spos] in *.
      replace (Z.to_nat n) with (length d) by (unfold n; lia).
      rewrite H3. cbn [bind]. cbn [length].
      replace (spos s + S (length d))%nat with (spos s + 1 + length d)%nat by lia.
      replace (count + Z.of_nat (S (length d))) with (count + 1 + n) by (unfold n; lia).
      split; [reflexivity|exact H4].
    + destruct ((76 <=? n) && (n <=? 255)) eqn:E2.
      * inversion Hx; subst x; clear Hx.
        change ((76 :: n :: d) ++ rest) with ([76] ++ ([n] ++ (d ++ rest))) in Hs.
        destruct (sread_exact_rem s [76] _ Hs) as [H1 H2]. change (length [76]) with 1%nat in *.
        rewrite H1. cbn [bind]. change ((1 <=? 76) && (76 <=? 75)) with false. change (76 =? 76) with true. cbv iota.
        destruct (sread_exact_rem _ [n] _ H2) as [H3 H4]. cbn [sdata spos] in *. change (length [n]) with 1%nat in *.
        rewrite H3. cbn [bind].
        assert (Hle : little_endian_to_int [n] = n).
        { unfold little_endian_to_int, le2z. rewrite of_le_cons, of_le_nil. lia. }
        rewrite Hle.
        destruct (sread_exact_rem _ d rest H4) as [H5 H6]. cbn [sdata spos] in *.
        replace (Z.to_nat n) with (length d) by (unfold n; lia).
        rewrite H5. cbn [bind]. cbn [length].
        replace (spos s + S (S (length d)))%nat with (spos s + 1 + 1 + length d)%nat by lia.
        replace (count + Z.of_nat (S (S (length d)))) with (count + 1 + n + 1) by (unfold n; lia).
        split; [reflexivity|exact H6].
      * destruct ((256 <=? n) && (n <=? 520)) eqn:E3; [|discriminate].
        inversion Hx; subst x; clear Hx.
        change ((77 :: le_bytes 2 n ++ d) ++ rest) with ([77] ++ ((le_bytes 2 n ++ d) ++ rest)) in Hs.
        rewrite <- app_assoc in Hs.
        destruct (sread_exact_rem s [77] _ Hs) as [H1 H2]. change (length [77]) with 1%nat in *.
        rewrite H1. cbn [bind]. change ((1 <=? 77) && (77 <=? 75)) with false.
        change (77 =? 76) with false. change (77 =? 77) with true. cbv iota.
        destruct (sread_exact_rem _ (le_bytes 2 n) _ H2) as [H3 H4]. cbn [sdata spos] in *.
        rewrite le_bytes_length in *. rewrite H3. cbn [bind].
        unfold little_endian_to_int. rewrite le2z_le_bytes by (change (256 ^ Z.of_nat 2) with 65536; lia).
        destruct (sread_exact_rem _ d rest H4) as [H5 H6]. cbn [sdata spos] in *.
        replace (Z.to_nat n) with (length d) by (unfold n; lia).
        rewrite H5. cbn [bind]. cbn [length]. rewrite app_length, le_bytes_length.
        replace (spos s + S (2 + length d))%nat with (spos s + 1 + 2 + length d)%nat by lia.
        replace (count + Z.of_nat (S (2 + length d))) with (count + 1 + n + 2) by (unfold n; lia).
        split; [reflexivity|exact H6].
Qed.

Transparent le_bytes.

Lemma parse_loop_ser cmds : forall raw, Forall wf_cmd cmds -> raw_serialize cmds = Ok raw ->
  forall fuel s post count len acc,
  sremaining s = raw ++ post -> len = count + Z.of_nat (length raw) -> (length cmds < fuel)%nat ->
  parse_loop fuel s count len acc
  = Ok (acc ++ cmds, len, {| sdata := sdata s; spos := spos s + length raw |})
  /\ sremaining {| sdata := sdata s; spos := spos s + length raw |} = post.
Proof.
  induction cmds as [|c r IH]; intros raw Hw Hraw fuel s post count len acc Hs Hlen Hf.
  - cbn [raw_serialize] in Hraw. inversion Hraw; subst raw. cbn [length app] in *.
    destruct fuel as [|f]; [lia|]. cbn [parse_loop].
    destruct (count <? len) eqn:E; [lia|]. rewrite app_nil_r, Nat.add_0_r.
    destruct s as [d p]. cbn [sdata spos]. split; [|exact Hs].
    replace len with count by lia. reflexivity.
  - pose proof (Forall_inv Hw) as Hc. pose proof (Forall_inv_tail Hw) as Hr. cbn [raw_serialize] in Hraw.
    destruct (ser_cmd c) as [x|] eqn:Ex; cbn [bind] in Hraw; [|discriminate].
    destruct (raw_serialize r) as [y|] eqn:Ey; cbn [bind] in Hraw; [|discriminate].
    inversion Hraw; subst raw. clear Hraw.
    destruct fuel as [|f]; [lia|]. cbn [length] in Hf.
    rewrite <- app_assoc in Hs.
    pose proof (ser_cmd_wf c x Hc Ex) as Hx1.
    assert (Hlt : count < len) by (rewrite app_length in Hlen; lia).
    destruct (parse_one c x f s (y ++ post) count len acc Hc Ex Hs Hlt) as [P1 P2].
    rewrite P1.
    destruct (IH y Hr eq_refl f _ post (count + Z.of_nat (length x)) len (acc ++ [c]) P2) as [Q1 Q2].
    + rewrite app_length in Hlen. lia.
    + lia.
    + cbn [sdata spos] in *. rewrite Q1. rewrite <- app_assoc. cbn [app].
      rewrite app_length. replace (spos s + (length x + length y))%nat with (spos s + length x + length y)%nat by lia.
      split; [reflexivity|exact Q2].
Qed.

Theorem parse_serialize cmds bs rest :
  Forall wf_cmd cmds -> serialize cmds = Ok bs ->
  exists s', parse (mkstream (bs ++ rest)) = Ok (cmds, s') /\ spos s' = length bs /\ sremaining s' = rest.
Proof.
  intros Hw Hser. unfold serialize in Hser.
  destruct (raw_serialize cmds) as [raw|] eqn:Eraw; cbn [bind] in Hser; [|discriminate].
  destruct (encode_varint (Z.of_nat (length raw))) as [v|] eqn:Ev; cbn [bind] in Hser; [|discriminate].
  inversion Hser; subst bs. clear Hser.
  assert (Hrange : 0 <= Z.of_nat (length raw) < 18446744073709551616).
  { split; [lia|]. destruct (Z_lt_ge_dec (Z.of_nat (length raw)) 18446744073709551616); auto.
    rewrite varint_refuses in Ev by lia. discriminate. }
  destruct (varint_roundtrip _ (mkstream ((v ++ raw) ++ rest)) (raw ++ rest) Hrange) as [e [He [_ [_ Hrd]]]].
  rewrite Ev in He. inversion He; subst e. clear He.
  destruct Hrd as [R1 R2].
  { unfold sremaining, mkstream. cbn [sdata spos skipn]. rewrite app_assoc. reflexivity. }
  unfold parse. rewrite R1. cbn [bind].
  set (s1 := {| sdata := sdata (mkstream ((v ++ raw) ++ rest)); spos := spos (mkstream ((v ++ raw) ++ rest)) + length v |}) in *.
  destruct (parse_loop_ser cmds raw Hw Eraw (S (length (sremaining s1))) s1 rest 0 (Z.of_nat (length raw)) [] R2) as [L1 L2].
  - lia.
  - rewrite R2, app_length. pose proof (raw_serialize_length cmds raw Hw Eraw). lia.
  - rewrite L1. cbn [bind]. rewrite Z.eqb_refl. eexists. split; [reflexivity|]. split; [|exact L2].
    unfold s1, mkstream. cbn [sdata spos]. rewrite app_length. lia.
Qed.

(* ---- accounting: an accepted parse consumed exactly varint + declared length bytes, all present ---- *)
Lemma sread_exact_wf n s c s' :
  sread_exact n s = Ok (c, s') -> wf_bytes (sdata s) -> wf_bytes c.
Proof.
  unfold sread_exact, sread.
  destruct (length (firstn n (skipn (spos s) (sdata s))) =? n)%nat; [|discriminate].
  intros H Hw. inversion H; subst. apply Forall_firstn, Forall_skipn. exact Hw.
Qed.

Lemma le2z_nonneg l : wf_bytes l -> 0 <= little_endian_to_int l.
Proof. intros H. unfold little_endian_to_int, le2z. apply of_le_nonneg; [lia|exact H]. Qed.

Lemma parse_loop_accounts fuel : forall s count len acc cmds count' s',
  parse_loop fuel s count len acc = Ok (cmds, count', s') ->
  wf_bytes (sdata s) ->
  (spos s <= length (sdata s))%nat ->
  sdata s' = sdata s /\ Z.of_nat (spos s') - Z.of_nat (spos s) = count' - count /\
  (spos s' <= length (sdata s))%nat.
Proof.
  induction fuel as [|f IH]; intros s count len acc cmds count' s' H Hwf Hb; [discriminate|].
  cbn [parse_loop] in H. destruct (count <? len).
  2:{ inversion H; subst. split; [reflexivity|]. split; [lia|exact Hb]. }
  destruct (sread_exact 1 s) as [[cur s1]|] eqn:E1; cbn [bind] in H; [|discriminate].
  destruct (sread_exact_ok _ _ _ _ E1) as [L1 [D1 [P1 _]]].
  pose proof (sread_exact_bound _ _ _ _ E1 Hb) as B1.
  destruct cur as [|cb [|? ?]]; try discriminate.
  destruct ((1 <=? cb) && (cb <=? 75)) eqn:C1.
  { destruct (sread_exact (Z.to_nat cb) s1) as [[d s2]|] eqn:E2; cbn [bind] in H; [|discriminate].
    destruct (sread_exact_ok _ _ _ _ E2) as [L2 [D2 [P2 _]]].
    assert (B2 : (spos s2 <= length (sdata s2))%nat).
    { rewrite D2. apply (sread_exact_bound _ _ _ _ E2). rewrite D1. exact B1. }
    destruct (IH _ _ _ _ _ _ _ H ltac:(rewrite D2, D1; exact Hwf) B2) as [Ha [Hb' Hc]].
    rewrite Ha, D2, D1. split; [reflexivity|]. rewrite D2, D1 in Hc. split; [lia|exact Hc]. }
  destruct (cb =? 76) eqn:C2.
  { destruct (sread_exact 1 s1) as [[l s2]|] eqn:E2; cbn [bind] in H; [|discriminate].
    destruct (sread_exact (Z.to_nat (little_endian_to_int l)) s2) as [[d s3]|] eqn:E3; cbn [bind] in H; [|discriminate].
    destruct (sread_exact_ok _ _ _ _ E2) as [L2 [D2 [P2 _]]].
    destruct (sread_exact_ok _ _ _ _ E3) as [L3 [D3 [P3 _]]].
    assert (B2 : (spos s2 <= length (sdata s2))%nat).
    { rewrite D2. apply (sread_exact_bound _ _ _ _ E2). rewrite D1. exact B1. }
    assert (B3 : (spos s3 <= length (sdata s3))%nat).
    { rewrite D3. apply (sread_exact_bound _ _ _ _ E3). exact B2. }
    destruct (IH _ _ _ _ _ _ _ H ltac:(rewrite D3, D2, D1; exact Hwf) B3) as [Ha [Hb' Hc]].
    rewrite Ha, D3, D2, D1. split; [reflexivity|]. rewrite D3, D2, D1 in Hc. split; [|exact Hc].
    assert (0 <= little_endian_to_int l).
    { apply le2z_nonneg. apply (sread_exact_wf _ _ _ _ E2). rewrite D1. exact Hwf. }
    lia. }
  destruct (cb =? 77) eqn:C3.
  { destruct (sread_exact 2 s1) as [[l s2]|] eqn:E2; cbn [bind] in H; [|discriminate].
    destruct (sread_exact (Z.to_nat (little_endian_to_int l)) s2) as [[d s3]|] eqn:E3; cbn [bind] in H; [|discriminate].
    destruct (sread_exact_ok _ _ _ _ E2) as [L2 [D2 [P2 _]]].
    destruct (sread_exact_ok _ _ _ _ E3) as [L3 [D3 [P3 _]]].
    assert (B2 : (spos s2 <= length (sdata s2))%nat).
    { rewrite D2. apply (sread_exact_bound _ _ _ _ E2). rewrite D1. exact B1. }
    assert (B3 : (spos s3 <= length (sdata s3))%nat).
    { rewrite D3. apply (sread_exact_bound _ _ _ _ E3). exact B2. }
    destruct (IH _ _ _ _ _ _ _ H ltac:(rewrite D3, D2, D1; exact Hwf) B3) as [Ha [Hb' Hc]].
    rewrite Ha, D3, D2, D1. split; [reflexivity|]. rewrite D3, D2, D1 in Hc. split; [|exact Hc].
    assert (0 <= little_endian_to_int l).
    { apply le2z_nonneg. apply (sread_exact_wf _ _ _ _ E2). rewrite D1. exact Hwf. }
    lia. }
  assert (B1' : (spos s1 <= length (sdata s1))%nat) by (rewrite D1; exact B1).
  destruct (IH _ _ _ _ _ _ _ H ltac:(rewrite D1; exact Hwf) B1') as [Ha [Hb' Hc]].
  rewrite Ha, D1. split; [reflexivity|]. rewrite D1 in Hc. split; [lia|exact Hc].
Qed.

Theorem parse_accounts b cmds s' :
  wf_bytes b -> parse (mkstream b) = Ok (cmds, s') ->
  exists len s1, read_varint (mkstream b) = Ok (len, s1) /\
    Z.of_nat (spos s') = Z.of_nat (spos s1) + len /\ (spos s' <= length b)%nat.
Proof.
  intros Hwf H. unfold parse in H.
  destruct (read_varint (mkstream b)) as [[len s1]|] eqn:Ev; cbn [bind] in H; [|discriminate].
  destruct (read_varint_ok _ _ _ Ev) as [D1 [P1 B1]]. cbn [mkstream sdata spos] in *.
  destruct (parse_loop (S (length (sremaining s1))) s1 0 len []) as [[[cs count] s2]|] eqn:El; cbn [bind] in H; [|discriminate].
  destruct (count =? len) eqn:Ec; [|discriminate]. inversion H; subst cs s2. clear H.
  destruct (parse_loop_accounts _ _ _ _ _ _ _ _ El) as [Da [Pa Ba]].
  - rewrite D1. exact Hwf.
  - rewrite D1. apply B1. lia.
  - exists len, s1. split; [reflexivity|]. rewrite D1 in Ba. split; [lia|exact Ba].
Qed.

Opaque le_bytes.
Lemma raw_serialize_wf cmds : forall raw,
  Forall wf_cmd cmds -> raw_serialize cmds = Ok raw -> wf_bytes raw.
Proof.
  induction cmds as [|c r IH]; intros raw Hw Eraw.
  - inversion Eraw. constructor.
  - pose proof (Forall_inv Hw) as Hc. pose proof (Forall_inv_tail Hw) as Hr.
    cbn [raw_serialize] in Eraw.
    destruct (ser_cmd c) as [x|] eqn:Ex; cbn [bind] in Eraw; [|discriminate].
    destruct (raw_serialize r) as [y|] eqn:Ey; cbn [bind] in Eraw; [|discriminate].
    inversion Eraw; subst raw. apply wf_app. split; [|apply IH; auto].
    destruct c as [o|d].
    + rewrite op_form in Ex. unfold item_bytes in Ex.
      destruct ((0 <=? o) && (o <=? 255)) eqn:Eo; inversion Ex.
      constructor; [unfold byte_ok; lia|constructor].
    + destruct Hc as [Hl Hd]. rewrite push_form in Ex by lia. unfold push in Ex.
      set (n := Z.of_nat (length d)) in *.
      destruct ((1 <=? n) && (n <=? 75)) eqn:E1.
      { inversion Ex. constructor; [unfold byte_ok; lia|exact Hd]. }
      destruct ((76 <=? n) && (n <=? 255)) eqn:E2.
      { inversion Ex. constructor; [unfold byte_ok; lia|]. constructor; [unfold byte_ok; lia|exact Hd]. }
      destruct ((256 <=? n) && (n <=? 520)) eqn:E3; [|discriminate].
      inversion Ex. constructor; [unfold byte_ok; lia|]. apply wf_app. split; [apply le_bytes_wf|exact Hd].
Qed.

Transparent le_bytes.

Lemma serialize_wf cmds bs : Forall wf_cmd cmds -> serialize cmds = Ok bs -> wf_bytes bs.
Proof.
  intros Hw Hser. unfold serialize in Hser.
  destruct (raw_serialize cmds) as [raw|] eqn:Eraw; cbn [bind] in Hser; [|discriminate].
  destruct (encode_varint (Z.of_nat (length raw))) as [v|] eqn:Ev; cbn [bind] in Hser; [|discriminate].
  inversion Hser; subst bs. apply wf_app. split.
  - assert (Hrange : 0 <= Z.of_nat (length raw) < 18446744073709551616).
    { split; [lia|]. destruct (Z_lt_ge_dec (Z.of_nat (length raw)) 18446744073709551616); auto.
      rewrite varint_refuses in Ev by lia. discriminate. }
    destruct (varint_roundtrip _ (mkstream []) [] Hrange) as [e [He [_ [Hwe _]]]].
    rewrite Ev in He. inversion He; subst. exact Hwe.
  - apply (raw_serialize_wf cmds); auto.
Qed.

(* every proper prefix of a valid serialisation is rejected *)
Theorem truncation_rejected cmds bs k :
  Forall wf_cmd cmds -> serialize cmds = Ok bs -> (k < length bs)%nat ->
  parse_bytes (firstn k bs) = Err.
Proof.
  intros Hw Hser Hk. unfold parse_bytes.
  destruct (parse (mkstream (firstn k bs))) as [[cs s']|] eqn:Ep; [|reflexivity]. exfalso.
  assert (Hwfbs : wf_bytes bs) by (apply (serialize_wf cmds); auto).
  assert (Hwfp : wf_bytes (firstn k bs)) by (apply Forall_firstn; exact Hwfbs).
  destruct (parse_accounts _ _ _ Hwfp Ep) as [len [s1 [Hv [Hpos Hb]]]].
  rewrite firstn_length in Hb.
  (* the same varint is read from the full buffer *)
  unfold mkstream in Hv. pose proof (read_varint_prefix _ _ _ _ _ Hv) as Hfull.
  destruct (parse_serialize cmds bs [] Hw Hser) as [s2 [Hp2 [Hpos2 _]]].
  rewrite app_nil_r in Hp2.
  destruct (parse_accounts _ _ _ Hwfbs Hp2) as [len2 [s12 [Hv2 [Hposs2 _]]]].
  unfold mkstream in Hv2. rewrite Hfull in Hv2. inversion Hv2; subst len2 s12. cbn [spos] in *.
  lia.
Qed.
