(* WIF: payload layout, the first-character theorem (for every 32-byte key and every
   checksum), and from_wif o wif = id.  SEC round trip from the curve laws. *)
From BHW Require Import Lib.Base Lib.Digits Lib.ListAux Model.Helper Model.Keys Spec.Curve
  Proofs.Endian Proofs.Base58 Proofs.Bip32 Proofs.ExtKey.
From BHWGen Require Import Consts.

(* i-th base-b digit *)
Lemma to_le_nth b fuel : forall n i, 2 <= b -> 0 <= n -> n < 2 ^ Z.of_nat fuel ->
  (i < length (to_le b fuel n))%nat -> nth i (to_le b fuel n) 0 = (n / b ^ Z.of_nat i) mod b.
Proof.
  induction fuel as [|f IH]; intros n i Hb Hn Hf Hi; [simpl in Hi; lia|].
  cbn [to_le] in *. destruct (n <=? 0) eqn:E; [simpl in Hi; lia|].
  destruct i as [|j].
  - cbn [nth]. change (Z.of_nat 0) with 0. rewrite Z.pow_0_r, Z.div_1_r. reflexivity.
  - cbn [nth length] in *. rewrite IH; try lia.
    + rewrite Nat2Z.inj_succ, Z.pow_succ_r by lia. rewrite Z.div_div by (try lia; apply Z.pow_pos_nonneg; lia). reflexivity.
    + apply Z.div_pos; lia.
    + rewrite Nat2Z.inj_succ, Z.pow_succ_r in Hf by lia.
      assert (n / b <= n / 2) by (apply Z.div_le_compat_l; lia).
      assert (n / 2 < 2 ^ Z.of_nat f) by (apply Z.div_lt_upper_bound; lia). lia.
Qed.

(* the most significant base-b digit of n, when b^k <= n < b^(k+1), is n / b^k *)
Lemma leading_digit b k n : 2 <= b -> b ^ Z.of_nat k <= n < b ^ Z.of_nat (S k) ->
  exists ds, to_le_full b n = ds /\ length ds = S k /\ hd 0 (rev ds) = n / b ^ Z.of_nat k.
Proof.
  intros Hb Hn. assert (Hpos : 0 < b ^ Z.of_nat k) by (apply Z.pow_pos_nonneg; lia).
  exists (to_le_full b n). split; [reflexivity|].
  assert (Hlen : length (to_le_full b n) = S k).
  { unfold to_le_full. apply to_le_length; try lia. apply log2_fuel. lia. }
  split; [exact Hlen|].
  assert (Hlast : hd 0 (rev (to_le_full b n)) = nth k (to_le_full b n) 0).
  { destruct (to_le_full b n) as [|x r] eqn:E; [discriminate|].
    rewrite <- (rev_involutive (x :: r)) at 2. rewrite rev_nth by (rewrite rev_length; cbn [length] in *; lia).
    rewrite rev_length. cbn [length] in *. replace (S (length r) - S k)%nat with 0%nat by lia.
    destruct (rev (x :: r)); reflexivity. }
  rewrite Hlast. unfold to_le_full. rewrite to_le_nth; try lia.
  - apply Z.mod_small. split; [apply Z.div_pos; lia|].
    apply Z.div_lt_upper_bound; [lia|]. rewrite Nat2Z.inj_succ, Z.pow_succ_r in Hn by lia. lia.
  - apply log2_fuel. lia.
  - fold (to_le_full b n). rewrite Hlen. lia.
Qed.

(* generic: payload = p :: rest (p <> 0) of total length L; if lo*58^k <= p*256^(L-1) and
   (p+1)*256^(L-1) <= (hi+1)*58^k with hi < 58, the first Base58 character is the image of a digit in [lo, hi] *)
Definition first_char_bounds (p : Z) (L k : nat) (lo hi : Z) : bool :=
  (0 <? p) && (p <? 256) && (0 <? lo) && (hi <? 58) &&
  (lo * 58 ^ Z.of_nat k <=? p * 256 ^ Z.of_nat (L - 1)) &&
  ((p + 1) * 256 ^ Z.of_nat (L - 1) <=? (hi + 1) * 58 ^ Z.of_nat k).

Lemma b58_first_char alph p rest L k lo hi :
  length alph = 58%nat -> wf_bytes (p :: rest) -> length (p :: rest) = L ->
  first_char_bounds p L k lo hi = true ->
  exists s d, encode_base58 alph (p :: rest) = Ok s /\ lo <= d <= hi /\ hd 0 s = nth (Z.to_nat d) alph 0.
Proof.
  intros Ha Hw HL Hb. unfold first_char_bounds in Hb.
  repeat (apply andb_true_iff in Hb; destruct Hb as [Hb ?]).
  apply Z.ltb_lt in Hb. apply Z.ltb_lt in H3. apply Z.ltb_lt in H2. apply Z.ltb_lt in H1.
  apply Z.leb_le in H0. apply Z.leb_le in H.
  rewrite (encode_eq alph (fun x => x) Ha).
  assert (Hz : count_leading 0 (p :: rest) = 0%nat).
  { cbn [count_leading]. destruct (p =? 0) eqn:E; [lia|reflexivity]. }
  rewrite Hz. cbn [repeat app].
  set (N := be2z (p :: rest)).
  assert (HN : p * 256 ^ Z.of_nat (L - 1) <= N < (p + 1) * 256 ^ Z.of_nat (L - 1)).
  { unfold N. rewrite be2z_rev'. cbn [rev]. rewrite of_le_app, rev_length. cbn [of_le]. rewrite <- be2z_rev'.
    pose proof (be2z_range rest (Forall_inv_tail Hw)) as Hr. cbn [length] in HL.
    replace (L - 1)%nat with (length rest) by lia. lia. }
  assert (H58 : 0 < 58 ^ Z.of_nat k) by (apply Z.pow_pos_nonneg; lia).
  assert (Hrange : 58 ^ Z.of_nat k <= N < 58 ^ Z.of_nat (S k)).
  { rewrite Nat2Z.inj_succ, Z.pow_succ_r by lia. nia. }
  destruct (leading_digit 58 k N ltac:(lia) Hrange) as [ds [Hds [Hlen Hhd]]].
  rewrite Hds. eexists. exists (N / 58 ^ Z.of_nat k). split; [reflexivity|].
  assert (Hd : lo <= N / 58 ^ Z.of_nat k <= hi).
  { split; [apply Z.div_le_lower_bound; lia|].
    assert (N / 58 ^ Z.of_nat k < hi + 1) by (apply Z.div_lt_upper_bound; lia). lia. }
  split; [exact Hd|].
  destruct (rev ds) as [|x r] eqn:Er.
  { apply (f_equal (@length Z)) in Er. rewrite rev_length, Hlen in Er. discriminate. }
  cbn [map hd] in *. unfold chr_tot. rewrite Hhd. reflexivity.
Qed.

Section Wif.
Variable C : curve.
Hypothesis laws : curve_laws C.
Hypothesis order_eq : order C = CURVE_ORDER.
Variable sha256 : bytes -> bytes.
Hypothesis sha256_len : forall x, length (sha256 x) = 32%nat.
Hypothesis sha256_wf : forall x, wf_bytes (sha256 x).
Notation A := BASE58_ALPHABET.
Set Default Proof Using "All".

Lemma A_nodup : NoDup A. Proof. apply nodupb_spec. vm_compute. reflexivity. Qed.

(* accepts exactly 32 bytes encoding a scalar in [1, n-1]; .k is the same 32 bytes; .K = k.G *)
Theorem privkey_accepts_iff b : wf_bytes b ->
  (exists K, privkey_of_bytes C b = Ok (b, K) /\ G_mul C (be2z b) = Some K) <->
  (length b = 32%nat /\ 1 <= be2z b < CURVE_ORDER).
Proof.
  intros Hw. split.
  - intros [K [H _]]. unfold privkey_of_bytes in H.
    destruct (length b =? 32)%nat eqn:El; cbn [negb] in H; [|discriminate].
    rewrite order_eq in H. destruct ((be2z b <? 1) || (CURVE_ORDER <=? be2z b)) eqn:E; [discriminate|].
    apply Nat.eqb_eq in El. split; [exact El|lia].
  - intros [Hl Hr]. unfold privkey_of_bytes. rewrite Hl. change (negb (32 =? 32)%nat) with false. cbv iota.
    rewrite order_eq. destruct ((be2z b <? 1) || (CURVE_ORDER <=? be2z b)) eqn:E; [lia|].
    destruct (G_mul C (be2z b)) as [K|] eqn:EK.
    + exists K. split; [|reflexivity]. rewrite <- Hl at 1. rewrite z2be_be2z by exact Hw. reflexivity.
    + exfalso. apply (G_mul_some C laws (be2z b)); [rewrite order_eq; lia|exact EK].
Qed.

Theorem privkey_int_accepts_iff k :
  is_ok (privkey_of_int C k) = true <-> 1 <= k < CURVE_ORDER.
Proof.
  pose proof curve_order_lt as Hlt. unfold privkey_of_int, int_to_big_endian. split.
  - intros H. destruct (z2be 32 k) as [b|] eqn:Eb; cbn [bind] in H; [|discriminate].
    assert (Hr : 0 <= k < 256 ^ Z.of_nat 32).
    { unfold z2be, z2le in Eb. destruct ((k <? 0) || (256 ^ Z.of_nat 32 <=? k)) eqn:E; [discriminate|lia]. }
    destruct (z2be_ok 32 k Hr) as [b' [H1 [H2 [H3 H4]]]]. rewrite Eb in H1. inversion H1; subst b'.
    unfold privkey_of_bytes in H. rewrite H2 in H. change (negb (32 =? 32)%nat) with false in H. cbv iota in H.
    rewrite order_eq, H4 in H. destruct ((k <? 1) || (CURVE_ORDER <=? k)) eqn:E; [discriminate|lia].
  - intros Hk. destruct (z2be_ok 32 k ltac:(lia)) as [b [H1 [H2 [H3 H4]]]]. rewrite H1. cbn [bind].
    assert (Hr : 1 <= be2z b < CURVE_ORDER) by (rewrite H4; exact Hk).
    destruct (proj2 (privkey_accepts_iff b H3) (conj H2 Hr)) as [K [HK _]].
    rewrite HK. reflexivity.
Qed.

Theorem sec_roundtrip K c : pubkey_parse C (sec C K c) = Ok K.
Proof. unfold pubkey_parse, sec. destruct c; [rewrite (parse_ser_c C laws)|rewrite (parse_ser_u C laws)]; reflexivity. Qed.

(* ---- the four first characters, for every key and every checksum ---- *)
Lemma bounds_main_c : first_char_bounds 128 38 51 18 19 = true. Proof. vm_compute. reflexivity. Qed.
Lemma bounds_test_c : first_char_bounds 239 38 51 35 35 = true. Proof. vm_compute. reflexivity. Qed.
Lemma bounds_main_u : first_char_bounds 128 37 50 4 4 = true. Proof. vm_compute. reflexivity. Qed.
Lemma bounds_test_u : first_char_bounds 239 37 50 8 8 = true. Proof. vm_compute. reflexivity. Qed.

Definition first_char_ok (c : Z) (compressed testnet : bool) : Prop :=
  match compressed, testnet with
  | true, false => c = 75 \/ c = 76          (* K or L *)
  | true, true => c = 99                     (* c *)
  | false, false => c = 53                   (* 5 *)
  | false, true => c = 57                    (* 9 *)
  end.

Theorem wif_first_char k compressed testnet :
  wf_bytes k -> length k = 32%nat ->
  exists s, encode_base58_checksum A sha256 (wif_payload k compressed testnet) = Ok s /\
            first_char_ok (hd 0 s) compressed testnet.
Proof.
  intros Hw Hl. unfold encode_base58_checksum, wif_payload.
  set (pre := if testnet then 239 else 128).
  set (suf := if compressed then [1] else []).
  replace ((if testnet then [239] else [128]) ++ k ++ suf) with (pre :: k ++ suf) by (unfold pre; destruct testnet; reflexivity).
  set (chk := take 4 (hash256 sha256 (pre :: k ++ suf))).
  assert (Hcl : length chk = 4%nat) by (unfold chk, take, hash256; rewrite firstn_length, sha256_len; reflexivity).
  assert (Hcw : wf_bytes chk) by (unfold chk, take; apply Forall_firstn, sha256_wf).
  change ((pre :: k ++ suf) ++ chk) with (pre :: (k ++ suf) ++ chk).
  assert (Hwf : wf_bytes (pre :: (k ++ suf) ++ chk)).
  { constructor; [unfold pre, byte_ok; destruct testnet; lia|]. apply wf_app. split; [|exact Hcw].
    apply wf_app. split; [exact Hw|]. unfold suf. destruct compressed; [constructor; [unfold byte_ok; lia|constructor]|constructor]. }
  destruct compressed, testnet; unfold pre, suf in *.
  - destruct (b58_first_char A 239 ((k ++ [1]) ++ chk) 38 51 35 35 eq_refl Hwf) as [s [d [He [Hd Hh]]]];
      [cbn [length]; rewrite !app_length, Hl, Hcl; reflexivity|exact bounds_test_c|].
    exists s. split; [exact He|]. cbn. assert (d = 35) by lia. subst d. rewrite Hh. reflexivity.
  - destruct (b58_first_char A 128 ((k ++ [1]) ++ chk) 38 51 18 19 eq_refl Hwf) as [s [d [He [Hd Hh]]]];
      [cbn [length]; rewrite !app_length, Hl, Hcl; reflexivity|exact bounds_main_c|].
    exists s. split; [exact He|]. cbn. assert (Hc : d = 18 \/ d = 19) by lia. rewrite Hh.
    destruct Hc; subst d; [left|right]; reflexivity.
  - destruct (b58_first_char A 239 ((k ++ []) ++ chk) 37 50 8 8 eq_refl Hwf) as [s [d [He [Hd Hh]]]];
      [cbn [length]; rewrite !app_length, Hl, Hcl; reflexivity|exact bounds_test_u|].
    exists s. split; [exact He|]. cbn. assert (d = 8) by lia. subst d. rewrite Hh. reflexivity.
  - destruct (b58_first_char A 128 ((k ++ []) ++ chk) 37 50 4 4 eq_refl Hwf) as [s [d [He [Hd Hh]]]];
      [cbn [length]; rewrite !app_length, Hl, Hcl; reflexivity|exact bounds_main_u|].
    exists s. split; [exact He|]. cbn. assert (d = 4) by lia. subst d. rewrite Hh. reflexivity.
Qed.

Notation from_wif := (Keys.from_wif C A sha256).

Theorem from_wif_wif k compressed testnet K :
  wf_bytes k -> privkey_of_bytes C k = Ok (k, K) ->
  exists s, encode_base58_checksum A sha256 (wif_payload k compressed testnet) = Ok s /\
            from_wif s = Ok (k, K).
Proof.
  intros Hw Hk.
  assert (Hl : length k = 32%nat).
  { unfold privkey_of_bytes in Hk. destruct (length k =? 32)%nat eqn:E; cbn [negb] in Hk; [|discriminate]. apply Nat.eqb_eq in E. exact E. }
  destruct (wif_first_char k compressed testnet Hw Hl) as [s [He Hf]].
  exists s. split; [exact He|].
  assert (Hwp : wf_bytes (wif_payload k compressed testnet)).
  { unfold wif_payload. apply wf_app. split; [destruct testnet; constructor; try constructor; unfold byte_ok; lia|].
    apply wf_app. split; [exact Hw|]. destruct compressed; [constructor; [unfold byte_ok; lia|constructor]|constructor]. }
  destruct (decode_encode_checksum A sha256 eq_refl A_nodup eq_refl sha256_len sha256_wf _ Hwp) as [s' [He' Hd]].
  rewrite He in He'. inversion He'; subst s'. clear He'.
  unfold Keys.from_wif. rewrite Hd. cbn [bind].
  destruct s as [|c0 rest]; [destruct compressed, testnet; cbn in Hf; try destruct Hf as [Hf|Hf]; discriminate Hf|].
  cbn [hd] in Hf. unfold wif_payload.
  destruct compressed, testnet; cbn in Hf.
  - subst c0. change ((99 =? 75) || (99 =? 76) || (99 =? 99)) with true. cbv iota.
    rewrite app_assoc, rev_app_distr. cbn [rev app].
    change (239 :: k ++ [1]) with ((239 :: k) ++ [1]). change (128 :: k ++ [1]) with ((128 :: k) ++ [1]).
    rewrite drop_last_one. cbn [app drop skipn]. exact Hk.
  - assert (Hc : (c0 =? 75) || (c0 =? 76) || (c0 =? 99) = true) by (destruct Hf; subst; reflexivity).
    rewrite Hc. rewrite app_assoc, rev_app_distr. cbn [rev app].
    change (239 :: k ++ [1]) with ((239 :: k) ++ [1]). change (128 :: k ++ [1]) with ((128 :: k) ++ [1]).
    rewrite drop_last_one. cbn [app drop skipn]. exact Hk.
  - subst c0. change ((57 =? 75) || (57 =? 76) || (57 =? 99)) with false. cbv iota.
    rewrite app_nil_r. cbn [app drop skipn]. exact Hk.
  - subst c0. change ((53 =? 75) || (53 =? 76) || (53 =? 99)) with false. cbv iota.
    rewrite app_nil_r. cbn [app drop skipn]. exact Hk.
Qed.

End Wif.
