(* Source semantics (regenerated terms of btc_hd_wallet/helper.py, gen/PyAst.v) = Model/Helper.v, for all inputs:
   endian conversions, encode_varint, encode_base58, encode_base58_checksum, the Base58 address helpers.
   External primitive: hash256 (double SHA-256) enters through `ext` with the stated behaviour. *)
From BHW Require Import Lib.Base Lib.Digits Lib.ListAux Model.Helper Proofs.Base58 Py.Interp Py.Tactics.
From BHWGen Require Import Consts PyAst.
Open Scope string_scope.
Open Scope Z_scope.
Open Scope list_scope.

Definition A := BASE58_ALPHABET.
Lemma A_len : List.length A = 58%nat. Proof. reflexivity. Qed.

(* ---- endian ---- *)
Lemma le2int_sem ext fuel b :
  sem_helper__little_endian_to_int ext fuel [VBytes b] = Val (VInt (little_endian_to_int b)).
Proof. reflexivity. Qed.
Lemma be2int_sem ext fuel b :
  sem_helper__big_endian_to_int ext fuel [VBytes b] = Val (VInt (big_endian_to_int b)).
Proof. reflexivity. Qed.

Lemma int2le_sem ext fuel n (len : nat) :
  sem_helper__int_to_little_endian ext fuel [VInt n; VInt (Z.of_nat len)]
  = match int_to_little_endian n len with Ok b => Val (VBytes b) | Err => Exc OverflowError end.
Proof.
  unfold sem_helper__int_to_little_endian, call, ast_helper__int_to_little_endian. pystep.
  unfold to_bytes_le, int_to_little_endian, z2le.
  replace (Z.of_nat len <? 0) with false by lia. rewrite Nat2Z.id.
  destruct ((n <? 0) || (256 ^ Z.of_nat len <=? n)); reflexivity.
Qed.
Lemma int2be_sem ext fuel n (len : nat) :
  sem_helper__int_to_big_endian ext fuel [VInt n; VInt (Z.of_nat len)]
  = match int_to_big_endian n len with Ok b => Val (VBytes b) | Err => Exc OverflowError end.
Proof.
  unfold sem_helper__int_to_big_endian, call, ast_helper__int_to_big_endian. pystep.
  unfold to_bytes_le, int_to_big_endian, z2be, z2le.
  replace (Z.of_nat len <? 0) with false by lia. rewrite Nat2Z.id.
  destruct ((n <? 0) || (256 ^ Z.of_nat len <=? n)); reflexivity.
Qed.
#[global] Arguments sem_helper__int_to_little_endian : simpl never.
#[global] Arguments sem_helper__int_to_big_endian : simpl never.

(* ---- varint ---- *)
Lemma encode_varint_sem ext fuel i :
  sem_helper__encode_varint ext fuel [VInt i]
  = match encode_varint i with
    | Ok b => Val (VBytes b)
    | Err => Exc (if i <? 0 then OverflowError else ValueError)
    end.
Proof.
  unfold sem_helper__encode_varint, call, ast_helper__encode_varint, encode_varint. pystep.
  destruct (i <? 253) eqn:E1; pystep.
  { change 1 with (Z.of_nat 1). rewrite int2le_sem. unfold int_to_little_endian, z2le.
    destruct ((i <? 0) || (256 ^ Z.of_nat 1 <=? i)) eqn:E; [|reflexivity].
    replace (i <? 0) with true by lia. reflexivity. }
  replace (i <? 0) with false by lia.
  destruct (i <? 65536) eqn:E2; pystep.
  { change 2 with (Z.of_nat 2). rewrite int2le_sem. unfold int_to_little_endian, z2le.
    replace ((i <? 0) || (256 ^ Z.of_nat 2 <=? i)) with false by lia. reflexivity. }
  destruct (i <? 4294967296) eqn:E3; pystep.
  { change 4 with (Z.of_nat 4). rewrite int2le_sem. unfold int_to_little_endian, z2le.
    replace ((i <? 0) || (256 ^ Z.of_nat 4 <=? i)) with false by lia. reflexivity. }
  destruct (i <? 18446744073709551616) eqn:E4; pystep; [|reflexivity].
  change 8 with (Z.of_nat 8). rewrite int2le_sem. unfold int_to_little_endian, z2le.
  replace ((i <? 0) || (256 ^ Z.of_nat 8 <=? i)) with false by lia. reflexivity.
Qed.
#[global] Arguments sem_helper__encode_varint : simpl never.

(* ---- Base58 ---- *)
Lemma to_le_full_step b n : 2 <= b -> 0 < n -> to_le_full b n = n mod b :: to_le_full b (n / b).
Proof.
  intros Hb Hn.
  assert (Hq : 0 <= n / b) by (apply Z.div_pos; lia).
  assert (Hm := Z.mod_pos_bound n b ltac:(lia)).
  rewrite <- (to_le_full_of_le b (n mod b :: to_le_full b (n / b))); try lia.
  - f_equal. cbn [of_le]. rewrite of_le_to_le_full by lia. pose proof (Z.div_mod n b ltac:(lia)). lia.
  - constructor; [exact Hm|]. apply to_le_full_ok; lia.
  - right. destruct (Z.eq_dec (n / b) 0) as [E|E].
    + rewrite E. change (to_le_full b 0) with (@nil Z). cbn [last].
      assert (n = b * (n / b) + n mod b) by (apply Z.div_mod; lia). rewrite E in H. lia.
    + assert (Hne := to_le_full_nonempty b (n / b) Hb ltac:(lia)).
      destruct (to_le_full_canon b (n / b) Hb) as [C|C]; [contradiction|].
      destruct (to_le_full b (n / b)) as [|d r] eqn:Er; [contradiction|]. exact C.
Qed.

Definition chrA (d : Z) : Z := chr_tot A d.
Lemma index_A d : 0 <= d < 58 -> index A d = Val (chrA d).
Proof.
  intros H. unfold index. change (Z.of_nat (List.length A)) with 58.
  replace (d <? 0) with false by lia. replace ((d <? 0) || (58 <=? d)) with false by lia.
  unfold chrA, chr_tot.
  assert (Hlt : (Z.to_nat d < List.length A)%nat) by (rewrite A_len; lia).
  rewrite (nth_error_nth' A 0 Hlt). reflexivity.
Qed.

Definition b58_env (data : option val) (count : Z) (c : option val) (num : option val) (prefix : option val) (result : option val) (md : option val) : env :=
  [("data", data); ("count", Some (VInt count)); ("c", c); ("num", num); ("prefix", prefix); ("result", result); ("mod", md)].

Lemma count_leading_Z data :
  Z.of_nat (count_leading 0 (0 :: data)) = 1 + Z.of_nat (count_leading 0 data).
Proof. cbn [count_leading]. replace (0 =? 0) with true by reflexivity. lia. Qed.

Lemma concat_repeat1 {X} (x : X) n : List.concat (repeat [x] n) = repeat x n.
Proof. induction n; cbn; [reflexivity|]. rewrite IHn. reflexivity. Qed.

Lemma be2z_bound58 data : wf_bytes data -> 0 <= of_be 256 data < 58 ^ Z.of_nat (2 * List.length data).
Proof.
  intros Hwf. change (of_be 256 data) with (be2z data). rewrite be2z_rev.
  assert (Hd : digits_ok 256 (rev data)) by (apply digits_ok_rev; apply wf_digits; exact Hwf).
  pose proof (of_le_nonneg 256 ltac:(lia) (rev data) Hd).
  pose proof (of_le_bound 256 ltac:(lia) (rev data) Hd) as Hb. rewrite rev_length in Hb.
  split; [lia|]. eapply Z.lt_le_trans; [exact Hb|].
  rewrite Nat2Z.inj_mul. change (Z.of_nat 2) with 2. rewrite Z.pow_mul_r by lia. change (58 ^ 2) with 3364.
  apply Z.pow_le_mono_l. lia.
Qed.

Lemma encode_base58_sem ext fuel data :
  wf_bytes data -> (2 * List.length data < fuel)%nat ->
  exists s, encode_base58 A data = Ok s /\ sem_helper__encode_base58 ext fuel [VBytes data] = Val (VStr s).
Proof.
  intros Hwf Hfuel. rewrite (encode_eq A (fun x => x) A_len). eexists. split; [reflexivity|].
  unfold sem_helper__encode_base58, call, ast_helper__encode_base58.
  pystep.
  match goal with |- context [for_loop ?b _ _] => set (body := b) end.
  assert (H : forall l cnt d c n p r m, exists c',
     for_loop body (map VInt l) (b58_env d cnt c n p r m)
     = SNormal (b58_env d (cnt + Z.of_nat (count_leading 0 l)) c' n p r m)).
  { induction l as [|x l IH]; intros.
    - exists c. unfold b58_env. rewrite Z.add_0_r. reflexivity.
    - cbn [map for_loop]. unfold body at 1. unfold b58_env at 1. pystep.
      destruct (x =? 0) eqn:E; pystep.
      + destruct (IH (cnt + 1) d (Some (VInt x)) n p r m) as (c' & E').
        unfold b58_env in E' at 1. rewrite E'. exists c'.
        replace (cnt + Z.pos (Pos.of_succ_nat (count_leading 0 l))) with (cnt + 1 + Z.of_nat (count_leading 0 l)) by lia.
        reflexivity.
      + exists (Some (VInt x)). rewrite ?Z.add_0_r. reflexivity. }
  destruct (H data 0 (Some (VBytes data)) None None None None None) as (c' & E). clearbody body.
  unfold b58_env in E at 1. rewrite E. clear E H body. unfold b58_env. pystep.
  match goal with |- context [while_loop _ ?c ?b _] => set (cond := c); set (wbody := b) end.
  set (ENV := fun (d cnt c : option val) (num : Z) (p : option val) (res : list Z) (m : option val) =>
     [("data", d); ("count", cnt); ("c", c); ("num", Some (VInt num)); ("prefix", p); ("result", Some (VStr res)); ("mod", m)] : env).
  assert (Hc : forall d cnt c num p res m, cond (ENV d cnt c num p res m) = Val (VBool (0 <? num))) by (intros; reflexivity).
  assert (Hb : forall d cnt c num p res m, 0 < num ->
     wbody (ENV d cnt c num p res m) = SNormal (ENV d cnt c (num / 58) p (chrA (num mod 58) :: res) (Some (VInt (num mod 58))))).
  { intros. unfold wbody, ENV. pystep. change (index _ (num mod 58)) with (index A (num mod 58)).
    rewrite index_A by (apply Z.mod_pos_bound; lia). pystep. reflexivity. }
  clearbody cond wbody.
  assert (W : forall k num res d cnt c p m fu, 0 <= num < 58 ^ Z.of_nat k -> (k < fu)%nat ->
     exists m', while_loop fu cond wbody (ENV d cnt c num p res m)
              = SNormal (ENV d cnt c 0 p (map chrA (rev (to_le_full 58 num)) ++ res) m')).
  { induction k as [|k IH]; intros num res d cnt c p m fu Hn Hf.
    - change (58 ^ Z.of_nat 0) with 1 in Hn. assert (num = 0) by lia. subst num.
      destruct fu as [|fu]; [lia|]. exists m. cbn [while_loop]. rewrite Hc. reflexivity.
    - destruct fu as [|fu]; [lia|]. cbn [while_loop]. rewrite Hc.
      destruct (0 <? num) eqn:P; cbn [truthy].
      + rewrite Hb by lia.
        assert (Hq : 0 <= num / 58 < 58 ^ Z.of_nat k).
        { split; [apply Z.div_pos; lia|]. apply Z.div_lt_upper_bound; [lia|].
          rewrite Nat2Z.inj_succ, Z.pow_succ_r in Hn by lia. lia. }
        destruct (IH (num / 58) (chrA (num mod 58) :: res) d cnt c p (Some (VInt (num mod 58))) fu Hq ltac:(lia)) as (m' & E).
        rewrite E. exists m'. rewrite (to_le_full_step 58 num) by lia.
        cbn [rev]. rewrite map_app. cbn [map]. rewrite <- app_assoc. reflexivity.
      + assert (num = 0) by lia. subst num. exists m. reflexivity. }
  destruct (W (2 * List.length data)%nat (of_be 256 data) [] (Some (VBytes data)) (Some (VInt (Z.of_nat (count_leading 0 data)))) c'
              (Some (VStr (List.concat (repeat [49] (Z.to_nat (Z.of_nat (count_leading 0 data))))))) None fuel
              (be2z_bound58 data Hwf) Hfuel) as (m' & E).
  unfold ENV in E. rewrite E. pystep. rewrite Nat2Z.id, concat_repeat1, app_nil_r. reflexivity.
Qed.
#[global] Arguments sem_helper__encode_base58 : simpl never.

(* ---- Base58Check encoding and the Base58 address helpers; hash256 is external ---- *)
#[global] Arguments sem_helper__encode_base58_checksum : simpl never.
Section WithSha.
Variable sha256 : bytes -> bytes.
Hypothesis sha256_wf : forall x, wf_bytes (sha256 x).
Variable ext : fenv_t.
Hypothesis ext_hash256 :
  ext "helper.hash256" = Some (fun args => match args with [VBytes b] => Val (VBytes (hash256 sha256 b)) | _ => Exc TypeError end).

Lemma firstn_wf n l : wf_bytes l -> wf_bytes (firstn n l).
Proof. apply Forall_firstn. Qed.

Lemma encode_base58_checksum_sem fuel data :
  wf_bytes data -> (2 * (List.length data + 4) < fuel)%nat ->
  exists s, encode_base58_checksum A sha256 data = Ok s /\
            sem_helper__encode_base58_checksum ext fuel [VBytes data] = Val (VStr s).
Proof.
  intros Hwf Hf. unfold encode_base58_checksum.
  assert (Hw : wf_bytes (data ++ take 4 (hash256 sha256 data))).
  { apply wf_app. split; [exact Hwf|]. apply firstn_wf. apply sha256_wf. }
  assert (Hl : (2 * List.length (data ++ take 4 (hash256 sha256 data)) < fuel)%nat).
  { rewrite app_length. unfold take. pose proof (firstn_le_length 4 (hash256 sha256 data)). lia. }
  destruct (encode_base58_sem ext fuel _ Hw Hl) as (s & E1 & E2). exists s. split; [exact E1|].
  unfold sem_helper__encode_base58_checksum, call, ast_helper__encode_base58_checksum. pystep.
  rewrite ext_hash256. pystep. rewrite slice_to by lia. change (Z.to_nat 4) with 4%nat.
  unfold take in E2. rewrite E2. reflexivity.
Qed.

Lemma h160_to_p2pkh_sem fuel h160 (testnet : bool) :
  wf_bytes h160 -> (2 * (List.length h160 + 5) < fuel)%nat ->
  exists s, encode_base58_checksum A sha256 ((if testnet then 111 else 0) :: h160) = Ok s /\
            sem_helper__h160_to_p2pkh_address ext fuel [VBytes h160; VBool testnet] = Val (VStr s).
Proof.
  intros Hwf Hf.
  assert (Hw : wf_bytes ((if testnet then 111 else 0) :: h160)).
  { constructor; [destruct testnet; unfold byte_ok; lia|exact Hwf]. }
  destruct (encode_base58_checksum_sem fuel _ Hw ltac:(cbn [List.length]; lia)) as (s & E1 & E2).
  exists s. split; [exact E1|].
  unfold sem_helper__h160_to_p2pkh_address, call, ast_helper__h160_to_p2pkh_address. pystep.
  destruct testnet; pystep; rewrite E2; reflexivity.
Qed.

Lemma h160_to_p2sh_sem fuel h160 (testnet : bool) :
  wf_bytes h160 -> (2 * (List.length h160 + 5) < fuel)%nat ->
  exists s, encode_base58_checksum A sha256 ((if testnet then 196 else 5) :: h160) = Ok s /\
            sem_helper__h160_to_p2sh_address ext fuel [VBytes h160; VBool testnet] = Val (VStr s).
Proof.
  intros Hwf Hf.
  assert (Hw : wf_bytes ((if testnet then 196 else 5) :: h160)).
  { constructor; [destruct testnet; unfold byte_ok; lia|exact Hwf]. }
  destruct (encode_base58_checksum_sem fuel _ Hw ltac:(cbn [List.length]; lia)) as (s & E1 & E2).
  exists s. split; [exact E1|].
  unfold sem_helper__h160_to_p2sh_address, call, ast_helper__h160_to_p2sh_address. pystep.
  destruct testnet; pystep; rewrite E2; reflexivity.
Qed.
End WithSha.
