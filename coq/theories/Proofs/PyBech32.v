(* The semantics of the REGENERATED source terms of btc_hd_wallet/bech32.py (gen/PyAst.v, produced by
   harness/pytrans.py from /repo on every run) equals the hand-written model Model/Bech32M.v, for all inputs.
   With these lemmas the theorems of Props/C11.v speak about the code as it is now: a change to the source
   changes the terms, and the proofs below are re-checked against them. *)
From BHW Require Import Lib.Base Lib.ListAux Model.Helper Model.Bech32M Py.Interp Py.Tactics.
From BHWGen Require Import Consts PyAst.
Open Scope string_scope.
Open Scope Z_scope.

Definition vints (l : list Z) : val := VList (map VInt l).
Definition vstr (s : list Z) : val := VStr s.

Lemma polymod_sem ext fuel l :
  sem_bech32__bech32_polymod ext fuel [vints l] = Val (VInt (bech32_polymod l)).
Proof.
  unfold sem_bech32__bech32_polymod, call, ast_bech32__bech32_polymod, vints.
  pystep.
  match goal with |- context [for_loop ?b _ _] => set (body := b) end.
  assert (H : forall l chk vv vt vi vals, exists vv' vt' vi',
     for_loop body (map VInt l) [("values", vals); ("generator", Some (VList [VInt 996825010; VInt 642813549; VInt 513874426; VInt 1027748829; VInt 705979059])); ("chk", Some (VInt chk)); ("value", vv); ("top", vt); ("i", vi)]
     = SNormal [("values", vals); ("generator", Some (VList [VInt 996825010; VInt 642813549; VInt 513874426; VInt 1027748829; VInt 705979059])); ("chk", Some (VInt (fold_left polymod_step l chk))); ("value", vv'); ("top", vt'); ("i", vi')]).
  { induction l0 as [|x r IH]; intros. do 3 eexists; reflexivity.
    cbn [map for_loop]. unfold body at 1.
    do 8 (rewrite ?testbit_py by lia; pystep).
    destruct (IH (polymod_step chk x) (Some (VInt x)) (Some (VInt (Z.shiftr chk 25))) (Some (VInt 4)) vals) as (a & b & c & E).
    exists a, b, c. exact E. }
  destruct (H l 1 None None None (Some (VList (map VInt l)))) as (a & b & c & E).
  rewrite E. pystep. reflexivity.
Qed.
#[global] Arguments sem_bech32__bech32_polymod : simpl never.

Lemma hrp_expand_sem ext fuel hrp :
  sem_bech32__bech32_hrp_expand ext fuel [vstr hrp] = Val (vints (bech32_hrp_expand hrp)).
Proof.
  unfold sem_bech32__bech32_hrp_expand, call, ast_bech32__bech32_hrp_expand, vints, vstr, bech32_hrp_expand.
  pystep.
  erewrite (comp_map_map _ (fun c => VStr [c]) (fun c => VInt (Z.shiftr c 5))) by (intros x; pystep; reflexivity).
  pystep.
  erewrite (comp_map_map _ (fun c => VStr [c]) (fun c => VInt (Z.land c 31))) by (intros x; pystep; reflexivity).
  pystep. rewrite !map_app, <- app_assoc. cbn [map app]. rewrite !map_map. reflexivity.
Qed.
#[global] Arguments sem_bech32__bech32_hrp_expand : simpl never.

Definition venc (e : encoding) : val :=
  match e with BECH32 => VEnum "Encoding.BECH32" | BECH32M => VEnum "Encoding.BECH32M" end.
#[global] Arguments bech32_create_checksum : simpl never.
#[global] Arguments bech32_verify_checksum : simpl never.
#[global] Arguments bech32_polymod : simpl never.
#[global] Arguments bech32_hrp_expand : simpl never.
Definition vopt {A} (f : A -> val) (o : option A) : val := match o with Some a => f a | None => VNone end.

Lemma verify_checksum_sem ext fuel hrp data :
  sem_bech32__bech32_verify_checksum ext fuel [vstr hrp; vints data]
  = Val (vopt venc (bech32_verify_checksum hrp data)).
Proof.
  unfold sem_bech32__bech32_verify_checksum, call, ast_bech32__bech32_verify_checksum.
  pystep. rewrite hrp_expand_sem. pystep.
  unfold vints. rewrite <- map_app. fold (vints (bech32_hrp_expand hrp ++ data)).
  rewrite polymod_sem. pystep.
  unfold bech32_verify_checksum.
  cbn.
  destruct (bech32_polymod (bech32_hrp_expand hrp ++ data) =? 1)%Z; pystep; [reflexivity|].
  change 734539939 with BECH32M_CONST.
  destruct (bech32_polymod (bech32_hrp_expand hrp ++ data) =? BECH32M_CONST)%Z; pystep; reflexivity.
Qed.
#[global] Arguments sem_bech32__bech32_verify_checksum : simpl never.

Lemma create_checksum_sem ext fuel hrp data spec :
  sem_bech32__bech32_create_checksum ext fuel [vstr hrp; vints data; venc spec]
  = Val (vints (bech32_create_checksum hrp data spec)).
Proof.
  unfold sem_bech32__bech32_create_checksum, call, ast_bech32__bech32_create_checksum.
  destruct spec.
  all: pystep; rewrite hrp_expand_sem; pystep.
  all: change [VInt 0; VInt 0; VInt 0; VInt 0; VInt 0; VInt 0] with (map VInt [0; 0; 0; 0; 0; 0]).
  all: unfold vints at 1; rewrite <- !map_app.
  all: fold (vints ((bech32_hrp_expand hrp ++ data) ++ [0; 0; 0; 0; 0; 0])).
  all: rewrite polymod_sem; pystep.
  all: reflexivity.
Qed.
#[global] Arguments sem_bech32__bech32_create_checksum : simpl never.

Lemma charset_index d :
  index CHARSET d = match charset_at d with Ok c => Val c | Err => Exc IndexError end.
Proof.
  unfold index, charset_at. change (Z.of_nat (List.length CHARSET)) with 32.
  destruct (d <? 0) eqn:E1.
  - replace (0 <=? d) with false by lia.
    destruct (-32 <=? d) eqn:E2.
    + replace ((d + 32 <? 0) || (32 <=? d + 32)) with false by lia.
      replace (32 + d) with (d + 32) by lia.
      destruct (nth_error CHARSET (Z.to_nat (d + 32))) eqn:E3; [reflexivity|].
      apply nth_error_None in E3. change (List.length CHARSET) with 32%nat in E3. lia.
    + replace ((d + 32 <? 0) || (32 <=? d + 32)) with true by lia. reflexivity.
  - replace (0 <=? d) with true by lia.
    destruct (32 <=? d) eqn:E2.
    + replace ((d <? 0) || true) with true by (destruct (d <? 0); reflexivity).
      destruct (nth_error CHARSET (Z.to_nat d)) eqn:E3; [|reflexivity].
      assert (nth_error CHARSET (Z.to_nat d) <> None) as H by congruence.
      apply nth_error_Some in H. change (List.length CHARSET) with 32%nat in H. lia.
    + replace ((d <? 0) || false) with false by lia.
      destruct (nth_error CHARSET (Z.to_nat d)) eqn:E3; [reflexivity|].
      apply nth_error_None in E3. change (List.length CHARSET) with 32%nat in E3. lia.
Qed.

Lemma bech32_encode_sem ext fuel hrp data spec :
  sem_bech32__bech32_encode ext fuel [vstr hrp; vints data; venc spec]
  = match bech32_encode hrp data spec with Ok s => Val (vstr s) | Err => Exc IndexError end.
Proof.
  unfold sem_bech32__bech32_encode, call, ast_bech32__bech32_encode.
  pystep. rewrite create_checksum_sem. pystep.
  rewrite <- map_app.
  erewrite (comp_map_res _ VInt charset_at (fun c => VStr [c]) IndexError)
    by (intros x; pystep; change (index _ x) with (index CHARSET x); rewrite charset_index; destruct (charset_at x); reflexivity).
  unfold bech32_encode. destruct (map_res charset_at (data ++ bech32_create_checksum hrp data spec)) as [cs|] eqn:E; pystep; [|reflexivity].
  rewrite (all_strs_map (fun c => [c])). pystep. rewrite join_empty_singletons'.
  unfold vstr. rewrite <- app_assoc. reflexivity.
Qed.
#[global] Arguments sem_bech32__bech32_encode : simpl never.
#[global] Arguments bech32_encode : simpl never.


Definition vdecoded (o : option (str * list Z * encoding)) : val :=
  match o with
  | None => VTuple [VNone; VNone; VNone]
  | Some (h, d, sp) => VTuple [vstr h; vints d; venc sp]
  end.

Lemma printable_ascii bech : existsb (fun x => (x <? 33) || (126 <? x)) bech = false -> ascii bech = true.
Proof.
  intros H. unfold ascii. apply forallb_forall. intros x Hx.
  assert (G : ((x <? 33) || (126 <? x)) = false).
  { destruct ((x <? 33) || (126 <? x)) eqn:E; [|reflexivity].
    assert (existsb (fun x => (x <? 33) || (126 <? x)) bech = true) by (apply existsb_exists; exists x; auto). congruence. }
  lia.
Qed.

Lemma rfind_from_rfind c l i b : rfind_from [c] l i b = rfind c l i b.
Proof.
  revert i b; induction l as [|x r IH]; intros i b; [reflexivity|].
  change (rfind_from [c] (x :: r) i b) with (rfind_from [c] r (i + 1) (if prefixb [c] (x :: r) then i else b)).
  rewrite prefixb_single, IH, (Z.eqb_sym c x). reflexivity.
Qed.
Lemma find_from_single0 c l : find_from [c] l 0 = match index_of c l with Some i => i | None => -1 end.
Proof. rewrite find_from_single. destruct (index_of c l); reflexivity. Qed.
Lemma drop_last_map {A B} (f : A -> B) k l : drop_last k (map f l) = map f (drop_last k l).
Proof. unfold drop_last. rewrite map_length, firstn_map. reflexivity. Qed.

Lemma bech32_decode_sem ext fuel bech :
  sem_bech32__bech32_decode ext fuel [vstr bech] = Val (vdecoded (bech32_decode bech)).
Proof.
  unfold sem_bech32__bech32_decode, call, ast_bech32__bech32_decode.
  pystep.
  erewrite (quant_any_map _ (fun c => VStr [c]) (fun x => (x <? 33) || (126 <? x))).
  2:{ intros x. pystep. destruct (x <? 33); reflexivity. }
  unfold bech32_decode.
  destruct (existsb (fun x => (x <? 33) || (126 <? x)) bech) eqn:E1; pystep; [reflexivity|].
  rewrite (printable_ascii _ E1). pystep.
  change Bech32M.lower_c with Interp.lower_c. change Bech32M.upper_c with Interp.upper_c.
  destruct (beq_bytes (map lower_c bech) bech) eqn:EL; destruct (beq_bytes (map upper_c bech) bech) eqn:EU; pystep; try reflexivity.
  all: rewrite (printable_ascii _ E1); pystep.
  all: rewrite !rfind_from_rfind.
  all: set (lb := map lower_c bech); set (pos := rfind 49 lb 0 (-1)); set (len := Z.of_nat (Datatypes.length lb)).
  all: destruct (pos <? 1) eqn:P1; pystep; [reflexivity|].
  all: destruct (len <? pos + 7) eqn:P2; pystep; [reflexivity|].
  all: destruct (90 <? len) eqn:P3; pystep; [reflexivity|].
  all: rewrite !slice_from by lia; pystep.
  all: erewrite (quant_all_map _ (fun c => VStr [c]) (fun x => memb x CHARSET))
         by (intros x; pystep; change (find_from [x] _ 0) with (find_from [x] CHARSET 0); rewrite find_from_single_memb; destruct (memb x CHARSET); reflexivity).
  all: pystep.
  all: destruct (forallb (fun x => memb x CHARSET) (skipn (Z.to_nat (pos + 1)) lb)) eqn:P4; pystep; [|reflexivity].
  all: rewrite !slice_to by lia; pystep.
  all: rewrite !slice_from by lia.
  all: set (tail := skipn (Z.to_nat (pos + 1)) lb) in *.
  all: set (ix := fun c => match index_of c CHARSET with Some i => i | None => -1 end).
  all: erewrite (comp_map_map _ (fun c => VStr [c]) (fun c => VInt (ix c)))
         by (intros x; pystep; change (find_from [x] _ 0) with (find_from [x] CHARSET 0); rewrite find_from_single0; reflexivity).
  all: pystep.
  all: rewrite <- (map_map ix VInt).
  all: change (VList (map VInt (map ix tail))) with (vints (map ix tail)).
  all: change (VStr (firstn (Z.to_nat pos) lb)) with (vstr (firstn (Z.to_nat pos) lb)).
  all: rewrite verify_checksum_sem.
  all: destruct (bech32_verify_checksum (firstn (Z.to_nat pos) lb) (map ix tail)) as [sp|] eqn:P5; pystep; [|reflexivity].
  all: destruct sp; pystep.
  all: change (-6) with (- (6)); rewrite slice_to_neg by lia; change (Z.to_nat 6) with 6%nat.
  all: rewrite drop_last_map; reflexivity.
Qed.
#[global] Arguments sem_bech32__bech32_decode : simpl never.
#[global] Arguments bech32_decode : simpl never.
