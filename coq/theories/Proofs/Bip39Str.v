(* The STRING route of mnemonic_from_entropy, as the code writes it:
     checksum         = bin(sha_int)[2:].zfill(256)[:cs]
     entropy_checksum = (bin(entropy_int)[2:] + checksum).zfill(bits + cs)
     indexes          = [int(c, 2) for c in re.findall("." * 11, entropy_checksum)]
   is modelled on bit lists (the characters '0'/'1' as 0/1) and proved equal to the arithmetic model
   Model.Bip39M.mnemonic_indexes for every entropy of a legal size. *)
From BHW Require Import Lib.Base Lib.Digits Lib.ListAux Model.Helper Model.Bip39M Proofs.Endian.
From BHWGen Require Import Consts.

(* bin(n)[2:] : no leading zeros, "0" for zero *)
Definition py_bin (n : Z) : list Z :=
  if n <=? 0 then [0] else rev (to_le 2 (Z.to_nat (Z.log2 n) + 1) n).
(* str.zfill(w): pads on the left, never truncates *)
Definition zfill (w : nat) (s : list Z) : list Z := repeat 0 (w - length s) ++ s.
(* re.findall("." * 11, s): non-overlapping chunks from the left, a shorter tail is dropped *)
Fixpoint chunks11 (k : nat) (s : list Z) : list (list Z) :=
  match k with O => [] | S k' => firstn 11 s :: chunks11 k' (skipn 11 s) end.
Definition findall11 (s : list Z) : list (list Z) := chunks11 (length s / 11) s.
(* int(c, 2) *)
Definition int2 (c : list Z) : Z := of_be 2 c.

Section Str.
Variable sha256 : bytes -> bytes.

Definition indexes_str (e : bytes) : res (list Z) :=
  let bits := 8 * Z.of_nat (length e) in
  if negb (memb bits CORRECT_ENTROPY_BITS) then Err else
  let cs := Z.to_nat (checksum_length bits) in
  let checksum := firstn cs (zfill 256 (py_bin (be2z (sha256 e)))) in
  let ec := zfill (Z.to_nat bits + cs) (py_bin (be2z e) ++ checksum) in
  Ok (map int2 (findall11 ec)).

(* ---- values of the pieces ---- *)
Definition bits_ok (s : list Z) : Prop := digits_ok 2 s.

Lemma of_be_app b xs ys : of_be b (xs ++ ys) = of_be b xs * b ^ Z.of_nat (length ys) + of_be b ys.
Proof.
  unfold of_be. rewrite fold_left_app. rewrite (fold_be_acc b ys (fold_left _ xs 0)).
  rewrite (fold_be_acc b ys 0). lia.
Qed.

Lemma of_be_zeros b k : of_be b (repeat 0 k) = 0.
Proof. induction k as [|k IH]; [reflexivity|]. unfold of_be in *. cbn [repeat fold_left]. exact IH. Qed.

Lemma of_be_bound s : bits_ok s -> 0 <= of_be 2 s < 2 ^ Z.of_nat (length s).
Proof.
  intros H. rewrite of_be_rev.
  assert (Hr : digits_ok 2 (rev s)) by (apply Forall_rev; exact H).
  split; [apply of_le_nonneg; [lia|exact Hr]|].
  pose proof (of_le_bound 2 ltac:(lia) (rev s) Hr) as Hb. rewrite rev_length in Hb. exact Hb.
Qed.

Lemma py_bin_ok n : bits_ok (py_bin n).
Proof.
  unfold py_bin. destruct (n <=? 0); [constructor; [unfold digit_ok; lia|constructor]|].
  apply Forall_rev. apply to_le_digits_ok. lia.
Qed.

Lemma py_bin_val n : 0 <= n -> of_be 2 (py_bin n) = n.
Proof.
  intros Hn. unfold py_bin. destruct (n <=? 0) eqn:E; [cbn; lia|].
  rewrite of_be_rev, rev_involutive. apply of_le_to_le; [lia|lia|].
  assert (Hp : 0 < n) by lia. pose proof (Z.log2_spec n Hp) as [_ Hl].
  replace (Z.of_nat (Z.to_nat (Z.log2 n) + 1)) with (Z.succ (Z.log2 n)); [exact Hl|].
  pose proof (Z.log2_nonneg n). lia.
Qed.

Lemma py_bin_len n w : 0 <= n < 2 ^ Z.of_nat w -> (0 < w)%nat -> (length (py_bin n) <= w)%nat.
Proof.
  intros Hn Hw. unfold py_bin. destruct (n <=? 0) eqn:E; [cbn; lia|].
  rewrite rev_length.
  assert (Hlen : forall f m, (length (to_le 2 f m) <= f)%nat).
  { induction f as [|f IH]; intros m; cbn [to_le]; [cbn; lia|]. destruct (m <=? 0); cbn [length]; [lia|]. specialize (IH (m / 2)). lia. }
  (* the number of binary digits of n is log2 n + 1 <= w *)
  assert (Hp : 0 < n) by lia.
  assert (Hlog : Z.log2 n < Z.of_nat w) by (apply Z.log2_lt_pow2; lia).
  pose proof (Hlen (Z.to_nat (Z.log2 n) + 1)%nat n). pose proof (Z.log2_nonneg n). lia.
Qed.

Lemma zfill_val w s : of_be 2 (zfill w s) = of_be 2 s.
Proof. unfold zfill. rewrite of_be_app, of_be_zeros. lia. Qed.

Lemma zfill_ok w s : bits_ok s -> bits_ok (zfill w s).
Proof.
  intros H. unfold zfill. apply Forall_app. split; [|exact H].
  apply Forall_forall. intros x Hx. apply repeat_spec in Hx. subst. unfold digit_ok. lia.
Qed.

Lemma zfill_len w s : (length s <= w)%nat -> length (zfill w s) = w.
Proof. intros H. unfold zfill. rewrite app_length, repeat_length. lia. Qed.

(* the first k of w bits are the value shifted right by w - k *)
Lemma firstn_val k s : bits_ok s -> (k <= length s)%nat ->
  of_be 2 (firstn k s) = of_be 2 s / 2 ^ Z.of_nat (length s - k).
Proof.
  intros Hs Hk. rewrite <- (firstn_skipn k s) at 2. rewrite of_be_app, skipn_length.
  assert (Hr : bits_ok (skipn k s)) by (apply Forall_skipn; exact Hs).
  pose proof (of_be_bound _ Hr) as Hb. rewrite skipn_length in Hb.
  assert (Hp : 0 < 2 ^ Z.of_nat (length s - k)) by (apply Z.pow_pos_nonneg; lia).
  rewrite Z.div_add_l by lia. rewrite (Z.div_small (of_be 2 (skipn k s))) by lia. lia.
Qed.

(* 11-bit chunks are the base-2048 digits *)
Lemma chunks_val k : forall s, bits_ok s -> length s = (11 * k)%nat ->
  of_be 2048 (map int2 (chunks11 k s)) = of_be 2 s /\
  length (chunks11 k s) = k /\ digits_ok 2048 (map int2 (chunks11 k s)).
Proof.
  induction k as [|k IH]; intros s Hs Hl.
  - destruct s; [|discriminate]. repeat split. constructor.
  - cbn [chunks11 map].
    assert (Hf : bits_ok (firstn 11 s)) by (apply Forall_firstn; exact Hs).
    assert (Hr : bits_ok (skipn 11 s)) by (apply Forall_skipn; exact Hs).
    assert (Hfl : length (firstn 11 s) = 11%nat) by (rewrite firstn_length; lia).
    assert (Hrl : length (skipn 11 s) = (11 * k)%nat) by (rewrite skipn_length; lia).
    destruct (IH (skipn 11 s) Hr Hrl) as [IHv [IHl IHd]].
    split; [|split].
    + change (int2 (firstn 11 s) :: map int2 (chunks11 k (skipn 11 s))) with ([int2 (firstn 11 s)] ++ map int2 (chunks11 k (skipn 11 s))).
      rewrite of_be_app, IHv, map_length, IHl.
      rewrite <- (firstn_skipn 11 s) at 3. rewrite of_be_app, Hrl.
      unfold of_be at 1. cbn [fold_left]. unfold int2.
      replace (2048 ^ Z.of_nat k) with (2 ^ Z.of_nat (11 * k)); [lia|].
      rewrite Nat2Z.inj_mul. change (Z.of_nat 11) with 11. rewrite Z.pow_mul_r by lia. reflexivity.
    + cbn [length]. rewrite IHl. reflexivity.
    + constructor; [|exact IHd]. unfold digit_ok, int2. pose proof (of_be_bound _ Hf) as Hb. rewrite Hfl in Hb.
      change (2 ^ Z.of_nat 11) with 2048 in Hb. exact Hb.
Qed.

Hypothesis sha256_wf : forall x, wf_bytes (sha256 x).
Hypothesis sha256_len : forall x, length (sha256 x) = 32%nat.

Theorem indexes_str_eq e : wf_bytes e -> indexes_str e = mnemonic_indexes sha256 e.
Proof.
  intros He. unfold indexes_str, mnemonic_indexes.
  set (bits := 8 * Z.of_nat (length e)).
  destruct (memb bits CORRECT_ENTROPY_BITS) eqn:Em; cbn [negb]; [|reflexivity].
  apply memb_spec in Em.
  (* the five sizes *)
  assert (Hsz : bits = 128 \/ bits = 160 \/ bits = 192 \/ bits = 224 \/ bits = 256).
  { unfold CORRECT_ENTROPY_BITS in Em. cbn [In] in Em. destruct Em as [H|[H|[H|[H|[H|[]]]]]]; rewrite <- H; tauto. }
  assert (Hcs : checksum_length bits = bits / 32) by reflexivity.
  set (csz := checksum_length bits) in *.
  assert (Hcsr : 4 <= csz <= 8 /\ 32 * csz = bits).
  { rewrite Hcs. destruct Hsz as [->|[->|[->|[->| ->]]]]; cbn; lia. }
  set (cs := Z.to_nat csz).
  assert (Hcsn : Z.of_nat cs = csz) by (unfold cs; lia).
  set (E := be2z e). set (S := be2z (sha256 e)).
  assert (HE : 0 <= E < 2 ^ bits).
  { pose proof (be2z_range e He) as Hr. unfold bits. rewrite Z.pow_mul_r by lia. exact Hr. }
  assert (HS : 0 <= S < 2 ^ 256).
  { pose proof (be2z_range (sha256 e) (sha256_wf e)) as Hr. rewrite sha256_len in Hr.
    change (256 ^ Z.of_nat 32) with (2 ^ 256) in Hr. exact Hr. }
  (* the checksum bits *)
  set (F := zfill 256 (py_bin S)).
  assert (HFok : bits_ok F) by (apply zfill_ok, py_bin_ok).
  assert (HFlen : length F = 256%nat).
  { apply zfill_len. apply py_bin_len; [change (Z.of_nat 256) with 256; lia|lia]. }
  assert (HFval : of_be 2 F = S) by (unfold F; rewrite zfill_val; apply py_bin_val; lia).
  set (C := firstn cs F).
  assert (HCok : bits_ok C) by (apply Forall_firstn; exact HFok).
  assert (HClen : length C = cs) by (unfold C; rewrite firstn_length; lia).
  assert (HCval : of_be 2 C = S / 2 ^ (256 - csz)).
  { unfold C. rewrite firstn_val by (try assumption; lia). rewrite HFval, HFlen. f_equal. f_equal. lia. }
  (* the whole bit string *)
  set (EC := zfill (Z.to_nat bits + cs) (py_bin E ++ C)).
  assert (HPlen : (length (py_bin E) <= Z.to_nat bits)%nat).
  { apply py_bin_len; [rewrite Z2Nat.id by lia; exact HE|lia]. }
  assert (HECok : bits_ok EC) by (apply zfill_ok, Forall_app; split; [apply py_bin_ok|exact HCok]).
  assert (HEClen : length EC = (Z.to_nat bits + cs)%nat).
  { apply zfill_len. rewrite app_length, HClen. lia. }
  assert (HECval : of_be 2 EC = E * 2 ^ csz + S / 2 ^ (256 - csz)).
  { unfold EC. rewrite zfill_val, of_be_app, py_bin_val, HClen, Hcsn, HCval by lia. reflexivity. }
  (* 11 k bits *)
  set (k := Z.to_nat ((bits + csz) / 11)).
  assert (Hk : (Z.to_nat bits + cs = 11 * k)%nat).
  { unfold k, cs. destruct Hcsr as [_ Hb]. destruct Hsz as [H|[H|[H|[H|H]]]]; rewrite H in *;
    assert (csz = bits / 32) by lia; subst csz; rewrite H; reflexivity. }
  unfold findall11. rewrite HEClen, Hk.
  replace (11 * k / 11)%nat with k by (rewrite Nat.mul_comm, Nat.div_mul; lia).
  rewrite Hk in HEClen.
  destruct (chunks_val k EC HECok HEClen) as [Hv [Hl Hd]].
  f_equal.
  (* both are k base-2048 digits of the same number *)
  set (total := E * 2 ^ csz + S / 2 ^ (256 - csz)) in *.
  assert (Htot : 0 <= total < 2048 ^ Z.of_nat k).
  { pose proof (of_be_bound EC HECok) as Hb. rewrite HECval, HEClen in Hb.
    rewrite Nat2Z.inj_mul in Hb. change (Z.of_nat 11) with 11 in Hb. rewrite Z.pow_mul_r in Hb by lia. exact Hb. }
  rewrite <- (rev_involutive (map int2 (chunks11 k EC))). f_equal.
  apply (of_le_inj_fixed 2048 ltac:(lia)).
  - apply Forall_rev. exact Hd.
  - apply to_le_fixed_ok. lia.
  - rewrite rev_length, map_length, Hl, to_le_fixed_length. reflexivity.
  - rewrite <- of_be_rev, Hv, HECval. symmetry. apply of_le_to_le_fixed; [lia|lia|exact (proj2 Htot)].
Qed.
End Str.
