(* Source semantics of Script.raw_serialize / Script.serialize (regenerated terms of the two methods; the Script object
   is the value VObj "Script" [cmds], its field is only read) = Model/ScriptM.v, for every command list. *)
From BHW Require Import Lib.Base Lib.Digits Lib.ListAux Model.Helper Model.ScriptM Py.Interp Py.Tactics Proofs.PyHelper.
From BHWGen Require Import Consts PyAst.
Open Scope string_scope.
Open Scope Z_scope.
Open Scope list_scope.

Definition vcmd (c : cmd) : val := match c with Op o => VInt o | Data d => VBytes d end.
Definition vscript (cmds : list cmd) : val := VObj "Script" [VList (map vcmd cmds)].

Definition rs_env (self : option val) (result : list Z) (c l : option val) : env :=
  [("self", self); ("result", Some (VBytes result)); ("cmd", c); ("length", l)].

Ltac i2le := try change (VInt 1) with (VInt (Z.of_nat 1)); try change (VInt 2) with (VInt (Z.of_nat 2)); rewrite !int2le_sem.

Lemma raw_serialize_sem ext fuel cmds :
  agrees (sem_script__Script__raw_serialize ext fuel [vscript cmds]) (rmap VBytes (raw_serialize cmds)).
Proof.
  unfold sem_script__Script__raw_serialize, call, ast_script__Script__raw_serialize, vscript.
  pystep.
  match goal with |- context [for_loop ?b _ _] => set (body := b) end.
  assert (H : forall l self acc c0 l0,
     match raw_serialize l with
     | Ok b => exists c1 l1, for_loop body (map vcmd l) (rs_env self acc c0 l0) = SNormal (rs_env self (acc ++ b) c1 l1)
     | Err => exists e, for_loop body (map vcmd l) (rs_env self acc c0 l0) = SExc e /\ genuine e
     end).
  { induction l as [|c r IH]; intros self acc c0 l0.
    - cbn [raw_serialize map for_loop]. exists c0, l0. rewrite app_nil_r. reflexivity.
    - cbn [raw_serialize map for_loop]. unfold body at 1. unfold rs_env at 1.
      destruct c as [o|d]; cbn [vcmd ser_cmd]; pystep.
      + i2le.
        destruct (int_to_little_endian o 1) as [x|]; cbn [bind]; pystep.
        2:{ exists OverflowError. split; [reflexivity|split; discriminate]. }
        specialize (IH self (acc ++ x) (Some (VInt o)) l0). unfold rs_env in IH.
        destruct (raw_serialize r) as [y|]; cbn [bind].
        * destruct IH as (c1 & l1 & E). rewrite E. exists c1, l1. unfold rs_env. rewrite app_assoc. reflexivity.
        * destruct IH as (e & E & G). rewrite E. exists e. split; [reflexivity|exact G].
      + set (len := Z.of_nat (Datatypes.length d)).
        destruct (len <=? 75) eqn:L1; pystep.
        { i2le.
          destruct (int_to_little_endian len 1) as [x|]; cbn [bind]; pystep.
          2:{ exists OverflowError. split; [reflexivity|split; discriminate]. }
          specialize (IH self ((acc ++ x) ++ d) (Some (VBytes d)) (Some (VInt len))). unfold rs_env in IH.
          destruct (raw_serialize r) as [y|]; cbn [bind].
          * destruct IH as (c1 & l1 & E). rewrite E. exists c1, l1. unfold rs_env. rewrite <- !app_assoc. reflexivity.
          * destruct IH as (e & E & G). rewrite E. exists e. split; [reflexivity|exact G]. }
        replace (75 <? len) with true by lia. cbn [andb].
        destruct (len <? 256) eqn:L2; pystep.
        { i2le.
          change (int_to_little_endian 76 1) with (Ok (A := bytes) [76]). cbn [bind]. pystep.
          i2le.
          destruct (int_to_little_endian len 1) as [x|]; cbn [bind]; pystep.
          2:{ exists OverflowError. split; [reflexivity|split; discriminate]. }
          specialize (IH self (((acc ++ [76]) ++ x) ++ d) (Some (VBytes d)) (Some (VInt len))). unfold rs_env in IH.
          destruct (raw_serialize r) as [y|]; cbn [bind].
          * destruct IH as (c1 & l1 & E). rewrite E. exists c1, l1. unfold rs_env. rewrite <- !app_assoc. reflexivity.
          * destruct IH as (e & E & G). rewrite E. exists e. split; [reflexivity|exact G]. }
        replace (256 <=? len) with true by lia. cbn [andb].
        destruct (len <=? 520) eqn:L3; pystep.
        { i2le.
          change (int_to_little_endian 77 1) with (Ok (A := bytes) [77]). cbn [bind]. pystep.
          i2le.
          destruct (int_to_little_endian len 2) as [x|]; cbn [bind]; pystep.
          2:{ exists OverflowError. split; [reflexivity|split; discriminate]. }
          specialize (IH self (((acc ++ [77]) ++ x) ++ d) (Some (VBytes d)) (Some (VInt len))). unfold rs_env in IH.
          destruct (raw_serialize r) as [y|]; cbn [bind].
          * destruct IH as (c1 & l1 & E). rewrite E. exists c1, l1. unfold rs_env. rewrite <- !app_assoc. reflexivity.
          * destruct IH as (e & E & G). rewrite E. exists e. split; [reflexivity|exact G]. }
        exists ValueError. split; [reflexivity|split; discriminate]. }
  specialize (H cmds (Some (VObj "Script" [VList (map vcmd cmds)])) [] None None). unfold rs_env in H.
  destruct (raw_serialize cmds) as [b|]; cbn [rmap agrees].
  - destruct H as (c1 & l1 & E). rewrite E. unfold rs_env. pystep. reflexivity.
  - destruct H as (e & E & G). rewrite E. exists e. split; [reflexivity|exact G].
Qed.
#[global] Arguments sem_script__Script__raw_serialize : simpl never.

Lemma serialize_sem ext fuel cmds :
  agrees (sem_script__Script__serialize ext fuel [vscript cmds]) (rmap VBytes (serialize cmds)).
Proof.
  unfold sem_script__Script__serialize, call, ast_script__Script__serialize, serialize.
  pystep.
  assert (A := raw_serialize_sem ext fuel cmds).
  destruct (raw_serialize cmds) as [r|]; cbn [rmap agrees bind] in *.
  - rewrite A. pystep. rewrite encode_varint_sem.
    destruct (encode_varint (Z.of_nat (Datatypes.length r))) as [v|]; cbn [bind rmap agrees]; pystep; [reflexivity|].
    eexists. split; [reflexivity|]. destruct (Z.of_nat (Datatypes.length r) <? 0); split; discriminate.
  - destruct A as (e & A & G). rewrite A. pystep. exists e. split; [reflexivity|exact G].
Qed.

(* ---- the constructor and the four script builders ---- *)
Lemma script_init_sem ext fuel cmds :
  sem_script__Script____init__ ext fuel [VList (map vcmd cmds)] = Val (vscript cmds).
Proof. reflexivity. Qed.
Lemma script_init_none_sem ext fuel : sem_script__Script____init__ ext fuel [VNone] = Val (vscript []).
Proof. reflexivity. Qed.
Lemma p2pkh_script_sem ext fuel h : sem_script__p2pkh_script ext fuel [VBytes h] = Val (vscript (p2pkh_script h)).
Proof. reflexivity. Qed.
Lemma p2sh_script_sem ext fuel h : sem_script__p2sh_script ext fuel [VBytes h] = Val (vscript (p2sh_script h)).
Proof. reflexivity. Qed.
Lemma p2wpkh_script_sem ext fuel h : sem_script__p2wpkh_script ext fuel [VBytes h] = Val (vscript (p2wpkh_script h)).
Proof. reflexivity. Qed.
Lemma p2wsh_script_sem ext fuel h : sem_script__p2wsh_script ext fuel [VBytes h] = Val (vscript (p2wsh_script h)).
Proof. reflexivity. Qed.
