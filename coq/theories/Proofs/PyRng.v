(* Source semantics of bip39.mnemonic_from_entropy_bits (regenerated term) with random.getrandbits(k) of the module-level
   SystemRandom object as an external primitive answering an ARBITRARY integer rnd k: for every such answer the sentence is
   the encoding of exactly int_to_big_endian(rnd bits, bits/8), and a size outside the five is refused before anything else. *)
From BHW Require Import Lib.Base Lib.Digits Lib.ListAux Model.Helper Model.Bip39M Model.Bip85M
  Py.Interp Py.Tactics Proofs.PyHelper Proofs.PyBip39 Proofs.PyBip85.
From BHWGen Require Import Consts PyAst.
Open Scope string_scope.
Open Scope Z_scope.
Open Scope list_scope.

Section WithRng.
Variable rnd : Z -> Z.
Variable sha256 : bytes -> bytes.
Hypothesis sha256_wf : forall x, wf_bytes (sha256 x).
Hypothesis sha256_len : forall x, List.length (sha256 x) = 32%nat.
Variable ext : fenv_t.
Hypothesis ext_rng :
  ext "bip39.random.getrandbits" = Some (fun args => match args with [VInt k] => Val (VInt (rnd k)) | _ => Exc TypeError end).
Hypothesis ext_sha256 :
  ext "helper.sha256" = Some (fun args => match args with [VBytes b] => Val (VBytes (sha256 b)) | _ => Exc TypeError end).

Definition bits_model (bits : Z) : res str :=
  if negb (memb bits CORRECT_ENTROPY_BITS) then Err else
  do eb <- int_to_big_endian (rnd bits) (Z.to_nat (bits / 8));
  Bip39M.mnemonic_from_entropy sha256 (hexstr eb).

#[local] Arguments sem_bip39__mnemonic_from_entropy : simpl never.

Lemma z2be_wf len n b : z2be len n = Ok b -> wf_bytes b.
Proof.
  unfold z2be, z2le. destruct ((n <? 0) || (256 ^ Z.of_nat len <=? n)) eqn:E; cbn [rmap]; [discriminate|].
  intros H. inversion H. apply Forall_rev. apply (to_le_fixed_ok 256). lia.
Qed.

Lemma mnemonic_from_entropy_bits_sem fuel bits :
  agrees (sem_bip39__mnemonic_from_entropy_bits ext fuel [VInt bits]) (rmap VStr (bits_model bits)).
Proof.
  unfold sem_bip39__mnemonic_from_entropy_bits, call, ast_bip39__mnemonic_from_entropy_bits, bits_model. pystep.
  rewrite correct_bits_sem.
  destruct (memb bits CORRECT_ENTROPY_BITS) eqn:M; pystep.
  2:{ exists ValueError. split; [reflexivity|split; discriminate]. }
  assert (Hb : In bits [128; 160; 192; 224; 256]) by (apply memb_spec in M; exact M).
  rewrite ext_rng. pystep.
  assert (Hr : (0 <=? bits) && (bits <? 4503599627370496) && true && true = true)
    by (cbn [In] in Hb; destruct Hb as [<-|[<-|[<-|[<-|[<-|[]]]]]]; reflexivity).
  rewrite Hr. pystep.
  rewrite <- (Z2Nat.id (bits / 8)) at 1 by (apply Z.div_pos; cbn [In] in Hb; lia).
  rewrite int2be_sem.
  destruct (int_to_big_endian (rnd bits) (Z.to_nat (bits / 8))) as [eb|] eqn:Eb; pystep; cbn [bind rmap agrees].
  2:{ exists OverflowError. split; [reflexivity|split; discriminate]. }
  rewrite hex_is_hexstr by (exact (z2be_wf _ _ _ Eb)).
  assert (Mn := mnemonic_from_entropy_sem sha256 sha256_wf sha256_len ext ext_sha256 fuel (hexstr eb)).
  destruct (Bip39M.mnemonic_from_entropy sha256 (hexstr eb)) as [m|]; cbn [rmap agrees] in *.
  - rewrite Mn. reflexivity.
  - destruct Mn as (z & Mz & Gz). rewrite Mz. exists z. split; [reflexivity|exact Gz].
Qed.
End WithRng.
