(* Error detection of the Bech32/Bech32m checksum: no substitution of 1..4 symbols in at most 88 data symbols
   leaves the checksum valid under the same constant, and none of 1..3 symbols in at most 72 symbols moves it
   to the other constant.  The polymod is xor-linear, so the residue of a corrupted word is the residue of
   the original xor the syndrome of the error vector; the syndromes of all error vectors of weight <= 4 are
   covered by a meet-in-the-middle enumeration evaluated by the kernel (vm_compute), lifted to the universal
   statement by the lemmas below. *)
From Coq Require Import MSetPositive.
From BHW Require Import Lib.Base Lib.ListAux Model.Helper Model.Bech32M Spec.Bech32 Proofs.Bech32.
From BHWGen Require Import Consts.

(* ---------- xor algebra ---------- *)
Ltac xor_solve :=
  apply Z.bits_inj'; intros ?n ?Hn; rewrite ?Z.lxor_spec, ?Z.bits_0;
  repeat match goal with |- context [Z.testbit ?x ?n] => destruct (Z.testbit x n) end; reflexivity.

Lemma xor_swap4 a b c d : Z.lxor (Z.lxor a b) (Z.lxor c d) = Z.lxor (Z.lxor a c) (Z.lxor b d).
Proof. xor_solve. Qed.

Lemma lxor_fix c x : c = Z.lxor c x -> x = 0.
Proof.
  intros H. apply (f_equal (Z.lxor c)) in H. rewrite <- Z.lxor_assoc, Z.lxor_nilpotent, Z.lxor_0_l in H.
  symmetry. exact H.
Qed.

Lemma xor_move a b c : Z.lxor a b = c -> a = Z.lxor c b.
Proof. intros <-. rewrite Z.lxor_assoc, Z.lxor_nilpotent, Z.lxor_0_r. reflexivity. Qed.

(* ---------- the polymod step is xor-linear ---------- *)
Lemma gen_xor_linear gs : forall i a b,
  gen_xor gs i (Z.lxor a b) 0 = Z.lxor (gen_xor gs i a 0) (gen_xor gs i b 0).
Proof.
  induction gs as [|g r IH]; intros i a b; cbn [gen_xor]; [reflexivity|].
  rewrite (gen_xor_acc r (i + 1) (Z.lxor a b)), (gen_xor_acc r (i + 1) a), (gen_xor_acc r (i + 1) b).
  rewrite IH, !Z.lxor_0_l, Z.lxor_spec.
  set (A := gen_xor r (i + 1) a 0). set (B := gen_xor r (i + 1) b 0).
  destruct (Z.testbit a i), (Z.testbit b i); cbn [xorb]; xor_solve.
Qed.

Lemma G_linear a b : G (Z.lxor a b) = Z.lxor (G a) (G b).
Proof. apply gen_xor_linear. Qed.

Lemma step_linear s s' v v' :
  polymod_step (Z.lxor s s') (Z.lxor v v') = Z.lxor (polymod_step s v) (polymod_step s' v').
Proof.
  rewrite !step_eq, Z.shiftr_lxor, G_linear, land_lxor_distr, Z.shiftl_lxor.
  set (A := Z.shiftl (Z.land s _) 5). set (A' := Z.shiftl (Z.land s' _) 5).
  set (g := G (Z.shiftr s 25)). set (g' := G (Z.shiftr s' 25)). xor_solve.
Qed.

Definition Z1 (s : Z) : Z := polymod_step s 0.

Lemma G_0 : G 0 = 0.
Proof. vm_compute. reflexivity. Qed.
Lemma Z1_0 : Z1 0 = 0.
Proof. vm_compute. reflexivity. Qed.

Lemma step_split s x : polymod_step s x = Z.lxor (Z1 s) x.
Proof. unfold Z1. rewrite <- step_xor_v, Z.lxor_0_l. reflexivity. Qed.

Lemma Z1_linear a b : Z1 (Z.lxor a b) = Z.lxor (Z1 a) (Z1 b).
Proof. unfold Z1. rewrite <- step_linear. reflexivity. Qed.

Lemma Z1_bound s : 0 <= s -> 0 <= Z1 s < 2 ^ 30.
Proof. intros H. unfold Z1. apply step_bound; lia. Qed.

(* multiplication by x is injective on 30-bit states: the low five bits of the result determine the top five
   bits of the argument (finite check over the 32 values), the rest is a shift *)
Lemma G_low_inj t : 0 <= t < 32 -> Z.land (G t) 31 = 0 -> t = 0.
Proof.
  intros Ht H.
  assert (Hall : forallb (fun t => (t =? 0) || negb (Z.land (G t) 31 =? 0)) (map Z.of_nat (seq 0 32)) = true)
    by (vm_compute; reflexivity).
  rewrite forallb_forall in Hall. specialize (Hall t).
  assert (Hin : In t (map Z.of_nat (seq 0 32))).
  { apply in_map_iff. exists (Z.to_nat t). split; [lia|]. apply in_seq. lia. }
  specialize (Hall Hin). rewrite H in Hall. cbn in Hall. lia.
Qed.

Lemma Z1_zero c : 0 <= c < 2 ^ 30 -> Z1 c = 0 -> c = 0.
Proof.
  intros Hc H. unfold Z1 in H. rewrite step_eq, Z.lxor_0_r in H.
  set (r := Z.land c 33554431) in *. set (t := Z.shiftr c 25) in *.
  assert (Hr : r = c mod 2 ^ 25) by (unfold r; change 33554431 with (Z.ones 25); apply Z.land_ones; lia).
  assert (Ht : t = c / 2 ^ 25) by (unfold t; apply Z.shiftr_div_pow2; lia).
  assert (Htr : 0 <= t < 32).
  { rewrite Ht. split; [apply Z.div_pos; lia|]. apply Z.div_lt_upper_bound; [lia|]. change (2 ^ 25 * 32) with (2 ^ 30). lia. }
  assert (Hlow : Z.land (G t) 31 = 0).
  { apply (f_equal (fun z => Z.land z 31)) in H. rewrite land_lxor_distr in H.
    assert (Hs : Z.land (Z.shiftl r 5) 31 = 0) by (apply land_shifted_low; lia).
    rewrite Hs, Z.lxor_0_l in H. exact H. }
  assert (t = 0) by (apply G_low_inj; assumption).
  rewrite H0, G_0, Z.lxor_0_r in H. rewrite Z.shiftl_mul_pow2 in H by lia.
  assert (Hrb : 0 <= r < 2 ^ 25) by (rewrite Hr; apply Z.mod_pos_bound; lia).
  assert (r = 0) by lia.
  pose proof (Z.div_mod c (2 ^ 25) ltac:(lia)). lia.
Qed.

Lemma Z1_inj a b : 0 <= a < 2 ^ 30 -> 0 <= b < 2 ^ 30 -> Z1 a = Z1 b -> a = b.
Proof.
  intros Ha Hb H. apply Z.lxor_eq. apply Z1_zero; [apply lxor_bound; lia|].
  rewrite Z1_linear, H. apply Z.lxor_nilpotent.
Qed.

(* ---------- syndromes as sums of terms x^j * a ---------- *)
Definition syn (e : list Z) : Z := fold_left polymod_step e 0.
Definition Zpow (j : nat) (a : Z) : Z := Nat.iter j Z1 a.

Fixpoint tsum (ts : list (nat * Z)) : Z :=
  match ts with [] => 0 | (j, a) :: r => Z.lxor (Zpow j a) (tsum r) end.
Definition bump (ts : list (nat * Z)) : list (nat * Z) := map (fun '(j, a) => (S j, a)) ts.

(* exponents strictly decreasing and below `bound`, values 1..31 *)
Fixpoint dec_from (bound : nat) (ts : list (nat * Z)) : Prop :=
  match ts with [] => True | (j, a) :: r => (j < bound)%nat /\ 1 <= a <= 31 /\ dec_from j r end.
Definition lower (k : nat) (ts : list (nat * Z)) : Prop := Forall (fun p => (k <= fst p)%nat) ts.

Lemma dec_mono ts : forall b b', dec_from b ts -> (b <= b')%nat -> dec_from b' ts.
Proof. destruct ts as [|[j a] r]; intros b b' H Hb; cbn in *; [exact I|]. destruct H as [H1 H2]. split; [lia|exact H2]. Qed.

Lemma Z1_tsum ts : Z1 (tsum ts) = tsum (bump ts).
Proof.
  induction ts as [|[j a] r IH]; cbn [tsum bump map]; [apply Z1_0|].
  rewrite Z1_linear, IH. reflexivity.
Qed.

Lemma tsum_app a b : tsum (a ++ b) = Z.lxor (tsum a) (tsum b).
Proof.
  induction a as [|[j x] r IH]; cbn [tsum app]; [rewrite Z.lxor_0_l; reflexivity|].
  rewrite IH, Z.lxor_assoc. reflexivity.
Qed.

Lemma syn_snoc e x : syn (e ++ [x]) = Z.lxor (Z1 (syn e)) x.
Proof. unfold syn. rewrite fold_left_app. cbn [fold_left]. apply step_split. Qed.

Lemma syn_bound e : Forall (fun x => 0 <= x < 32) e -> 0 <= syn e < 2 ^ 30.
Proof.
  intros H. unfold syn. apply fold_bound; [lia|]. eapply Forall_impl; [|exact H].
  intros x Hx. cbv beta in Hx. change (2 ^ 30) with 1073741824. lia.
Qed.

Definition nz (e : list Z) : nat := length (filter (fun x => negb (x =? 0)) e).

Lemma nz_snoc e x : nz (e ++ [x]) = (nz e + (if (x =? 0)%Z then 0 else 1))%nat.
Proof. unfold nz. rewrite filter_app, app_length. cbn [filter]. destruct (x =? 0); reflexivity. Qed.

Lemma dec_bump ts : forall b, dec_from b ts -> dec_from (S b) (bump ts) /\ lower 1 (bump ts).
Proof.
  induction ts as [|[j a] r IH]; intros b H; cbn [bump map dec_from] in *; [split; [exact I|constructor]|].
  destruct H as [H1 [H2 H3]]. destruct (IH j H3) as [IH1 IH2].
  split; [split; [lia|split; [exact H2|exact IH1]]|constructor; [cbn; lia|exact IH2]].
Qed.

Lemma dec_bump_snoc ts x : forall b, dec_from b ts -> 1 <= x <= 31 -> dec_from (S b) (bump ts ++ [(0%nat, x)]).
Proof.
  induction ts as [|[j a] r IH]; intros b H Hx; cbn [bump map app dec_from] in *; [repeat split; lia|].
  destruct H as [H1 [H2 H3]]. split; [lia|split; [exact H2|apply IH; assumption]].
Qed.

Theorem syn_terms e : Forall (fun x => 0 <= x < 32) e ->
  exists ts, syn e = tsum ts /\ dec_from (length e) ts /\ length ts = nz e.
Proof.
  induction e as [|x e IH] using rev_ind; intros H.
  - exists []. repeat split.
  - apply Forall_app in H as [He Hx]. pose proof (Forall_inv Hx) as Hx0. cbv beta in Hx0.
    destruct (IH He) as [ts [Hs [Hd Hl]]].
    rewrite syn_snoc, Hs, Z1_tsum, app_length, nz_snoc. cbn [length].
    replace (length e + 1)%nat with (S (length e)) by lia.
    destruct (x =? 0) eqn:E.
    + exists (bump ts). assert (x = 0) by lia. subst x. rewrite Z.lxor_0_r.
      split; [reflexivity|]. split; [apply dec_bump; exact Hd|]. unfold bump. rewrite map_length. lia.
    + exists (bump ts ++ [(0%nat, x)]). rewrite tsum_app. cbn [tsum Zpow Nat.iter]. rewrite Z.lxor_0_r.
      split; [reflexivity|]. split; [apply dec_bump_snoc; [exact Hd|lia]|].
      rewrite app_length. unfold bump. rewrite map_length. cbn [length]. lia.
Qed.

(* ---------- the enumeration ---------- *)
Definition key (z : Z) : positive := Z.to_pos (Z.succ z).
Definition vals : list Z := map Z.of_nat (seq 1 31).
Definition row (j : nat) : list Z := map (Zpow j) vals.
(* rows for exponents k+n-1 down to k *)
Fixpoint drows (k n : nat) : list (list Z) :=
  match n with O => [] | S n' => row (k + n') :: drows k n' end.

Definition add_all (f : Z -> Z) (l : list Z) (s : PositiveSet.t) : PositiveSet.t :=
  fold_left (fun s t => PositiveSet.add (key (f t)) s) l s.
Definition notin (S : PositiveSet.t) (z : Z) : bool := negb (PositiveSet.mem (key z) S).

Fixpoint pairs_ok (ok : Z -> bool) (rs : list (list Z)) : bool :=
  match rs with
  | [] => true
  | r :: rest => let tail := concat rest in
      forallb (fun x => ok x && forallb (fun y => ok (Z.lxor x y)) tail) r && pairs_ok ok rest
  end.

Lemma vals_in a : 1 <= a <= 31 -> In a vals.
Proof. intros H. apply in_map_iff. exists (Z.to_nat a). split; [lia|]. apply in_seq. lia. Qed.

Lemma row_in j a : 1 <= a <= 31 -> In (Zpow j a) (row j).
Proof. intros H. apply in_map. apply vals_in. exact H. Qed.

Lemma drows_in k n j a : (k <= j < k + n)%nat -> 1 <= a <= 31 -> In (Zpow j a) (concat (drows k n)).
Proof.
  induction n as [|n IH]; intros Hj Ha; [lia|]. cbn [drows concat]. apply in_or_app.
  destruct (Nat.eq_dec j (k + n)) as [->|Hne]; [left; apply row_in; exact Ha|right; apply IH; [lia|exact Ha]].
Qed.

(* every sum of one or two terms with exponents in [k, k+n) passes `ok` *)
Lemma pairs_ok_spec ok k n : pairs_ok ok (drows k n) = true ->
  forall ts, dec_from (k + n) ts -> lower k ts -> (1 <= length ts <= 2)%nat -> ok (tsum ts) = true.
Proof.
  induction n as [|n IH]; intros Hp ts Hd Hlo Hl.
  - destruct ts as [|[j a] r]; [cbn in Hl; lia|]. cbn in Hd. pose proof (Forall_inv Hlo) as H0. cbn in H0. lia.
  - cbn [drows pairs_ok] in Hp. apply andb_true_iff in Hp as [Hrow Hrest].
    destruct ts as [|[j a] r]; [cbn in Hl; lia|].
    cbn [dec_from] in Hd. destruct Hd as [Hj [Ha Hr]].
    pose proof (Forall_inv Hlo) as Hj0. cbn in Hj0.
    destruct (Nat.eq_dec j (k + n)) as [->|Hne].
    + rewrite forallb_forall in Hrow. specialize (Hrow (Zpow (k + n) a) (row_in _ _ Ha)).
      apply andb_true_iff in Hrow as [Hx Hys].
      destruct r as [|[j' a'] r'].
      * cbn [tsum]. rewrite Z.lxor_0_r. exact Hx.
      * destruct r'; [|cbn in Hl; lia]. cbn [dec_from] in Hr. destruct Hr as [Hj' [Ha' _]].
        pose proof (Forall_inv (Forall_inv_tail Hlo)) as Hj0'. cbn in Hj0'.
        rewrite forallb_forall in Hys. cbn [tsum]. rewrite Z.lxor_0_r.
        apply Hys. apply drows_in; [lia|exact Ha'].
    + apply IH; [exact Hrest| |exact Hlo|exact Hl].
      cbn [dec_from]. split; [lia|split; [exact Ha|exact Hr]].
Qed.

Lemma add_all_mem f l : forall s k,
  (PositiveSet.mem k s = true \/ exists t, In t l /\ k = key (f t)) -> PositiveSet.mem k (add_all f l s) = true.
Proof.
  induction l as [|t r IH]; intros s k H; cbn [add_all fold_left].
  - destruct H as [H|[t [[] _]]]. exact H.
  - apply IH. destruct H as [H|[t' [[->|Hin] Hk]]].
    + left. apply PositiveSet.mem_spec, PositiveSet.add_spec. right. apply PositiveSet.mem_spec. exact H.
    + left. apply PositiveSet.mem_spec, PositiveSet.add_spec. left. exact Hk.
    + right. exists t'. auto.
Qed.

(* same constant: patterns whose last symbol is non-zero; exponents of the others in 1..87 *)
Definition NS : nat := 87.
Definition P1of (L : list Z) : PositiveSet.t :=
  fold_left (fun s a => add_all (Z.lxor a) L s) vals PositiveSet.empty.
Definition P1set : PositiveSet.t := P1of (0 :: concat (drows 1 NS)).
Lemma fold_add_mono L vs : forall s k, PositiveSet.mem k s = true ->
  PositiveSet.mem k (fold_left (fun s a => add_all (Z.lxor a) L s) vs s) = true.
Proof.
  induction vs as [|v r IH]; intros s k H; cbn [fold_left]; [exact H|].
  apply IH. apply add_all_mem. left. exact H.
Qed.

Lemma fold_add_mem L vs a t : forall s, In a vs -> In t L ->
  PositiveSet.mem (key (Z.lxor a t)) (fold_left (fun s a => add_all (Z.lxor a) L s) vs s) = true.
Proof.
  induction vs as [|v r IH]; intros s Ha Ht; [destruct Ha|]. cbn [fold_left]. destruct Ha as [->|Ha].
  - apply fold_add_mono. apply add_all_mem. right. exists t. auto.
  - apply IH; assumption.
Qed.

Lemma P1set_mem a t : 1 <= a <= 31 -> In t (0 :: concat (drows 1 NS)) -> PositiveSet.mem (key (Z.lxor a t)) P1set = true.
Proof. intros Ha Ht. unfold P1set, P1of. apply fold_add_mem; [apply vals_in; exact Ha|exact Ht]. Qed.

(* cross constant *)
Definition NC : nat := 72.
Definition DD : Z := Z.lxor 1 BECH32M_CONST.
Definition Q1set : PositiveSet.t := add_all (Z.lxor DD) (0 :: concat (drows 0 NC)) PositiveSet.empty.

(* the two enumerations, evaluated by the kernel's virtual machine.  They are stated as separate equations (not
   as one conjunction of booleans) so that no later conversion is tempted to evaluate them lazily. *)
Lemma check_same_parts : notin P1set 0 = true /\ pairs_ok (notin P1set) (drows 1 NS) = true.
Proof. split; vm_cast_no_check (eq_refl true). Qed.
Lemma check_cross_parts : notin Q1set 0 = true /\ pairs_ok (notin Q1set) (drows 0 NC) = true.
Proof. split; vm_cast_no_check (eq_refl true). Qed.

(* ---------- from the enumeration to all error vectors ---------- *)
Lemma notin_false S z : PositiveSet.mem (key z) S = true -> notin S z = false.
Proof. intros H. unfold notin. rewrite H. reflexivity. Qed.

Lemma split2 (ts : list (nat * Z)) : ts = firstn 2 ts ++ skipn 2 ts.
Proof. symmetry. apply firstn_skipn. Qed.

Lemma dec_firstn ts : forall b n, dec_from b ts -> dec_from b (firstn n ts).
Proof.
  induction ts as [|[j a] r IH]; intros b n H; destruct n; cbn [firstn dec_from] in *; auto.
  destruct H as [H1 [H2 H3]]. auto.
Qed.

Lemma dec_skipn ts : forall b n, dec_from b ts -> dec_from b (skipn n ts).
Proof.
  induction ts as [|[j a] r IH]; intros b n H; destruct n; cbn [skipn] in *; auto.
  cbn [dec_from] in H. destruct H as [H1 [H2 H3]]. apply IH. eapply dec_mono; [exact H3|lia].
Qed.

(* a sum of at most one term with exponent in [k, k+n) is 0 or an entry of the rows *)
Lemma le1_in k n ts : dec_from (k + n) ts -> lower k ts -> (length ts <= 1)%nat ->
  In (tsum ts) (0 :: concat (drows k n)).
Proof.
  intros Hd Hlo Hl. destruct ts as [|[j a] r]; [left; reflexivity|].
  destruct r; [|cbn in Hl; lia]. cbn [tsum]. rewrite Z.lxor_0_r. right.
  cbn [dec_from] in Hd. destruct Hd as [Hj [Ha _]]. pose proof (Forall_inv Hlo) as H0. cbn in H0.
  apply drows_in; [lia|exact Ha].
Qed.

(* at most two terms (possibly none) pass the check *)
Lemma le2_ok ok k n : ok 0 = true -> pairs_ok ok (drows k n) = true ->
  forall ts, dec_from (k + n) ts -> lower k ts -> (length ts <= 2)%nat -> ok (tsum ts) = true.
Proof.
  intros H0 Hp ts Hd Hlo Hl. destruct ts as [|t r]; [exact H0|].
  apply (pairs_ok_spec ok k n Hp); [exact Hd|exact Hlo|cbn [length] in *; lia].
Qed.

(* same constant: the last symbol non-zero, the three others anywhere in the 87 places before it *)
Lemma same_core us x : dec_from 88 us -> lower 1 us -> (length us <= 3)%nat -> 1 <= x <= 31 ->
  Z.lxor (tsum us) x <> 0.
Proof.
  intros Hd Hlo Hl Hx Heq.
  destruct check_same_parts as [Hc0 Hcp].
  rewrite (split2 us), tsum_app in Heq.
  set (f1 := firstn 2 us) in *. set (f2 := skipn 2 us) in *.
  assert (Hf1 : notin P1set (tsum f1) = true).
  { apply (le2_ok (notin P1set) 1 NS Hc0 Hcp).
    - apply dec_firstn. exact Hd.
    - unfold lower, f1. apply Forall_firstn. exact Hlo.
    - unfold f1. rewrite firstn_length. lia. }
  assert (Hf2 : In (tsum f2) (0 :: concat (drows 1 NS))).
  { apply le1_in.
    - apply dec_skipn. exact Hd.
    - unfold lower, f2. apply Forall_skipn. exact Hlo.
    - unfold f2. rewrite skipn_length. lia. }
  assert (E : tsum f1 = Z.lxor x (tsum f2)).
  { apply Z.lxor_eq in Heq. apply xor_move in Heq. exact Heq. }
  rewrite E in Hf1. rewrite (notin_false _ _ (P1set_mem x (tsum f2) Hx Hf2)) in Hf1. discriminate Hf1.
Qed.

Theorem syn_nonzero : forall e, Forall (fun x => 0 <= x < 32) e -> (length e <= 88)%nat ->
  (1 <= nz e <= 4)%nat -> syn e <> 0.
Proof.
  induction e as [|x e IH] using rev_ind; intros He Hl Hn; [cbn in Hn; lia|].
  apply Forall_app in He as [He Hx]. pose proof (Forall_inv Hx) as Hx0. cbv beta in Hx0.
  rewrite app_length in Hl. cbn [length] in Hl. rewrite nz_snoc in Hn. rewrite syn_snoc.
  destruct (x =? 0) eqn:E.
  - assert (x = 0) by lia. subst x. rewrite Z.lxor_0_r. intros Hz.
    apply (IH He); [lia|lia|]. apply Z1_zero; [apply syn_bound; exact He|exact Hz].
  - destruct (syn_terms e He) as [ts [Hs [Hd Hlen]]]. rewrite Hs, Z1_tsum.
    destruct (dec_bump ts (length e) Hd) as [Hd' Hlo'].
    apply same_core.
    + eapply dec_mono; [exact Hd'|lia].
    + exact Hlo'.
    + unfold bump. rewrite map_length. lia.
    + lia.
Qed.

(* cross constant: at most three symbols anywhere in 72 places *)
Theorem syn_not_cross : forall e, Forall (fun x => 0 <= x < 32) e -> (length e <= 72)%nat ->
  (nz e <= 3)%nat -> syn e <> DD.
Proof.
  intros e He Hl Hn Heq.
  destruct check_cross_parts as [Hc0 Hcp].
  destruct (syn_terms e He) as [ts [Hs [Hd Hlen]]]. rewrite Hs in Heq.
  assert (Hd72 : dec_from (0 + NC) ts) by (eapply dec_mono; [exact Hd|unfold NC; lia]).
  assert (Hlo : lower 0 ts) by (unfold lower; apply Forall_forall; intros; lia).
  rewrite (split2 ts), tsum_app in Heq.
  set (f1 := firstn 2 ts) in *. set (f2 := skipn 2 ts) in *.
  assert (Hf1 : notin Q1set (tsum f1) = true).
  { apply (le2_ok (notin Q1set) 0 NC Hc0 Hcp).
    - apply dec_firstn. exact Hd72.
    - unfold lower, f1. apply Forall_firstn. exact Hlo.
    - unfold f1. rewrite firstn_length. lia. }
  assert (Hf2 : In (tsum f2) (0 :: concat (drows 0 NC))).
  { apply le1_in.
    - apply dec_skipn. exact Hd72.
    - unfold lower, f2. apply Forall_skipn. exact Hlo.
    - unfold f2. rewrite skipn_length. lia. }
  assert (E : tsum f1 = Z.lxor DD (tsum f2)) by (apply xor_move; exact Heq).
  rewrite E in Hf1.
  assert (Hm : PositiveSet.mem (key (Z.lxor DD (tsum f2))) Q1set = true).
  { unfold Q1set. apply add_all_mem. right. exists (tsum f2). auto. }
  rewrite (notin_false _ _ Hm) in Hf1. discriminate Hf1.
Qed.

(* ---------- corrupted words ---------- *)
Definition xorl (a b : list Z) : list Z := map (fun p => Z.lxor (fst p) (snd p)) (combine a b).
Definition hamming (a b : list Z) : nat := length (filter (fun p => negb (fst p =? snd p)) (combine a b)).

Lemma xorl_length a : forall b, length a = length b -> length (xorl a b) = length a.
Proof. intros b H. unfold xorl. rewrite map_length, combine_length. lia. Qed.

Lemma nz_xorl a : forall b, nz (xorl a b) = hamming a b.
Proof.
  induction a as [|x r IH]; intros [|y t]; try reflexivity.
  unfold nz, xorl, hamming in *. cbn [combine map filter fst snd].
  assert (E : (Z.lxor x y =? 0) = (x =? y)).
  { destruct (x =? y) eqn:E1.
    - assert (x = y) by lia. subst. rewrite Z.lxor_nilpotent. reflexivity.
    - destruct (Z.lxor x y =? 0) eqn:E2; [|reflexivity]. assert (H : Z.lxor x y = 0) by lia. apply Z.lxor_eq in H. lia. }
  rewrite E. destruct (x =? y); cbn [negb length]; rewrite IH; reflexivity.
Qed.

Lemma xorl_bound a : forall b, Forall (fun x => 0 <= x < 32) a -> Forall (fun x => 0 <= x < 32) b ->
  Forall (fun x => 0 <= x < 32) (xorl a b).
Proof.
  induction a as [|x r IH]; intros [|y t] Ha Hb; try constructor.
  - change 32 with (2 ^ 5). apply lxor_bound; [lia| |]; cbn [fst snd]; change (2 ^ 5) with 32.
    + exact (Forall_inv Ha).
    + exact (Forall_inv Hb).
  - apply IH; [exact (Forall_inv_tail Ha)|exact (Forall_inv_tail Hb)].
Qed.

Lemma fold_linear a : forall b s s', length a = length b ->
  fold_left polymod_step b (Z.lxor s s') =
  Z.lxor (fold_left polymod_step a s) (fold_left polymod_step (xorl a b) s').
Proof.
  induction a as [|x r IH]; intros [|y t] s s' H; try discriminate; [reflexivity|].
  unfold xorl. cbn [combine map fold_left fst snd]. fold (xorl r t).
  rewrite <- IH by (cbn in H; lia). f_equal.
  rewrite <- step_linear. f_equal.
  rewrite <- Z.lxor_assoc, Z.lxor_nilpotent, Z.lxor_0_l. reflexivity.
Qed.

Lemma polymod_corrupt X d d' : length d = length d' ->
  bech32_polymod (X ++ d') = Z.lxor (bech32_polymod (X ++ d)) (syn (xorl d d')).
Proof.
  intros H. unfold bech32_polymod, syn. rewrite !fold_left_app.
  rewrite <- (fold_linear d d' _ 0 H). rewrite Z.lxor_0_r. reflexivity.
Qed.

Definition const_of (spec : encoding) : Z := match spec with BECH32 => 1 | BECH32M => BECH32M_CONST end.

Lemma verify_some hrp d spec : bech32_verify_checksum hrp d = Some spec <->
  bech32_polymod (bech32_hrp_expand hrp ++ d) = const_of spec.
Proof.
  unfold bech32_verify_checksum. set (c := bech32_polymod _). split.
  - destruct (c =? 1) eqn:E1; [intros H; injection H as <-; cbn; lia|].
    destruct (c =? BECH32M_CONST) eqn:E2; [intros H; injection H as <-; cbn; lia|discriminate].
  - intros ->. destruct spec; cbn [const_of]; [reflexivity|]. vm_compute. reflexivity.
Qed.

Theorem bch_detects hrp d d' spec :
  Forall (fun x => 0 <= x < 32) d -> Forall (fun x => 0 <= x < 32) d' -> length d = length d' ->
  bech32_verify_checksum hrp d = Some spec ->
  ((length d <= 88)%nat -> (1 <= hamming d d' <= 4)%nat -> bech32_verify_checksum hrp d' <> Some spec) /\
  ((length d <= 72)%nat -> (1 <= hamming d d' <= 3)%nat -> bech32_verify_checksum hrp d' = None).
Proof.
  intros Hd Hd' Hl Hv. apply verify_some in Hv.
  pose proof (polymod_corrupt (bech32_hrp_expand hrp) d d' Hl) as Hp. rewrite Hv in Hp.
  pose proof (xorl_bound d d' Hd Hd') as He. pose proof (xorl_length d d' Hl) as Hel.
  assert (Hsame : (length d <= 88)%nat -> (1 <= hamming d d' <= 4)%nat -> bech32_verify_checksum hrp d' <> Some spec).
  { intros Hn Hh Hv'. apply verify_some in Hv'. rewrite Hv' in Hp.
    apply (syn_nonzero (xorl d d') He); [lia|rewrite nz_xorl; exact Hh|].
    apply (lxor_fix (const_of spec)). exact Hp. }
  split; [exact Hsame|].
  intros Hn Hh. destruct (bech32_verify_checksum hrp d') as [spec'|] eqn:Ev'; [exfalso|reflexivity].
  destruct (enc_eqb spec spec') eqn:Es.
  - assert (spec = spec') by (destruct spec, spec'; cbn in Es; congruence). subst spec'.
    apply Hsame; [lia|lia|reflexivity].
  - apply verify_some in Ev'. rewrite Ev' in Hp.
    apply (syn_not_cross (xorl d d') He); [lia|rewrite nz_xorl; lia|].
    assert (Hs : syn (xorl d d') = Z.lxor (const_of spec) (const_of spec')).
    { rewrite Hp. rewrite <- Z.lxor_assoc, Z.lxor_nilpotent, Z.lxor_0_l. reflexivity. }
    rewrite Hs. unfold DD. destruct spec, spec'; cbn in Es; try discriminate; cbn [const_of]; [reflexivity|apply Z.lxor_comm].
Qed.
