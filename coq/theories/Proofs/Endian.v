(* int.to_bytes / int.from_bytes, big endian: ser32, ser256, parse256 *)
From BHW Require Import Lib.Base Lib.Digits Lib.ListAux Model.Helper.

Lemma be2z_rev' bs : be2z bs = of_le 256 (rev bs).
Proof. apply of_be_rev. Qed.

Lemma be2z_range bs : wf_bytes bs -> 0 <= be2z bs < 256 ^ Z.of_nat (length bs).
Proof.
  intros H. rewrite be2z_rev'. assert (Hr : digits_ok 256 (rev bs)) by (apply Forall_rev; exact H).
  split; [apply of_le_nonneg; [lia|exact Hr]|].
  rewrite <- rev_length. apply of_le_bound; [lia|exact Hr].
Qed.

Lemma z2be_ok len n :
  0 <= n < 256 ^ Z.of_nat len ->
  exists bs, z2be len n = Ok bs /\ length bs = len /\ wf_bytes bs /\ be2z bs = n.
Proof.
  intros H. unfold z2be, z2le.
  destruct ((n <? 0) || (256 ^ Z.of_nat len <=? n)) eqn:E; [lia|].
  exists (rev (to_le_fixed 256 len n)). cbn [rmap]. split; [reflexivity|].
  split; [rewrite rev_length; apply to_le_fixed_length|].
  split; [apply Forall_rev; apply to_le_fixed_ok; lia|].
  rewrite be2z_rev', rev_involutive. apply of_le_to_le_fixed; lia.
Qed.

Lemma z2be_err len n : n < 0 \/ 256 ^ Z.of_nat len <= n -> z2be len n = Err.
Proof.
  intros H. unfold z2be, z2le.
  destruct ((n <? 0) || (256 ^ Z.of_nat len <=? n)) eqn:E; [reflexivity|lia].
Qed.

Lemma z2be_be2z bs : wf_bytes bs -> z2be (length bs) (be2z bs) = Ok bs.
Proof.
  intros H. pose proof (be2z_range bs H) as Hr. unfold z2be, z2le.
  destruct ((be2z bs <? 0) || (256 ^ Z.of_nat (length bs) <=? be2z bs)) eqn:E; [lia|].
  cbn [rmap]. f_equal. rewrite be2z_rev', <- rev_length.
  rewrite to_le_fixed_of_le; [apply rev_involutive|lia|apply Forall_rev; exact H].
Qed.

Lemma z2be_inj len a b x :
  z2be len a = Ok x -> z2be len b = Ok x -> a = b.
Proof.
  intros Ha Hb.
  assert (Ra : 0 <= a < 256 ^ Z.of_nat len).
  { unfold z2be, z2le in Ha. destruct ((a <? 0) || (256 ^ Z.of_nat len <=? a)) eqn:E; [discriminate|lia]. }
  assert (Rb : 0 <= b < 256 ^ Z.of_nat len).
  { unfold z2be, z2le in Hb. destruct ((b <? 0) || (256 ^ Z.of_nat len <=? b)) eqn:E; [discriminate|lia]. }
  destruct (z2be_ok len a Ra) as [xa [H1 [_ [_ H2]]]].
  destruct (z2be_ok len b Rb) as [xb [H3 [_ [_ H4]]]].
  rewrite Ha in H1. rewrite Hb in H3. inversion H1; inversion H3; subst. congruence.
Qed.

Lemma be2z_cons0 bs : be2z (0 :: bs) = be2z bs.
Proof. rewrite !be2z_rev'. cbn [rev]. change [0] with (repeat 0 1). apply of_le_app_zeros. Qed.

Lemma be2z_inj a b : wf_bytes a -> wf_bytes b -> length a = length b -> be2z a = be2z b -> a = b.
Proof.
  intros Ha Hb Hl He. rewrite !be2z_rev' in He.
  rewrite <- (rev_involutive a), <- (rev_involutive b). f_equal.
  apply (of_le_inj_fixed 256); try lia; try (apply Forall_rev; assumption);
    try exact He. rewrite !rev_length. exact Hl.
Qed.
