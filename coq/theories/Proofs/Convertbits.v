(* convertbits (bech32.py): the acc/bits loop regroups a big-endian bit stream.
   Invariant-based proof for arbitrary widths f (from) and t (to), then the 8 -> 5 -> 8 round trip. *)
From BHW Require Import Lib.Base Lib.Digits Lib.ListAux Model.Helper Model.Bech32M Proofs.Endian Proofs.Bech32.

(* value of a big-endian digit list in base 2^w *)
Definition val (w : Z) (l : list Z) : Z := fold_left (fun a d => a * 2 ^ w + d) l 0.

Lemma val_snoc w l d : val w (l ++ [d]) = val w l * 2 ^ w + d.
Proof. unfold val. rewrite fold_left_app. reflexivity. Qed.

Lemma val_nonneg w l : 0 <= w -> Forall (fun d => 0 <= d) l -> 0 <= val w l.
Proof.
  intros Hw. induction l as [|d r IH] using rev_ind; intros H; [cbn; lia|].
  apply Forall_app in H as [Hr Hd]. rewrite val_snoc. specialize (IH Hr).
  pose proof (Forall_inv Hd). assert (0 < 2 ^ w) by (apply Z.pow_pos_nonneg; lia). cbv beta in *. nia.
Qed.

(* ---- bit operations as arithmetic ---- *)
Lemma land_shifted a c f : 0 <= f -> 0 <= c < 2 ^ f -> Z.land (Z.shiftl a f) c = 0.
Proof.
  intros Hf Hc. apply Z.bits_inj'. intros n Hn. rewrite Z.land_spec, Z.bits_0.
  destruct (Z_lt_ge_dec n f) as [Hlt|Hge].
  - rewrite Z.shiftl_spec_low by lia. reflexivity.
  - assert (Z.testbit c n = false).
    { destruct (Z.eq_dec c 0) as [->|Hz]; [apply Z.bits_0|].
      apply Z.bits_above_log2; [lia|]. assert (Z.log2 c < f) by (apply Z.log2_lt_pow2; lia). lia. }
    rewrite H. apply andb_false_r.
Qed.

Lemma lor_shifted a c f : 0 <= f -> 0 <= c < 2 ^ f -> Z.lor (Z.shiftl a f) c = a * 2 ^ f + c.
Proof.
  intros Hf Hc. rewrite <- Z.lxor_lor by (apply land_shifted; assumption).
  rewrite <- Z.add_nocarry_lxor by (apply land_shifted; assumption).
  rewrite Z.shiftl_mul_pow2 by lia. reflexivity.
Qed.

Lemma mask_is_mod x k : 0 <= k -> Z.land x (Z.shiftl 1 k - 1) = x mod 2 ^ k.
Proof.
  intros Hk. rewrite Z.shiftl_mul_pow2, Z.mul_1_l by lia.
  replace (2 ^ k - 1) with (Z.ones k) by (rewrite Z.ones_equiv; lia). apply Z.land_ones. lia.
Qed.

Lemma mod_split a b c : 0 <= b -> 0 <= c -> a mod 2 ^ (b + c) = a mod 2 ^ b + 2 ^ b * ((a / 2 ^ b) mod 2 ^ c).
Proof.
  intros Hb Hc. rewrite Z.pow_add_r by lia. apply Z.rem_mul_r.
  - assert (0 < 2 ^ b) by (apply Z.pow_pos_nonneg; lia). lia.
  - apply Z.pow_pos_nonneg; lia.
Qed.

Lemma mod_mod_pow a m k : 0 <= k <= m -> (a mod 2 ^ m) mod 2 ^ k = a mod 2 ^ k.
Proof.
  intros H. assert (Hk : 0 < 2 ^ k) by (apply Z.pow_pos_nonneg; lia).
  replace (2 ^ m) with (2 ^ k * 2 ^ (m - k)) by (rewrite <- Z.pow_add_r by lia; f_equal; lia).
  rewrite Z.rem_mul_r by (try apply Z.pow_pos_nonneg; lia).
  replace (a mod 2 ^ k + 2 ^ k * ((a / 2 ^ k) mod 2 ^ (m - k)))
    with (a mod 2 ^ k + ((a / 2 ^ k) mod 2 ^ (m - k)) * 2 ^ k) by ring.
  rewrite Z.mod_add by lia. apply Z.mod_mod. lia.
Qed.

Section CB.
Variables f t : Z.
Hypothesis Hf : 1 <= f.
Hypothesis Ht : 1 <= t.
Let maxv := Z.shiftl 1 t - 1.
Let max_acc := Z.shiftl 1 (f + t - 1) - 1.

(* the invariant between outer iterations, stated for `pending` = the not-yet-emitted low bits of acc *)
Definition inv (consumed : list Z) (acc bits : Z) (ret : list Z) : Prop :=
  0 <= bits /\ 0 <= acc /\
  val t ret * 2 ^ bits + acc mod 2 ^ bits = val f consumed /\
  Forall (fun x => 0 <= x < 2 ^ t) ret /\
  Z.of_nat (length ret) * t + bits = f * Z.of_nat (length consumed).

(* the inner `while bits >= tobits` loop *)
Lemma emit_inv fuel : forall consumed acc bits ret,
  inv consumed acc bits ret -> bits < t * Z.of_nat fuel ->
  let '(bits', ret') := cb_emit fuel acc bits t maxv ret in
  inv consumed acc bits' ret' /\ bits' < t.
Proof.
  induction fuel as [|n IH]; intros consumed acc bits ret Hi Hb.
  - cbn [cb_emit]. destruct Hi as [H0 _]. lia.
  - cbn [cb_emit]. destruct (t <=? bits) eqn:E.
    + apply IH.
      * destruct Hi as [H0 [Ha [Hv [Hr Hl]]]]. unfold inv.
        split; [lia|]. split; [exact Ha|]. split; [|split].
        -- rewrite val_snoc. unfold maxv. rewrite mask_is_mod by lia. rewrite Z.shiftr_div_pow2 by lia.
           rewrite <- Hv. remember (bits - t) as b2 eqn:Eb2. assert (Hbb : bits = b2 + t) by lia.
           rewrite Hbb. rewrite (mod_split acc b2 t) by lia. rewrite Z.pow_add_r by lia. ring.
        -- apply Forall_app. split; [exact Hr|]. constructor; [|constructor].
           unfold maxv. rewrite mask_is_mod by lia. apply Z.mod_pos_bound. apply Z.pow_pos_nonneg; lia.
        -- rewrite app_length. cbn [length]. lia.
      * lia.
    + split; [exact Hi|lia].
Qed.

(* one outer iteration *)
Lemma outer_inv consumed acc bits ret d :
  inv consumed acc bits ret -> bits < t -> 0 <= d < 2 ^ f ->
  let acc1 := Z.land (Z.lor (Z.shiftl acc f) d) max_acc in
  inv (consumed ++ [d]) acc1 (bits + f) ret.
Proof.
  intros [H0 [Ha [Hv [Hr Hl]]]] Hb Hd. cbv zeta. unfold max_acc.
  rewrite mask_is_mod by lia. rewrite lor_shifted by lia.
  unfold inv. split; [lia|]. split; [apply Z.mod_pos_bound; apply Z.pow_pos_nonneg; lia|].
  split; [|split; [exact Hr|rewrite app_length; cbn [length]; lia]].
  rewrite mod_mod_pow by lia. rewrite val_snoc, <- Hv.
  (* (acc * 2^f + d) mod 2^(bits+f) = (acc mod 2^bits) * 2^f + d *)
  assert (Hm : (acc * 2 ^ f + d) mod 2 ^ (bits + f) = (acc mod 2 ^ bits) * 2 ^ f + d).
  { replace (bits + f) with (f + bits) by lia. rewrite mod_split by lia.
    assert (H2f : 0 < 2 ^ f) by (apply Z.pow_pos_nonneg; lia).
    replace ((acc * 2 ^ f + d) mod 2 ^ f) with d
      by (rewrite Z.add_comm, Z.mod_add by lia; symmetry; apply Z.mod_small; lia).
    replace ((acc * 2 ^ f + d) / 2 ^ f) with acc
      by (rewrite Z.add_comm, Z.div_add by lia; rewrite Z.div_small by lia; lia).
    ring. }
  rewrite Hm. rewrite Z.pow_add_r by lia. ring.
Qed.

(* the whole loop *)
Lemma loop_inv data : forall consumed acc bits ret,
  inv consumed acc bits ret -> bits < t -> Forall (fun d => 0 <= d < 2 ^ f) data ->
  exists acc' bits' ret',
    cb_loop data acc bits f t maxv max_acc ret = Some (acc', bits', ret') /\
    inv (consumed ++ data) acc' bits' ret' /\ bits' < t.
Proof.
  induction data as [|d r IH]; intros consumed acc bits ret Hi Hb Hd.
  - exists acc, bits, ret. rewrite app_nil_r. auto.
  - pose proof (Forall_inv Hd) as Hd0. pose proof (Forall_inv_tail Hd) as Hdr. cbv beta in Hd0.
    cbn [cb_loop].
    assert (Hsh : Z.shiftr d f = 0) by (rewrite Z.shiftr_div_pow2 by lia; apply Z.div_small; lia).
    destruct ((d <? 0) || negb (Z.shiftr d f =? 0)) eqn:E; [rewrite Hsh in E; cbn in E; lia|].
    pose proof (outer_inv consumed acc bits ret d Hi Hb Hd0) as Ho. cbv zeta in Ho.
    set (acc1 := Z.land (Z.lor (Z.shiftl acc f) d) max_acc) in *.
    pose proof (emit_inv (Z.to_nat f + 1) (consumed ++ [d]) acc1 (bits + f) ret Ho) as He.
    destruct (cb_emit (Z.to_nat f + 1) acc1 (bits + f) t maxv ret) as [bits2 ret2].
    destruct He as [Hi2 Hb2]; [nia|].
    destruct (IH (consumed ++ [d]) acc1 bits2 ret2 Hi2 Hb2 Hdr) as [a' [b' [r' [Hl [Hi' Hb']]]]].
    exists a', b', r'. rewrite <- app_assoc in Hi'. auto.
Qed.

Lemma inv_init : inv [] 0 0 [].
Proof. unfold inv. cbn. repeat split; try lia. constructor. Qed.
End CB.

(* ---- 8 -> 5 with padding ---- *)
Theorem convertbits_8_5 prog :
  wf_bytes prog ->
  exists conv pad,
    convertbits prog 8 5 true = Some conv /\ 0 <= pad < 5 /\
    Forall (fun x => 0 <= x < 32) conv /\
    5 * Z.of_nat (length conv) = 8 * Z.of_nat (length prog) + pad /\
    val 5 conv = val 8 prog * 2 ^ pad.
Proof.
  intros Hw. unfold convertbits.
  destruct (loop_inv 8 5 ltac:(lia) ltac:(lia) prog [] 0 0 [] (inv_init 8 5) ltac:(lia)) as [acc [bits [ret [Hl [Hi Hb]]]]].
  { eapply Forall_impl; [|exact Hw]. intros x Hx. unfold byte_ok in Hx. change (2 ^ 8) with 256. lia. }
  cbn [app] in Hi. rewrite Hl. destruct Hi as [H0 [Ha [Hv [Hr Hlen]]]].
  change (2 ^ 5) with 32 in Hr.
  destruct (bits =? 0) eqn:E; cbn [negb].
  - exists ret, 0. split; [reflexivity|]. split; [lia|]. split; [exact Hr|]. split; [lia|].
    assert (bits = 0) by lia. subst bits. change (2 ^ 0) with 1 in *. rewrite Z.mod_1_r in Hv. lia.
  - exists (ret ++ [Z.land (Z.shiftl acc (5 - bits)) (Z.shiftl 1 5 - 1)]), (5 - bits).
    split; [reflexivity|]. split; [lia|].
    rewrite mask_is_mod by lia. rewrite Z.shiftl_mul_pow2 by lia.
    assert (Hlast : (acc * 2 ^ (5 - bits)) mod 2 ^ 5 = (acc mod 2 ^ bits) * 2 ^ (5 - bits)).
    { replace 5 with ((5 - bits) + bits) at 2 by lia. rewrite mod_split by lia.
      assert (Hp : 0 < 2 ^ (5 - bits)) by (apply Z.pow_pos_nonneg; lia).
      rewrite Z.mod_mul by lia. rewrite Z.div_mul by lia. ring. }
    split; [|split].
    + apply Forall_app. split; [exact Hr|]. constructor; [|constructor].
      change 32 with (2 ^ 5). apply Z.mod_pos_bound. lia.
    + rewrite app_length. cbn [length]. lia.
    + rewrite val_snoc, Hlast, <- Hv.
      assert (Hpw : 2 ^ 5 = 2 ^ bits * 2 ^ (5 - bits)) by (rewrite <- Z.pow_add_r by lia; f_equal; lia).
      rewrite Hpw. ring.
Qed.

(* digits of a fixed-length byte string are determined by its value *)
Lemma val8_inj a b : wf_bytes a -> wf_bytes b -> length a = length b -> val 8 a = val 8 b -> a = b.
Proof.
  intros Ha Hb Hl Hv.
  assert (E : forall l, val 8 l = be2z l) by (intros l; reflexivity).
  rewrite !E in Hv. apply (be2z_inj a b Ha Hb Hl Hv).
Qed.

(* ---- and back: 5 -> 8 without padding returns exactly the program ---- *)
Theorem convertbits_roundtrip prog :
  wf_bytes prog ->
  exists conv, convertbits prog 8 5 true = Some conv /\ Forall (fun x => 0 <= x < 32) conv /\
               5 * Z.of_nat (length conv) < 8 * Z.of_nat (length prog) + 5 /\
               convertbits conv 5 8 false = Some prog.
Proof.
  intros Hw. destruct (convertbits_8_5 prog Hw) as [conv [pad [Hc [Hp [Hr [Hlen Hv]]]]]].
  exists conv. split; [exact Hc|]. split; [exact Hr|]. split; [lia|].
  unfold convertbits.
  destruct (loop_inv 5 8 ltac:(lia) ltac:(lia) conv [] 0 0 [] (inv_init 5 8) ltac:(lia)) as [acc [bits [ret [Hl [Hi Hb]]]]].
  { eapply Forall_impl; [|exact Hr]. intros x Hx. change (2 ^ 5) with 32. exact Hx. }
  cbn [app] in Hi. rewrite Hl. destruct Hi as [H0 [Ha [Hv2 [Hr2 Hlen2]]]].
  (* 8 |ret| + bits = 5 |conv| = 8 |prog| + pad with bits < 8, pad < 5: so |ret| = |prog| and bits = pad *)
  assert (Hn : Z.of_nat (length ret) = Z.of_nat (length prog) /\ bits = pad) by lia.
  destruct Hn as [Hn ->].
  assert (Hpos : 0 < 2 ^ pad) by (apply Z.pow_pos_nonneg; lia).
  assert (Hpend : 0 <= acc mod 2 ^ pad < 2 ^ pad) by (apply Z.mod_pos_bound; lia).
  rewrite Hv in Hv2.
  assert (Hz : acc mod 2 ^ pad = 0 /\ val 8 ret = val 8 prog).
  { remember (val 8 prog - val 8 ret) as dd eqn:Edd. remember (acc mod 2 ^ pad) as rr eqn:Err. remember (2 ^ pad) as PP eqn:EPP.
    assert (Hd : dd * PP = rr) by (subst dd; lia).
    assert (dd = 0) by (clear - Hd Hpend Hpos; nia). subst dd. split; lia. }
  destruct Hz as [Hz Hvr].
  destruct (5 <=? pad) eqn:E5; [lia|]. cbn [orb].
  rewrite mask_is_mod by lia. rewrite Z.shiftl_mul_pow2 by lia.
  assert (Hlast : (acc * 2 ^ (8 - pad)) mod 2 ^ 8 = (acc mod 2 ^ pad) * 2 ^ (8 - pad)).
  { replace 8 with ((8 - pad) + pad) at 2 by lia. rewrite mod_split by lia.
    assert (Hq : 0 < 2 ^ (8 - pad)) by (apply Z.pow_pos_nonneg; lia).
    rewrite Z.mod_mul by lia. rewrite Z.div_mul by lia. ring. }
  rewrite Hlast, Hz. cbn [Z.mul Z.eqb negb]. f_equal.
  apply val8_inj; [|exact Hw|lia|exact Hvr].
  eapply Forall_impl; [|exact Hr2]. intros x Hx. unfold byte_ok. change (2 ^ 8) with 256 in Hx. exact Hx.
Qed.

(* digits of a fixed-length string in base 2^w are determined by its value *)
Lemma val_inj w : 0 <= w -> forall a b,
  length a = length b -> Forall (fun x => 0 <= x < 2 ^ w) a -> Forall (fun x => 0 <= x < 2 ^ w) b ->
  val w a = val w b -> a = b.
Proof.
  intros Hw. induction a as [|x l IH] using rev_ind; intros b Hl Ha Hb Hv.
  - destruct b; [reflexivity|discriminate Hl].
  - destruct (@exists_last _ b) as [b' [y ->]].
    { intros ->. rewrite app_length in Hl. cbn in Hl. lia. }
    rewrite !val_snoc in Hv. apply Forall_app in Ha as [Hal Hx]. apply Forall_app in Hb as [Hbl Hy].
    pose proof (Forall_inv Hx) as Hx0. pose proof (Forall_inv Hy) as Hy0. cbv beta in Hx0, Hy0.
    rewrite !app_length in Hl. cbn [length] in Hl.
    assert (Hp : 0 < 2 ^ w) by (apply Z.pow_pos_nonneg; lia).
    remember (2 ^ w) as P eqn:EP. remember (val w l) as A eqn:EA. remember (val w b') as B eqn:EB.
    assert (HAB : A = B /\ x = y).
    { clear - Hv Hx0 Hy0 Hp. destruct (Z.lt_trichotomy A B) as [Hlt|[Heq|Hgt]].
      - assert (A * P + P <= B * P) by nia. lia.
      - subst. lia.
      - assert (B * P + P <= A * P) by nia. lia. }
    destruct HAB as [HAB ->]. f_equal. apply IH; [lia|exact Hal|exact Hbl|subst; exact HAB].
Qed.

(* ---- what 5 -> 8 without padding accepts: exactly the canonical regrouping of its output ---- *)
Theorem convertbits_5_8_sound data out :
  Forall (fun x => 0 <= x < 32) data ->
  convertbits data 5 8 false = Some out ->
  wf_bytes out /\ convertbits out 8 5 true = Some data.
Proof.
  intros Hd Hc. unfold convertbits in Hc.
  destruct (loop_inv 5 8 ltac:(lia) ltac:(lia) data [] 0 0 [] (inv_init 5 8) ltac:(lia)) as [acc [bits [ret [Hl [Hi Hb]]]]].
  { eapply Forall_impl; [|exact Hd]. intros x Hx. change (2 ^ 5) with 32. exact Hx. }
  cbn [app] in Hi. rewrite Hl in Hc. destruct Hi as [H0 [Ha [Hv [Hr Hlen]]]].
  destruct ((5 <=? bits) || negb (Z.land (Z.shiftl acc (8 - bits)) (Z.shiftl 1 8 - 1) =? 0)) eqn:E; [discriminate|].
  injection Hc as <-.
  apply orb_false_iff in E as [E1 E2]. apply negb_false_iff in E2.
  rewrite mask_is_mod in E2 by lia. rewrite Z.shiftl_mul_pow2 in E2 by lia.
  assert (Hlast : (acc * 2 ^ (8 - bits)) mod 2 ^ 8 = (acc mod 2 ^ bits) * 2 ^ (8 - bits)).
  { replace (2 ^ 8) with (2 ^ (8 - bits) * 2 ^ bits) by (rewrite <- Z.pow_add_r by lia; f_equal; lia).
    assert (Hq : 0 < 2 ^ (8 - bits)) by (apply Z.pow_pos_nonneg; lia).
    assert (Hq2 : 0 < 2 ^ bits) by (apply Z.pow_pos_nonneg; lia).
    rewrite Z.rem_mul_r by lia. rewrite Z.mod_mul by lia. rewrite Z.div_mul by lia. ring. }
  rewrite Hlast in E2.
  assert (Hq : 0 < 2 ^ (8 - bits)) by (apply Z.pow_pos_nonneg; lia).
  assert (Hz : acc mod 2 ^ bits = 0) by (clear - E2 Hq; nia).
  rewrite Hz, Z.add_0_r in Hv.
  assert (Hwf : wf_bytes ret).
  { eapply Forall_impl; [|exact Hr]. intros x Hx. unfold byte_ok. change (2 ^ 8) with 256 in Hx. exact Hx. }
  split; [exact Hwf|].
  destruct (convertbits_8_5 ret Hwf) as [conv [pad [Hc' [Hp [Hr' [Hlen' Hv']]]]]].
  rewrite Hc'. f_equal.
  assert (Hn : Z.of_nat (length conv) = Z.of_nat (length data) /\ pad = bits) by lia.
  destruct Hn as [Hn ->].
  apply (val_inj 5 ltac:(lia)).
  - lia.
  - exact Hr'.
  - exact Hd.
  - rewrite Hv', Hv. reflexivity.
Qed.
