(* Bip32Path: format/parse identity, marker equivalence, rejection of malformed paths. *)
From BHW Require Import Lib.Base Lib.Digits Lib.ListAux Model.Helper Model.WalletUtils Proofs.Base58.

Definition dig (c : Z) : Prop := 48 <= c <= 57.

Lemma is_digit_true c : dig c -> is_digit c = true.
Proof. unfold dig, is_digit. lia. Qed.
Lemma dig_not_ws c : dig c -> is_ws_int c = false.
Proof. unfold dig, is_ws_int. lia. Qed.

(* ---- decimal printing ---- *)
Lemma str_of_nonneg_digits n : 0 <= n -> Forall dig (str_of_nonneg n) /\ str_of_nonneg n <> [].
Proof.
  intros Hn. unfold str_of_nonneg. destruct (n =? 0) eqn:E.
  - split; [constructor; [unfold dig; lia|constructor]|discriminate].
  - fold (to_le_full 10 n). split.
    + apply Forall_forall. intros c Hc. apply in_map_iff in Hc as [d [<- Hd]].
      apply in_rev in Hd. pose proof (to_le_full_ok 10 n ltac:(lia)) as Hok.
      unfold digits_ok in Hok. rewrite Forall_forall in Hok. specialize (Hok d Hd).
      unfold digit_ok in Hok. unfold dig. lia.
    + intros H. apply map_eq_nil in H. apply (f_equal (@rev Z)) in H. rewrite rev_involutive in H.
      apply (to_le_full_nonempty 10 n); [lia|lia|exact H].
Qed.

Lemma digits_val_fold r : forall acc, Forall dig r ->
  digits_val r acc false = Ok (fold_left (fun a c => a * 10 + (c - 48)) r acc).
Proof.
  induction r as [|c r IH]; intros acc H; [reflexivity|].
  pose proof (Forall_inv H) as Hc. pose proof (Forall_inv_tail H) as Hr.
  cbn [digits_val fold_left]. rewrite is_digit_true by exact Hc. apply IH. exact Hr.
Qed.

Lemma fold_shift ds : forall acc,
  fold_left (fun a c => a * 10 + (c - 48)) (map (fun d => d + 48) ds) acc
  = fold_left (fun a d => a * 10 + d) ds acc.
Proof.
  induction ds as [|d r IH]; intros acc; [reflexivity|].
  cbn [map fold_left]. rewrite IH. f_equal. lia.
Qed.

Lemma unsigned_val_str n : 0 <= n -> unsigned_val (str_of_nonneg n) = Ok n.
Proof.
  intros Hn. destruct (str_of_nonneg_digits n Hn) as [Hd Hne].
  destruct (str_of_nonneg n) as [|c r] eqn:Es; [contradiction|].
  unfold unsigned_val. rewrite is_digit_true by (exact (Forall_inv Hd)).
  rewrite digits_val_fold by (exact (Forall_inv_tail Hd)).
  f_equal.
  change (fold_left (fun a c0 => a * 10 + (c0 - 48)) r (c - 48))
    with (fold_left (fun a c0 => a * 10 + (c0 - 48)) (c :: r) 0).
  rewrite <- Es. unfold str_of_nonneg. destruct (n =? 0) eqn:E.
  - cbn. lia.
  - fold (to_le_full 10 n). rewrite fold_shift.
    change (fold_left (fun a d => a * 10 + d) (rev (to_le_full 10 n)) 0) with (of_be 10 (rev (to_le_full 10 n))).
    rewrite of_be_rev, rev_involutive. apply of_le_to_le_full; lia.
Qed.

Lemma lstrip_dig c r : dig c -> lstrip_int (c :: r) = c :: r.
Proof. intros H. cbn [lstrip_int]. rewrite dig_not_ws by exact H. reflexivity. Qed.

Lemma strip_digits s : Forall dig s -> strip_int s = s.
Proof.
  intros H. unfold strip_int. destruct s as [|c r]; [reflexivity|].
  rewrite lstrip_dig by (exact (Forall_inv H)).
  destruct (rev (c :: r)) as [|l t] eqn:Er.
  - apply (f_equal (@rev Z)) in Er. rewrite rev_involutive in Er. discriminate.
  - assert (Hl : dig l).
    { rewrite Forall_forall in H. apply H. apply in_rev. rewrite Er. left. reflexivity. }
    rewrite lstrip_dig by exact Hl. rewrite <- Er. apply rev_involutive.
Qed.

Lemma py_int_str n : 0 <= n -> py_int (str_of_int n) = Ok n.
Proof.
  intros Hn. unfold str_of_int. destruct (n <? 0) eqn:E; [lia|].
  destruct (str_of_nonneg_digits n Hn) as [Hd Hne].
  unfold py_int. rewrite strip_digits by exact Hd.
  pose proof (unsigned_val_str n Hn) as Hu.
  destruct (str_of_nonneg n) as [|c r] eqn:Es; [contradiction|].
  pose proof (Forall_inv Hd) as Hc. unfold dig in Hc.
  destruct (Z.eq_dec c 43); [lia|]. destruct (Z.eq_dec c 45); [lia|].
  destruct c as [|p|p]; try lia.
  (* c is a positive literal different from 43 and 45: the match falls through *)
  repeat (destruct p as [p|p|]; try lia; try exact Hu).
Qed.

Lemma last_of_digits s : Forall dig s -> s <> [] -> exists l t, rev s = l :: t /\ dig l.
Proof.
  intros H Hne. destruct (rev s) as [|l t] eqn:Er.
  - apply (f_equal (@rev Z)) in Er. rewrite rev_involutive in Er. contradiction.
  - exists l, t. split; [reflexivity|]. rewrite Forall_forall in H. apply H. apply in_rev. rewrite Er. left. reflexivity.
Qed.

Lemma convert_repr v : 0 <= v < 4294967296 -> convert_hardened (repr_hardened v) = Ok v.
Proof.
  intros Hv. unfold repr_hardened. destruct (2147483648 <=? v) eqn:E.
  - unfold convert_hardened. rewrite rev_app_distr. cbn [rev app].
    change ((39 =? 39) || (39 =? 104)) with true. cbv iota.
    rewrite rev_involutive, py_int_str by lia. cbn [bind].
    destruct ((0 <=? v - 2147483648) && (v - 2147483648 <? 2147483648)) eqn:R; [f_equal; lia|lia].
  - unfold str_of_int. destruct (v <? 0) eqn:E0; [lia|].
    destruct (str_of_nonneg_digits v ltac:(lia)) as [Hd Hne].
    destruct (last_of_digits _ Hd Hne) as [l [t [Hr Hl]]].
    unfold convert_hardened. rewrite Hr. unfold dig in Hl.
    destruct ((l =? 39) || (l =? 104)) eqn:Em; [lia|].
    pose proof (py_int_str v ltac:(lia)) as Hp. unfold str_of_int in Hp. rewrite E0 in Hp. rewrite Hp. cbn [bind].
    destruct ((0 <=? v) && (v <? 4294967296)) eqn:R; [reflexivity|lia].
Qed.

Lemma repr_nonempty v : 0 <= v < 4294967296 -> repr_hardened v <> [].
Proof.
  intros Hv. unfold repr_hardened. destruct (2147483648 <=? v).
  - intros H. apply app_eq_nil in H as [_ H]. discriminate.
  - unfold str_of_int. destruct (v <? 0) eqn:E; [lia|]. apply str_of_nonneg_digits. lia.
Qed.

Lemma repr_no_slash v : 0 <= v < 4294967296 -> ~ In 47 (repr_hardened v).
Proof.
  intros Hv Hin. unfold repr_hardened in Hin.
  assert (Hd : forall n, 0 <= n -> ~ In 47 (str_of_int n)).
  { intros n Hn H. unfold str_of_int in H. destruct (n <? 0) eqn:E; [lia|].
    destruct (str_of_nonneg_digits n Hn) as [Hf _]. rewrite Forall_forall in Hf. specialize (Hf 47 H). unfold dig in Hf. lia. }
  destruct (2147483648 <=? v) eqn:E.
  - apply in_app_or in Hin as [H|H]; [apply (Hd (v - 2147483648)); [lia|exact H]|].
    destruct H as [H|[]]; discriminate.
  - apply (Hd v); [lia|exact Hin].
Qed.

(* ---- split / join ---- *)
Lemma split_on_nosep x : forall rest cur, ~ In 47 x ->
  split_on 47 (x ++ rest) cur = split_on 47 rest (rev x ++ cur).
Proof.
  induction x as [|c r IH]; intros rest cur H; [reflexivity|].
  cbn [app split_on]. destruct (c =? 47) eqn:E.
  - exfalso. apply H. left. lia.
  - rewrite IH by (intros Hin; apply H; right; exact Hin). cbn [rev]. rewrite <- app_assoc. reflexivity.
Qed.

Lemma split_join items : forall cur, Forall (fun x => ~ In 47 x) items ->
  split_on 47 (join_slash items) cur = rev cur :: items.
Proof.
  induction items as [|x r IH]; intros cur H; [reflexivity|].
  cbn [join_slash split_on]. change (47 =? 47) with true. cbv iota. f_equal.
  rewrite split_on_nosep by (exact (Forall_inv H)). rewrite app_nil_r.
  rewrite IH by (exact (Forall_inv_tail H)). rewrite rev_involutive. reflexivity.
Qed.

Lemma somes_path_of_list l k : somes (map Some l ++ repeat (@None Z) k) = l.
Proof.
  induction l as [|x r IH]; cbn [map app somes].
  - induction k; cbn [repeat somes]; auto.
  - f_equal. exact IH.
Qed.

Theorem format_parse_id private l :
  (length l <= 5)%nat -> Forall (fun i => 0 <= i < 4294967296) l ->
  path_parse (path_repr (path_of_list private l)) = Ok (path_of_list private l).
Proof.
  intros Hlen Hr.
  unfold path_repr, to_list. cbn [path_of_list bp_items bp_private]. rewrite somes_path_of_list.
  unfold path_parse, split_slash.
  set (mark := if private then [109] else [77]).
  assert (Hmark : ~ In 47 mark) by (unfold mark; destruct private; intros [H|[]]; discriminate).
  rewrite split_on_nosep by exact Hmark. rewrite app_nil_r.
  rewrite split_join.
  2:{ apply Forall_forall. intros x Hx. apply in_map_iff in Hx as [v [<- Hv]].
      rewrite Forall_forall in Hr. apply repr_no_slash. apply Hr. exact Hv. }
  rewrite rev_involutive.
  assert (Hm : beq_bytes mark [109] || beq_bytes mark [77] = true) by (unfold mark; destruct private; reflexivity).
  rewrite Hm.
  assert (Hp : beq_bytes mark [109] = private) by (unfold mark; destruct private; reflexivity).
  rewrite Hp.
  assert (Hslot : forall v, 0 <= v < 4294967296 ->
            match repr_hardened v with c :: r => rmap Some (convert_hardened (c :: r)) | [] => Ok None end = Ok (Some v)).
  { intros v Hv. pose proof (convert_repr v Hv) as Hc. pose proof (repr_nonempty v Hv) as Hne.
    destruct (repr_hardened v); [contradiction|]. rewrite Hc. reflexivity. }
  unfold slot. unfold path_of_list.
  destruct l as [|a [|b [|c [|d [|e [|f r]]]]]]; cbn [length] in Hlen; try lia;
    repeat match goal with H : Forall _ (_ :: _) |- _ =>
      let H1 := fresh in let H2 := fresh in
      pose proof (Forall_inv H) as H1; pose proof (Forall_inv_tail H) as H2; cbv beta in H1; clear H end;
    cbn [map nth_error]; rewrite ?Hslot by assumption; cbn [bind integrity length Nat.sub repeat app]; reflexivity.
Qed.

Theorem marker_equiv ds : convert_hardened (ds ++ [39]) = convert_hardened (ds ++ [104]).
Proof. unfold convert_hardened. rewrite !rev_app_distr. reflexivity. Qed.

(* ---- rejection ---- *)
Theorem wrong_root_rejected s first rest :
  split_slash s = first :: rest -> first <> [109] -> first <> [77] -> path_parse s = Err.
Proof.
  intros Hs H1 H2. unfold path_parse. rewrite Hs.
  destruct (beq_bytes first [109]) eqn:E1; [apply beq_bytes_spec in E1; contradiction|].
  destruct (beq_bytes first [77]) eqn:E2; [apply beq_bytes_spec in E2; contradiction|]. reflexivity.
Qed.

Lemma split_slash_nonempty s : split_slash s <> [].
Proof. unfold split_slash. generalize (@nil Z). induction s as [|c r IH]; intros cur; cbn [split_on]; [discriminate|]. destruct (c =? 47); [discriminate|apply IH]. Qed.

(* a component (positions 1..5) that convert_hardened refuses makes the whole parse fail *)
Theorem bad_component_rejected s i t :
  (1 <= i <= 5)%nat -> nth_error (split_slash s) i = Some t -> t <> [] ->
  convert_hardened t = Err -> path_parse s = Err.
Proof.
  intros Hi Hn Hne Hc. unfold path_parse.
  destruct (split_slash s) as [|first rest] eqn:Es; [reflexivity|].
  destruct (beq_bytes first [109] || beq_bytes first [77]); [|reflexivity].
  assert (Hslot : slot (first :: rest) i = Err).
  { unfold slot. rewrite Hn. destruct t; [contradiction|]. rewrite Hc. reflexivity. }
  assert (Hcases : (i = 1 \/ i = 2 \/ i = 3 \/ i = 4 \/ i = 5)%nat) by lia.
  destruct Hcases as [ -> | [ -> | [ -> | [ -> | -> ] ] ] ]; rewrite Hslot;
    repeat (cbn [bind]; match goal with |- context [bind (slot ?l ?k) _] => destruct (slot l k) end);
    cbn [bind]; reflexivity.
Qed.

(* out-of-range numbers are refused by convert_hardened, with and without a marker *)
Theorem out_of_range_marked ds n m :
  (m = 39 \/ m = 104) -> py_int ds = Ok n -> n < 0 \/ 2147483648 <= n -> convert_hardened (ds ++ [m]) = Err.
Proof.
  intros Hm Hp Hr. unfold convert_hardened. rewrite rev_app_distr. cbn [rev app].
  destruct ((m =? 39) || (m =? 104)) eqn:E; [|lia]. rewrite rev_involutive, Hp. cbn [bind].
  destruct ((0 <=? n) && (n <? 2147483648)) eqn:R; [lia|reflexivity].
Qed.

Theorem out_of_range_plain s l t n :
  rev s = l :: t -> l <> 39 -> l <> 104 -> py_int s = Ok n -> n < 0 \/ 4294967296 <= n ->
  convert_hardened s = Err.
Proof.
  intros Hs H1 H2 Hp Hr. unfold convert_hardened. rewrite Hs.
  destruct ((l =? 39) || (l =? 104)) eqn:E; [lia|]. rewrite Hp. cbn [bind].
  destruct ((0 <=? n) && (n <? 4294967296)) eqn:R; [lia|reflexivity].
Qed.

(* an empty inner component (something non-empty follows it) fails the integrity check *)
Theorem empty_inner_rejected s i j t :
  (1 <= i < j)%nat -> (j <= 5)%nat ->
  nth_error (split_slash s) i = Some [] -> nth_error (split_slash s) j = Some t -> t <> [] ->
  path_parse s = Err.
Proof.
  intros Hij Hj Hi Hjn Hne. unfold path_parse.
  destruct (split_slash s) as [|first rest] eqn:Es; [reflexivity|].
  destruct (beq_bytes first [109] || beq_bytes first [77]); [|reflexivity].
  assert (Si : slot (first :: rest) i = Ok None) by (unfold slot; rewrite Hi; reflexivity).
  assert (Sj : slot (first :: rest) j = Err \/ exists v, slot (first :: rest) j = Ok (Some v)).
  { unfold slot. rewrite Hjn. destruct t; [contradiction|].
    destruct (convert_hardened (z :: t)); [right; eexists; reflexivity|left; reflexivity]. }
  assert (Hc : ((i = 1 /\ (j = 2 \/ j = 3 \/ j = 4 \/ j = 5)) \/ (i = 2 /\ (j = 3 \/ j = 4 \/ j = 5)) \/
               (i = 3 /\ (j = 4 \/ j = 5)) \/ (i = 4 /\ j = 5))%nat) by lia.
  destruct Sj as [Sj|[v Sj]];
  repeat match goal with
  | H : _ \/ _ |- _ => destruct H
  | H : _ /\ _ |- _ => destruct H
  end; subst; rewrite ?Si, ?Sj; cbn [bind];
  repeat (cbn [bind]; match goal with |- context [bind (slot ?l ?k) _] => destruct (slot l k) as [[?|]|] end);
  cbn [bind integrity]; reflexivity.
Qed.
