(* C08: the entropy a fresh mnemonic encodes IS the byte string the operating system answered. *)
From BHW Require Import Lib.Base Lib.Digits Lib.ListAux Model.Helper Model.Bip39M Model.Bip85M Model.Rng
  Proofs.Endian Proofs.Seed Proofs.Bip39.
From BHWGen Require Import Consts.

Theorem request_size : forall n, In n [12; 15; 18; 21; 24] ->
  exists bits, entropy_bits_of_length n = Ok bits /\ bits = 32 * n / 3 /\
               request_bytes bits = Z.to_nat (bits / 8) /\ bits mod 8 = 0 /\ memb bits CORRECT_ENTROPY_BITS = true.
Proof.
  intros n H. repeat (destruct H as [<-|H]; [eexists; repeat split; reflexivity|]). destruct H.
Qed.

Section Rng.
Variable sha256 : bytes -> bytes.
Hypothesis sha256_len : forall x, length (sha256 x) = 32%nat.
Hypothesis sha256_wf : forall x, wf_bytes (sha256 x).
Variable urandom : nat -> bytes.
Hypothesis urandom_len : forall n, length (urandom n) = n.
Hypothesis urandom_wf : forall n, wf_bytes (urandom n).
Set Default Proof Using "All".

(* every one of the ENT bits is an OS bit: the mnemonic is the encoding of exactly the answered bytes *)
Theorem entropy_is_os_bytes bits :
  memb bits CORRECT_ENTROPY_BITS = true ->
  mnemonic_from_entropy_bits sha256 urandom bits
  = mnemonic_from_entropy_bytes sha256 (urandom (Z.to_nat (bits / 8))).
Proof.
  intros Hm. unfold mnemonic_from_entropy_bits. rewrite Hm. cbn [negb].
  assert (Hb : bits = 128 \/ bits = 160 \/ bits = 192 \/ bits = 224 \/ bits = 256).
  { apply memb_spec in Hm. unfold CORRECT_ENTROPY_BITS in Hm. cbn [In] in Hm. lia. }
  assert (Hreq : request_bytes bits = Z.to_nat (bits / 8)).
  { unfold request_bytes. destruct Hb as [ -> | [ -> | [ -> | [ -> | -> ] ] ] ]; reflexivity. }
  rewrite Hreq. set (os := urandom (Z.to_nat (bits / 8))).
  assert (Hl : length os = Z.to_nat (bits / 8)) by apply urandom_len.
  assert (Hw : wf_bytes os) by apply urandom_wf.
  assert (Hg : getrandbits bits os = be2z os).
  { unfold getrandbits. rewrite Hl.
    replace (Z.of_nat (Z.to_nat (bits / 8)) * 8 - bits) with 0 by (destruct Hb as [ -> | [ -> | [ -> | [ -> | -> ] ] ] ]; reflexivity).
    change (2 ^ 0) with 1. apply Z.div_1_r. }
  rewrite Hg. unfold int_to_big_endian. rewrite <- Hl, z2be_be2z by exact Hw. cbn [bind].
  unfold mnemonic_from_entropy. rewrite fromhex_hexstr by exact Hw. reflexivity.
Qed.

(* distinct OS answers give distinct sentences: the index list determines the entropy *)
Theorem indexes_injective e1 e2 idx :
  wf_bytes e1 -> wf_bytes e2 ->
  mnemonic_indexes sha256 e1 = Ok idx -> mnemonic_indexes sha256 e2 = Ok idx -> e1 = e2.
Proof.
  intros W1 W2 H1 H2.
  destruct (indexes_spec sha256 sha256_len sha256_wf e1 idx W1 H1) as [_ [N1 [L1 [_ [_ [_ [_ Z1]]]]]]].
  destruct (indexes_spec sha256 sha256_len sha256_wf e2 idx W2 H2) as [_ [N2 [L2 [_ [_ [_ [_ Z2]]]]]]].
  cbv zeta in *.
  assert (Hlen : length e1 = length e2).
  { assert (S1 := valid_sizes sha256 sha256_len sha256_wf e1). assert (S2 := valid_sizes sha256 sha256_len sha256_wf e2).
    unfold mnemonic_indexes in H1, H2. fold (ent_bits e1) in H1. fold (ent_bits e2) in H2.
    destruct (memb (ent_bits e1) CORRECT_ENTROPY_BITS) eqn:E1; [|discriminate].
    destruct (memb (ent_bits e2) CORRECT_ENTROPY_BITS) eqn:E2; [|discriminate].
    specialize (S1 eq_refl). specialize (S2 eq_refl). rewrite L1 in L2.
    unfold ent_bits in *.
    destruct S1 as [S1|[S1|[S1|[S1|S1]]]], S2 as [S2|[S2|[S2|[S2|S2]]]]; rewrite S1, S2 in *; try reflexivity; cbn in L2; lia. }
  unfold ent_bits in *. rewrite Hlen in Z1. rewrite Z1 in Z2. congruence.
Qed.
End Rng.
