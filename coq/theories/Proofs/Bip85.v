(* BIP85: the path templates are the Spec's fully hardened paths, entropy = HMAC over the derived key,
   out-of-range parameters and indexes are refused. *)
From BHW Require Import Lib.Base Lib.Digits Lib.ListAux Model.Helper Model.Keys Model.Bip32M Model.WalletUtils
  Model.Bip39M Model.Bip85M Spec.Curve Spec.Bip32 Spec.Bip85 Proofs.Endian Proofs.Path Proofs.Bip32.
From BHWGen Require Import Consts.

Lemma repr_hardened_H v : 0 <= v -> repr_hardened (v + H) = str_of_int v ++ [39].
Proof.
  intros Hv. unfold repr_hardened, H. destruct (2147483648 <=? v + 2147483648) eqn:E; [|lia].
  replace (v + 2147483648 - 2147483648) with v by lia. reflexivity.
Qed.

(* the path string each application formats *)
Definition path_str (a : app) (index : Z) : str :=
  match a with
  | AMnemonic w => s_prefix ++ [51;57] ++ q_slash ++ [48] ++ q_slash ++ str_of_int w ++ q_slash ++ str_of_int index ++ q
  | AWif => s_prefix ++ [50] ++ q_slash ++ str_of_int index ++ q
  | AXprv => s_prefix ++ [51;50] ++ q_slash ++ str_of_int index ++ q
  | AHex n => s_prefix ++ [49;50;56;49;54;57] ++ q_slash ++ str_of_int n ++ q_slash ++ str_of_int index ++ q
  | APwd l => s_prefix ++ [55;48;55;55;54;52] ++ q_slash ++ str_of_int l ++ q_slash ++ str_of_int index ++ q
  end.

Definition app_param (a : app) : Z :=
  match a with AMnemonic w => w | AHex n => n | APwd l => l | _ => 0 end.

Lemma path_str_repr a index :
  0 <= app_param a -> 0 <= index ->
  path_str a index = path_repr (path_of_list true (app_path a index)).
Proof.
  intros Hp Hi. unfold path_repr, to_list. cbn [path_of_list bp_items bp_private].
  rewrite somes_path_of_list.
  destruct a as [w| | |n|l]; cbn [app_path path_str map join_slash app_param] in *;
    rewrite ?repr_hardened_H by lia;
    change (repr_hardened (83696968 + H)) with [56;51;54;57;54;57;54;56;39];
    change (repr_hardened (39 + H)) with [51;57;39]; change (repr_hardened (0 + H)) with [48;39];
    change (repr_hardened (2 + H)) with [50;39]; change (repr_hardened (32 + H)) with [51;50;39];
    change (repr_hardened (128169 + H)) with [49;50;56;49;54;57;39];
    change (repr_hardened (707764 + H)) with [55;48;55;55;54;52;39];
    unfold s_prefix, q_slash, q; cbn [List.app]; rewrite <- ?app_assoc; cbn [List.app]; reflexivity.
Qed.

Lemma app_path_range a index :
  0 <= app_param a < 2147483648 -> 0 <= index < 2147483648 ->
  (length (app_path a index) <= 5)%nat /\ Forall (fun i => 0 <= i < 4294967296) (app_path a index) /\
  Forall (fun i => 2147483648 <= i) (app_path a index).
Proof.
  intros Hp Hi. unfold H. destruct a; cbn [app_path length app_param] in *; unfold H;
    (split; [lia|split; repeat (apply Forall_cons; [lia|]); apply Forall_nil]).
Qed.

Theorem paths_are_spec a index :
  0 <= app_param a < 2147483648 -> 0 <= index < 2147483648 ->
  rmap to_list (path_parse (path_str a index)) = Ok (app_path a index).
Proof.
  intros Hp Hi. destruct (app_path_range a index Hp Hi) as [Hl [Hr _]].
  rewrite path_str_repr by lia. rewrite format_parse_id by assumption.
  cbn [rmap]. unfold to_list, path_of_list. cbn [bp_items]. rewrite somes_path_of_list. reflexivity.
Qed.

Theorem paths_injective a i a' i' :
  app_ok a = true -> app_ok a' = true -> app_path a i = app_path a' i' -> a = a' /\ i = i'.
Proof.
  intros Ha Ha' He. unfold H in He.
  destruct a, a'; cbn [app_path app_ok] in *; inversion He; try lia;
    split; try reflexivity; try (f_equal; lia); lia.
Qed.

(* ---- entropy = HMAC_SHA512("bip-entropy-from-k", ser256(derived key)) ---- *)
Section Bip85.
Variable C : curve.
Hypothesis laws : curve_laws C.
Hypothesis order_eq : order C = CURVE_ORDER.
Variable hmac512 : bytes -> bytes -> bytes.
Variable hash160 : bytes -> bytes.
Hypothesis hmac_len : forall k d, length (hmac512 k d) = 64%nat.
Hypothesis hmac_wf : forall k d, wf_bytes (hmac512 k d).
Hypothesis hash160_len : forall x, length (hash160 x) = 20%nat.
Set Default Proof Using "All".
Notation "'SV' f" := (f C laws order_eq hmac512 hash160 hmac_len hmac_wf hash160_len) (at level 10, f at level 9, only parsing).

Theorem entropy_spec master fpr a index :
  valid_prv master -> parent_fingerprint C hash160 master = Ok fpr ->
  0 <= app_param a < 2147483648 -> 0 <= index < 2147483648 ->
  match derive_prv C hmac512 hash160 (abs_prv master fpr) (app_path a index) with
  | Some x => entropy C hmac512 master (path_str a index) = Ok (hmac512 BIP85_KEY (ser256 (x_k x)))
  | None => entropy C hmac512 master (path_str a index) = Err
  end.
Proof.
  intros Hv Hf Hp Hi. destruct (app_path_range a index Hp Hi) as [Hl [Hr _]].
  pose proof (paths_are_spec a index Hp Hi) as Hpp. unfold entropy.
  destruct (path_parse (path_str a index)) as [p|]; cbn [rmap] in Hpp; [|discriminate].
  apply Ok_inj in Hpp. cbn [bind]. rewrite Hpp.
  pose proof (SV derive_path_spec (app_path a index) master fpr Hv ltac:(destruct Hv; assumption) Hr Hf) as Hd.
  destruct (derive_prv C hmac512 hash160 (abs_prv master fpr) (app_path a index)) as [x|].
  - destruct Hd as [c [Hc [Hvc [_ Ha]]]]. rewrite Hc. cbn [bind].
    destruct (SV private_key_valid c Hvc) as [K [Hpk _]]. rewrite Hpk. cbn [bind fst].
    destruct (SV key32_props c Hvc) as [Hkw [Hkl Hks]].
    assert (Hsr : 0 <= scalar c < 256 ^ Z.of_nat 32).
    { destruct Hvc as [_ [_ [_ Hrr]]]. pose proof curve_order_lt. unfold scalar. lia. }
    destruct (SV ser256_props (scalar c) Hsr) as [A1 [B1 D1]].
    assert (Hk32 : key32 c = ser256 (scalar c)) by (apply be2z_inj; auto; congruence).
    rewrite Hk32. rewrite <- Ha. reflexivity.
  - rewrite Hd. reflexivity.
Qed.

(* every path component is hardened *)
Theorem paths_hardened a index :
  0 <= app_param a < 2147483648 -> 0 <= index < 2147483648 ->
  Forall (fun i => 2147483648 <= i) (app_path a index).
Proof. intros Hp Hi. apply app_path_range; assumption. Qed.

(* ---- refusals ---- *)
Theorem hex_out_of_range master n index : n < 16 \/ 64 < n -> hex85 C hmac512 master n index = Err.
Proof. intros H. unfold hex85. destruct ((16 <=? n) && (n <=? 64)) eqn:E; [lia|reflexivity]. Qed.

Theorem pwd_out_of_range master l index : l < 20 \/ 86 < l -> pwd85 C hmac512 master l index = Err.
Proof. intros H. unfold pwd85. destruct ((20 <=? l) && (l <=? 86)) eqn:E; [lia|reflexivity]. Qed.

Theorem word_count_out_of_range sha256 master w index :
  ~ In w [12; 15; 18; 21; 24] -> bip39_mnemonic C hmac512 sha256 master w index = Err.
Proof.
  intros H. unfold bip39_mnemonic.
  destruct (entropy C hmac512 master _); cbn [bind]; [|reflexivity].
  unfold byte_count_from_word_count. destruct (memb w CORRECT_MNEMONIC_LENGTH) eqn:E; [|reflexivity].
  apply memb_spec in E. contradiction.
Qed.

Theorem correct_key_iff kb : correct_key kb = Ok tt <-> 1 <= be2z kb < CURVE_ORDER \/ (be2z kb < 0).
Proof.
  pose proof curve_order_pos as Hn.
  unfold correct_key, big_endian_to_int. destruct (be2z kb =? 0) eqn:E0.
  - split; [discriminate|lia].
  - destruct (CURVE_ORDER <=? be2z kb) eqn:E1.
    + split; [discriminate|lia].
    + split; [intros _; lia|reflexivity].
Qed.

(* an index outside [0, 2^31) makes the path refuse to parse: no derivation at some other path *)
Lemma str_of_int_noslash n : ~ In 47 (str_of_int n).
Proof.
  unfold str_of_int. intros Hin.
  assert (Hd : forall m, 0 <= m -> ~ In 47 (str_of_nonneg m)).
  { intros m Hm Hi. destruct (str_of_nonneg_digits m Hm) as [Hf _]. rewrite Forall_forall in Hf.
    specialize (Hf 47 Hi). unfold dig in Hf. lia. }
  destruct (n <? 0) eqn:E.
  - destruct Hin as [Hin|Hin]; [discriminate|]. apply (Hd (- n)); [lia|exact Hin].
  - apply (Hd n); [lia|exact Hin].
Qed.

Lemma strip_minus ds : Forall dig ds -> ds <> [] -> strip_int (45 :: ds) = 45 :: ds.
Proof.
  intros Hd Hne. unfold strip_int.
  assert (Hl : lstrip_int (45 :: ds) = 45 :: ds) by reflexivity. rewrite Hl.
  destruct (last_of_digits _ Hd Hne) as [l [t [Hr Hld]]].
  cbn [rev]. rewrite Hr. change ((l :: t) ++ [45]) with (l :: (t ++ [45])).
  rewrite lstrip_dig by exact Hld.
  change (l :: (t ++ [45])) with ((l :: t) ++ [45]). rewrite <- Hr.
  rewrite rev_app_distr, rev_involutive. reflexivity.
Qed.

Lemma py_int_minus ds : strip_int (45 :: ds) = 45 :: ds -> py_int (45 :: ds) = rmap Z.opp (unsigned_val ds).
Proof. intros H. unfold py_int. rewrite H. reflexivity. Qed.

Lemma py_int_neg n : n < 0 -> py_int (str_of_int n) = Ok n.
Proof.
  intros Hn. unfold str_of_int. destruct (n <? 0) eqn:E; [|lia].
  destruct (str_of_nonneg_digits (- n) ltac:(lia)) as [Hd Hne].
  rewrite py_int_minus by (apply strip_minus; assumption).
  rewrite unsigned_val_str by lia. cbn [rmap]. f_equal. lia.
Qed.

Theorem bad_index_component index :
  index < 0 \/ 2147483648 <= index -> convert_hardened (str_of_int index ++ [39]) = Err.
Proof.
  intros Hi. apply (out_of_range_marked (str_of_int index) index 39); [left; reflexivity| |exact Hi].
  destruct (Z_lt_ge_dec index 0); [apply py_int_neg; assumption|apply py_int_str; lia].
Qed.
End Bip85.
