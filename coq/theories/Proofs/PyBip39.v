(* Source semantics of bip39.mnemonic_from_entropy (regenerated term; sha256 external) = Model/Bip39M.v, for every text.
   The string route of the code (bin()[2:], zfill, 11-character chunks, int(.,2)) is followed on character strings and
   linked to the bit-list route of Proofs/Bip39Str.v (characters '0'/'1' <-> bits 0/1), which is proved equal to the
   arithmetic model there. *)
From BHW Require Import Lib.Base Lib.Digits Lib.ListAux Model.Helper Model.Bip39M Proofs.Endian Proofs.Bip39Str
  Py.Interp Py.Tactics Proofs.PyHelper.
From BHWGen Require Import Consts Wordlist PyAst.
Open Scope string_scope.
Open Scope Z_scope.
Open Scope list_scope.

Definition chars (bits : list Z) : list Z := map (fun b => 48 + b) bits.

Lemma chars_app a b : chars (a ++ b) = chars a ++ chars b.
Proof. apply map_app. Qed.
Lemma chars_length s : List.length (chars s) = List.length s.
Proof. apply map_length. Qed.

(* ---- bytes.fromhex ---- *)
Lemma unhex_eq c : unhex c = Bip39M.hexdigit c.
Proof. reflexivity. Qed.

Lemma fromhex_model_aux n : forall s, (List.length s <= n)%nat ->
  fromhex s = match Bip39M.fromhex s with Ok b => Val b | Err => Exc ValueError end.
Proof.
  induction n as [|n IHn]; intros s Hl.
  { destruct s; [reflexivity|cbn in Hl; lia]. }
  assert (IH : forall t, (List.length t < List.length s)%nat -> fromhex t = match Bip39M.fromhex t with Ok b => Val b | Err => Exc ValueError end)
    by (intros t Ht; apply IHn; lia).
  clear IHn Hl. destruct s as [|c1 [|c2 r]].
  - reflexivity.
  - cbn [fromhex Bip39M.fromhex]. unfold hexws, is_hexws. destruct ((c1 =? 32) || ((9 <=? c1) && (c1 <=? 13))); [reflexivity|].
    destruct (Bip39M.hexdigit c1); reflexivity.
  - change (fromhex (c1 :: c2 :: r)) with
      (match unhex c1, unhex c2 with
       | Some h, Some l => bindR (fromhex r) (fun t => Val (16 * h + l :: t))
       | _, _ => if hexws c1 then fromhex (c2 :: r) else Exc ValueError
       end).
    change (unhex c1) with (Bip39M.hexdigit c1). change (unhex c2) with (Bip39M.hexdigit c2).
    change (Bip39M.fromhex (c1 :: c2 :: r)) with
      (if is_hexws c1 then Bip39M.fromhex (c2 :: r) else
       match Bip39M.hexdigit c1, c2 :: r with
       | Some h, d :: r' => match Bip39M.hexdigit d with Some l => rmap (cons (16 * h + l)) (Bip39M.fromhex r') | None => Err end
       | _, _ => Err
       end).
    change (hexws c1) with (is_hexws c1).
    destruct (is_hexws c1) eqn:W.
    + assert (Hn : Bip39M.hexdigit c1 = None).
      { unfold is_hexws in W. unfold Bip39M.hexdigit.
        replace ((48 <=? c1) && (c1 <=? 57)) with false by lia. replace ((97 <=? c1) && (c1 <=? 102)) with false by lia.
        replace ((65 <=? c1) && (c1 <=? 70)) with false by lia. reflexivity. }
      rewrite Hn. apply IH. cbn [List.length]. lia.
    + destruct (Bip39M.hexdigit c1) as [h|]; [|reflexivity].
      destruct (Bip39M.hexdigit c2) as [l|]; [|reflexivity].
      rewrite (IH r) by (cbn [List.length]; lia). destruct (Bip39M.fromhex r); reflexivity.
Qed.
Lemma fromhex_model s : fromhex s = match Bip39M.fromhex s with Ok b => Val b | Err => Exc ValueError end.
Proof. apply (fromhex_model_aux (List.length s)). lia. Qed.

(* ---- the string pieces ---- *)
Lemma digits_be_py_bin n : 0 <= n -> digits_be 2 n = py_bin n.
Proof.
  intros Hn. unfold digits_be, py_bin. destruct (n =? 0) eqn:E.
  - apply Z.eqb_eq in E. subst. reflexivity.
  - replace (n <=? 0) with false by lia. rewrite Nat.add_1_r. reflexivity.
Qed.

Lemma bin_chars n : 0 <= n -> apply_builtin BBin [VInt n] = Val (VStr (48 :: 98 :: chars (py_bin n))).
Proof. intros Hn. cbn [apply_builtin]. replace (n <? 0) with false by lia. rewrite digits_be_py_bin by exact Hn. reflexivity. Qed.

Lemma repeat_chars n : repeat 48 n = chars (repeat 0 n).
Proof. induction n; cbn; [reflexivity|]. rewrite IHn. reflexivity. Qed.

Lemma zfill_chars w s : s <> [] -> bits_ok s ->
  apply_meth MZfill (VStr (chars s)) [VInt (Z.of_nat w)] = Val (VStr (chars (zfill w s))).
Proof.
  intros Hne Hok. destruct s as [|b r]; [contradiction|].
  inversion Hok as [|? ? Hb _]; subst. unfold digit_ok in Hb.
  assert (Hres : repeat 48 (Z.to_nat (Z.of_nat w - Z.of_nat (List.length (chars (b :: r))))) ++ chars (b :: r)
                 = chars (zfill w (b :: r))).
  { unfold zfill. rewrite chars_app, <- repeat_chars, chars_length. f_equal. f_equal. lia. }
  assert (Hb' : b = 0 \/ b = 1) by lia.
  destruct Hb' as [-> | ->]; cbn [chars map apply_meth Z.add] in *; rewrite Hres; reflexivity.
Qed.

Lemma firstn_chars k s : firstn k (chars s) = chars (firstn k s).
Proof. apply firstn_map. Qed.
Lemma skipn_chars k s : skipn k (chars s) = chars (skipn k s).
Proof. apply skipn_map. Qed.

Lemma memb10_chars s : bits_ok s -> memb 10 (chars s) = false.
Proof.
  intros H. destruct (memb 10 (chars s)) eqn:E; [|reflexivity]. apply memb_spec in E. unfold chars in E.
  apply in_map_iff in E as (b & E1 & E2). unfold bits_ok, digits_ok in H. rewrite Forall_forall in H. specialize (H b E2).
  unfold digit_ok in H. lia.
Qed.

Lemma chunks_chars s : bits_ok s ->
  apply_builtin BChunks [VInt 11; VStr (chars s)] = Val (VList (map (fun c => VStr (chars c)) (findall11 s))).
Proof.
  intros H. cbn [apply_builtin]. rewrite (memb10_chars s H). cbn [orb Z.leb Z.compare]. f_equal. f_equal.
  change (Z.to_nat 11) with 11%nat. rewrite chars_length. unfold findall11.
  generalize (List.length s / 11)%nat as k. intros k. revert s H. induction k as [|k IH]; intros s H; [reflexivity|].
  cbn [map chunks11]. rewrite firstn_chars, skipn_chars. f_equal. apply IH. apply Forall_skipn. exact H.
Qed.

Lemma int2_chars c : c <> [] -> bits_ok c -> apply_builtin BInt [VStr (chars c); VInt 2] = Val (VInt (int2 c)).
Proof.
  intros Hne Hok. cbn [apply_builtin]. destruct (chars c) as [|x xs] eqn:Ec; [destruct c; [contradiction|discriminate]|].
  rewrite <- Ec. clear x xs Ec.
  assert (Hall : forallb (fun ch => (ch =? 48) || (ch =? 49)) (chars c) = true).
  { apply forallb_forall. intros ch Hin. unfold chars in Hin. apply in_map_iff in Hin as (b & E1 & E2).
    unfold bits_ok, digits_ok in Hok. rewrite Forall_forall in Hok. specialize (Hok b E2). unfold digit_ok in Hok. lia. }
  rewrite Hall. f_equal. f_equal. unfold int2, of_be, chars.
  assert (G : forall acc, fold_left (fun a ch => a * 2 + (ch - 48)) (map (fun b => 48 + b) c) acc = fold_left (fun a d => a * 2 + d) c acc).
  { clear. induction c as [|b r IH]; intros acc; [reflexivity|].
    change (fold_left (fun a ch => a * 2 + (ch - 48)) (map (fun b => 48 + b) (b :: r)) acc)
      with (fold_left (fun a ch => a * 2 + (ch - 48)) (map (fun b => 48 + b) r) (acc * 2 + (48 + b - 48))).
    change (fold_left (fun a d => a * 2 + d) (b :: r) acc) with (fold_left (fun a d => a * 2 + d) r (acc * 2 + b)).
    rewrite IH. f_equal. lia. }
  apply G.
Qed.

Lemma chunks11_facts k : forall s, bits_ok s -> List.length s = (11 * k)%nat ->
  Forall (fun c => c <> [] /\ bits_ok c) (chunks11 k s).
Proof.
  induction k as [|k IH]; intros s Hs Hl; cbn [chunks11]; [constructor|].
  constructor.
  - split; [|apply Forall_firstn; exact Hs].
    intros E. apply (f_equal (@List.length Z)) in E. rewrite firstn_length, Hl in E. change (List.length (@nil Z)) with 0%nat in E. lia.
  - apply IH; [apply Forall_skipn; exact Hs|rewrite skipn_length; lia].
Qed.

(* ---- " ".join ---- *)
Lemma join_space_cons h x t : join_space (h :: x :: t) = h ++ 32 :: join_space (x :: t).
Proof. reflexivity. Qed.
Lemma join_space_aux t : forall h, h ++ List.concat (map (fun x => [32] ++ x) t) = join_space (h :: t).
Proof.
  induction t as [|x t IH]; intros h.
  - cbn [map List.concat join_space]. apply app_nil_r.
  - rewrite join_space_cons. cbn [map List.concat]. rewrite <- app_assoc. cbn [app]. f_equal. f_equal. apply IH.
Qed.
Lemma join_space_eq ws :
  match ws with [] => [] | h :: t => h ++ List.concat (map (fun x => [32] ++ x) t) end = join_space ws.
Proof. destruct ws as [|h t]; [reflexivity|apply join_space_aux]. Qed.

(* ---- the word list ---- *)
Lemma g_word_list : g_bip39_wordlist__word_list = VList (map VStr word_list).
Proof. vm_compute. reflexivity. Qed.

Lemma wl_length : List.length word_list = 2048%nat.
Proof. vm_compute. reflexivity. Qed.

Lemma index_word i : 0 <= i < 2048 ->
  index (map VStr word_list) i = Val (VStr (nth (Z.to_nat i) word_list [])) /\
  nth_error word_list (Z.to_nat i) = Some (nth (Z.to_nat i) word_list []).
Proof.
  intros H. assert (Hlt : (Z.to_nat i < List.length word_list)%nat) by (rewrite wl_length; lia).
  split.
  - unfold index. rewrite map_length, wl_length. change (Z.of_nat 2048) with 2048.
    replace (i <? 0) with false by lia. replace ((i <? 0) || (2048 <=? i)) with false by lia.
    rewrite nth_error_map. rewrite (nth_error_nth' word_list [] Hlt). reflexivity.
  - apply nth_error_nth'. exact Hlt.
Qed.

Lemma fromhex_wf : forall n s e, (List.length s <= n)%nat -> Bip39M.fromhex s = Ok e -> wf_bytes e.
Proof.
  induction n as [|n IH]; intros s e Hl H.
  { destruct s; [inversion H; constructor|cbn in Hl; lia]. }
  destruct s as [|c r]; [inversion H; constructor|].
  cbn [Bip39M.fromhex] in H. destruct (is_hexws c).
  - apply (IH r e); [cbn in Hl; lia|exact H].
  - destruct (Bip39M.hexdigit c) as [h|] eqn:Eh; [|discriminate]. destruct r as [|d r']; [discriminate|].
    destruct (Bip39M.hexdigit d) as [l|] eqn:El; [|discriminate].
    destruct (Bip39M.fromhex r') as [t|] eqn:Et; cbn [rmap] in H; [|discriminate]. inversion H; subst.
    constructor; [|apply (IH r' t); [cbn in Hl; lia|exact Et]].
    unfold Bip39M.hexdigit in Eh, El. unfold byte_ok.
    destruct ((48 <=? c) && (c <=? 57)) eqn:A1; [inversion Eh|destruct ((97 <=? c) && (c <=? 102)) eqn:A2; [inversion Eh|destruct ((65 <=? c) && (c <=? 70)) eqn:A3; [inversion Eh|discriminate]]];
    (destruct ((48 <=? d) && (d <=? 57)) eqn:B1; [inversion El|destruct ((97 <=? d) && (d <=? 102)) eqn:B2; [inversion El|destruct ((65 <=? d) && (d <=? 70)) eqn:B3; [inversion El|discriminate]]]);
    lia.
Qed.

Lemma correct_bits_sem ext fuel b :
  sem_bip39__correct_entropy_bits_value ext fuel [VInt b]
  = if memb b CORRECT_ENTROPY_BITS then Val VNone else Exc ValueError.
Proof.
  unfold sem_bip39__correct_entropy_bits_value, call, ast_bip39__correct_entropy_bits_value. pystep.
  unfold memb. change CORRECT_ENTROPY_BITS with [128; 160; 192; 224; 256]. cbn [existsb].
  repeat match goal with |- context [(?a =? ?c) || _] => destruct (a =? c); cbn [orb] end; reflexivity.
Qed.
#[global] Arguments sem_bip39__correct_entropy_bits_value : simpl never.

Lemma checksum_length_sem ext fuel b : 0 <= b < 4503599627370496 ->
  sem_bip39__checksum_length ext fuel [VInt b] = Val (VInt (checksum_length b)).
Proof.
  intros H. unfold sem_bip39__checksum_length, call, ast_bip39__checksum_length, checksum_length. pystep.
  replace ((0 <=? b) && (b <? 4503599627370496)) with true by lia. reflexivity.
Qed.
#[global] Arguments sem_bip39__checksum_length : simpl never.

#[global] Opaque g_bip39_wordlist__word_list.
#[local] Opaque word_list.
#[global] Arguments sem_helper__big_endian_to_int : simpl never.

Lemma py_bin_nonempty n : py_bin n <> [].
Proof.
  unfold py_bin. destruct (n <=? 0) eqn:E; [discriminate|].
  intros H. apply (f_equal (@rev Z)) in H. rewrite rev_involutive in H. rewrite Nat.add_1_r in H. cbn [to_le rev] in H.
  rewrite E in H. discriminate.
Qed.

Section WithSha.
Variable sha256 : bytes -> bytes.
Hypothesis sha256_wf : forall x, wf_bytes (sha256 x).
Hypothesis sha256_len : forall x, List.length (sha256 x) = 32%nat.
Variable ext : fenv_t.
Hypothesis ext_sha256 :
  ext "helper.sha256" = Some (fun args => match args with [VBytes b] => Val (VBytes (sha256 b)) | _ => Exc TypeError end).

#[local] Arguments apply_builtin : simpl never.
#[local] Arguments zfill : simpl never.
#[local] Arguments py_bin : simpl never.
#[local] Arguments findall11 : simpl never.
#[local] Arguments chunks11 : simpl never.
#[local] Arguments int2 : simpl never.
#[local] Arguments chars : simpl never.
#[local] Arguments join_space : simpl never.
#[local] Arguments apply_meth : simpl never.

Lemma mnemonic_from_entropy_sem fuel hex :
  agrees (sem_bip39__mnemonic_from_entropy ext fuel [VStr hex])
         (rmap VStr (Bip39M.mnemonic_from_entropy sha256 hex)).
Proof.
  unfold sem_bip39__mnemonic_from_entropy, call, ast_bip39__mnemonic_from_entropy, Bip39M.mnemonic_from_entropy.
  pystep. change (apply_builtin BFromHex [VStr hex]) with (bindR (fromhex hex) (fun b => Val (VBytes b))).
  rewrite fromhex_model.
  destruct (Bip39M.fromhex hex) as [e|] eqn:Eh; cbn [bind rmap agrees]; pystep.
  2:{ exists ValueError. split; [reflexivity|split; discriminate]. }
  change (apply_builtin BLen [VBytes e]) with (Val (VInt (Z.of_nat (List.length e)))). pystep.
  assert (Hwf : wf_bytes e) by (eapply fromhex_wf; [|exact Eh]; apply le_n).
  rewrite correct_bits_sem.
  unfold mnemonic_from_entropy_bytes. rewrite <- (indexes_str_eq sha256 sha256_wf sha256_len e Hwf). unfold indexes_str.
  replace (Z.of_nat (List.length e) * 8) with (8 * Z.of_nat (List.length e)) by lia.
  set (bits := 8 * Z.of_nat (List.length e)).
  destruct (memb bits CORRECT_ENTROPY_BITS) eqn:Em; cbn [negb bind rmap agrees]; pystep.
  2:{ exists ValueError. split; [reflexivity|split; discriminate]. }
  assert (Hsz : bits = 128 \/ bits = 160 \/ bits = 192 \/ bits = 224 \/ bits = 256).
  { apply memb_spec in Em. unfold CORRECT_ENTROPY_BITS in Em. cbn [In] in Em. destruct Em as [H|[H|[H|[H|[H|[]]]]]]; rewrite <- H; tauto. }
  rewrite be2int_sem. pystep. rewrite ext_sha256. pystep. rewrite be2int_sem. pystep.
  rewrite checksum_length_sem by lia. pystep.
  unfold big_endian_to_int. set (S := be2z (sha256 e)). set (E := be2z e).
  assert (HS : 0 <= S < 2 ^ 256).
  { pose proof (be2z_range (sha256 e) (sha256_wf e)) as Hr. rewrite sha256_len in Hr.
    change (256 ^ Z.of_nat 32) with (2 ^ 256) in Hr. exact Hr. }
  assert (HE : 0 <= E < 2 ^ bits).
  { pose proof (be2z_range e Hwf) as Hr. unfold bits. rewrite Z.pow_mul_r by lia. exact Hr. }
  (* checksum = bin(S)[2:].zfill(256)[:cs] *)
  rewrite (bin_chars S) by lia. pystep. rewrite slice_from by lia. change (Z.to_nat 2) with 2%nat.
  change (skipn 2 (48 :: 98 :: chars (py_bin S))) with (chars (py_bin S)).
  change 256 with (Z.of_nat 256) at 1.
  rewrite (zfill_chars 256 (py_bin S) (py_bin_nonempty S) (py_bin_ok S)). pystep.
  set (csz := checksum_length bits).
  assert (Hcsr : 4 <= csz <= 8 /\ 32 * csz = bits).
  { unfold csz, checksum_length. destruct Hsz as [->|[->|[->|[->| ->]]]]; cbn; lia. }
  set (cs := Z.to_nat csz).
  rewrite slice_to by lia. fold cs. rewrite firstn_chars.
  set (F := zfill 256 (py_bin S)). set (C := firstn cs F).
  assert (HFok : bits_ok F). { unfold F. apply (zfill_ok sha256). apply py_bin_ok. }
  assert (HFlen : List.length F = 256%nat).
  { apply (zfill_len sha256). apply py_bin_len; [change (Z.of_nat 256) with 256; lia|lia]. }
  assert (HCok : bits_ok C) by (apply Forall_firstn; exact HFok).
  assert (HClen : List.length C = cs) by (unfold C; rewrite firstn_length; lia).
  clearbody C. clear HFok HFlen. clear F.
  (* entropy_checksum = (bin(E)[2:] + checksum).zfill(bits + cs) *)
  rewrite (bin_chars E) by lia. pystep. rewrite slice_from by lia. change (Z.to_nat 2) with 2%nat.
  change (skipn 2 (48 :: 98 :: chars (py_bin E))) with (chars (py_bin E)).
  rewrite <- chars_app.
  replace (bits + csz) with (Z.of_nat (Z.to_nat bits + cs)) by lia.
  assert (Hne : py_bin E ++ C <> []) by (intros H; apply app_eq_nil in H as [H _]; exact (py_bin_nonempty E H)).
  assert (Hok2 : bits_ok (py_bin E ++ C)) by (apply Forall_app; split; [apply py_bin_ok|exact HCok]).
  rewrite (zfill_chars _ _ Hne Hok2). pystep.
  set (EC := zfill (Z.to_nat bits + cs) (py_bin E ++ C)).
  assert (HPlen : (List.length (py_bin E) <= Z.to_nat bits)%nat).
  { apply py_bin_len; [rewrite Z2Nat.id by lia; exact HE|lia]. }
  assert (HECok : bits_ok EC) by (apply (zfill_ok sha256); exact Hok2).
  assert (HEClen : List.length EC = (Z.to_nat bits + cs)%nat).
  { apply (zfill_len sha256). rewrite app_length, HClen. lia. }
  set (k := Z.to_nat ((bits + csz) / 11)).
  assert (Hk : (Z.to_nat bits + cs = 11 * k)%nat).
  { unfold k, cs. destruct Hcsr as [_ Hb]. destruct Hsz as [H|[H|[H|[H|H]]]]; rewrite H in *;
    assert (csz = bits / 32) by lia; subst csz; rewrite H; reflexivity. }
  rewrite Hk in HEClen.
  (* bin_indexes, indexes *)
  assert (Hfa : findall11 EC = chunks11 k EC).
  { unfold findall11. rewrite HEClen. replace (11 * k / 11)%nat with k by (rewrite Nat.mul_comm, Nat.div_mul; lia). reflexivity. }
  rewrite (chunks_chars EC HECok). rewrite !Hfa. clearbody EC k. pystep.
  pose proof (chunks11_facts k EC HECok HEClen) as Hch.
  destruct (chunks_val sha256 k EC HECok HEClen) as (_ & _ & Hdig).
  erewrite (comp_map_map_In _ (fun c => VStr (chars c)) (fun c => VInt (int2 c))).
  2:{ intros c Hc. rewrite Forall_forall in Hch. destruct (Hch c Hc) as [N1 N2]. pystep. rewrite (int2_chars c N1 N2). reflexivity. }
  pystep.
  (* mnemonic_lst = [word_list[i] for i in indexes] *)
  rewrite g_word_list. rewrite <- (map_map int2 VInt).
  set (idxs := map int2 (chunks11 k EC)) in *.
  assert (Hidx : forall i, In i idxs -> 0 <= i < 2048).
  { intros i Hi. unfold digits_ok in Hdig. rewrite Forall_forall in Hdig. exact (Hdig i Hi). }
  clearbody idxs.
  erewrite (comp_map_map_In _ VInt (fun i => VStr (nth (Z.to_nat i) word_list []))).
  2:{ intros i Hi. pystep. rewrite (proj1 (index_word i (Hidx i Hi))). reflexivity. }
  pystep.
  rewrite (map_res_ok _ (fun i => nth (Z.to_nat i) word_list [])).
  2:{ intros i Hi. rewrite (proj2 (index_word i (Hidx i Hi))). reflexivity. }
  cbn [bind rmap agrees].
  (* " ".join(mnemonic_lst) *)
  unfold apply_meth. cbn [iter_items bindR].
  rewrite <- (map_map (fun i => nth (Z.to_nat i) word_list []) VStr).
  rewrite (all_strs_map (fun x : list Z => x)). rewrite join_space_eq, map_id. pystep. reflexivity.
Qed.
End WithSha.
