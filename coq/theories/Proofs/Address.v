(* Addresses: script templates, model = Spec payloads, Base58Check decode-back. *)
From BHW Require Import Lib.Base Lib.ListAux Model.Helper Model.Keys Model.Bip32M Model.ScriptM Model.Bech32M Model.Address
  Spec.Curve Spec.Script Spec.Address Proofs.Varint Proofs.Script Proofs.Base58.
From BHWGen Require Import Consts.

Lemma prefixes_are_spec :
  P2PKH_ADDR_BYTES = Some [[0x6f]; [0x00]] /\ P2SH_ADDR_BYTES = Some [[0xc4]; [0x05]] /\
  P2WPKH_ADDR_STRS = Some [[116; 98]; [98; 99]] /\ P2WSH_ADDR_STRS = Some [[116; 98]; [98; 99]].
Proof. repeat split; reflexivity. Qed.

Lemma ser_push20 h : length h = 20%nat -> ser_cmd (Data h) = Ok (20 :: h).
Proof. intros Hl. rewrite push_form by lia. unfold push. rewrite Hl. reflexivity. Qed.
Lemma ser_push32 h : length h = 32%nat -> ser_cmd (Data h) = Ok (32 :: h).
Proof. intros Hl. rewrite push_form by lia. unfold push. rewrite Hl. reflexivity. Qed.
Lemma ser_push33 h : length h = 33%nat -> ser_cmd (Data h) = Ok (33 :: h).
Proof. intros Hl. rewrite push_form by lia. unfold push. rewrite Hl. reflexivity. Qed.

Theorem script_templates h :
  (length h = 20%nat -> raw_serialize (p2pkh_script h) = Ok (p2pkh_spk h) /\
                        raw_serialize (p2sh_script h) = Ok (p2sh_spk h) /\
                        raw_serialize (p2wpkh_script h) = Ok (p2wpkh_spk h)) /\
  (length h = 32%nat -> raw_serialize (p2wsh_script h) = Ok (p2wsh_spk h)) /\
  (length h = 33%nat -> raw_serialize [Op 81; Data h; Op 81; Op 174] = Ok (multisig_1of1 h)).
Proof.
  split; [|split]; intros Hl.
  - unfold p2pkh_script, p2sh_script, p2wpkh_script, p2pkh_spk, p2sh_spk, p2wpkh_spk.
    cbn [raw_serialize]. rewrite (ser_push20 h Hl). cbn. rewrite ?app_nil_r, <- ?app_assoc. cbn. repeat split; reflexivity.
  - unfold p2wsh_script, p2wsh_spk. cbn [raw_serialize]. rewrite (ser_push32 h Hl). cbn. rewrite app_nil_r. reflexivity.
  - unfold multisig_1of1. cbn [raw_serialize]. rewrite (ser_push33 h Hl). cbn. rewrite ?app_nil_r, <- ?app_assoc. reflexivity.
Qed.

Section Address.
Variable C : curve.
Hypothesis laws : curve_laws C.
Variable sha256 : bytes -> bytes.
Variable hash160 : bytes -> bytes.
Hypothesis sha256_len : forall x, length (sha256 x) = 32%nat.
Hypothesis sha256_wf : forall x, wf_bytes (sha256 x).
Hypothesis hash160_len : forall x, length (hash160 x) = 20%nat.
Hypothesis hash160_wf : forall x, wf_bytes (hash160 x).
Notation A := BASE58_ALPHABET.
Set Default Proof Using "All".

Notation b58c := (encode_base58_checksum A sha256).

(* every address method = the Spec payload under the standard encoder *)
Theorem address_spec nd K testnet :
  public_key C nd = Ok K ->
  p2pkh_address C A sha256 hash160 nd testnet = rmap Some (b58c (p2pkh_payload hash160 (ser_c C K) testnet)) /\
  p2sh_p2wpkh_address C A sha256 hash160 nd testnet = rmap Some (b58c (p2sh_p2wpkh_payload hash160 (ser_c C K) testnet)) /\
  p2sh_p2wsh_address C A sha256 hash160 nd testnet = rmap Some (b58c (p2sh_p2wsh_payload sha256 hash160 (ser_c C K) testnet)) /\
  p2wpkh_address C A sha256 hash160 nd testnet = Bech32M.encode (segwit_hrp testnet) 0 (hash160 (ser_c C K)) /\
  p2wsh_address C sha256 nd testnet = Bech32M.encode (segwit_hrp testnet) 0 (p2wsh_program sha256 (ser_c C K)).
Proof.
  intros HK.
  destruct (script_templates (hash160 (ser_c C K))) as [T20 _]. specialize (T20 (hash160_len _)).
  destruct T20 as [_ [_ Twpkh]].
  destruct (script_templates (ser_c C K)) as [_ [_ T33]]. specialize (T33 (ser_c_len C laws K)).
  destruct (script_templates (sha256 (multisig_1of1 (ser_c C K)))) as [_ [T32 _]]. specialize (T32 (sha256_len _)).
  unfold p2pkh_address, p2sh_p2wpkh_address, p2sh_p2wsh_address, p2wpkh_address, p2wsh_address, pk_address, witness_script.
  rewrite HK. cbn [bind]. unfold sec. rewrite Twpkh, T33. cbn [bind]. rewrite T32. cbn [bind].
  unfold h160_to_p2pkh_address, h160_to_p2sh_address, h160_to_p2wpkh_address, h256_to_p2wsh_address.
  destruct testnet; cbn; repeat split; reflexivity.
Qed.

(* and the Base58Check ones decode back to exactly version byte || hash *)
Theorem base58_address_decodes payload :
  wf_bytes payload ->
  exists s, b58c payload = Ok s /\ decode_base58_checksum A sha256 s = Ok payload.
Proof.
  intros Hw. apply (decode_encode_checksum A sha256 eq_refl); auto.
  apply nodupb_spec. vm_compute. reflexivity.
Qed.

Lemma payloads_wf K testnet :
  wf_bytes (p2pkh_payload hash160 (ser_c C K) testnet) /\
  wf_bytes (p2sh_p2wpkh_payload hash160 (ser_c C K) testnet) /\
  wf_bytes (p2sh_p2wsh_payload sha256 hash160 (ser_c C K) testnet).
Proof.
  unfold p2pkh_payload, p2sh_p2wpkh_payload, p2sh_p2wsh_payload, p2pkh_version, p2sh_version.
  repeat split; (constructor; [unfold byte_ok; destruct testnet; lia|apply hash160_wf]).
Qed.
End Address.
