(* Wallet-level structure theorems (C06, C13 pieces, C14, C15, C16). *)
From BHW Require Import Lib.Base Lib.Digits Lib.ListAux Model.Helper Model.Keys Model.Bip32M Model.WalletUtils
  Model.Bip39M Model.Bip85M Model.Address Model.BaseWallet Model.PaperWallet Spec.Curve Proofs.Path.
From BHWGen Require Import Consts.
From Coq Require String.
Import String.StringSyntax.

(* ---- map_res as a relation ---- *)
Lemma map_res_forall2 {A B} (f : A -> res B) l : forall ys,
  map_res f l = Ok ys -> Forall2 (fun x y => f x = Ok y) l ys.
Proof.
  induction l as [|x r IH]; intros ys H; cbn [map_res] in H.
  - apply Ok_inj in H. subst. constructor.
  - destruct (f x) as [y|] eqn:Ex; cbn [bind] in H; [|discriminate].
    destruct (map_res f r) as [ys'|] eqn:Er; cbn [bind] in H; [|discriminate].
    apply Ok_inj in H. subst. constructor; [exact Ex|apply IH; reflexivity].
Qed.

Lemma forall2_compose {A B D} (P : A -> B -> Prop) (Q : B -> D -> Prop) l m n :
  Forall2 P l m -> Forall2 Q m n -> Forall2 (fun a d => exists b, P a b /\ Q b d) l n.
Proof.
  intros H. revert n. induction H as [|a b l m Hab Hlm IH]; intros n Hq; inversion Hq; subst; constructor.
  - exists b. auto.
  - apply IH. assumption.
Qed.

Lemma forall2_impl {A B} (P Q : A -> B -> Prop) l m :
  (forall a b, P a b -> Q a b) -> Forall2 P l m -> Forall2 Q l m.
Proof. intros H F. induction F; constructor; auto. Qed.

Lemma forall2_length {A B} (P : A -> B -> Prop) l m : Forall2 P l m -> length l = length m.
Proof. intros F. induction F; cbn; auto. Qed.

Section Wallet.
Variable C : curve.
Variable hmac512 : bytes -> bytes -> bytes.
Variable sha256 : bytes -> bytes.
Variable hash160 : bytes -> bytes.
Variable alph : list Z.
Set Default Proof Using "All".

Notation derive := (derive_path C hmac512).

(* ---- derivation composes ---- *)
Theorem derive_app p : forall nd q,
  derive nd (p ++ q) = bind (derive nd p) (fun c => derive c q).
Proof.
  induction p as [|i r IH]; intros nd q; [reflexivity|].
  cbn [app derive_path]. destruct (ckd C hmac512 nd i) as [c|]; cbn [bind]; [apply IH|reflexivity].
Qed.

(* every child is built by child_of: parent link, index, class and network are inherited *)
Lemma ckd_child nd i c : ckd C hmac512 nd i = Ok c ->
  nparent c = Some nd /\ nindex c = i /\ is_prv c = is_prv nd /\ ntestnet c = ntestnet nd /\ ndepth c = ndepth nd + 1.
Proof.
  unfold ckd, ckd_prv, ckd_pub. intros H.
  destruct (is_prv nd) eqn:Ep.
  - repeat match type of H with
    | bind ?x _ = Ok _ => destruct x; cbn [bind] in H; [|discriminate]
    | (if ?b then _ else _) = Ok _ => destruct b; [try discriminate|try discriminate]
    end; apply Ok_inj in H; subst c; unfold child_of; cbn; rewrite ?Ep; auto.
  - repeat match type of H with
    | bind ?x _ = Ok _ => destruct x; cbn [bind] in H; [|discriminate]
    | (if ?b then _ else _) = Ok _ => destruct b; [try discriminate|try discriminate]
    | match ?x with Some _ => _ | None => _ end = Ok _ => destruct x; [|discriminate]
    end; apply Ok_inj in H; subst c; unfold child_of; cbn; rewrite ?Ep; auto.
Qed.

Definition repr_index (i : Z) : str :=
  if 2147483648 <=? i then py_str_int (i - 2147483648) ++ [39] else py_str_int i.

Lemma node_repr_child nd i c : ckd C hmac512 nd i = Ok c -> node_repr c = node_repr nd ++ 47 :: repr_index i.
Proof.
  intros H. destruct (ckd_child nd i c H) as [Hp [Hi _]].
  destruct c as [cp ck cc cd ci ct cpar cf cv]. cbn [nparent nindex] in *. subst cpar ci.
  cbn [node_repr nparent nindex]. unfold repr_index. reflexivity.
Qed.

Theorem node_repr_derive path : forall nd c,
  derive nd path = Ok c -> node_repr c = node_repr nd ++ flat_map (fun i => 47 :: repr_index i) path.
Proof.
  induction path as [|i r IH]; intros nd c H; cbn [derive_path] in H.
  - apply Ok_inj in H. subst. cbn. rewrite app_nil_r. reflexivity.
  - destruct (ckd C hmac512 nd i) as [d|] eqn:Ed; cbn [bind] in H; [|discriminate].
    rewrite (IH d c H), (node_repr_child nd i d Ed). cbn [flat_map]. rewrite <- app_assoc. reflexivity.
Qed.

Lemma derive_class path : forall nd c, derive nd path = Ok c -> is_prv c = is_prv nd /\ ntestnet c = ntestnet nd.
Proof.
  induction path as [|i r IH]; intros nd c H; cbn [derive_path] in H.
  - apply Ok_inj in H. subst. auto.
  - destruct (ckd C hmac512 nd i) as [d|] eqn:Ed; cbn [bind] in H; [|discriminate].
    destruct (ckd_child nd i d Ed) as [_ [_ [Hp [Ht _]]]]. destruct (IH d c H) as [H1 H2]. split; congruence.
Qed.

(* public nodes never derive through a hardened index, anywhere along a path *)
Theorem derive_pub_hardened path : forall nd,
  is_prv nd = false -> Exists (fun i => 2147483648 <= i) path -> derive nd path = Err.
Proof.
  induction path as [|i r IH]; intros nd Hp He; [inversion He|].
  cbn [derive_path]. unfold ckd. rewrite Hp.
  destruct (Z_lt_ge_dec i 2147483648) as [Hlt|Hge].
  - destruct (ckd_pub C hmac512 nd i) as [d|] eqn:Ed; cbn [bind]; [|reflexivity].
    apply IH.
    + assert (Hc : ckd C hmac512 nd i = Ok d) by (unfold ckd; rewrite Hp; exact Ed).
      destruct (ckd_child nd i d Hc) as [_ [_ [Hpp _]]]. congruence.
    + inversion He; subst; [lia|assumption].
  - unfold ckd_pub. change HARDENED with 2147483648. destruct (2147483648 <=? i) eqn:E; [reflexivity|lia].
Qed.

(* ---- C06: one BIP44/49/84 section ---- *)
Notation bip_section := (bip_section C hmac512 sha256 hash160 alph).
Notation row := (row C sha256 hash160 alph).
Notation node_extended_keys := (node_extended_keys C sha256 hash160 alph).

Theorem bip_section_spec purpose w account lo hi keys rows :
  bip_section purpose w account lo hi = Ok (keys, rows) ->
  exists acct rs,
    derive (w_master w) (account_path purpose w account) = Ok acct /\
    node_extended_keys w acct = Ok keys /\ rows = TList rs /\
    Forall2 (fun i r => exists nd, derive (w_master w) (account_path purpose w account ++ [0; i]) = Ok nd /\
                                   row purpose w nd = Ok r) (zrange lo hi) rs.
Proof.
  unfold PaperWallet.bip_section. intros H.
  destruct (derive (w_master w) (account_path purpose w account)) as [acct|] eqn:Ea; cbn [bind] in H; [|discriminate].
  destruct (node_extended_keys w acct) as [ks|] eqn:Ek; cbn [bind] in H; [|discriminate].
  destruct (derive acct [0]) as [ext|] eqn:Ee; cbn [bind] in H; [|discriminate].
  destruct (map_res (fun i => ckd C hmac512 ext i) (zrange lo hi)) as [children|] eqn:Ec; cbn [bind] in H; [|discriminate].
  destruct (map_res (row purpose w) children) as [rs|] eqn:Er; cbn [bind] in H; [|discriminate].
  apply Ok_inj in H. inversion H; subst keys rows. exists acct, rs.
  split; [reflexivity|]. split; [exact Ek|]. split; [reflexivity|].
  pose proof (forall2_compose _ _ _ _ _ (map_res_forall2 _ _ _ Ec) (map_res_forall2 _ _ _ Er)) as Hf.
  eapply forall2_impl; [|exact Hf]. intros i r [nd [Hc Hr]]. exists nd. split; [|exact Hr].
  rewrite derive_app, Ea. cbn [bind].
  change [0; i] with ([0] ++ [i]). rewrite derive_app, Ee. cbn [bind derive_path]. rewrite Hc. reflexivity.
Qed.

Lemma zrange_from_length lo n : length (zrange_from lo n) = n.
Proof. revert lo; induction n; intros; cbn; auto. Qed.

Theorem rows_count purpose w account lo hi keys rs :
  bip_section purpose w account lo hi = Ok (keys, TList rs) -> Z.of_nat (length rs) = Z.max 0 (hi - lo).
Proof.
  intros H. destruct (bip_section_spec _ _ _ _ _ _ _ H) as [acct [rs' [_ [_ [Hr Hf]]]]].
  inversion Hr; subst rs'. apply forall2_length in Hf. rewrite <- Hf. unfold zrange. rewrite zrange_from_length. lia.
Qed.

(* a row is [path string; address; compressed SEC hex; WIF] of ONE node *)
Theorem row_shape purpose w nd r :
  row purpose w nd = Ok r ->
  exists a K wf, r = TList [TStr (node_repr nd); topt a; TStr (hexstr (ser_c C K)); wf] /\
    public_key C nd = Ok K /\ addr_fnc C sha256 hash160 alph purpose w nd = Ok a /\
    (w_watch_only w = true -> wf = TNone) /\
    (w_watch_only w = false -> exists kK s, private_key C nd = Ok kK /\
                                          wif alph sha256 (fst kK) true (w_testnet w) = Ok s /\ wf = TStr s).
Proof.
  unfold PaperWallet.row. intros H.
  destruct (addr_fnc C sha256 hash160 alph purpose w nd) as [a|] eqn:Ea; cbn [bind] in H; [|discriminate].
  destruct (public_key C nd) as [K|] eqn:EK; cbn [bind] in H; [|discriminate].
  destruct (w_watch_only w) eqn:Ew; cbn [bind] in H.
  - apply Ok_inj in H. subst r. exists a, K, TNone. repeat split; auto. discriminate.
  - destruct (private_key C nd) as [kK|] eqn:Ep; cbn [bind] in H; [|discriminate].
    destruct (wif alph sha256 (fst kK) true (w_testnet w)) as [s|] eqn:Es; cbn [rmap bind] in H; [|discriminate].
    apply Ok_inj in H. subst r. exists a, K, (TStr s). repeat split; auto; [discriminate|].
    intros _. exists kK, s. auto.
Qed.


(* ---- the SLIP-132 flavour of an account node comes from its own path string ---- *)
Lemma repr_index_eq i : repr_index i = repr_hardened i.
Proof. reflexivity. Qed.

Lemma join_slash_flat (f : Z -> str) l : join_slash (map f l) = flat_map (fun i => 47 :: f i) l.
Proof. induction l as [|x r IH]; cbn; [reflexivity|]. rewrite IH. reflexivity. Qed.

Definition purpose_code (purpose : Z) : Z :=
  if purpose =? 44 then BIP_44 else if purpose =? 49 then BIP_49 else BIP_84.

Theorem account_version purpose w account acct key_type :
  node_repr (w_master w) = [109] ->
  derive (w_master w) (account_path purpose w account) = Ok acct ->
  0 <= account < 2147483648 -> (purpose = 44 \/ purpose = 49 \/ purpose = 84) ->
  node_version w acct key_type = version_int key_type (purpose_code purpose) (w_testnet w) /\
  node_repr acct = path_repr (path_of_list true (account_path purpose w account)).
Proof.
  intros Hm Hd Ha Hp.
  assert (Hr : node_repr acct = path_repr (path_of_list true (account_path purpose w account))).
  { rewrite (node_repr_derive _ _ _ Hd), Hm. unfold path_repr, to_list. cbn [path_of_list bp_items bp_private].
    rewrite somes_path_of_list, join_slash_flat. reflexivity. }
  split; [|exact Hr].
  unfold node_version. rewrite Hr.
  rewrite format_parse_id.
  - cbn [bind]. f_equal. unfold path_bip, path_of_list, account_path, purpose_code. cbn [bp_items map app].
    change HARDENED with 2147483648.
    destruct Hp as [ -> | [ -> | -> ] ]; reflexivity.
  - unfold account_path. cbn [length]. lia.
  - unfold account_path. change HARDENED with 2147483648.
    repeat (apply Forall_cons; [destruct (w_testnet w); lia|]). apply Forall_nil.
Qed.

(* ---- generate: layout ---- *)
Theorem generate_layout w account lo hi t :
  generate C hmac512 sha256 hash160 alph w account lo hi = Ok t ->
  exists s44 s49 s84 b85,
    bip_section 44 w account lo hi = Ok s44 /\ bip_section 49 w account lo hi = Ok s49 /\
    bip_section 84 w account lo hi = Ok s84 /\ bip85_data C hmac512 sha256 hash160 alph w = Ok b85 /\
    t = TDict [(k "MASTER", master_data w); (k "BIP85", b85); (k "BIP44", section_tree s44);
               (k "BIP49", section_tree s49); (k "BIP84", section_tree s84)].
Proof.
  unfold generate. intros H.
  destruct (bip_section 44 w account lo hi) as [s44|]; cbn [bind] in H; [|discriminate].
  destruct (bip_section 49 w account lo hi) as [s49|]; cbn [bind] in H; [|discriminate].
  destruct (bip_section 84 w account lo hi) as [s84|]; cbn [bind] in H; [|discriminate].
  destruct (bip85_data C hmac512 sha256 hash160 alph w) as [b|]; cbn [bind] in H; [|discriminate].
  apply Ok_inj in H. exists s44, s49, s84, b. repeat split; auto.
Qed.

(* ---- C14: watch-only wallets ---- *)
Theorem watch_only_no_private w nd :
  w_watch_only w = true ->
  bip85_data C hmac512 sha256 hash160 alph w = Err /\
  (is_prv nd = false -> node_extended_private_key C sha256 hash160 alph w nd = Err) /\
  (forall keys, node_extended_keys w nd = Ok keys -> tget (k "prv") keys = Ok TNone) /\
  (forall purpose r, row purpose w nd = Ok r -> exists a b c, r = TList [a; b; c; TNone]).
Proof.
  intros Hw. split; [unfold bip85_data; rewrite Hw; reflexivity|].
  split; [intros Hp; unfold node_extended_private_key; rewrite Hp; reflexivity|].
  split.
  - intros keys H. unfold PaperWallet.node_extended_keys in H. rewrite Hw in H. cbn [bind] in H.
    destruct (node_extended_public_key C sha256 hash160 alph w nd); cbn [bind] in H; [|discriminate].
    apply Ok_inj in H. subst keys. reflexivity.
  - intros purpose r H. destruct (row_shape _ _ _ _ H) as [a [K [wf [Hr [_ [_ [Hwo _]]]]]]].
    rewrite (Hwo Hw) in Hr. eauto.
Qed.

(* the five address kinds depend on the node's public key only *)
Theorem addresses_public_only nd1 nd2 K t :
  public_key C nd1 = Ok K -> public_key C nd2 = Ok K ->
  p2pkh_address C alph sha256 hash160 nd1 t = p2pkh_address C alph sha256 hash160 nd2 t /\
  p2wpkh_address C alph sha256 hash160 nd1 t = p2wpkh_address C alph sha256 hash160 nd2 t /\
  p2sh_p2wpkh_address C alph sha256 hash160 nd1 t = p2sh_p2wpkh_address C alph sha256 hash160 nd2 t /\
  p2wsh_address C sha256 nd1 t = p2wsh_address C sha256 nd2 t /\
  p2sh_p2wsh_address C alph sha256 hash160 nd1 t = p2sh_p2wsh_address C alph sha256 hash160 nd2 t.
Proof.
  intros H1 H2. unfold p2pkh_address, p2wpkh_address, p2sh_p2wpkh_address, p2wsh_address, p2sh_p2wsh_address.
  rewrite H1, H2. repeat split; reflexivity.
Qed.

End Wallet.

(* ---- C16: the network tag of every WIF / coin type ---- *)
Theorem wif_tag kb compressed testnet :
  exists r, wif_payload kb compressed testnet = (if testnet then 239 else 128) :: r.
Proof. unfold wif_payload. destruct testnet; eexists; reflexivity. Qed.

Theorem coin_type_tag purpose w account :
  nth 1 (account_path purpose w account) 0 = (if w_testnet w then 1 else 0) + 2147483648 /\
  nth 0 (account_path purpose w account) 0 = purpose + 2147483648 /\
  nth 2 (account_path purpose w account) 0 = account + 2147483648.
Proof. unfold account_path. change HARDENED with 2147483648. destruct (w_testnet w); cbn; repeat split; lia. Qed.

(* ---- C15: paranoia_mode on arbitrary trees ---- *)
Lemma paranoia_items_keys kv : forall out,
  paranoia_items kv = Ok out ->
  map fst out = filter whitelisted (map fst kv).
Proof.
  induction kv as [|[key v] r IH]; intros out H; cbn [paranoia_items] in H.
  - apply Ok_inj in H. subst. reflexivity.
  - cbn [map filter fst]. destruct (whitelisted key) eqn:Ew.
    + destruct (paranoia_section v); cbn [bind] in H; [|discriminate].
      destruct (paranoia_items r) as [r'|] eqn:Er; cbn [bind] in H; [|discriminate].
      apply Ok_inj in H. subst out. cbn [map fst]. f_equal. apply IH. reflexivity.
    + apply IH. exact H.
Qed.

Theorem paranoia_section_shape v s :
  paranoia_section v = Ok s ->
  exists aek path pub gs gs',
    tget (k "account_extended_keys") v = Ok aek /\ tget (k "path") aek = Ok path /\ tget (k "pub") aek = Ok pub /\
    s = TDict [(k "account_extended_keys", TDict [(k "path", path); (k "pub", pub)]); (k "groups", TList gs')] /\
    ((tget (k "groups") v = Ok (TList gs) /\ Forall2 (fun g g' => strip_last g = Ok g') gs gs') \/
     (exists kv, tget (k "groups") v = Ok (TDict kv) /\ gs' = [])).
Proof.
  unfold paranoia_section. intros H.
  destruct (tget (k "account_extended_keys") v) as [aek|] eqn:E1; cbn [bind] in H; [|discriminate].
  destruct (tget (k "path") aek) as [path|] eqn:E2; cbn [bind] in H; [|discriminate].
  destruct (tget (k "pub") aek) as [pub|] eqn:E3; cbn [bind] in H; [|discriminate].
  destruct (tget (k "groups") v) as [groups|] eqn:E4; cbn [bind] in H; [|discriminate].
  destruct groups as [s0| |gs|kv]; try discriminate.
  - destruct (map_res strip_last gs) as [gs'|] eqn:Eg; cbn [bind] in H; [|discriminate].
    apply Ok_inj in H. subst s. exists aek, path, pub, gs, gs'.
    split; [reflexivity|]. split; [exact E2|]. split; [exact E3|]. split; [reflexivity|].
    left. split; [reflexivity|]. apply map_res_forall2. exact Eg.
  - apply Ok_inj in H. subst s. exists aek, path, pub, [], [].
    split; [reflexivity|]. split; [exact E2|]. split; [exact E3|]. split; [reflexivity|].
    right. exists kv. auto.
Qed.

(* only what the public view of a section contains can reach the output (non-interference) *)
Definition section_view (v : tree) : res (tree * tree * tree) :=
  do aek <- tget (k "account_extended_keys") v;
  do path <- tget (k "path") aek; do pub <- tget (k "pub") aek;
  do groups <- tget (k "groups") v;
  match groups with
  | TList gs => do gs' <- map_res strip_last gs; Ok (path, pub, TList gs')
  | TDict _ => Ok (path, pub, TList [])
  | _ => Err
  end.

Theorem paranoia_noninterference v1 v2 :
  section_view v1 = section_view v2 -> paranoia_section v1 = paranoia_section v2.
Proof.
  unfold section_view, paranoia_section. intros H.
  destruct (tget (k "account_extended_keys") v1) as [a1|], (tget (k "account_extended_keys") v2) as [a2|]; cbn [bind] in *;
    try reflexivity.
  2:{ destruct (tget (k "path") a1); cbn [bind] in *; try reflexivity.
      destruct (tget (k "pub") a1); cbn [bind] in *; try reflexivity.
      destruct (tget (k "groups") v1) as [g|]; cbn [bind] in *; try reflexivity.
      destruct g as [| |gs|]; try reflexivity; try discriminate.
      destruct (map_res strip_last gs); cbn [bind] in *; [discriminate|reflexivity]. }
  2:{ destruct (tget (k "path") a2); cbn [bind] in *; try reflexivity.
      destruct (tget (k "pub") a2); cbn [bind] in *; try reflexivity.
      destruct (tget (k "groups") v2) as [g|]; cbn [bind] in *; try reflexivity.
      destruct g as [| |gs|]; try reflexivity; try discriminate.
      destruct (map_res strip_last gs); cbn [bind] in *; [discriminate|reflexivity]. }
  destruct (tget (k "path") a1) as [p1|], (tget (k "path") a2) as [p2|]; cbn [bind] in *; try reflexivity;
  destruct (tget (k "pub") a1) as [q1|], (tget (k "pub") a2) as [q2|]; cbn [bind] in *; try reflexivity;
  destruct (tget (k "groups") v1) as [g1|], (tget (k "groups") v2) as [g2|]; cbn [bind] in *; try reflexivity;
  try (destruct g1 as [| |gs1|]; try discriminate; try reflexivity; destruct (map_res strip_last gs1); cbn [bind] in *; try discriminate; reflexivity);
  try (destruct g2 as [| |gs2|]; try discriminate; try reflexivity; destruct (map_res strip_last gs2); cbn [bind] in *; try discriminate; reflexivity).
  destruct g1 as [| |gs1|kv1], g2 as [| |gs2|kv2]; try reflexivity; try discriminate;
    try (destruct (map_res strip_last gs1); cbn [bind] in *; try discriminate);
    try (destruct (map_res strip_last gs2); cbn [bind] in *; try discriminate);
    try reflexivity; try (inversion H; subst; reflexivity).
Qed.

(* dropping the last element of a wallet row removes exactly the WIF column *)
Theorem strip_last_row a b c d : strip_last (TList [a; b; c; d]) = Ok (TList [a; b; c]).
Proof. reflexivity. Qed.
