(* Address level: two strings that both decode (same human-readable part, same length) are equal up to case,
   or differ in at least four characters; in exactly four only when one is a version-0 and the other a
   version-1..16 address.  Equivalently: substituting 1..3 characters of a valid address always gives a
   string decode refuses, and so does substituting 4 unless the version class switches. *)
From BHW Require Import Lib.Base Lib.ListAux Model.Helper Model.Bech32M Spec.Bech32
  Proofs.Bech32 Proofs.Convertbits Proofs.Bech32RT Proofs.Bech32BCH.
From BHWGen Require Import Consts.

Lemma hamming_app_same p : forall a b, hamming (p ++ a) (p ++ b) = hamming a b.
Proof.
  induction p as [|x r IH]; intros a b; [reflexivity|].
  unfold hamming in *. cbn [app combine filter fst snd]. rewrite Z.eqb_refl. cbn [negb]. apply IH.
Qed.

Lemma hamming_cons_same x a b : hamming (x :: a) (x :: b) = hamming a b.
Proof. apply (hamming_app_same [x]). Qed.

Lemma chr_eqb x y : 0 <= x < 32 -> 0 <= y < 32 -> (chr x =? chr y) = (x =? y).
Proof.
  intros Hx Hy. destruct (x =? y) eqn:E.
  - assert (x = y) by lia. subst. apply Z.eqb_refl.
  - destruct (chr x =? chr y) eqn:E2; [|reflexivity]. exfalso.
    assert (Hc : chr x = chr y) by lia.
    pose proof (index_chr x Hx) as H1. pose proof (index_chr y Hy) as H2. rewrite Hc, H2 in H1. injection H1 as H1. lia.
Qed.

Lemma hamming_map_chr a : forall b, Forall (fun d => 0 <= d < 32) a -> Forall (fun d => 0 <= d < 32) b ->
  hamming (map chr a) (map chr b) = hamming a b.
Proof.
  induction a as [|x r IH]; intros [|y t] Ha Hb; try reflexivity.
  unfold hamming in *. cbn [map combine filter fst snd].
  rewrite (chr_eqb x y (Forall_inv Ha) (Forall_inv Hb)).
  destruct (x =? y); cbn [negb length]; rewrite (IH t (Forall_inv_tail Ha) (Forall_inv_tail Hb)); reflexivity.
Qed.

Lemma hamming_zero a : forall b, length a = length b -> hamming a b = 0%nat -> a = b.
Proof.
  induction a as [|x r IH]; intros [|y t] Hl H; try discriminate; [reflexivity|].
  unfold hamming in *. cbn [combine filter fst snd] in H.
  destruct (x =? y) eqn:E; cbn [negb length] in H; [|discriminate].
  assert (x = y) by lia. subst. f_equal. apply IH; [cbn in Hl; lia|exact H].
Qed.

(* the shape of what decode accepted *)
Lemma accepted_shape hrp s v prog : decode hrp s = Some (v, prog) ->
  exists rest spec,
    let D := (v :: rest) ++ bech32_create_checksum hrp (v :: rest) spec in
    map lower_c s = hrp ++ 49 :: map chr D /\
    Forall (fun d => 0 <= d < 32) D /\
    bech32_verify_checksum hrp D = Some spec /\
    spec = (if v =? 0 then BECH32 else BECH32M) /\
    (1 <= length hrp)%nat /\ (length s <= 90)%nat /\ (length D <= 72)%nat.
Proof.
  intros Hdec.
  destruct (decode_inv hrp s v prog Hdec) as [rest [spec [Hbd Hcb]]].
  destruct (bech32_decode_sound s hrp (v :: rest) spec Hbd) as [Hne [Hlow [Hdata [Hlen [_ Henc]]]]].
  destruct (decode_sound hrp s v prog Hdec) as [Hleg [Hwf _]].
  exists rest, spec. cbv zeta.
  destruct (create_checksum_symbols hrp (v :: rest) spec) as [Hk1 Hk2].
  assert (HD : Forall (fun d => 0 <= d < 32) ((v :: rest) ++ bech32_create_checksum hrp (v :: rest) spec))
    by (apply Forall_app; split; assumption).
  destruct (symbols_chars _ HD) as [Hmap _].
  unfold bech32_encode in Henc. rewrite Hmap in Henc. cbn [bind] in Henc. apply Ok_inj in Henc.
  split; [symmetry; exact Henc|]. split; [exact HD|]. split.
  { apply checksum_valid.
    - eapply Forall_impl; [|exact Hlow]. intros c Hc. unfold hrp_char_ok in Hc. change (2 ^ 30) with 1073741824. lia.
    - eapply Forall_impl; [|exact Hdata]. intros c Hc. cbv beta in Hc. change (2 ^ 30) with 1073741824. lia. }
  split.
  { destruct (enc_eqb spec (if v =? 0 then BECH32 else BECH32M)) eqn:E.
    - destruct spec, (v =? 0); cbn in E; try discriminate; reflexivity.
    - exfalso. assert (Hn : spec <> (if v =? 0 then BECH32 else BECH32M)).
      { intros Heq. rewrite Heq in E. destruct (v =? 0); cbn in E; discriminate. }
      rewrite (decode_rejects_wrong_constant hrp s v rest spec Hbd Hn) in Hdec. discriminate. }
  split; [destruct hrp; [congruence|cbn; lia]|]. split; [exact Hlen|].
  (* the data part of a legal program has at most 1 + 64 + 6 symbols *)
  destruct (convertbits_5_8_sound rest prog (Forall_inv_tail Hdata) Hcb) as [_ Hconv].
  destruct (convertbits_roundtrip prog Hwf) as [conv [Hc [_ [Hcl _]]]].
  rewrite Hconv in Hc. injection Hc as <-.
  unfold Spec.Bech32.legal in Hleg.
  assert (Hp : (length prog <= 40)%nat) by lia.
  rewrite app_length, Hk1. cbn [length]. lia.
Qed.

Theorem detects_le4 hrp s s' v prog v' prog' :
  decode hrp s = Some (v, prog) -> decode hrp s' = Some (v', prog') -> length s = length s' ->
  let k := hamming (map lower_c s) (map lower_c s') in
  k = 0%nat \/ ((4 <= k)%nat /\ (k = 4%nat -> (v =? 0) <> (v' =? 0))).
Proof.
  intros H1 H2 Hl k.
  destruct (accepted_shape hrp s v prog H1) as [rest [spec [Hs [HD [Hv [Hsp [Hh [Hlen HDl]]]]]]]].
  destruct (accepted_shape hrp s' v' prog' H2) as [rest' [spec' [Hs' [HD' [Hv' [Hsp' [_ [Hlen' HDl']]]]]]]].
  cbv zeta in *.
  set (D := (v :: rest) ++ bech32_create_checksum hrp (v :: rest) spec) in *.
  set (D' := (v' :: rest') ++ bech32_create_checksum hrp (v' :: rest') spec') in *.
  assert (Hk : k = hamming D D').
  { unfold k. rewrite Hs, Hs', hamming_app_same, hamming_cons_same. apply hamming_map_chr; assumption. }
  assert (HlD : length D = length D').
  { assert (Hll : length (map lower_c s) = length (map lower_c s')) by (rewrite !map_length; exact Hl).
    rewrite Hs, Hs', !app_length in Hll. cbn [length] in Hll. rewrite !map_length in Hll. lia. }
  destruct (bch_detects hrp D D' spec HD HD' HlD Hv) as [Hsame Hcross].
  rewrite Hk.
  destruct (Nat.eq_dec (hamming D D') 0) as [H0|Hn0]; [left; exact H0|right].
  assert (H4 : (4 <= hamming D D')%nat).
  { destruct (le_lt_dec 4 (hamming D D')) as [Hge|Hlt]; [exact Hge|exfalso].
    rewrite (Hcross HDl ltac:(lia)) in Hv'. discriminate. }
  split; [exact H4|]. intros Hk4 Heq.
  apply (Hsame ltac:(lia) ltac:(lia)). rewrite Hv'. f_equal.
  rewrite Hsp, Hsp', Heq. reflexivity.
Qed.

(* the same, read as a statement about corrupting one valid address *)
Corollary substitution_refused hrp s v prog s' :
  decode hrp s = Some (v, prog) -> length s' = length s ->
  (1 <= hamming (map lower_c s) (map lower_c s') <= 3)%nat -> decode hrp s' = None.
Proof.
  intros H1 Hl Hk. destruct (decode hrp s') as [[v' prog']|] eqn:E; [exfalso|reflexivity].
  destruct (detects_le4 hrp s s' v prog v' prog' H1 E (eq_sym Hl)) as [H0|[H4 _]]; lia.
Qed.

Corollary substitution4_refused hrp s v prog s' v' prog' :
  decode hrp s = Some (v, prog) -> length s' = length s ->
  hamming (map lower_c s) (map lower_c s') = 4%nat ->
  decode hrp s' = Some (v', prog') -> (v =? 0) <> (v' =? 0).
Proof.
  intros H1 Hl Hk E.
  destruct (detects_le4 hrp s s' v prog v' prog' H1 E (eq_sym Hl)) as [H0|[_ H4]]; [lia|apply H4; exact Hk].
Qed.
