(* Source semantics of PrivateKey.__bytes__ / PrivateKey.wif (regenerated terms of keys.py) = Model/Keys.v.  The object is
   a value VObj "PrivateKey" [k; K]; the methods only read k, so the statements hold for every K. *)
From BHW Require Import Lib.Base Lib.Digits Lib.ListAux Model.Helper Model.Keys Proofs.Base58 Py.Interp Py.Tactics Proofs.PyHelper.
From BHWGen Require Import Consts PyAst.
Open Scope string_scope.
Open Scope Z_scope.
Open Scope list_scope.

Lemma privkey_bytes_sem ext fuel k K :
  sem_keys__PrivateKey____bytes__ ext fuel [VObj "PrivateKey" [VBytes k; K]] = Val (VBytes k).
Proof. reflexivity. Qed.

Section WithSha.
Variable sha256 : bytes -> bytes.
Hypothesis sha256_wf : forall x, wf_bytes (sha256 x).
Variable ext : fenv_t.
Hypothesis ext_hash256 :
  ext "helper.hash256" = Some (fun args => match args with [VBytes b] => Val (VBytes (hash256 sha256 b)) | _ => Exc TypeError end).

Lemma wif_sem fuel k K (compressed testnet : bool) :
  wf_bytes k -> (2 * (List.length k + 6) < fuel)%nat ->
  exists s, wif A sha256 k compressed testnet = Ok s /\
            sem_keys__PrivateKey__wif ext fuel [VObj "PrivateKey" [VBytes k; K]; VBool compressed; VBool testnet] = Val (VStr s).
Proof.
  intros Hwf Hf. unfold wif.
  assert (Hw : wf_bytes (wif_payload k compressed testnet)).
  { unfold wif_payload. apply wf_app. split; [destruct testnet; (constructor; [unfold byte_ok; lia|constructor])|].
    apply wf_app. split; [exact Hwf|]. destruct compressed; [constructor; [unfold byte_ok; lia|constructor]|constructor]. }
  assert (Hl : (2 * (List.length (wif_payload k compressed testnet) + 4) < fuel)%nat).
  { unfold wif_payload. rewrite !app_length. destruct testnet, compressed; cbn [List.length]; lia. }
  destruct (encode_base58_checksum_sem sha256 sha256_wf ext ext_hash256 fuel _ Hw Hl) as (s & E1 & E2).
  exists s. split; [exact E1|].
  unfold sem_keys__PrivateKey__wif, call, ast_keys__PrivateKey__wif. pystep.
  unfold wif_payload in E2.
  destruct testnet, compressed; pystep; cbn [app] in E2; rewrite ?app_nil_r in *; rewrite E2; reflexivity.
Qed.
End WithSha.
