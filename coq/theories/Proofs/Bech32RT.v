(* decode (encode hrp v prog) = (v, prog) for every legal witness version / program and every lower-case
   human-readable part that keeps the address within 90 characters. *)
From BHW Require Import Lib.Base Lib.ListAux Model.Helper Model.Bech32M Spec.Bech32 Proofs.Bech32 Proofs.Convertbits.
From BHWGen Require Import Consts.

Definition chr (d : Z) : Z := nth (Z.to_nat d) CHARSET 0.

(* ---- finite facts about the regenerated CHARSET ---- *)
Lemma charset_len : length CHARSET = 32%nat.
Proof. vm_compute. reflexivity. Qed.
Lemma charset_nodup : NoDup CHARSET.
Proof. apply nodupb_spec. vm_compute. reflexivity. Qed.
Definition char_okb (c : Z) : bool := (33 <=? c) && (c <=? 126) && negb ((65 <=? c) && (c <=? 90)) && negb (c =? 49).
Lemma charset_chars c : In c CHARSET -> char_okb c = true.
Proof.
  assert (H : forallb char_okb CHARSET = true) by (vm_compute; reflexivity).
  rewrite forallb_forall in H. apply H.
Qed.

Lemma chr_in d : 0 <= d < 32 -> In (chr d) CHARSET.
Proof. intros H. unfold chr. apply nth_In. rewrite charset_len. lia. Qed.

Lemma chr_nth d : 0 <= d < 32 -> nth_error CHARSET (Z.to_nat d) = Some (chr d).
Proof. intros H. unfold chr. apply nth_error_nth'. rewrite charset_len. lia. Qed.

Lemma charset_at_chr d : 0 <= d < 32 -> charset_at d = Ok (chr d).
Proof.
  intros H. unfold charset_at. destruct (0 <=? d) eqn:E; [|lia]. rewrite (chr_nth d H). reflexivity.
Qed.

Lemma index_chr d : 0 <= d < 32 -> index_of (chr d) CHARSET = Some d.
Proof.
  intros H. rewrite (index_of_nth (chr d) CHARSET (Z.to_nat d) charset_nodup (chr_nth d H)).
  f_equal. lia.
Qed.

(* ---- the character-level checks of bech32_decode ---- *)
Definition hrp_char_ok (c : Z) : Prop := 33 <= c <= 126 /\ ~ (65 <= c <= 90).
Definition hrp_lower (hrp : str) : Prop := Forall hrp_char_ok hrp.

Lemma chr_ok d : 0 <= d < 32 -> hrp_char_ok (chr d) /\ chr d <> 49.
Proof.
  intros H. pose proof (charset_chars _ (chr_in d H)) as Hc. unfold char_okb in Hc. unfold hrp_char_ok. lia.
Qed.

Lemma lower_id s : Forall hrp_char_ok s -> map lower_c s = s.
Proof.
  induction 1 as [|c r Hc _ IH]; [reflexivity|]. cbn [map]. rewrite IH. f_equal.
  unfold lower_c, hrp_char_ok in *. destruct ((65 <=? c) && (c <=? 90)) eqn:E; lia.
Qed.

Lemma range_ok s : Forall hrp_char_ok s -> existsb (fun x => (x <? 33) || (126 <? x)) s = false.
Proof.
  induction 1 as [|c r Hc _ IH]; [reflexivity|]. cbn [existsb]. rewrite IH.
  unfold hrp_char_ok in Hc. destruct (c <? 33) eqn:E1; destruct (126 <? c) eqn:E2; cbn; lia.
Qed.

(* rfind: last occurrence *)
Lemma rfind_absent c s : forall i best, ~ In c s -> rfind c s i best = best.
Proof.
  induction s as [|x r IH]; intros i best Hn; [reflexivity|]. cbn [rfind].
  destruct (x =? c) eqn:E; [exfalso; apply Hn; left; lia|]. apply IH. intros Hin. apply Hn. right. exact Hin.
Qed.
Lemma rfind_last c a b : forall i best, ~ In c b -> rfind c (a ++ c :: b) i best = i + Z.of_nat (length a).
Proof.
  induction a as [|x r IH]; intros i best Hn.
  - cbn [app rfind length]. rewrite Z.eqb_refl. rewrite rfind_absent by exact Hn. cbn. lia.
  - cbn [app rfind length]. rewrite IH by exact Hn. lia.
Qed.

(* ---- bech32_decode o bech32_encode ---- *)
Lemma symbols_chars cs : Forall (fun d => 0 <= d < 32) cs ->
  map_res charset_at cs = Ok (map chr cs) /\
  Forall hrp_char_ok (map chr cs) /\ ~ In 49 (map chr cs) /\
  forallb (fun x => memb x CHARSET) (map chr cs) = true /\
  map (fun x => match index_of x CHARSET with Some i => i | None => -1 end) (map chr cs) = cs.
Proof.
  intros H. split; [|split; [|split; [|split]]].
  - apply map_res_ok. intros x Hx. rewrite Forall_forall in H. apply charset_at_chr. apply H. exact Hx.
  - induction H as [|d r Hd _ IH]; [constructor|]. cbn [map]. constructor; [apply chr_ok; exact Hd|exact IH].
  - induction H as [|d r Hd _ IH]; [intros []|]. cbn [map]. intros [E|Hin]; [|exact (IH Hin)].
    destruct (chr_ok d Hd) as [_ Hne]. congruence.
  - induction H as [|d r Hd _ IH]; [reflexivity|]. cbn [map forallb]. rewrite IH, andb_true_r.
    apply memb_spec. apply chr_in. exact Hd.
  - induction H as [|d r Hd _ IH]; [reflexivity|]. cbn [map]. rewrite IH, (index_chr d Hd). reflexivity.
Qed.

Theorem bech32_decode_encode hrp data spec :
  hrp <> [] -> hrp_lower hrp -> Forall (fun d => 0 <= d < 32) data ->
  (length hrp + 7 + length data <= 90)%nat ->
  exists s, bech32_encode hrp data spec = Ok s /\ bech32_decode s = Some (hrp, data, spec).
Proof.
  intros Hne Hh Hd Hlen.
  destruct (create_checksum_symbols hrp data spec) as [Hcl Hcs].
  set (chk := bech32_create_checksum hrp data spec) in *.
  assert (Hcomb : Forall (fun d => 0 <= d < 32) (data ++ chk)) by (apply Forall_app; split; assumption).
  destruct (symbols_chars _ Hcomb) as [Hmap [Hok [Hno1 [Hmem Hidx]]]].
  set (cs := map chr (data ++ chk)) in *.
  exists (hrp ++ [49] ++ cs). split.
  - unfold bech32_encode. fold chk. rewrite Hmap. reflexivity.
  - assert (Hall : Forall hrp_char_ok (hrp ++ [49] ++ cs)).
    { apply Forall_app. split; [exact Hh|]. apply Forall_app. split; [|exact Hok].
      constructor; [unfold hrp_char_ok; lia|constructor]. }
    unfold bech32_decode. rewrite (range_ok _ Hall). rewrite (lower_id _ Hall). rewrite beq_bytes_refl. cbn [negb andb orb].
    assert (Hpos : rfind 49 (hrp ++ [49] ++ cs) 0 (-1) = Z.of_nat (length hrp)).
    { cbn [app]. rewrite rfind_last by exact Hno1. lia. }
    rewrite Hpos.
    assert (Hcsl : length cs = (length data + 6)%nat) by (unfold cs; rewrite map_length, app_length, Hcl; reflexivity).
    assert (Htl : length (hrp ++ [49] ++ cs) = (length hrp + 1 + length cs)%nat)
      by (rewrite !app_length; cbn [length]; lia).
    rewrite Htl.
    assert (Hhl : (1 <= length hrp)%nat) by (destruct hrp; [congruence|cbn; lia]).
    destruct ((Z.of_nat (length hrp) <? 1) || (Z.of_nat (length hrp + 1 + length cs) <? Z.of_nat (length hrp) + 7)
              || (90 <? Z.of_nat (length hrp + 1 + length cs))) eqn:E; [lia|].
    replace (Z.to_nat (Z.of_nat (length hrp) + 1)) with (length (hrp ++ [49])) by (rewrite app_length; cbn [length]; lia).
    rewrite Nat2Z.id.
    rewrite (app_assoc hrp [49] cs), skipn_app, skipn_all, Nat.sub_diag. cbn [app skipn].
    rewrite Hmem. cbn [negb].
    rewrite <- (app_assoc hrp [49] cs), firstn_app, firstn_all, Nat.sub_diag. cbn [firstn]. rewrite app_nil_r.
    rewrite Hidx.
    unfold chk at 1. rewrite checksum_valid.
    + rewrite <- Hcl. rewrite drop_last_app. reflexivity.
    + eapply Forall_impl; [|exact Hh]. intros c Hc. unfold hrp_char_ok in Hc. change (2 ^ 30) with 1073741824. lia.
    + eapply Forall_impl; [|exact Hd]. intros c Hc. cbv beta in Hc. change (2 ^ 30) with 1073741824. lia.
Qed.

(* ---- decode o encode ---- *)
Theorem decode_encode hrp v prog :
  hrp <> [] -> hrp_lower hrp -> (length hrp <= 18)%nat ->
  Spec.Bech32.legal v (length prog) = true -> wf_bytes prog ->
  exists s, encode hrp v prog = Ok (Some s) /\ decode hrp s = Some (v, prog).
Proof.
  intros Hne Hh Hl Hleg Hw.
  destruct (convertbits_roundtrip prog Hw) as [conv [Hc [Hr [Hcl Hback]]]].
  unfold Spec.Bech32.legal in Hleg.
  assert (Hv : 0 <= v <= 16) by lia.
  assert (Hn : (2 <= length prog <= 40)%nat) by lia.
  set (spec := if v =? 0 then BECH32 else BECH32M).
  destruct (bech32_decode_encode hrp (v :: conv) spec Hne Hh) as [s [Hs Hdec]].
  { constructor; [lia|exact Hr]. }
  { cbn [length]. lia. }
  assert (Hds : decode hrp s = Some (v, prog)).
  { unfold decode. rewrite Hdec. rewrite beq_bytes_refl. cbn [negb]. rewrite Hback.
    destruct ((Z.of_nat (length prog) <? 2) || (40 <? Z.of_nat (length prog))) eqn:E1; [lia|].
    destruct (16 <? v) eqn:E2; [lia|].
    destruct (v =? 0) eqn:E0.
    - destruct (true && negb (Z.of_nat (length prog) =? 20) && negb (Z.of_nat (length prog) =? 32)) eqn:E3; [lia|].
      unfold spec. reflexivity.
    - unfold spec. reflexivity. }
  exists s. split; [|exact Hds].
  unfold encode. rewrite Hc. fold spec. rewrite Hs. cbn. rewrite Hds. reflexivity.
Qed.

(* ================= the converse: what decode accepts is exactly what encode emits ================= *)

Lemma pack_val cs : Forall (fun c => 0 <= c < 32) cs -> pack cs = val 5 cs.
Proof.
  induction cs as [|c r IH] using rev_ind; intros H; [reflexivity|].
  apply Forall_app in H as [Hr Hc]. pose proof (Forall_inv Hc) as Hc'. cbv beta in Hc'.
  rewrite pack_snoc, val_snoc, xor_low by exact Hc'. rewrite (IH Hr). change (2 ^ 5) with 32. lia.
Qed.

Lemma lxor_cancel_l p a b : Z.lxor p a = b -> a = Z.lxor p b.
Proof. intros <-. rewrite <- Z.lxor_assoc, Z.lxor_nilpotent, Z.lxor_0_l. reflexivity. Qed.

(* a six-symbol suffix that verifies is the checksum create_checksum computes *)
Theorem checksum_unique hrp data c6 spec :
  hrp_ok hrp -> data_ok data -> length c6 = 6%nat -> Forall (fun c => 0 <= c < 32) c6 ->
  bech32_verify_checksum hrp (data ++ c6) = Some spec -> c6 = bech32_create_checksum hrp data spec.
Proof.
  intros Hh Hd Hl Hc Hver.
  set (const := match spec with BECH32M => BECH32M_CONST | BECH32 => 1 end).
  assert (Hconst : 0 <= const < 2 ^ 30) by (unfold const; destruct spec; [lia|unfold BECH32M_CONST; lia]).
  set (values := bech32_hrp_expand hrp ++ data).
  assert (Hvals : Forall (fun v => 0 <= v < 2 ^ 30) values).
  { unfold values. apply Forall_app. split; [apply expand_ok; exact Hh|exact Hd]. }
  set (S := fold_left polymod_step values 1).
  assert (HS : 0 <= S < 2 ^ 30) by (unfold S; apply fold_bound; [lia|exact Hvals]).
  set (P := fold_left polymod_step (repeat 0 6) S).
  assert (HP : 0 <= P < 2 ^ 30).
  { unfold P. apply fold_bound; [exact HS|]. repeat constructor; lia. }
  set (pm := Z.lxor P const).
  assert (Hpm : 0 <= pm < 2 ^ 30) by (unfold pm; apply lxor_bound; lia).
  assert (Hcs : bech32_create_checksum hrp data spec
                = map (fun i => Z.land (Z.shiftr pm (5 * (5 - i))) 31) [0; 1; 2; 3; 4; 5]).
  { unfold bech32_create_checksum. fold values. fold const. unfold bech32_polymod.
    rewrite fold_left_app. fold S. change [0;0;0;0;0;0] with (repeat 0 6). fold P. fold pm. reflexivity. }
  unfold bech32_verify_checksum, bech32_polymod in Hver.
  rewrite app_assoc in Hver. fold values in Hver. rewrite fold_left_app in Hver. fold S in Hver.
  rewrite (fold_symbols c6 S HS ltac:(lia) Hc) in Hver. rewrite Hl in Hver. fold P in Hver.
  assert (Hpk : Z.lxor P (pack c6) = const).
  { destruct (Z.lxor P (pack c6) =? 1) eqn:E1.
    - injection Hver as <-. unfold const. lia.
    - destruct (Z.lxor P (pack c6) =? BECH32M_CONST) eqn:E2; [|discriminate].
      injection Hver as <-. unfold const. lia. }
  apply lxor_cancel_l in Hpk. fold pm in Hpk.
  destruct (create_checksum_symbols hrp data spec) as [Hl' Hc'].
  apply (val_inj 5 ltac:(lia)).
  - lia.
  - exact Hc.
  - exact Hc'.
  - rewrite <- !pack_val by assumption. rewrite Hpk, Hcs. symmetry. apply pack_slices. exact Hpm.
Qed.

Lemma rfind_spec c s : forall i best r, rfind c s i best = r ->
  r = best \/ exists k, r = i + Z.of_nat k /\ nth_error s k = Some c.
Proof.
  induction s as [|x t IH]; intros i best r H; cbn [rfind] in H; [left; congruence|].
  destruct (IH _ _ _ H) as [Hb|[k [Hr Hk]]].
  - destruct (x =? c) eqn:E.
    + right. exists 0%nat. split; [lia|]. cbn. f_equal. lia.
    + left. exact Hb.
  - right. exists (Datatypes.S k). split; [lia|exact Hk].
Qed.

Lemma memb_chr x : memb x CHARSET = true ->
  exists d, index_of x CHARSET = Some d /\ 0 <= d < 32 /\ chr d = x.
Proof.
  intros H. apply memb_spec in H.
  destruct (index_of x CHARSET) as [d|] eqn:E; [|apply index_of_none in E; contradiction].
  destruct (index_of_some _ _ _ E) as [Hr Hn]. rewrite charset_len in Hr.
  exists d. split; [reflexivity|]. split; [lia|].
  unfold chr. apply nth_error_nth. exact Hn.
Qed.

Lemma tail_symbols l : forallb (fun x => memb x CHARSET) l = true ->
  let ds := map (fun x => match index_of x CHARSET with Some i => i | None => -1 end) l in
  Forall (fun d => 0 <= d < 32) ds /\ map chr ds = l.
Proof.
  induction l as [|x r IH]; intros H; [split; [constructor|reflexivity]|].
  cbn [forallb] in H. apply andb_true_iff in H as [Hx Hr].
  destruct (memb_chr x Hx) as [d [Hi [Hd Hc]]]. destruct (IH Hr) as [IH1 IH2].
  cbn [map]. rewrite Hi. split; [constructor; assumption|]. cbn [map]. rewrite Hc. f_equal. exact IH2.
Qed.

Lemma lower_ok c : 33 <= c <= 126 -> hrp_char_ok (lower_c c).
Proof. intros H. unfold hrp_char_ok, lower_c. destruct ((65 <=? c) && (c <=? 90)) eqn:E; lia. Qed.

(* inversion of bech32_decode *)
Theorem bech32_decode_sound s h data spec :
  bech32_decode s = Some (h, data, spec) ->
  h <> [] /\ hrp_lower h /\ Forall (fun d => 0 <= d < 32) data /\ (length s <= 90)%nat /\
  (map lower_c s = s \/ map upper_c s = s) /\
  bech32_encode h data spec = Ok (map lower_c s).
Proof.
  unfold bech32_decode. intros H.
  destruct (existsb (fun x => (x <? 33) || (126 <? x)) s) eqn:Erange; [discriminate|].
  destruct (negb (beq_bytes (map lower_c s) s) && negb (beq_bytes (map upper_c s) s)) eqn:Ecase; [discriminate|].
  cbn [orb] in H.
  set (b := map lower_c s) in *.
  destruct ((rfind 49 b 0 (-1) <? 1) || (Z.of_nat (length b) <? rfind 49 b 0 (-1) + 7) || (90 <? Z.of_nat (length b))) eqn:Elen; [discriminate|].
  destruct (rfind_spec 49 b 0 (-1) _ eq_refl) as [Hneg|[k [Hk Hnth]]]; [lia|].
  rewrite Hk in *. cbn [Z.add] in *.
  destruct (nth_error_split b k Hnth) as [l1 [l2 [Hb Hl1]]].
  assert (Hskip : skipn (Z.to_nat (Z.of_nat k + 1)) b = l2).
  { replace (Z.to_nat (Z.of_nat k + 1)) with (length (l1 ++ [49])) by (rewrite app_length; cbn [length]; lia).
    rewrite Hb. replace (l1 ++ 49 :: l2) with ((l1 ++ [49]) ++ l2) by (rewrite <- app_assoc; reflexivity).
    rewrite skipn_app, skipn_all, Nat.sub_diag. reflexivity. }
  assert (Hfirst : firstn (Z.to_nat (Z.of_nat k)) b = l1).
  { rewrite Nat2Z.id, <- Hl1, Hb. rewrite firstn_app, firstn_all, Nat.sub_diag. cbn [firstn]. apply app_nil_r. }
  rewrite Hskip, Hfirst in H.
  destruct (forallb (fun x => memb x CHARSET) l2) eqn:Emem; [|discriminate]. cbn [negb] in H.
  destruct (tail_symbols l2 Emem) as [Hds Hchr]. cbv zeta in Hds, Hchr.
  set (ds := map (fun x => match index_of x CHARSET with Some i => i | None => -1 end) l2) in *.
  destruct (bech32_verify_checksum l1 ds) as [sp|] eqn:Ever; [|discriminate].
  injection H as <- <- <-.
  (* every character of b is a lower-cased printable character *)
  assert (Hall : Forall hrp_char_ok b).
  { unfold b. apply Forall_forall. intros c Hc. apply in_map_iff in Hc as [c0 [<- Hc0]]. apply lower_ok.
    destruct ((c0 <? 33) || (126 <? c0)) eqn:Ec; [|lia].
    assert (Hex : existsb (fun x => (x <? 33) || (126 <? x)) s = true) by (apply existsb_exists; exists c0; auto).
    congruence. }
  assert (Hl1ok : hrp_lower l1).
  { rewrite Hb in Hall. apply Forall_app in Hall as [Ha _]. exact Ha. }
  assert (Hlen_b : length b = length s) by (unfold b; apply map_length).
  assert (Hbl : length b = (length l1 + 1 + length l2)%nat) by (rewrite Hb, app_length; cbn [length]; lia).
  assert (Hdl : length ds = length l2) by (unfold ds; apply map_length).
  assert (H6 : (6 <= length ds)%nat) by lia.
  pose proof (drop_last_take_last 6 ds) as Hsplit.
  set (d := drop_last 6 ds) in *. set (c6 := take_last 6 ds) in *.
  assert (Hc6l : length c6 = 6%nat) by (unfold c6, take_last; rewrite skipn_length; lia).
  assert (Hdd : Forall (fun d => 0 <= d < 32) d) by (unfold d, drop_last; apply Forall_firstn; exact Hds).
  assert (Hc6 : Forall (fun d => 0 <= d < 32) c6) by (unfold c6, take_last; apply Forall_skipn; exact Hds).
  rewrite <- Hsplit in Ever.
  assert (Hcu : c6 = bech32_create_checksum l1 d sp).
  { apply checksum_unique; try assumption.
    - eapply Forall_impl; [|exact Hl1ok]. intros c Hc. unfold hrp_char_ok in Hc. change (2 ^ 30) with 1073741824. lia.
    - eapply Forall_impl; [|exact Hdd]. intros c Hc. cbv beta in Hc. change (2 ^ 30) with 1073741824. lia. }
  split; [intros ->; cbn [length] in Hl1; lia|]. split; [exact Hl1ok|]. split; [exact Hdd|]. split; [lia|].
  split.
  - apply andb_false_iff in Ecase as [E|E]; apply negb_false_iff, beq_bytes_spec in E; [left|right]; exact E.
  - unfold bech32_encode. rewrite <- Hcu, Hsplit.
    destruct (symbols_chars ds Hds) as [Hmap _]. rewrite Hmap, Hchr. rewrite Hb. reflexivity.
Qed.

(* decode accepts s for (v, prog) only if lower(s) is the string encode emits for (v, prog), the pair is legal,
   and s is in one case: so wrong prefix, wrong constant, bad padding, mixed case, over-long strings and illegal
   (version, length) pairs are all refused. *)
Theorem decode_sound hrp s v prog :
  decode hrp s = Some (v, prog) ->
  Spec.Bech32.legal v (length prog) = true /\ wf_bytes prog /\ (length s <= 90)%nat /\
  (map lower_c s = s \/ map upper_c s = s) /\
  encode hrp v prog = Ok (Some (map lower_c s)).
Proof.
  unfold decode. intros H.
  destruct (bech32_decode s) as [[[h data] spec]|] eqn:Edec; [|discriminate].
  destruct (negb (beq_bytes h hrp)) eqn:Eh; [discriminate|].
  apply negb_false_iff, beq_bytes_spec in Eh. subst h.
  destruct data as [|d0 rest]; [discriminate|].
  destruct (convertbits rest 5 8 false) as [decoded|] eqn:Ecb; [|discriminate].
  destruct ((Z.of_nat (length decoded) <? 2) || (40 <? Z.of_nat (length decoded))) eqn:E1; [discriminate|].
  destruct (16 <? d0) eqn:E2; [discriminate|].
  destruct ((d0 =? 0) && negb (Z.of_nat (length decoded) =? 20) && negb (Z.of_nat (length decoded) =? 32)) eqn:E3; [discriminate|].
  destruct (((d0 =? 0) && negb (enc_eqb spec BECH32)) || (negb (d0 =? 0) && negb (enc_eqb spec BECH32M))) eqn:E4; [discriminate|].
  injection H as -> ->.
  destruct (bech32_decode_sound s hrp (v :: rest) spec Edec) as [Hne [Hlow [Hdata [Hlen [Hcase Henc]]]]].
  pose proof (Forall_inv Hdata) as Hv0. pose proof (Forall_inv_tail Hdata) as Hrest. cbv beta in Hv0.
  destruct (convertbits_5_8_sound rest prog Hrest Ecb) as [Hwf Hconv].
  assert (Hspec : spec = if v =? 0 then BECH32 else BECH32M).
  { destruct (v =? 0); destruct spec; cbn in E4; try discriminate; reflexivity. }
  split; [|split; [exact Hwf|split; [exact Hlen|split; [exact Hcase|]]]].
  - unfold Spec.Bech32.legal.
    destruct (v =? 0) eqn:E0; cbn [negb orb andb] in *.
    + assert (Hn : length prog = 20%nat \/ length prog = 32%nat) by lia.
      destruct Hn as [-> | ->]; cbn; lia.
    + rewrite andb_true_r.
      assert (Hn : (2 <= length prog <= 40)%nat) by lia.
      destruct (0 <=? v) eqn:A; [|lia]. destruct (v <=? 16) eqn:B; [|lia].
      destruct (2 <=? length prog)%nat eqn:C; [|apply Nat.leb_gt in C; lia].
      destruct (length prog <=? 40)%nat eqn:D; [|apply Nat.leb_gt in D; lia]. reflexivity.
  - unfold encode. rewrite Hconv. rewrite <- Hspec. rewrite Henc. cbn.
    (* encode re-decodes its own output: lower(s) decodes like s *)
    assert (Hagain : decode hrp (map lower_c s) = Some (v, prog)).
    { destruct (bech32_decode_encode hrp (v :: rest) spec Hne Hlow Hdata) as [s2 [Hs2 Hd2]].
      - assert (Hsl : length (map lower_c s) = length s) by apply map_length.
        unfold bech32_encode in Henc.
        destruct (map_res charset_at ((v :: rest) ++ bech32_create_checksum hrp (v :: rest) spec)) as [cs|] eqn:Ecs; [|discriminate].
        cbn in Henc. apply Ok_inj in Henc.
        apply map_res_length in Ecs. rewrite app_length in Ecs.
        destruct (create_checksum_symbols hrp (v :: rest) spec) as [Hc6 _]. rewrite Hc6 in Ecs.
        rewrite <- Henc in Hsl. rewrite !app_length in Hsl. cbn [length] in Hsl. lia.
      - rewrite Henc in Hs2. apply Ok_inj in Hs2. subst s2.
        unfold decode. rewrite Hd2. rewrite beq_bytes_refl. cbn [negb]. rewrite Ecb, E1, E2, E3, E4. reflexivity. }
    rewrite Hagain. reflexivity.
Qed.

(* ---- whatever encode emits (for a non-negative version) is legal and decodes back ---- *)
Lemma charset_at_inv d c : 0 <= d -> charset_at d = Ok c -> d < 32 /\ c = chr d.
Proof.
  intros Hd H. unfold charset_at in H. destruct (0 <=? d) eqn:E; [|lia].
  destruct (nth_error CHARSET (Z.to_nat d)) as [x|] eqn:En; cbn in H; [|discriminate].
  apply Ok_inj in H. subst x.
  assert (Hlt : (Z.to_nat d < length CHARSET)%nat) by (apply nth_error_Some; congruence).
  rewrite charset_len in Hlt. split; [lia|]. unfold chr. symmetry. apply nth_error_nth. exact En.
Qed.

Lemma map_chr_inj a : forall b, Forall (fun d => 0 <= d < 32) a -> Forall (fun d => 0 <= d < 32) b ->
  map chr a = map chr b -> a = b.
Proof.
  induction a as [|x r IH]; intros [|y t] Ha Hb H; cbn [map] in H; try discriminate; [reflexivity|].
  injection H as Hxy Hrt.
  pose proof (index_chr x (Forall_inv Ha)) as Hx. pose proof (index_chr y (Forall_inv Hb)) as Hy.
  rewrite Hxy in Hx. rewrite Hx in Hy. injection Hy as ->.
  f_equal. apply IH; [exact (Forall_inv_tail Ha)|exact (Forall_inv_tail Hb)|exact Hrt].
Qed.

Lemma decode_inv hrp s v prog : decode hrp s = Some (v, prog) ->
  exists rest spec, bech32_decode s = Some (hrp, v :: rest, spec) /\ convertbits rest 5 8 false = Some prog.
Proof.
  unfold decode. intros H.
  destruct (bech32_decode s) as [[[h data] spec]|] eqn:Edec; [|discriminate].
  destruct (negb (beq_bytes h hrp)) eqn:Eh; [discriminate|].
  apply negb_false_iff, beq_bytes_spec in Eh. subst h.
  destruct data as [|d0 rest]; [discriminate|].
  destruct (convertbits rest 5 8 false) as [decoded|] eqn:Ecb; [|discriminate].
  destruct ((Z.of_nat (length decoded) <? 2) || (40 <? Z.of_nat (length decoded))); [discriminate|].
  destruct (16 <? d0); [discriminate|].
  destruct ((d0 =? 0) && negb (Z.of_nat (length decoded) =? 20) && negb (Z.of_nat (length decoded) =? 32)); [discriminate|].
  destruct (((d0 =? 0) && negb (enc_eqb spec BECH32)) || (negb (d0 =? 0) && negb (enc_eqb spec BECH32M))); [discriminate|].
  injection H as -> ->. exists rest, spec. auto.
Qed.

Theorem encode_some hrp v prog s :
  0 <= v -> wf_bytes prog -> encode hrp v prog = Ok (Some s) ->
  Spec.Bech32.legal v (length prog) = true /\ decode hrp s = Some (v, prog).
Proof.
  intros Hv Hw H. unfold encode in H.
  destruct (convertbits_roundtrip prog Hw) as [conv [Hc [Hr [Hcl Hback]]]]. rewrite Hc in H.
  set (spec := if v =? 0 then BECH32 else BECH32M) in *.
  destruct (bech32_encode hrp (v :: conv) spec) as [ret|] eqn:Eenc; cbn in H; [|discriminate].
  destruct (decode hrp ret) as [[v' prog']|] eqn:Edec; [|discriminate].
  apply Ok_inj in H. injection H as <-.
  destruct (decode_sound hrp ret v' prog' Edec) as [Hleg [Hwf' _]].
  destruct (decode_inv hrp ret v' prog' Edec) as [rest [spec' [Hbd Hcb]]].
  destruct (bech32_decode_sound ret hrp (v' :: rest) spec' Hbd) as [Hne [Hlow [Hdata [_ [_ Henc']]]]].
  (* the emitted string, symbol by symbol *)
  unfold bech32_encode in Eenc.
  destruct (map_res charset_at ((v :: conv) ++ bech32_create_checksum hrp (v :: conv) spec)) as [cs|] eqn:Ecs; [|discriminate].
  cbn [bind] in Eenc. apply Ok_inj in Eenc.
  assert (Hv32 : v < 32).
  { cbn [app map_res] in Ecs. destruct (charset_at v) as [c|] eqn:Ecv; [|discriminate].
    apply (charset_at_inv v c Hv Ecv). }
  destruct (create_checksum_symbols hrp (v :: conv) spec) as [Hk1 Hk2].
  destruct (create_checksum_symbols hrp (v' :: rest) spec') as [Hk1' Hk2'].
  assert (HA : Forall (fun d => 0 <= d < 32) ((v :: conv) ++ bech32_create_checksum hrp (v :: conv) spec)).
  { apply Forall_app. split; [constructor; [lia|exact Hr]|exact Hk2]. }
  assert (HB : Forall (fun d => 0 <= d < 32) ((v' :: rest) ++ bech32_create_checksum hrp (v' :: rest) spec')).
  { apply Forall_app. split; [exact Hdata|exact Hk2']. }
  destruct (symbols_chars _ HA) as [HmA [HokA _]]. destruct (symbols_chars _ HB) as [HmB _].
  rewrite HmA in Ecs. apply Ok_inj in Ecs. subst cs.
  unfold bech32_encode in Henc'. rewrite HmB in Henc'. cbn [bind] in Henc'. apply Ok_inj in Henc'.
  assert (Hlowret : map lower_c ret = ret).
  { apply lower_id. rewrite <- Eenc. apply Forall_app. split; [exact Hlow|].
    apply Forall_app. split; [constructor; [unfold hrp_char_ok; lia|constructor]|exact HokA]. }
  rewrite Hlowret, <- Eenc in Henc'.
  apply app_inv_head in Henc'. cbn [app] in Henc'. apply (f_equal (@tl Z)) in Henc'. cbn [tl] in Henc'.
  pose proof (map_chr_inj _ _ HB HA Henc') as Hmaps.
  cbn [app] in Hmaps. injection Hmaps as -> Htl.
  apply app_inv_len in Htl.
  - destruct Htl as [-> _]. rewrite Hback in Hcb. injection Hcb as <-. split; [exact Hleg|exact Edec].
  - assert (Hll : length (rest ++ bech32_create_checksum hrp (v :: rest) spec') =
                  length (conv ++ bech32_create_checksum hrp (v :: conv) spec)) by (rewrite Htl; reflexivity).
    rewrite !app_length, Hk1, Hk1' in Hll. lia.
Qed.

Corollary encode_illegal_none hrp v prog :
  0 <= v -> wf_bytes prog -> Spec.Bech32.legal v (length prog) = false ->
  forall s, encode hrp v prog <> Ok (Some s).
Proof.
  intros Hv Hw Hleg s H. destruct (encode_some hrp v prog s Hv Hw H) as [Hl _]. congruence.
Qed.

(* ---- the individual refusals, as corollaries ---- *)
Corollary decode_rejects_mixed_case hrp s :
  map lower_c s <> s -> map upper_c s <> s -> decode hrp s = None.
Proof.
  intros Hl Hu. destruct (decode hrp s) as [[v prog]|] eqn:E; [|reflexivity].
  destruct (decode_sound hrp s v prog E) as [_ [_ [_ [[H|H] _]]]]; contradiction.
Qed.

Corollary decode_rejects_long hrp s : (90 < length s)%nat -> decode hrp s = None.
Proof.
  intros Hl. destruct (decode hrp s) as [[v prog]|] eqn:E; [|reflexivity].
  destruct (decode_sound hrp s v prog E) as [_ [_ [H _]]]. lia.
Qed.

Corollary decode_rejects_other_prefix hrp s h data spec :
  bech32_decode s = Some (h, data, spec) -> h <> hrp -> decode hrp s = None.
Proof.
  intros Hd Hne. unfold decode. rewrite Hd.
  destruct (beq_bytes h hrp) eqn:E; [apply beq_bytes_spec in E; contradiction|reflexivity].
Qed.

Corollary decode_rejects_wrong_constant hrp s v rest spec :
  bech32_decode s = Some (hrp, v :: rest, spec) ->
  spec <> (if v =? 0 then BECH32 else BECH32M) -> decode hrp s = None.
Proof.
  intros Hd Hne. destruct (decode hrp s) as [[v' prog]|] eqn:E; [|reflexivity]. exfalso.
  destruct (decode_inv hrp s v' prog E) as [rest' [spec' [Hbd Hcb]]].
  rewrite Hd in Hbd. injection Hbd as <- <- <-.
  unfold decode in E. rewrite Hd, beq_bytes_refl in E. cbn [negb] in E. rewrite Hcb in E.
  destruct ((Z.of_nat (length prog) <? 2) || (40 <? Z.of_nat (length prog))); [discriminate|].
  destruct (16 <? v); [discriminate|].
  destruct ((v =? 0) && negb (Z.of_nat (length prog) =? 20) && negb (Z.of_nat (length prog) =? 32)); [discriminate|].
  destruct (v =? 0); destruct spec; cbn in E; try discriminate; apply Hne; reflexivity.
Qed.

(* padding: the data part of an accepted address is the canonical 8->5 regrouping of the program, so a data part
   with non-zero padding bits, or with a whole superfluous symbol, is refused *)
Corollary decode_padding_canonical hrp s v prog :
  decode hrp s = Some (v, prog) ->
  exists conv spec, convertbits prog 8 5 true = Some conv /\ bech32_decode s = Some (hrp, v :: conv, spec).
Proof.
  intros E. destruct (decode_inv hrp s v prog E) as [rest [spec [Hbd Hcb]]].
  destruct (bech32_decode_sound s hrp (v :: rest) spec Hbd) as [_ [_ [Hdata _]]].
  destruct (convertbits_5_8_sound rest prog (Forall_inv_tail Hdata) Hcb) as [_ Hconv].
  exists rest, spec. auto.
Qed.
