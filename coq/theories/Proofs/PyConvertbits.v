(* Source semantics of bech32.convertbits (regenerated term) = Model.Bech32M.convertbits, for every input list,
   at the two width pairs the library uses: 8 -> 5 with padding (encode) and 5 -> 8 without (decode).
   The inner `while bits >= tobits` needs at most two iterations at these widths; three units of fuel suffice. *)
From BHW Require Import Lib.Base Lib.ListAux Model.Helper Model.Bech32M Py.Interp Py.Tactics Proofs.PyBech32.
From BHWGen Require Import Consts PyAst.
Open Scope string_scope.
Open Scope Z_scope.

Definition cb_env (data : option val) (fb tb : Z) (pad : option val) (acc bits : Z) (ret : list Z) (maxv max_acc : Z) (value : option val) : env :=
  [("data", data); ("frombits", Some (VInt fb)); ("tobits", Some (VInt tb)); ("pad", pad);
   ("acc", Some (VInt acc)); ("bits", Some (VInt bits)); ("ret", Some (VList (map VInt ret)));
   ("maxv", Some (VInt maxv)); ("max_acc", Some (VInt max_acc)); ("value", value)].

Lemma map_snoc (r : list Z) x : (map VInt r ++ [VInt x] = map VInt (r ++ [x]))%list.
Proof. rewrite map_app. reflexivity. Qed.
Ltac refold_ret := rewrite ?map_snoc.

Lemma convertbits_8_5_sem_gen ext f dv data :
  iter_items dv = Val (map VInt data) ->
  sem_bech32__convertbits ext (S (S (S f))) [dv; VInt 8; VInt 5; VBool true]
  = Val (vopt vints (convertbits data 8 5 true)).
Proof.
  intros Hdv.
  unfold sem_bech32__convertbits, call, ast_bech32__convertbits.
  pystep. rewrite Hdv. pystep. change (Z.shiftl 1 5 - 1) with 31. change (Z.shiftl 1 12 - 1) with 4095.
  match goal with |- context [for_loop ?b _ _] => set (body := b) end.
  assert (H : forall l acc bits ret d p vv, 0 <= bits < 5 ->
     exists vv',
     for_loop body (map VInt l) (cb_env d 8 5 p acc bits ret 31 4095 vv)
     = match cb_loop l acc bits 8 5 31 4095 ret with
       | None => SRet VNone
       | Some (acc', bits', ret') => SNormal (cb_env d 8 5 p acc' bits' ret' 31 4095 vv')
       end /\ (match cb_loop l acc bits 8 5 31 4095 ret with None => True | Some (_, bits', _) => 0 <= bits' < 5 end)).
  { induction l as [|x r IH]; intros acc bits ret d p vv Hb.
    - exists vv. split; [reflexivity|exact Hb].
    - cbn [map for_loop cb_loop]. unfold body at 1. unfold cb_env at 1.
      assert (C : bits = 0 \/ bits = 1 \/ bits = 2 \/ bits = 3 \/ bits = 4) by lia.
      pystep.
      destruct (x <? 0) eqn:X1; pystep; [exists vv; split; [reflexivity|exact I]|].
      destruct (Z.shiftr x 8 =? 0) eqn:X2; pystep; [|exists vv; split; [reflexivity|exact I]].
      destruct C as [-> | [-> | [-> | [-> | ->]]]]; pystep; refold_ret.
      all: match goal with |- context [for_loop _ (map VInt _) ?e] =>
             match e with context [("acc", Some (VInt ?a))] =>
             match e with context [("bits", Some (VInt ?b))] =>
             match e with context [("ret", Some (VList (map VInt ?rt)))] =>
               destruct (IH a b rt d p (Some (VInt x)) ltac:(lia)) as (vv' & E & Hr)
             end end end end.
      all: unfold cb_env in E at 1; rewrite E; exists vv'; split; [reflexivity|exact Hr]. }
  destruct (H data 0 0 [] (Some dv) (Some (VBool true)) None ltac:(lia)) as (vv' & E & Hr).
  clearbody body. unfold cb_env in E at 1. cbn [map] in E. unfold vints in *. rewrite E. clear E H.
  unfold convertbits. change (Z.shiftl 1 5 - 1) with 31. change (Z.shiftl 1 (8 + 5 - 1) - 1) with 4095.
  destruct (cb_loop data 0 0 8 5 31 4095 []) as [[[acc' bits'] ret']|]; [|reflexivity].
  unfold cb_env. pystep.
  assert (C : bits' = 0 \/ bits' = 1 \/ bits' = 2 \/ bits' = 3 \/ bits' = 4) by lia.
  destruct C as [-> | [-> | [-> | [-> | ->]]]]; pystep; rewrite ?map_snoc; reflexivity.
Qed.

Lemma convertbits_5_8_sem ext f data :
  sem_bech32__convertbits ext (S (S (S f))) [vints data; VInt 5; VInt 8; VBool false]
  = Val (vopt vints (convertbits data 5 8 false)).
Proof.
  unfold sem_bech32__convertbits, call, ast_bech32__convertbits.
  pystep. change (Z.shiftl 1 8 - 1) with 255. change (Z.shiftl 1 12 - 1) with 4095.
  match goal with |- context [for_loop ?b _ _] => set (body := b) end.
  assert (H : forall l acc bits ret d p vv, 0 <= bits < 8 ->
     exists vv',
     for_loop body (map VInt l) (cb_env d 5 8 p acc bits ret 255 4095 vv)
     = match cb_loop l acc bits 5 8 255 4095 ret with
       | None => SRet VNone
       | Some (acc', bits', ret') => SNormal (cb_env d 5 8 p acc' bits' ret' 255 4095 vv')
       end /\ (match cb_loop l acc bits 5 8 255 4095 ret with None => True | Some (_, bits', _) => 0 <= bits' < 8 end)).
  { induction l as [|x r IH]; intros acc bits ret d p vv Hb.
    - exists vv. split; [reflexivity|exact Hb].
    - cbn [map for_loop cb_loop]. unfold body at 1. unfold cb_env at 1.
      assert (C : bits = 0 \/ bits = 1 \/ bits = 2 \/ bits = 3 \/ bits = 4 \/ bits = 5 \/ bits = 6 \/ bits = 7) by lia.
      pystep.
      destruct (x <? 0) eqn:X1; pystep; [exists vv; split; [reflexivity|exact I]|].
      destruct (Z.shiftr x 5 =? 0) eqn:X2; pystep; [|exists vv; split; [reflexivity|exact I]].
      destruct C as [-> | [-> | [-> | [-> | [-> | [-> | [-> | ->]]]]]]]; pystep; refold_ret.
      all: match goal with |- context [for_loop _ (map VInt _) ?e] =>
             match e with context [("acc", Some (VInt ?a))] =>
             match e with context [("bits", Some (VInt ?b))] =>
             match e with context [("ret", Some (VList (map VInt ?rt)))] =>
               destruct (IH a b rt d p (Some (VInt x)) ltac:(lia)) as (vv' & E & Hr)
             end end end end.
      all: unfold cb_env in E at 1; rewrite E; exists vv'; split; [reflexivity|exact Hr]. }
  destruct (H data 0 0 [] (Some (vints data)) (Some (VBool false)) None ltac:(lia)) as (vv' & E & Hr).
  clearbody body. unfold cb_env in E at 1. cbn [map] in E. unfold vints in *. rewrite E. clear E H.
  unfold convertbits. change (Z.shiftl 1 8 - 1) with 255. change (Z.shiftl 1 (5 + 8 - 1) - 1) with 4095.
  destruct (cb_loop data 0 0 5 8 255 4095 []) as [[[acc' bits'] ret']|]; [|reflexivity].
  unfold cb_env. pystep.
  assert (C : bits' = 0 \/ bits' = 1 \/ bits' = 2 \/ bits' = 3 \/ bits' = 4 \/ bits' = 5 \/ bits' = 6 \/ bits' = 7) by lia.
  destruct C as [-> | [-> | [-> | [-> | [-> | [-> | [-> | ->]]]]]]]; pystep; try reflexivity.
  all: match goal with |- context [Z.land ?a 255 =? 0] => destruct (Z.land a 255 =? 0) eqn:Z0 end; pystep; reflexivity.
Qed.

#[global] Arguments sem_bech32__convertbits : simpl never.
#[global] Arguments convertbits : simpl never.

Lemma convertbits_8_5_sem ext f data :
  sem_bech32__convertbits ext (S (S (S f))) [vints data; VInt 8; VInt 5; VBool true] = Val (vopt vints (convertbits data 8 5 true)).
Proof. apply convertbits_8_5_sem_gen. reflexivity. Qed.
Lemma convertbits_8_5_sem_bytes ext f data :
  sem_bech32__convertbits ext (S (S (S f))) [VBytes data; VInt 8; VInt 5; VBool true] = Val (vopt vints (convertbits data 8 5 true)).
Proof. apply convertbits_8_5_sem_gen. reflexivity. Qed.

Definition vaddr (o : option (Z * list Z)) : val :=
  match o with None => VTuple [VNone; VNone] | Some (v, prog) => VTuple [VInt v; vints prog] end.

Lemma skipn1_map {A B} (f : A -> B) l : skipn 1 (map f l) = map f (skipn 1 l).
Proof. destruct l; reflexivity. Qed.

Lemma index_cons0 {A} (x : A) l : index (x :: l) 0 = Val x.
Proof.
  unfold index. replace (0 <? 0) with false by reflexivity.
  replace ((0 <? 0) || (Z.of_nat (Datatypes.length (x :: l)) <=? 0)) with false; [reflexivity|].
  cbn [Datatypes.length]. rewrite Nat2Z.inj_succ. symmetry. apply orb_false_intro; lia.
Qed.

Lemma decode_sem ext f hrp addr :
  sem_bech32__decode ext (S (S (S f))) [vstr hrp; vstr addr] = Val (vaddr (decode hrp addr)).
Proof.
  unfold sem_bech32__decode, call, ast_bech32__decode.
  pystep. rewrite bech32_decode_sem. unfold decode.
  destruct (bech32_decode addr) as [[[hrpgot data] spec]|]; pystep; [|reflexivity].
  unfold vstr. pystep.
  destruct (beq_bytes hrpgot hrp); pystep; [|reflexivity].
  rewrite slice_from by lia. change (Z.to_nat 1) with 1%nat. rewrite skipn1_map.
  change (VList (map VInt (skipn 1 data))) with (vints (skipn 1 data)).
  rewrite convertbits_5_8_sem.
  destruct data as [|d0 rest].
  { change (convertbits (skipn 1 []) 5 8 false) with (Some (@nil Z)). pystep. reflexivity. }
  change (skipn 1 (d0 :: rest)) with rest.
  destruct (convertbits rest 5 8 false) as [decoded|]; pystep; [|reflexivity].
  rewrite map_length. set (n := Z.of_nat (Datatypes.length decoded)).
  destruct (n <? 2) eqn:N1; pystep; [reflexivity|].
  destruct (40 <? n) eqn:N2; pystep; [reflexivity|].
  destruct (16 <? d0) eqn:D1; pystep; [reflexivity|].
  unfold vints. cbn [map]. pystep. rewrite ?index_cons0. pystep. rewrite ?map_length. fold n.
  destruct (d0 =? 0) eqn:D0; pystep.
  - destruct (n =? 20) eqn:N20; pystep.
    + destruct spec; pystep; rewrite ?D0; pystep; rewrite ?index_cons0; reflexivity.
    + destruct (n =? 32) eqn:N32; pystep; [|reflexivity].
      destruct spec; pystep; rewrite ?D0; pystep; rewrite ?index_cons0; reflexivity.
  - destruct spec; pystep; rewrite ?D0; pystep; rewrite ?index_cons0; reflexivity.
Qed.
#[global] Arguments sem_bech32__decode : simpl never.

Lemma encode_sem_gen ext f hrp witver dv data :
  iter_items dv = Val (map VInt data) ->
  agrees (sem_bech32__encode ext (S (S (S f))) [vstr hrp; VInt witver; dv])
         (rmap (vopt vstr) (encode hrp witver data)).
Proof.
  intros Hdv.
  unfold sem_bech32__encode, call, ast_bech32__encode, encode.
  pystep. rewrite (convertbits_8_5_sem_gen _ _ _ _ Hdv).
  destruct (convertbits data 8 5 true) as [d|]; pystep.
  2:{ eexists. split; [reflexivity|]. split; discriminate. }
  change (VList (VInt witver :: map VInt d)) with (vints (witver :: d)).
  destruct (witver =? 0) eqn:W0; pystep.
  - change (VEnum "Encoding.BECH32") with (venc BECH32). rewrite bech32_encode_sem.
    destruct (bech32_encode hrp (witver :: d) BECH32) as [ret|]; pystep.
    2:{ eexists. split; [reflexivity|]. split; discriminate. }
    change (VStr hrp) with (vstr hrp). rewrite decode_sem.
    destruct (decode hrp ret) as [[v prog]|]; pystep; reflexivity.
  - change (VEnum "Encoding.BECH32M") with (venc BECH32M). rewrite bech32_encode_sem.
    destruct (bech32_encode hrp (witver :: d) BECH32M) as [ret|]; pystep.
    2:{ eexists. split; [reflexivity|]. split; discriminate. }
    change (VStr hrp) with (vstr hrp). rewrite decode_sem.
    destruct (decode hrp ret) as [[v prog]|]; pystep; reflexivity.
Qed.
#[global] Arguments sem_bech32__encode : simpl never.
