(* Bech32 / Bech32m: the created checksum always verifies (systematic encoding), for every
   human-readable part and every data part.  Bitwise facts are reduced to arithmetic where possible. *)
From BHW Require Import Lib.Base Lib.ListAux Model.Helper Model.Bech32M Spec.Bech32.
From BHWGen Require Import Consts.

Lemma constants_are_bip :
  CHARSET = Spec.Bech32.charset /\ generator = Spec.Bech32.gen /\ BECH32M_CONST = Spec.Bech32.bech32m_const.
Proof. repeat split; vm_compute; reflexivity. Qed.

Local Notation M := 33554431.

(* ---- small bitwise toolkit ---- *)
Lemma lxor_bound a b k : 0 <= k -> 0 <= a < 2 ^ k -> 0 <= b < 2 ^ k -> 0 <= Z.lxor a b < 2 ^ k.
Proof.
  intros Hk Ha Hb. split; [apply Z.lxor_nonneg; lia|].
  destruct (Z.eq_dec (Z.lxor a b) 0) as [E|E]; [rewrite E; apply Z.pow_pos_nonneg; lia|].
  assert (Hnn : 0 <= Z.lxor a b) by (apply Z.lxor_nonneg; lia).
  assert (Hp : 0 < Z.lxor a b) by lia.
  assert (Hk0 : 0 < k).
  { destruct (Z.eq_dec k 0) as [->|]; [|lia]. change (2 ^ 0) with 1 in *.
    assert (a = 0) by lia. assert (b = 0) by lia. subst. cbn in E. congruence. }
  apply Z.log2_lt_pow2; [exact Hp|].
  pose proof (Z.log2_lxor a b ltac:(lia) ltac:(lia)) as Hl.
  assert (Z.log2 a < k) by (destruct (Z.eq_dec a 0) as [->|]; [simpl; lia|apply Z.log2_lt_pow2; lia]).
  assert (Z.log2 b < k) by (destruct (Z.eq_dec b 0) as [->|]; [simpl; lia|apply Z.log2_lt_pow2; lia]).
  lia.
Qed.

Lemma shiftr_small d k : 0 <= k -> 0 <= d < 2 ^ k -> Z.shiftr d k = 0.
Proof. intros Hk Hd. rewrite Z.shiftr_div_pow2 by lia. apply Z.div_small. lia. Qed.

Lemma land_ones_small d k : 0 <= k -> 0 <= d < 2 ^ k -> Z.land d (2 ^ k - 1) = d.
Proof.
  intros Hk Hd. replace (2 ^ k - 1) with (Z.ones k) by (rewrite Z.ones_equiv; lia).
  rewrite Z.land_ones by lia. apply Z.mod_small. lia.
Qed.

Lemma land_lxor_distr a b c : Z.land (Z.lxor a b) c = Z.lxor (Z.land a c) (Z.land b c).
Proof.
  apply Z.bits_inj'. intros n Hn. rewrite Z.land_spec, !Z.lxor_spec, !Z.land_spec.
  destruct (Z.testbit a n), (Z.testbit b n), (Z.testbit c n); reflexivity.
Qed.

(* (a << 5) xor c = 32 a + c when c occupies only the five low bits *)
Lemma land_shifted_low a c : 0 <= c < 32 -> Z.land (Z.shiftl a 5) c = 0.
Proof.
  intros Hc. apply Z.bits_inj'. intros n Hn. rewrite Z.land_spec, Z.bits_0.
  destruct (Z_lt_ge_dec n 5) as [Hlt|Hge].
  - rewrite Z.shiftl_spec_low by lia. reflexivity.
  - assert (Z.testbit c n = false).
    { destruct (Z.eq_dec c 0) as [->|Hz]; [apply Z.bits_0|].
      apply Z.bits_above_log2; [lia|]. assert (Z.log2 c < 5) by (apply Z.log2_lt_pow2; lia). lia. }
    rewrite H. apply andb_false_r.
Qed.

Lemma xor_low a c : 0 <= c < 32 -> Z.lxor (Z.shiftl a 5) c = 32 * a + c.
Proof.
  intros Hc. rewrite <- Z.add_nocarry_lxor by (apply land_shifted_low; exact Hc).
  rewrite Z.shiftl_mul_pow2 by lia. change (2 ^ 5) with 32. lia.
Qed.

(* ---- the generator part depends on `top` only ---- *)
Lemma gen_xor_acc gs : forall i top chk, gen_xor gs i top chk = Z.lxor chk (gen_xor gs i top 0).
Proof.
  induction gs as [|g r IH]; intros i top chk; cbn [gen_xor]; [rewrite Z.lxor_0_r; reflexivity|].
  rewrite IH. rewrite (IH (i + 1) top (Z.lxor 0 _)). rewrite Z.lxor_0_l, Z.lxor_assoc. reflexivity.
Qed.

Definition G (top : Z) : Z := gen_xor generator 0 top 0.

Lemma step_eq chk v :
  polymod_step chk v = Z.lxor (Z.lxor (Z.shiftl (Z.land chk M) 5) v) (G (Z.shiftr chk 25)).
Proof. unfold polymod_step. rewrite gen_xor_acc. reflexivity. Qed.

Lemma gen_xor_bound gs : forall i top, Forall (fun g => 0 <= g < 2 ^ 30) gs -> 0 <= gen_xor gs i top 0 < 2 ^ 30.
Proof.
  induction gs as [|g r IH]; intros i top H; cbn [gen_xor]; [lia|].
  rewrite gen_xor_acc. apply lxor_bound; [lia| |apply IH; exact (Forall_inv_tail H)].
  rewrite Z.lxor_0_l. pose proof (Forall_inv H) as Hg. cbv beta in Hg. destruct (Z.testbit top i); lia.
Qed.

Lemma G_bound top : 0 <= G top < 2 ^ 30.
Proof.
  apply gen_xor_bound. change generator with [996825010; 642813549; 513874426; 1027748829; 705979059].
  repeat (apply Forall_cons; [lia|]). apply Forall_nil.
Qed.

Lemma step_bound chk v : 0 <= chk -> 0 <= v < 2 ^ 30 -> 0 <= polymod_step chk v < 2 ^ 30.
Proof.
  intros Hc Hv. rewrite step_eq. apply lxor_bound; [lia| |apply G_bound].
  apply lxor_bound; [lia| |exact Hv].
  assert (Hl : 0 <= Z.land chk M < 2 ^ 25).
  { replace M with (Z.ones 25) by reflexivity. rewrite Z.land_ones by lia. apply Z.mod_pos_bound. lia. }
  rewrite Z.shiftl_mul_pow2 by lia. change (2 ^ 30) with (2 ^ 25 * 2 ^ 5). nia.
Qed.

Lemma fold_bound vs : forall s, 0 <= s < 2 ^ 30 -> Forall (fun v => 0 <= v < 2 ^ 30) vs ->
  0 <= fold_left polymod_step vs s < 2 ^ 30.
Proof.
  induction vs as [|v r IH]; intros s Hs Hv; [exact Hs|].
  cbn [fold_left]. apply IH; [|exact (Forall_inv_tail Hv)].
  apply step_bound; [lia|exact (Forall_inv Hv)].
Qed.

(* xor-ing a low part into the state commutes with a step *)
Lemma step_xor_low s d v : 0 <= s -> 0 <= d < 2 ^ 25 ->
  polymod_step (Z.lxor s d) v = Z.lxor (polymod_step s v) (Z.shiftl d 5).
Proof.
  intros Hs Hd. rewrite !step_eq.
  rewrite Z.shiftr_lxor, (shiftr_small d 25) by lia. rewrite Z.lxor_0_r.
  rewrite land_lxor_distr. replace M with (2 ^ 25 - 1) by reflexivity.
  rewrite (land_ones_small d 25) by lia. rewrite Z.shiftl_lxor.
  set (A := Z.shiftl (Z.land s (2 ^ 25 - 1)) 5). set (D := Z.shiftl d 5). set (g := G (Z.shiftr s 25)).
  rewrite !Z.lxor_assoc. f_equal. rewrite (Z.lxor_comm D), !Z.lxor_assoc. reflexivity.
Qed.

Lemma step_xor_v s v w : polymod_step s (Z.lxor v w) = Z.lxor (polymod_step s v) w.
Proof.
  rewrite !step_eq. set (A := Z.shiftl _ 5). set (g := G _).
  rewrite !Z.lxor_assoc. f_equal. f_equal. apply Z.lxor_comm.
Qed.

Definition pack (cs : list Z) : Z := fold_left (fun acc c => Z.lxor (Z.shiftl acc 5) c) cs 0.

Lemma pack_snoc cs c : pack (cs ++ [c]) = Z.lxor (Z.shiftl (pack cs) 5) c.
Proof. unfold pack. rewrite fold_left_app. reflexivity. Qed.

Lemma pack_bound cs : Forall (fun c => 0 <= c < 32) cs -> 0 <= pack cs < 32 ^ Z.of_nat (length cs).
Proof.
  induction cs as [|c r IH] using rev_ind; intros H; [cbn; lia|].
  apply Forall_app in H as [Hr Hc]. pose proof (Forall_inv Hc) as Hc'. cbv beta in Hc'.
  rewrite pack_snoc, xor_low by exact Hc'. rewrite app_length. cbn [length].
  replace (Z.of_nat (length r + 1)) with (Z.succ (Z.of_nat (length r))) by lia.
  rewrite Z.pow_succ_r by lia. specialize (IH Hr). lia.
Qed.

(* appending up to six symbols to the message: state = state-for-zeros xor pack(symbols) *)
Lemma fold_symbols cs : forall s, 0 <= s < 2 ^ 30 -> (length cs <= 6)%nat -> Forall (fun c => 0 <= c < 32) cs ->
  fold_left polymod_step cs s = Z.lxor (fold_left polymod_step (repeat 0 (length cs)) s) (pack cs).
Proof.
  induction cs as [|c r IH] using rev_ind; intros s Hs Hl Hc.
  - cbn. rewrite Z.lxor_0_r. reflexivity.
  - apply Forall_app in Hc as [Hr Hc]. pose proof (Forall_inv Hc) as Hc'. cbv beta in Hc'.
    rewrite app_length in *. cbn [length] in *.
    rewrite fold_left_app. cbn [fold_left]. rewrite IH by (try assumption; lia).
    replace (length r + 1)%nat with (S (length r)) by lia.
    replace (repeat 0 (S (length r))) with (repeat 0 (length r) ++ [0]) by (rewrite repeat_app_one; reflexivity).
    rewrite fold_left_app. cbn [fold_left].
    set (Z0 := fold_left polymod_step (repeat 0 (length r)) s).
    assert (HZ0 : 0 <= Z0 < 2 ^ 30).
    { unfold Z0. apply fold_bound; [exact Hs|]. apply Forall_forall. intros x Hx. apply repeat_spec in Hx. subst x. lia. }
    pose proof (pack_bound r Hr) as Hp.
    assert (Hp25 : 0 <= pack r < 2 ^ 25).
    { assert (32 ^ Z.of_nat (length r) <= 32 ^ 5) by (apply Z.pow_le_mono_r; lia). change (32 ^ 5) with (2 ^ 25) in H. lia. }
    rewrite step_xor_low by lia.
    replace c with (Z.lxor 0 c) at 1 by apply Z.lxor_0_l. rewrite step_xor_v.
    rewrite pack_snoc. rewrite !Z.lxor_assoc. f_equal. apply Z.lxor_comm.
Qed.

(* the six 5-bit slices of a 30-bit number pack back to it *)
Lemma pack_slices pm : 0 <= pm < 2 ^ 30 ->
  pack (map (fun i => Z.land (Z.shiftr pm (5 * (5 - i))) 31) [0; 1; 2; 3; 4; 5]) = pm.
Proof.
  intros Hp. cbn [map]. change (5 * (5 - 0)) with 25. change (5 * (5 - 1)) with 20. change (5 * (5 - 2)) with 15.
  change (5 * (5 - 3)) with 10. change (5 * (5 - 4)) with 5. change (5 * (5 - 5)) with 0.
  assert (Hs : forall k, 0 <= k -> Z.land (Z.shiftr pm k) 31 = (pm / 2 ^ k) mod 32).
  { intros k Hk. replace 31 with (Z.ones 5) by reflexivity. rewrite Z.land_ones by lia.
    rewrite Z.shiftr_div_pow2 by lia. reflexivity. }
  rewrite !Hs by lia. unfold pack. cbn [fold_left].
  assert (Hm : forall x, 0 <= x mod 32 < 32) by (intros; apply Z.mod_pos_bound; lia).
  change (Z.shiftl 0 5) with 0. rewrite Z.lxor_0_l.
  rewrite !xor_low by apply Hm.
  change (2 ^ 25) with 33554432. change (2 ^ 20) with 1048576. change (2 ^ 15) with 32768.
  change (2 ^ 10) with 1024. change (2 ^ 5) with 32. change (2 ^ 0) with 1. change (2 ^ 30) with 1073741824 in Hp.
  lia.
Qed.

Definition hrp_ok (hrp : str) : Prop := Forall (fun x => 0 <= x < 2 ^ 30) hrp.
Definition data_ok (d : list Z) : Prop := Forall (fun x => 0 <= x < 2 ^ 30) d.

Lemma expand_ok hrp : hrp_ok hrp -> Forall (fun v => 0 <= v < 2 ^ 30) (bech32_hrp_expand hrp).
Proof.
  intros H. unfold bech32_hrp_expand. apply Forall_app. split; [|apply Forall_app; split].
  - apply Forall_forall. intros v Hv. apply in_map_iff in Hv as [x [<- Hx]].
    unfold hrp_ok in H. rewrite Forall_forall in H. specialize (H x Hx).
    rewrite Z.shiftr_div_pow2 by lia. split; [apply Z.div_pos; lia|].
    apply Z.div_lt_upper_bound; lia.
  - constructor; [lia|constructor].
  - apply Forall_forall. intros v Hv. apply in_map_iff in Hv as [x [<- Hx]].
    replace 31 with (Z.ones 5) by reflexivity. rewrite Z.land_ones by lia.
    pose proof (Z.mod_pos_bound x (2 ^ 5) ltac:(lia)). change (2 ^ 5) with 32 in *. lia.
Qed.

Theorem polymod_bound vs : Forall (fun v => 0 <= v < 2 ^ 30) vs -> 0 <= bech32_polymod vs < 2 ^ 30.
Proof. intros H. unfold bech32_polymod. apply fold_bound; [lia|exact H]. Qed.

Theorem create_checksum_symbols hrp data spec :
  length (bech32_create_checksum hrp data spec) = 6%nat /\
  Forall (fun c => 0 <= c < 32) (bech32_create_checksum hrp data spec).
Proof.
  unfold bech32_create_checksum. split; [reflexivity|].
  apply Forall_forall. intros c Hc. apply in_map_iff in Hc as [i [<- _]].
  replace 31 with (Z.ones 5) by reflexivity. rewrite Z.land_ones by lia.
  pose proof (Z.mod_pos_bound (Z.shiftr (Z.lxor (bech32_polymod ((bech32_hrp_expand hrp ++ data) ++ [0; 0; 0; 0; 0; 0]))
     match spec with BECH32 => 1 | BECH32M => BECH32M_CONST end) (5 * (5 - i))) (2 ^ 5) ltac:(lia)).
  change (2 ^ 5) with 32 in *. lia.
Qed.

Theorem checksum_valid hrp data spec :
  hrp_ok hrp -> data_ok data ->
  bech32_verify_checksum hrp (data ++ bech32_create_checksum hrp data spec) = Some spec.
Proof.
  intros Hh Hd.
  set (const := match spec with BECH32M => BECH32M_CONST | BECH32 => 1 end).
  assert (Hconst : 0 <= const < 2 ^ 30) by (unfold const; destruct spec; [lia|unfold BECH32M_CONST; lia]).
  set (values := bech32_hrp_expand hrp ++ data).
  assert (Hvals : Forall (fun v => 0 <= v < 2 ^ 30) values).
  { unfold values. apply Forall_app. split; [apply expand_ok; exact Hh|exact Hd]. }
  set (S := fold_left polymod_step values 1).
  assert (HS : 0 <= S < 2 ^ 30) by (unfold S; apply fold_bound; [lia|exact Hvals]).
  set (P := fold_left polymod_step (repeat 0 6) S).
  assert (HP : 0 <= P < 2 ^ 30).
  { unfold P. apply fold_bound; [exact HS|]. repeat constructor; lia. }
  set (pm := Z.lxor P const).
  assert (Hpm : 0 <= pm < 2 ^ 30) by (unfold pm; apply lxor_bound; lia).
  assert (Hcs : bech32_create_checksum hrp data spec
                = map (fun i => Z.land (Z.shiftr pm (5 * (5 - i))) 31) [0; 1; 2; 3; 4; 5]).
  { unfold bech32_create_checksum. fold values. fold const. unfold bech32_polymod.
    rewrite fold_left_app. fold S. change [0;0;0;0;0;0] with (repeat 0 6). fold P. fold pm. reflexivity. }
  unfold bech32_verify_checksum, bech32_polymod.
  rewrite app_assoc. fold values. rewrite fold_left_app. fold S.
  destruct (create_checksum_symbols hrp data spec) as [Hl Hsym].
  rewrite fold_symbols by (try assumption; lia). rewrite Hl. fold P.
  rewrite Hcs, pack_slices by exact Hpm. unfold pm.
  rewrite <- Z.lxor_assoc, Z.lxor_nilpotent, Z.lxor_0_l.
  unfold const. destruct spec; vm_compute; reflexivity.
Qed.
