(* BIP39: word list facts, word count, decode o encode = id, size rejection. *)
From BHW Require Import Lib.Base Lib.Digits Lib.ListAux Model.Helper Model.Bip39M Spec.Bip39 Proofs.Endian.
From BHWGen Require Import Consts Wordlist.

Fixpoint nodupb_str (l : list (list Z)) : bool :=
  match l with
  | [] => true
  | x :: r => negb (existsb (beq_bytes x) r) && nodupb_str r
  end.
Lemma nodupb_str_spec l : nodupb_str l = true -> NoDup l.
Proof.
  induction l as [|x r IH]; simpl; intros H; constructor.
  - apply andb_true_iff in H as [H _]. intros Hin.
    assert (existsb (beq_bytes x) r = true).
    { apply existsb_exists. exists x. split; auto. apply beq_bytes_refl. }
    rewrite H0 in H. discriminate.
  - apply IH. apply andb_true_iff in H as [_ H]. exact H.
Qed.

Lemma wordlist_official : word_list = english.
Proof. vm_compute. reflexivity. Qed.
Lemma wordlist_len : length word_list = 2048%nat.
Proof. vm_compute. reflexivity. Qed.
Lemma wordlist_nodup : NoDup word_list.
Proof. apply nodupb_str_spec. vm_compute. reflexivity. Qed.

Lemma words_injective i j w :
  nth_error word_list i = Some w -> nth_error word_list j = Some w -> i = j.
Proof.
  intros Hi Hj. apply (proj1 (NoDup_nth_error word_list) wordlist_nodup).
  - apply nth_error_Some. rewrite Hi. discriminate.
  - rewrite Hi, Hj. reflexivity.
Qed.

Section Bip39.
Variable sha256 : bytes -> bytes.
Hypothesis sha256_len : forall x, length (sha256 x) = 32%nat.
Hypothesis sha256_wf : forall x, wf_bytes (sha256 x).
Set Default Proof Using "All".

Definition ent_bits (e : bytes) : Z := 8 * Z.of_nat (length e).
Definition total (e : bytes) : Z :=
  be2z e * 2 ^ (ent_bits e / 32) + be2z (sha256 e) / 2 ^ (256 - ent_bits e / 32).

Lemma valid_sizes e : memb (ent_bits e) CORRECT_ENTROPY_BITS = true ->
  (length e = 16 \/ length e = 20 \/ length e = 24 \/ length e = 28 \/ length e = 32)%nat.
Proof.
  intros H. apply memb_spec in H. unfold ent_bits, CORRECT_ENTROPY_BITS in H. cbn [In] in H.
  destruct H as [H|[H|[H|[H|[H|[]]]]]]; lia.
Qed.

Lemma sha_top_bits e cs : 0 <= cs <= 256 -> 0 <= be2z (sha256 e) / 2 ^ (256 - cs) < 2 ^ cs.
Proof.
  intros Hc. pose proof (be2z_range (sha256 e) (sha256_wf e)) as Hr. rewrite sha256_len in Hr.
  change (256 ^ Z.of_nat 32) with (2 ^ 256) in Hr.
  assert (Hp : 0 < 2 ^ (256 - cs)) by (apply Z.pow_pos_nonneg; lia).
  split; [apply Z.div_pos; lia|]. apply Z.div_lt_upper_bound; [lia|].
  rewrite <- Z.pow_add_r by lia. replace (256 - cs + cs) with 256 by lia. lia.
Qed.

Theorem indexes_spec e idx :
  wf_bytes e -> mnemonic_indexes sha256 e = Ok idx ->
  let cs := ent_bits e / 32 in
  let nw := (ent_bits e + cs) / 11 in
  (nw = 12 \/ nw = 15 \/ nw = 18 \/ nw = 21 \/ nw = 24) /\ nw = 3 * Z.of_nat (length e) / 4 /\
  length idx = Z.to_nat nw /\ Forall (fun i => 0 <= i < 2048) idx /\
  of_le 2048 (rev idx) = total e /\
  total e / 2 ^ cs = be2z e /\ total e mod 2 ^ cs = be2z (sha256 e) / 2 ^ (256 - cs) /\
  z2be (length e) (of_le 2048 (rev idx) / 2 ^ cs) = Ok e.
Proof.
  intros Hw H. unfold mnemonic_indexes in H. fold (ent_bits e) in H.
  destruct (memb (ent_bits e) CORRECT_ENTROPY_BITS) eqn:Em; cbn [negb] in H; [|discriminate].
  apply Ok_inj in H. subst idx. cbv zeta. unfold checksum_length. fold (total e).
  pose proof (valid_sizes e Em) as Hs.
  pose proof (be2z_range e Hw) as Hr.
  assert (Hcs : 0 <= ent_bits e / 32 <= 256) by (unfold ent_bits; destruct Hs as [Hs|[Hs|[Hs|[Hs|Hs]]]]; rewrite Hs; cbn; lia).
  pose proof (sha_top_bits e (ent_bits e / 32) Hcs) as Ht.
  set (cs := ent_bits e / 32) in *. set (top := be2z (sha256 e) / 2 ^ (256 - cs)) in *.
  assert (Hpc : 0 < 2 ^ cs) by (apply Z.pow_pos_nonneg; lia).
  assert (Htot : 0 <= total e < 2048 ^ ((ent_bits e + cs) / 11)).
  { unfold total. fold cs top. split; [nia|].
    assert (He : be2z e * 2 ^ cs + top < 256 ^ Z.of_nat (length e) * 2 ^ cs) by nia.
    unfold cs, ent_bits in *. destruct Hs as [Hs|[Hs|[Hs|[Hs|Hs]]]]; rewrite Hs in *; cbn in *; lia. }
  rewrite rev_involutive.
  split; [unfold cs, ent_bits; destruct Hs as [Hs|[Hs|[Hs|[Hs|Hs]]]]; rewrite Hs; cbn; lia|].
  split; [unfold cs, ent_bits; destruct Hs as [Hs|[Hs|[Hs|[Hs|Hs]]]]; rewrite Hs; reflexivity|].
  split; [rewrite rev_length; apply to_le_fixed_length|].
  split; [apply Forall_rev; apply (to_le_fixed_ok 2048); lia|].
  assert (Hnw : 0 <= (ent_bits e + cs) / 11) by (apply Z.div_pos; unfold cs, ent_bits; lia).
  assert (Hol : of_le 2048 (to_le_fixed 2048 (Z.to_nat ((ent_bits e + cs) / 11)) (total e)) = total e).
  { apply of_le_to_le_fixed; [lia|lia|]. rewrite Z2Nat.id by exact Hnw. lia. }
  split; [exact Hol|].
  assert (Hdiv : total e / 2 ^ cs = be2z e).
  { unfold total. fold cs top. rewrite Z.add_comm, Z.div_add by lia. rewrite Z.div_small by lia. lia. }
  assert (Hmod : total e mod 2 ^ cs = top).
  { unfold total. fold cs top. rewrite Z.add_comm, Z.mod_add by lia. apply Z.mod_small. lia. }
  split; [exact Hdiv|]. split; [exact Hmod|].
  rewrite Hol, Hdiv. apply z2be_be2z. exact Hw.
Qed.

Theorem bad_size_rejected e :
  length e <> 16%nat -> length e <> 20%nat -> length e <> 24%nat -> length e <> 28%nat -> length e <> 32%nat ->
  mnemonic_from_entropy_bytes sha256 e = Err.
Proof.
  intros H1 H2 H3 H4 H5. unfold mnemonic_from_entropy_bytes, mnemonic_indexes. fold (ent_bits e).
  destruct (memb (ent_bits e) CORRECT_ENTROPY_BITS) eqn:Em; [|reflexivity].
  pose proof (valid_sizes e Em). lia.
Qed.

Theorem good_size_accepted e :
  wf_bytes e -> (length e = 16 \/ length e = 20 \/ length e = 24 \/ length e = 28 \/ length e = 32)%nat ->
  exists idx ws, mnemonic_indexes sha256 e = Ok idx /\
    Forall2 (fun i w => nth_error word_list (Z.to_nat i) = Some w) idx ws /\
    mnemonic_from_entropy_bytes sha256 e = Ok (join_space ws).
Proof.
  intros Hw Hs.
  assert (Em : memb (ent_bits e) CORRECT_ENTROPY_BITS = true).
  { unfold ent_bits. destruct Hs as [Hs|[Hs|[Hs|[Hs|Hs]]]]; rewrite Hs; reflexivity. }
  destruct (mnemonic_indexes sha256 e) as [idx|] eqn:Ei.
  2:{ unfold mnemonic_indexes in Ei. fold (ent_bits e) in Ei. rewrite Em in Ei. discriminate. }
  destruct (indexes_spec e idx Hw Ei) as [_ [_ [_ [Hr _]]]].
  unfold mnemonic_from_entropy_bytes. rewrite Ei. cbn [bind].
  assert (Hws : exists ws, map_res (fun i => of_option (nth_error word_list (Z.to_nat i))) idx = Ok ws /\
                           Forall2 (fun i w => nth_error word_list (Z.to_nat i) = Some w) idx ws).
  { clear Ei. induction idx as [|i r IH].
    - exists []. split; [reflexivity|constructor].
    - pose proof (Forall_inv Hr) as Hi. cbv beta in Hi. destruct (IH (Forall_inv_tail Hr)) as [ws [H1 H2]].
      destruct (nth_error word_list (Z.to_nat i)) as [w|] eqn:En.
      + exists (w :: ws). split; [cbn [map_res]; rewrite En; cbn [of_option bind]; rewrite H1; reflexivity|constructor; auto].
      + exfalso. apply nth_error_None in En. rewrite wordlist_len in En. lia. }
  destruct Hws as [ws [H1 H2]]. exists idx, ws. rewrite H1. auto.
Qed.
End Bip39.
