(* C20: validators are sound, accepted vectors give BIP44-shaped rows, existing files are refused. *)
From BHW Require Import Lib.Base Lib.ListAux Model.Helper Model.WalletUtils Model.PaperWallet Model.Cli.
From BHWGen Require Import Consts.

Lemma value_in_interval_sound s lo hi v : value_in_interval s lo hi = Ok v -> lo <= v < hi.
Proof.
  unfold value_in_interval. destruct (py_int s) as [x|]; cbn [bind]; [|discriminate].
  destruct ((lo <=? x) && (x <? hi)) eqn:E; [|discriminate]. intros H. apply Ok_inj in H. subst. lia.
Qed.

Theorem validators_sound :
  (forall s v, address_index s = Ok v -> 0 <= v < 4294967295) /\
  (forall s v, account_index s = Ok v -> 0 <= v < 2147483647) /\
  (forall s v, extended_key s = Ok v -> v = s /\ length s = 111%nat) /\
  (forall s v, bip39_seed s = Ok v -> v = s /\ length s = 128%nat) /\
  (forall s v, entropy_hex s = Ok v -> v = s /\ In (Z.of_nat (length s) * 4) [128; 160; 192; 224; 256]) /\
  (forall s v, mnemonic s = Ok v -> In (Z.of_nat (length (split_on 32 s []))) [12; 15; 18; 21; 24]).
Proof.
  split; [intros s v H; apply (value_in_interval_sound s 0 (2 ^ 32 - 1) v H)|].
  split; [intros s v H; apply (value_in_interval_sound s 0 (2 ^ 31 - 1) v H)|].
  split.
  { intros s v H. unfold extended_key, len in H. destruct (Z.of_nat (length s) =? 111) eqn:E; [|discriminate].
    apply Ok_inj in H. split; [auto|lia]. }
  split.
  { intros s v H. unfold bip39_seed, len in H. destruct (Z.of_nat (length s) =? 128) eqn:E; [|discriminate].
    apply Ok_inj in H. split; [auto|lia]. }
  split.
  { intros s v H. unfold entropy_hex, len in H. destruct (memb (Z.of_nat (length s) * 4) CORRECT_ENTROPY_BITS) eqn:E; [|discriminate].
    apply Ok_inj in H. split; [auto|]. apply memb_spec in E. exact E. }
  intros s v H. unfold mnemonic in H. destruct (memb (Z.of_nat (length (split_on 32 s []))) CORRECT_MNEMONIC_LENGTH) eqn:E; [|discriminate].
  apply memb_spec in E. exact E.
Qed.

Lemma zrange_from_bounds lo n : forall i, In i (zrange_from lo n) -> lo <= i < lo + Z.of_nat n.
Proof.
  revert lo; induction n as [|m IH]; intros lo i H; [destruct H|].
  cbn [zrange_from] in H. destruct H as [<-|H]; [lia|]. specialize (IH (lo + 1) i H). lia.
Qed.

(* accepted account / interval values always lead to BIP44-shaped rows *)
Theorem accepted_rows_bip44_shaped a account lo hi :
  accepts a = Ok (account, lo, hi) ->
  0 <= account < 2147483647 /\ 0 <= lo /\ hi <= 2147483648 /\
  (forall purpose w, 0 <= purpose -> Forall (fun c => 2147483648 <= c) (account_path purpose w account)) /\
  (forall i, In i (zrange lo hi) -> 0 <= i < 2147483648).
Proof.
  unfold accepts. intros H.
  destruct (match a_account a with Some s => account_index s | None => Ok 0 end) as [acct|] eqn:Ea; cbn [bind] in H; [|discriminate].
  destruct (match a_interval a with Some (s, e) => _ | None => Ok (0, 20) end) as [[l h]|] eqn:Ei; cbn [bind] in H; [|discriminate].
  destruct (match a_file a with Some v => _ | None => Ok tt end); cbn [bind] in H; [|discriminate].
  match type of H with bind ?x _ = _ => destruct x; cbn [bind] in H; [|discriminate] end.
  cbn [snd fst] in H. destruct (2147483648 <? h) eqn:Eh; [discriminate|]. apply Ok_inj in H. inversion H; subst acct l h.
  assert (Hacct : 0 <= account < 2147483647).
  { destruct (a_account a); [apply (proj1 (proj2 validators_sound) _ _ Ea)|apply Ok_inj in Ea; lia]. }
  assert (Hlo : 0 <= lo /\ 0 <= hi).
  { destruct (a_interval a) as [[s e]|].
    - destruct (address_index s) as [x|] eqn:E1; cbn [bind] in Ei; [|discriminate].
      destruct (address_index e) as [y|] eqn:E2; cbn [bind] in Ei; [|discriminate].
      apply Ok_inj in Ei. inversion Ei; subst.
      pose proof (proj1 validators_sound _ _ E1). pose proof (proj1 validators_sound _ _ E2). lia.
    - apply Ok_inj in Ei. inversion Ei. lia. }
  split; [exact Hacct|]. split; [lia|]. split; [lia|]. split.
  - intros purpose w Hp. unfold account_path. change HARDENED with 2147483648.
    repeat (apply Forall_cons; [destruct (w_testnet w); lia|]). apply Forall_nil.
  - intros i Hi. unfold zrange in Hi. apply zrange_from_bounds in Hi. lia.
Qed.

(* an existing path, a directory or an unwritable parent directory: the vector is refused (nothing is written) *)
Theorem existing_file_refused a v :
  a_file a = Some v -> exists_ v = true \/ is_dir v = true \/ parent_writable v = false -> accepts a = Err.
Proof.
  intros Hf Hv. unfold accepts. rewrite Hf.
  destruct (match a_account a with Some s => account_index s | None => Ok 0 end); cbn [bind]; [|reflexivity].
  destruct (match a_interval a with Some (s, e) => _ | None => Ok (0, 20) end); cbn [bind]; [|reflexivity].
  unfold file_. destruct Hv as [H|[H|H]]; rewrite H; rewrite ?andb_false_r; reflexivity.
Qed.

Theorem no_command_refused a : a_command a = 0 -> accepts a = Err.
Proof.
  intros Hc. unfold accepts. rewrite Hc.
  destruct (match a_account a with Some s => account_index s | None => Ok 0 end); cbn [bind]; [|reflexivity].
  destruct (match a_interval a with Some (s, e) => _ | None => Ok (0, 20) end); cbn [bind]; [|reflexivity].
  destruct (match a_file a with Some v => _ | None => Ok tt end); cbn [bind]; reflexivity.
Qed.
