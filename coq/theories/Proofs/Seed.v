(* C03: seed formula, constructor agreement, network independence of key material. *)
From BHW Require Import Lib.Base Lib.Digits Lib.ListAux Model.Helper Model.Keys Model.Bip32M Model.Bip39M Model.Bip85M
  Model.BaseWallet Spec.Curve.
From BHWGen Require Import Consts.

Lemma rounds_2048 : PBKDF2_ROUNDS = 2048.
Proof. reflexivity. Qed.

(* hex(b) decodes back to b: from_bip39_seed_hex o hex = from_bip39_seed_bytes *)
Lemma hexdigit_low c : 0 <= c < 16 -> hexdigit (if c <? 10 then c + 48 else c + 87) = Some c /\
                                      is_hexws (if c <? 10 then c + 48 else c + 87) = false.
Proof.
  intros H. assert (Hc : c = 0 \/ c = 1 \/ c = 2 \/ c = 3 \/ c = 4 \/ c = 5 \/ c = 6 \/ c = 7 \/ c = 8 \/ c = 9 \/
                         c = 10 \/ c = 11 \/ c = 12 \/ c = 13 \/ c = 14 \/ c = 15) by lia.
  repeat (destruct Hc as [->|Hc]; [split; reflexivity|]). subst. split; reflexivity.
Qed.

Theorem fromhex_hexstr b : wf_bytes b -> fromhex (hexstr b) = Ok b.
Proof.
  induction 1 as [|x r Hx Hr IH]; [reflexivity|].
  unfold byte_ok in Hx. cbn [hexstr flat_map app].
  assert (H1 : 0 <= x / 16 < 16) by (split; [apply Z.div_pos; lia|apply Z.div_lt_upper_bound; lia]).
  assert (H2 : 0 <= x mod 16 < 16) by (apply Z.mod_pos_bound; lia).
  destruct (hexdigit_low _ H1) as [A1 A2]. destruct (hexdigit_low _ H2) as [B1 _].
  cbn [fromhex]. rewrite A2, A1, B1. unfold hexstr in IH. cbv zeta in IH. rewrite IH. cbn [rmap].
  f_equal. f_equal. pose proof (Z.div_mod x 16). lia.
Qed.

Section Seed.
Variable C : curve.
Variable hmac512 : bytes -> bytes -> bytes.
Variable sha256 : bytes -> bytes.
Variable alph : list Z.
Variable nfkd : str -> str.
Variable utf8 : str -> bytes.
Variable pbkdf2 : bytes -> bytes -> Z -> bytes.
Set Default Proof Using "All".

(* the seed: PBKDF2-HMAC-SHA512(NFKD(mnemonic), "mnemonic" + NFKD(passphrase), 2048 rounds) *)
Theorem seed_spec mnemonic password :
  nfkd s_mnemonic = s_mnemonic ->              (* NFKD leaves the ASCII word "mnemonic" unchanged *)
  bip39_seed_from_mnemonic nfkd utf8 pbkdf2 mnemonic password
  = pbkdf2 (utf8 (nfkd mnemonic)) (utf8 (s_mnemonic ++ nfkd password)) 2048.
Proof. intros H. unfold bip39_seed_from_mnemonic. rewrite H. reflexivity. Qed.

Notation fsb := (from_bip39_seed_bytes hmac512).
Definition material (r : res (node * bool * option str * option str)) : res (bytes * bytes) :=
  rmap (fun p => match p with (m, _, _, _) => (nkey m, nchain m) end) r.

(* the network flag never reaches key material *)
Theorem network_independent seed : material (fsb seed true) = material (fsb seed false).
Proof.
  unfold from_bip39_seed_bytes, master_key, material.
  destruct (big_endian_to_int (take 32 (hmac512 seed_key seed)) =? 0); [reflexivity|].
  destruct (CURVE_ORDER <=? big_endian_to_int (take 32 (hmac512 seed_key seed))); reflexivity.
Qed.

(* the mnemonic route, the entropy route and the two seed routes hold the same master key material *)
Theorem routes_agree mnemonic password testnet :
  let seed := bip39_seed_from_mnemonic nfkd utf8 pbkdf2 mnemonic password in
  material (from_mnemonic hmac512 nfkd utf8 pbkdf2 mnemonic password testnet) = material (fsb seed testnet) /\
  (wf_bytes seed -> material (from_bip39_seed_hex hmac512 (hexstr seed) testnet) = material (fsb seed testnet)) /\
  (forall e, mnemonic_from_entropy sha256 e = Ok mnemonic ->
             from_entropy_hex hmac512 sha256 nfkd utf8 pbkdf2 e password testnet
             = from_mnemonic hmac512 nfkd utf8 pbkdf2 mnemonic password testnet).
Proof.
  cbv zeta. split; [|split].
  - unfold from_mnemonic, from_bip39_seed_bytes, material.
    destruct (master_key hmac512 _ seed_key testnet); reflexivity.
  - intros Hw. unfold from_bip39_seed_hex. rewrite fromhex_hexstr by exact Hw. reflexivity.
  - intros e He. unfold from_entropy_hex. rewrite He. reflexivity.
Qed.

(* the mnemonic constructor echoes mnemonic and passphrase *)
Theorem from_mnemonic_echo mnemonic password testnet m t mn pw :
  from_mnemonic hmac512 nfkd utf8 pbkdf2 mnemonic password testnet = Ok (m, t, mn, pw) ->
  t = testnet /\ mn = Some mnemonic /\ pw = Some password /\ ntestnet m = testnet.
Proof.
  unfold from_mnemonic, master_key. intros H.
  destruct (big_endian_to_int (take 32 (hmac512 seed_key _)) =? 0); cbn [bind] in H; [discriminate|].
  destruct (CURVE_ORDER <=? big_endian_to_int (take 32 (hmac512 seed_key _))); cbn [bind] in H; [discriminate|].
  apply Ok_inj in H. inversion H. auto.
Qed.
End Seed.
