(* Base58 / Base58Check: round trips, leading-zero rule, rejection, checksum soundness.
   All statements are for every byte string / every string; the alphabet is a
   parameter constrained only by the three facts that are checked by computation
   for the regenerated alphabet in Props/C10.v. *)
From BHW Require Import Lib.Base Lib.Digits Lib.ListAux Model.Helper.

Lemma log2_fuel n : 0 < n -> n < 2 ^ Z.of_nat (S (Z.to_nat (Z.log2 n))).
Proof.
  intros H. pose proof (Z.log2_spec n H) as [_ Hu]. pose proof (Z.log2_nonneg n).
  replace (Z.of_nat (S (Z.to_nat (Z.log2 n)))) with (Z.succ (Z.log2 n)) by lia. exact Hu.
Qed.

(* to_le with the log2 fuel is a total inverse of of_le *)
Definition to_le_full (b n : Z) := to_le b (S (Z.to_nat (Z.log2 n))) n.

Lemma of_le_to_le_full b n : 2 <= b -> 0 <= n -> of_le b (to_le_full b n) = n.
Proof.
  intros Hb Hn. destruct (Z.eq_dec n 0) as [->|Hz].
  - unfold to_le_full. rewrite to_le_zero by lia. reflexivity.
  - apply of_le_to_le; auto. apply log2_fuel. lia.
Qed.

Lemma to_le_full_of_le b ds :
  2 <= b -> digits_ok b ds -> le_canon ds -> to_le_full b (of_le b ds) = ds.
Proof.
  intros Hb Hok Hc. destruct ds as [|d r].
  - unfold to_le_full. apply to_le_zero. cbv; discriminate.
  - apply to_le_of_le; auto. apply log2_fuel. apply of_le_pos; auto; [discriminate|].
    destruct Hc as [Hc|Hc]; [discriminate|exact Hc].
Qed.

Lemma to_le_full_ok b n : 2 <= b -> digits_ok b (to_le_full b n).
Proof. intros. apply to_le_digits_ok; auto. Qed.

Lemma to_le_full_canon b n : 2 <= b -> le_canon (to_le_full b n).
Proof.
  intros Hb. destruct (Z_le_gt_dec n 0).
  - unfold to_le_full. rewrite to_le_zero by lia. left; reflexivity.
  - apply to_le_canon; auto. apply log2_fuel. lia.
Qed.

Lemma to_le_full_nonempty b n : 2 <= b -> 0 < n -> to_le_full b n <> [].
Proof.
  intros Hb Hn E. pose proof (of_le_to_le_full b n Hb ltac:(lia)) as H.
  rewrite E, of_le_nil in H. lia.
Qed.

Lemma be2z_rev bs : be2z bs = of_le 256 (rev bs).
Proof. apply of_be_rev. Qed.

Lemma wf_digits bs : wf_bytes bs <-> digits_ok 256 bs.
Proof. reflexivity. Qed.

Lemma digits_ok_rev b ds : digits_ok b ds -> digits_ok b (rev ds).
Proof. unfold digits_ok. apply Forall_rev. Qed.

Lemma of_le_repeat0 b k : of_le b (repeat 0 k) = 0.
Proof. induction k; cbn [repeat of_le]; [reflexivity|]. rewrite IHk. lia. Qed.

Lemma be2z_zeros_app z r : be2z (zeros z ++ r) = be2z r.
Proof.
  rewrite !be2z_rev, rev_app_distr. unfold zeros. rewrite rev_repeat.
  apply of_le_app_zeros.
Qed.

Lemma min_be_bytes_pos num : 0 < num -> min_be_bytes num = rev (to_le_full 256 num).
Proof. intros H. unfold min_be_bytes. destruct (num =? 0) eqn:E; [lia|reflexivity]. Qed.

(* head of a list non-zero  <->  last of its reverse non-zero *)
Lemma canon_rev_head d r : d <> 0 -> le_canon (rev (d :: r)).
Proof. intros H. right. simpl. rewrite last_last. exact H. Qed.

Lemma min_be_bytes_be2z d r :
  wf_bytes (d :: r) -> d <> 0 -> min_be_bytes (be2z (d :: r)) = d :: r.
Proof.
  intros Hwf Hd.
  assert (Hok : digits_ok 256 (rev (d :: r))) by (apply digits_ok_rev; exact Hwf).
  assert (Hpos : 0 < be2z (d :: r)).
  { rewrite be2z_rev. apply of_le_pos; auto; try lia.
    - simpl. destruct (rev r); discriminate.
    - simpl. rewrite last_last. exact Hd. }
  rewrite min_be_bytes_pos by exact Hpos.
  rewrite be2z_rev, to_le_full_of_le; auto; try lia.
  - apply rev_involutive.
  - apply canon_rev_head; exact Hd.
Qed.

Section Base58.
Variable alph : list Z.
Variable sha256 : bytes -> bytes.
Hypothesis alph_len : length alph = 58%nat.
Hypothesis alph_nodup : NoDup alph.
Hypothesis alph0 : nth_error alph 0 = Some 49.

Notation encode := (encode_base58 alph).
Notation decode := (decode_base58 alph).

Definition in_alph (s : str) : Prop := Forall (fun c => In c alph) s.

(* digit -> character, total on [0,58) *)
Definition chr_tot (d : Z) : Z := nth (Z.to_nat d) alph 0.

Lemma chr58_ok d : 0 <= d < 58 -> chr58 alph d = Ok (chr_tot d).
Proof.
  intros H. unfold chr58, chr_tot.
  assert (Hlt : (Z.to_nat d < length alph)%nat) by (rewrite alph_len; lia).
  rewrite (nth_error_nth' alph 0 Hlt). reflexivity.
Qed.

Lemma index_chr d : 0 <= d < 58 -> index_of (chr_tot d) alph = Some d.
Proof.
  intros H. unfold chr_tot.
  assert (Hlt : (Z.to_nat d < length alph)%nat) by (rewrite alph_len; lia).
  rewrite (index_of_nth _ alph (Z.to_nat d) alph_nodup).
  - f_equal. lia.
  - apply nth_error_nth'. exact Hlt.
Qed.

Lemma chr_index c i : index_of c alph = Some i -> 0 <= i < 58 /\ chr_tot i = c.
Proof.
  intros H. apply index_of_some in H as [Hr Hn]. rewrite alph_len in Hr.
  split; [lia|]. unfold chr_tot. apply nth_error_nth. exact Hn.
Qed.

Lemma chr_tot_0 : chr_tot 0 = 49.
Proof. unfold chr_tot. apply nth_error_nth. exact alph0. Qed.

Lemma chr_tot_49 d : 0 <= d < 58 -> chr_tot d = 49 -> d = 0.
Proof.
  intros Hd H. pose proof (index_chr d Hd) as H1. rewrite H in H1.
  rewrite <- chr_tot_0 in H1. rewrite index_chr in H1 by lia. congruence.
Qed.

Lemma encode_eq data :
  encode data = Ok (repeat 49 (count_leading 0 data)
                      ++ map chr_tot (rev (to_le_full 58 (be2z data)))).
Proof.
  unfold encode_base58. fold (to_le_full 58 (be2z data)).
  rewrite (map_res_ok _ chr_tot); [reflexivity|].
  intros d Hd. apply chr58_ok. apply in_rev in Hd.
  pose proof (to_le_full_ok 58 (be2z data) ltac:(lia)) as Hok.
  unfold digits_ok in Hok. rewrite Forall_forall in Hok. apply Hok; exact Hd.
Qed.

(* accumulate over a string of characters that are images of digits *)
Lemma accumulate_digits ds acc :
  digits_ok 58 ds ->
  b58_accumulate alph (map chr_tot ds) acc
  = Ok (fold_left (fun a d => a * 58 + d) ds acc).
Proof.
  revert acc; induction ds as [|d r IH]; intros acc Hok; [reflexivity|].
  inversion Hok as [|? ? Hd Hr]; subst. cbn [map b58_accumulate fold_left].
  rewrite index_chr by exact Hd. apply IH; exact Hr.
Qed.

Lemma accumulate_in_alph s :
  in_alph s -> exists ds, digits_ok 58 ds /\ s = map chr_tot ds.
Proof.
  induction 1 as [|c r Hc Hr IH].
  - exists []. split; [constructor|reflexivity].
  - destruct IH as [ds [Hok Hs]].
    destruct (index_of c alph) as [i|] eqn:Ei.
    + apply chr_index in Ei as [Hi Hci]. exists (i :: ds). split.
      * constructor; auto.
      * simpl. congruence.
    + apply index_of_none in Ei. contradiction.
Qed.

Lemma accumulate_bad s acc c :
  In c s -> ~ In c alph -> b58_accumulate alph s acc = Err.
Proof.
  revert acc; induction s as [|x r IH]; intros acc Hin Hnot; [destruct Hin|].
  cbn [b58_accumulate]. destruct Hin as [->|Hin].
  - apply index_of_none in Hnot. rewrite Hnot. reflexivity.
  - destruct (index_of x alph); auto.
Qed.

Lemma fold58 ds : fold_left (fun a d => a * 58 + d) ds 0 = of_le 58 (rev ds).
Proof. apply (of_be_rev 58). Qed.

Lemma digits58_zeros k ds : digits_ok 58 ds -> digits_ok 58 (repeat 0 k ++ ds).
Proof.
  intros H. unfold digits_ok. apply Forall_app. split; auto.
  induction k; simpl; constructor; auto. unfold digit_ok; lia.
Qed.

Lemma map_chr_repeat0 k : map chr_tot (repeat 0 k) = repeat 49 k.
Proof. induction k; simpl; auto. rewrite chr_tot_0, IHk. reflexivity. Qed.

(* pad count: leading '1's of s[:-1] when s = '1'^z ++ body and body's head is not '1' *)
Lemma pad_count z body :
  body <> [] -> hd 0 body <> 49 ->
  count_leading 49 (drop_last 1 (repeat 49 z ++ body)) = z.
Proof.
  intros Hne Hhd.
  assert (Hb : body = removelast body ++ [last body 0]) by (apply app_removelast_last; exact Hne).
  rewrite Hb at 1. rewrite app_assoc.
  change 1%nat with (length [last body 0]). rewrite drop_last_app.
  apply count_leading_repeat.
  destruct body as [|x [|y t]]; simpl in *; auto.
Qed.

Lemma body_head ds :
  ds <> [] -> digits_ok 58 ds -> le_canon ds ->
  map chr_tot (rev ds) <> [] /\ hd 0 (map chr_tot (rev ds)) <> 49.
Proof.
  intros Hne Hok Hc. split.
  - intros E. apply map_eq_nil in E. apply (f_equal (@rev Z)) in E.
    rewrite rev_involutive in E. auto.
  - destruct Hc as [E|Hl]; [contradiction|].
    rewrite (rev_last_cons ds 0 Hne). simpl. intros E.
    apply chr_tot_49 in E; [contradiction|].
    unfold digits_ok in Hok. rewrite Forall_forall in Hok. apply Hok.
    apply last_In; exact Hne.
Qed.

Theorem decode_encode bs :
  wf_bytes bs -> bs <> [] ->
  exists s, encode bs = Ok s /\ decode s = Ok bs.
Proof.
  intros Hwf Hne. rewrite encode_eq. eexists; split; [reflexivity|].
  destruct (split_leading 0 bs) as [rest [Hbs Hrest]].
  set (z := count_leading 0 bs) in *.
  assert (Hnum : be2z bs = be2z rest) by (rewrite Hbs; apply be2z_zeros_app).
  assert (Hwr : wf_bytes rest).
  { rewrite Hbs in Hwf. apply wf_app in Hwf. tauto. }
  unfold decode_base58.
  (* the accumulate loop *)
  rewrite <- map_chr_repeat0, <- map_app.
  rewrite accumulate_digits.
  2:{ apply digits58_zeros. apply digits_ok_rev. apply to_le_full_ok. lia. }
  rewrite fold58, rev_app_distr, rev_involutive, rev_repeat.
  rewrite of_le_app_zeros by lia.
  rewrite of_le_to_le_full; try lia.
  2:{ rewrite be2z_rev. apply of_le_nonneg; [lia|]. apply digits_ok_rev. exact Hwf. }
  cbn [bind]. rewrite alph0. cbn [of_option bind].
  rewrite map_app, map_chr_repeat0.
  destruct rest as [|d r].
  - (* all zero bytes *)
    rewrite Hnum. change (be2z []) with 0.
    unfold to_le_full. rewrite to_le_zero by lia. cbn [rev map]. rewrite app_nil_r.
    change (min_be_bytes 0) with [0].
    rewrite app_nil_r in Hbs.
    assert (Hz : (0 < z)%nat) by (destruct z; [simpl in Hbs; congruence|lia]).
    unfold drop_last. rewrite repeat_length.
    assert (Hf : firstn (z - 1) (repeat 49 z) = repeat 49 (z - 1)).
    { replace z with ((z - 1) + 1)%nat at 2 by lia. rewrite repeat_app.
      rewrite firstn_app, repeat_length, Nat.sub_diag. simpl. rewrite app_nil_r.
      rewrite <- (repeat_length 49 (z - 1)) at 1. apply firstn_all. }
    rewrite Hf.
    rewrite <- (app_nil_r (repeat 49 (z - 1))), count_leading_repeat by exact I.
    f_equal. rewrite Hbs. unfold zeros.
    replace z with ((z - 1) + 1)%nat at 2 by lia. rewrite repeat_app. reflexivity.
  - (* has a non-zero byte *)
    assert (Hd : d <> 0) by exact Hrest.
    rewrite Hnum.
    assert (Hpos : 0 < be2z (d :: r)).
    { rewrite be2z_rev. apply of_le_pos; try lia.
      - apply digits_ok_rev; exact Hwr.
      - simpl. destruct (rev r); discriminate.
      - simpl. rewrite last_last. exact Hd. }
    rewrite min_be_bytes_be2z by assumption.
    (* body is non-empty and does not start with '1' *)
    set (ds := to_le_full 58 (be2z (d :: r))).
    assert (Hds_ne : ds <> []).
    { apply to_le_full_nonempty; lia. }
    assert (Hds_ok : digits_ok 58 ds) by (apply to_le_full_ok; lia).
    assert (Hds_c : le_canon ds) by (apply to_le_full_canon; lia).
    destruct (body_head ds Hds_ne Hds_ok Hds_c) as [Hbody_ne Hhd].
    rewrite pad_count by assumption.
    f_equal. exact (eq_sym Hbs).
Qed.

Theorem leading_zeros_are_ones z b r :
  wf_bytes (b :: r) -> b <> 0 ->
  exists body, encode (zeros z ++ b :: r) = Ok (repeat 49 z ++ body)
               /\ body <> [] /\ hd 0 body <> 49.
Proof.
  intros Hwf Hb. rewrite encode_eq.
  assert (Hc : count_leading 0 (zeros z ++ b :: r) = z).
  { unfold zeros. apply count_leading_repeat. exact Hb. }
  rewrite Hc, be2z_zeros_app.
  set (ds := to_le_full 58 (be2z (b :: r))).
  exists (map chr_tot (rev ds)). split; [reflexivity|].
  assert (Hpos : 0 < be2z (b :: r)).
  { rewrite be2z_rev. apply of_le_pos; try lia.
    - apply digits_ok_rev; exact Hwf.
    - simpl. destruct (rev r); discriminate.
    - simpl. rewrite last_last. exact Hb. }
  assert (Hds_ne : ds <> []).
  { apply to_le_full_nonempty; lia. }
  assert (Hds_ok : digits_ok 58 ds) by (apply to_le_full_ok; lia).
  assert (Hds_c : le_canon ds) by (apply to_le_full_canon; lia).
  apply body_head; assumption.
Qed.

Theorem all_zero_all_ones z : encode (zeros z) = Ok (repeat 49 z).
Proof.
  rewrite encode_eq.
  rewrite <- (app_nil_r (zeros z)). rewrite be2z_zeros_app.
  unfold zeros at 1. rewrite count_leading_repeat by exact I.
  change (be2z []) with 0. unfold to_le_full. rewrite to_le_zero by lia.
  simpl. rewrite app_nil_r. reflexivity.
Qed.

Theorem bad_char_rejected s c : In c s -> ~ In c alph -> decode s = Err.
Proof.
  intros Hin Hnot. unfold decode_base58. rewrite (accumulate_bad s 0 c Hin Hnot). reflexivity.
Qed.

Lemma split_zeros_digits ds :
  exists z rest, ds = repeat 0 z ++ rest /\ match rest with [] => True | y :: _ => y <> 0 end.
Proof.
  destruct (split_leading 0 ds) as [r [H1 H2]]. exists (count_leading 0 ds), r. auto.
Qed.

Theorem encode_decode s :
  s <> [] -> in_alph s ->
  exists bs, decode s = Ok bs /\ encode bs = Ok s /\ wf_bytes bs /\ bs <> [].
Proof.
  intros Hne Hin. destruct (accumulate_in_alph s Hin) as [ds [Hok Hs]].
  destruct (split_zeros_digits ds) as [z [rest [Hds Hrest]]].
  assert (Hrok : digits_ok 58 rest).
  { rewrite Hds in Hok. unfold digits_ok in Hok. apply Forall_app in Hok. tauto. }
  unfold decode_base58. rewrite Hs, accumulate_digits by exact Hok.
  rewrite fold58. cbn [bind]. rewrite alph0. cbn [of_option bind].
  rewrite Hds, rev_app_distr, rev_repeat, of_le_app_zeros.
  rewrite map_app, map_chr_repeat0.
  destruct rest as [|d r].
  - (* the all-'1' strings *)
    rewrite app_nil_r in *. cbn [rev map]. rewrite of_le_nil.
    change (min_be_bytes 0) with [0].
    assert (Hz : (0 < z)%nat).
    { destruct z; [|lia]. subst ds. simpl in Hs. contradiction. }
    unfold drop_last. rewrite repeat_length.
    assert (Hf : firstn (z - 1) (repeat 49 z) = repeat 49 (z - 1)).
    { replace z with ((z - 1) + 1)%nat at 2 by lia. rewrite repeat_app.
      rewrite firstn_app, repeat_length, Nat.sub_diag. simpl. rewrite app_nil_r.
      rewrite <- (repeat_length 49 (z - 1)) at 1. apply firstn_all. }
    rewrite Hf, <- (app_nil_r (repeat 49 (z - 1))), count_leading_repeat by exact I.
    assert (Hzz : zeros (z - 1) ++ [0] = zeros z).
    { unfold zeros. replace z with ((z - 1) + 1)%nat at 2 by lia. rewrite repeat_app. reflexivity. }
    rewrite Hzz. exists (zeros z). split; [reflexivity|]. split; [apply all_zero_all_ones|].
    split; [apply wf_zeros|]. destruct z; [lia|discriminate].
  - assert (Hd : d <> 0) by exact Hrest.
    pose proof (Forall_inv Hrok) as Hdok.
    assert (Hcanon : le_canon (rev (d :: r))) by (apply canon_rev_head; exact Hd).
    assert (Hrevok : digits_ok 58 (rev (d :: r))) by (apply digits_ok_rev; exact Hrok).
    set (num := of_le 58 (rev (d :: r))).
    assert (Hpos : 0 < num).
    { apply of_le_pos; auto; try lia.
      - simpl. destruct (rev r); discriminate.
      - simpl. rewrite last_last. exact Hd. }
    rewrite min_be_bytes_pos by exact Hpos.
    assert (Hbody : map chr_tot (d :: r) <> [] /\ hd 0 (map chr_tot (d :: r)) <> 49).
    { split; [discriminate|]. simpl. intros E. apply chr_tot_49 in E; auto. }
    destruct Hbody as [Hb1 Hb2].
    rewrite pad_count by assumption.
    set (res := rev (to_le_full 256 num)).
    assert (Hres_ne : to_le_full 256 num <> []) by (apply to_le_full_nonempty; lia).
    assert (Hres_ok : digits_ok 256 (to_le_full 256 num)) by (apply to_le_full_ok; lia).
    assert (Hres_c : le_canon (to_le_full 256 num)) by (apply to_le_full_canon; lia).
    exists (zeros z ++ res). split; [reflexivity|].
    assert (Hwf : wf_bytes (zeros z ++ res)).
    { apply wf_app. split; [apply wf_zeros|]. apply digits_ok_rev. exact Hres_ok. }
    split; [|split; [exact Hwf|]].
    + rewrite encode_eq.
      assert (Hres_hd : match res with [] => True | y :: _ => y <> 0 end).
      { unfold res. rewrite (rev_last_cons _ 0 Hres_ne).
        destruct Hres_c as [E|E]; [contradiction|exact E]. }
      unfold zeros at 1. rewrite count_leading_repeat by exact Hres_hd.
      rewrite be2z_zeros_app, be2z_rev. unfold res. rewrite rev_involutive.
      rewrite of_le_to_le_full by lia.
      unfold num. rewrite to_le_full_of_le; auto; try lia.
      rewrite rev_involutive. reflexivity.
    + intros E. apply app_eq_nil in E as [_ E]. unfold res in E.
      apply (f_equal (@rev Z)) in E. rewrite rev_involutive in E. auto.
Qed.

(* ---- Base58Check ---- *)
Hypothesis sha256_len : forall x, length (sha256 x) = 32%nat.

Notation encode_check := (encode_base58_checksum alph sha256).
Notation decode_check := (decode_base58_checksum alph sha256).

Definition checksum4 (p : bytes) : bytes := take 4 (hash256 sha256 p).

Lemma checksum4_len p : length (checksum4 p) = 4%nat.
Proof. unfold checksum4, take, hash256. rewrite firstn_length, sha256_len. reflexivity. Qed.

(* the decoder returns a payload exactly when the decoded bytes are payload ++ its checksum *)
Theorem checksum_sound s p :
  decode_check s = Ok p <-> decode s = Ok (p ++ checksum4 p).
Proof.
  unfold decode_base58_checksum. destruct (decode s) as [nb|] eqn:Ed; cbn [bind].
  - fold (checksum4 (drop_last 4 nb)).
    destruct (beq_bytes (checksum4 (drop_last 4 nb)) (take_last 4 nb)) eqn:Eb.
    + apply beq_bytes_spec in Eb. split; intros H.
      * inversion H; subst p. rewrite Eb. rewrite drop_last_take_last. reflexivity.
      * inversion H; subst nb. f_equal. rewrite <- (checksum4_len p). apply drop_last_app.
    + split; intros H; [discriminate|]. inversion H; subst nb. exfalso.
      assert (H1 : drop_last 4 (p ++ checksum4 p) = p).
      { rewrite <- (checksum4_len p) at 1. apply drop_last_app. }
      assert (H2 : take_last 4 (p ++ checksum4 p) = checksum4 p).
      { rewrite <- (checksum4_len p) at 1. apply take_last_app. }
      rewrite H1, H2, beq_bytes_refl in Eb. discriminate.
  - split; discriminate.
Qed.

(* in particular: fewer than four decoded bytes can never be accepted *)
Theorem too_short_rejected s nb :
  decode s = Ok nb -> (length nb < 4)%nat -> decode_check s = Err.
Proof.
  intros Hd Hl. destruct (decode_check s) as [p|] eqn:E; [|reflexivity].
  apply checksum_sound in E. rewrite Hd in E. inversion E; subst nb.
  rewrite app_length, checksum4_len in Hl. lia.
Qed.

Theorem wrong_checksum_rejected s p c :
  decode s = Ok (p ++ c) -> length c = 4%nat -> c <> checksum4 p -> decode_check s = Err.
Proof.
  intros Hd Hl Hc. destruct (decode_check s) as [p'|] eqn:E; [|reflexivity].
  apply checksum_sound in E. rewrite Hd in E. inversion E as [E'].
  assert (Hlen : length p = length p').
  { apply (f_equal (@length Z)) in E'. rewrite !app_length, Hl, checksum4_len in E'. lia. }
  apply app_inv_len in E'; auto. destruct E' as [-> ->]. contradiction.
Qed.

Hypothesis sha256_wf : forall x, wf_bytes (sha256 x).

Theorem decode_encode_checksum p :
  wf_bytes p -> exists s, encode_check p = Ok s /\ decode_check s = Ok p.
Proof.
  intros Hwf. unfold encode_base58_checksum. fold (checksum4 p).
  destruct (decode_encode (p ++ checksum4 p)) as [s [He Hd]].
  - apply wf_app. split; auto. unfold checksum4, take. apply Forall_firstn. apply sha256_wf.
  - intros E. apply app_eq_nil in E as [_ E]. pose proof (checksum4_len p) as H.
    rewrite E in H. discriminate.
  - exists s. split; auto. apply checksum_sound. exact Hd.
Qed.

End Base58.
