(* Source semantics of helper.decode_base58 / decode_base58_checksum / b58decode_addr (regenerated terms) = Model/Helper.v,
   for every string (any code points). *)
From BHW Require Import Lib.Base Lib.Digits Lib.ListAux Model.Helper Proofs.Base58 Py.Interp Py.Tactics Proofs.PyHelper Proofs.PyHex.
From BHWGen Require Import Consts PyAst.
Open Scope string_scope.
Open Scope Z_scope.
Open Scope list_scope.

Definition vchars (s : list Z) : list val := map (fun c => VStr [c]) s.

Lemma find_from_single0 c l : find_from [c] l 0 = match index_of c l with Some i => i | None => -1 end.
Proof. rewrite find_from_single. destruct (index_of c l); reflexivity. Qed.

Lemma memb_index_of c l : memb c l = match index_of c l with Some _ => true | None => false end.
Proof.
  destruct (index_of c l) eqn:E.
  - apply memb_spec. destruct (in_dec Z.eq_dec c l) as [H|H]; [exact H|]. apply index_of_none in H. congruence.
  - apply index_of_none in E. destruct (memb c l) eqn:M; [apply memb_spec in M; contradiction|reflexivity].
Qed.

Lemma index_of_nonneg c l i : index_of c l = Some i -> 0 <= i.
Proof. intros E. apply index_of_some in E as [Hr _]. lia. Qed.

Lemma accumulate_nonneg s n n' : 0 <= n -> b58_accumulate A s n = Ok n' -> 0 <= n'.
Proof.
  revert n; induction s as [|c r IH]; intros n Hn E.
  - cbn [b58_accumulate] in E. inversion E; subst; exact Hn.
  - change (b58_accumulate A (c :: r) n) with (match index_of c A with None => Err | Some i => b58_accumulate A r (n * 58 + i) end) in E.
    destruct (index_of c A) as [i|] eqn:Ei; [|discriminate].
    apply (IH (n * 58 + i)); [|exact E]. pose proof (index_of_nonneg _ _ _ Ei). lia.
Qed.

Lemma even_mod2 n : negb (Z.of_nat n mod 2 =? 0) = negb (Nat.even n).
Proof.
  f_equal.
  destruct (Nat.even n) eqn:E.
  - apply Nat.even_spec in E. destruct E as [k ->]. rewrite Nat2Z.inj_mul. change (Z.of_nat 2) with 2.
    rewrite Z.mul_comm, Z.mod_mul by lia. reflexivity.
  - assert (Ho : Nat.odd n = true) by (rewrite <- Nat.negb_even, E; reflexivity).
    apply Nat.odd_spec in Ho. destruct Ho as [k ->]. rewrite Nat2Z.inj_add, Nat2Z.inj_mul. change (Z.of_nat 2) with 2. change (Z.of_nat 1) with 1.
    rewrite Z.add_comm, Z.mul_comm, Z.mod_add by lia. reflexivity.
Qed.

Definition db_env (s : option val) (num : Z) (c h res : option val) (pad : option val) : env :=
  [("s", s); ("num", Some (VInt num)); ("c", c); ("h", h); ("res", res); ("pad", pad)].

Lemma decode_base58_sem ext fuel s :
  sem_helper__decode_base58 ext fuel [VStr s]
  = match decode_base58 A s with Ok b => Val (VBytes b) | Err => Exc ValueError end.
Proof.
  unfold sem_helper__decode_base58, call, ast_helper__decode_base58, decode_base58.
  pystep.
  match goal with |- context [for_loop ?b _ _] => set (body := b) end.
  assert (H : forall l sv n c h r p, exists c',
     for_loop body (vchars l) (db_env sv n c h r p)
     = match b58_accumulate A l n with
       | Ok n' => SNormal (db_env sv n' c' h r p)
       | Err => SExc ValueError
       end).
  { induction l as [|x l IH]; intros.
    - exists c. reflexivity.
    - cbn [vchars map for_loop b58_accumulate]. fold (vchars l). unfold body at 1. unfold db_env at 1. pystep.
      change (find_from [x] _ 0) with (find_from [x] A 0).
      rewrite find_from_single_memb, memb_index_of.
      destruct (index_of x A) as [i|] eqn:Ei; pystep; [|exists c; reflexivity].
      change (find_from [x] _ 0) with (find_from [x] A 0). rewrite find_from_single0, Ei.
      replace (i <? 0) with false by (pose proof (index_of_nonneg _ _ _ Ei); lia). pystep.
      destruct (IH sv (n * 58 + i) (Some (VStr [x])) h r p) as (c' & E). unfold db_env in E at 1. rewrite E.
      exists c'. reflexivity. }
  destruct (H s (Some (VStr s)) 0 None None None None) as (c' & E). unfold db_env in E at 1.
  unfold vchars in E. rewrite E. clear E H. clearbody body.
  destruct (b58_accumulate A s 0) as [num|] eqn:Eacc; cbn [bind]; [|reflexivity].
  assert (Hn : 0 <= num) by (eapply accumulate_nonneg; [|exact Eacc]; lia).
  unfold db_env. pystep. replace (num <? 0) with false by lia. pystep.
  rewrite slice_from by lia. change (Z.to_nat 2) with 2%nat. change (skipn 2 (48 :: 120 :: ?l)) with l.
  set (hd16 := map hexdigit (digits_be 16 num)).
  assert (Hpad : (if negb (Z.of_nat (Datatypes.length hd16) mod 2 =? 0) then VStr (48 :: hd16) else VStr hd16) = VStr (pad_even hd16)).
  { rewrite even_mod2. unfold pad_even. destruct (Nat.even (Datatypes.length hd16)); reflexivity. }
  rewrite !Hpad. unfold hd16. rewrite (hex_roundtrip num Hn). pystep.
  change (-1) with (- (1)). rewrite slice_to_neg by lia. change (Z.to_nat 1) with 1%nat. pystep.
  match goal with |- context [for_loop ?b _ _] => set (body2 := b) end.
  assert (H2 : forall l sv nv cv hv rv p, exists c2,
     for_loop body2 (vchars l) [("s", sv); ("num", nv); ("c", cv); ("h", hv); ("res", rv); ("pad", Some (VInt p))]
     = SNormal [("s", sv); ("num", nv); ("c", c2); ("h", hv); ("res", rv); ("pad", Some (VInt (p + Z.of_nat (count_leading 49 l))))]).
  { induction l as [|x l IH]; intros.
    - exists cv. rewrite Z.add_0_r. reflexivity.
    - cbn [vchars map for_loop]. fold (vchars l). unfold body2 at 1. pystep. rewrite andb_true_r.
      cbn [count_leading]. destruct (x =? 49) eqn:E; pystep.
      + destruct (IH sv nv (Some (VStr [x])) hv rv (p + 1)) as (c2 & E2). rewrite E2. exists c2.
        replace (p + 1 + Z.of_nat (count_leading 49 l)) with (p + Z.of_nat (S (count_leading 49 l))) by lia. reflexivity.
      + exists (Some (VStr [x])). rewrite Z.add_0_r. reflexivity. }
  destruct (H2 (drop_last 1 s) (Some (VStr s)) (Some (VInt num)) c' (Some (VStr (pad_even (map hexdigit (digits_be 16 num)))))
               (Some (VBytes (min_be_bytes num))) 0) as (c2 & E2).
  unfold vchars in E2. rewrite E2. pystep. rewrite Nat2Z.id, concat_repeat1. reflexivity.
Qed.
#[global] Arguments sem_helper__decode_base58 : simpl never.

Section WithSha.
Variable sha256 : bytes -> bytes.
Variable ext : fenv_t.
Hypothesis ext_hash256 :
  ext "helper.hash256" = Some (fun args => match args with [VBytes b] => Val (VBytes (hash256 sha256 b)) | _ => Exc TypeError end).

Lemma decode_base58_checksum_sem fuel s :
  sem_helper__decode_base58_checksum ext fuel [VStr s]
  = match decode_base58_checksum A sha256 s with Ok b => Val (VBytes b) | Err => Exc ValueError end.
Proof.
  unfold sem_helper__decode_base58_checksum, call, ast_helper__decode_base58_checksum, decode_base58_checksum.
  pystep. rewrite decode_base58_sem.
  destruct (decode_base58 A s) as [nb|]; cbn [bind]; pystep; [|reflexivity].
  change (-4) with (- (4)). rewrite !slice_to_neg, slice_from_neg by lia. change (Z.to_nat 4) with 4%nat.
  rewrite ext_hash256. pystep. rewrite slice_to by lia. change (Z.to_nat 4) with 4%nat.
  unfold take.
  destruct (beq_bytes (firstn 4 (hash256 sha256 (drop_last 4 nb))) (take_last 4 nb)); pystep; [|reflexivity].
  change (-4) with (- (4)). rewrite ?slice_to_neg by lia. reflexivity.
Qed.
End WithSha.
#[global] Arguments sem_helper__decode_base58_checksum : simpl never.

Section WithSha2.
Variable sha256 : bytes -> bytes.
Variable ext : fenv_t.
Hypothesis ext_hash256 :
  ext "helper.hash256" = Some (fun args => match args with [VBytes b] => Val (VBytes (hash256 sha256 b)) | _ => Exc TypeError end).

Lemma b58decode_addr_sem fuel s :
  sem_helper__b58decode_addr ext fuel [VStr s]
  = match b58decode_addr A sha256 s with Ok b => Val (VBytes b) | Err => Exc ValueError end.
Proof.
  unfold sem_helper__b58decode_addr, call, ast_helper__b58decode_addr, b58decode_addr.
  pystep. rewrite (decode_base58_checksum_sem sha256 ext ext_hash256).
  destruct (decode_base58_checksum A sha256 s) as [b|]; cbn [rmap]; pystep; [|reflexivity].
  rewrite slice_from by lia. reflexivity.
Qed.
End WithSha2.
